import os, sys
sys.path.insert(0, os.path.join(os.path.dirname(os.path.abspath(__file__)), "..", "..", "replay"))
import native


def replay(violation, inputs, workdir, repo):
    """real plugin code in a one-actor simulation; the label selects the scenario (overwriting write / move onto a file)"""
    here = os.path.dirname(os.path.abspath(__file__))
    return native.build_and_run(os.path.join(here, "replay.cpp"), workdir, repo, [violation["label"], repo])
