/* C46 — File system accounting is consistent.
 * Property: for any sequence of writes (appending, overwriting, in place), seeks, reads, moves and unlinks,
 *   (P1) used size of the disk == total size of the files stored on it,
 *   (P2) a read never returns more than the bytes between the position and the end of the file,
 *   (P3) unlinking a file gives back exactly its size.
 * "Any sequence" = representation invariant WF_FS that every operation must preserve.
 * Abstract view: the disk's content map (path -> size), its used_size_, and the File object operated on.      */
#include "gen.h"

#ifndef NF
#define NF 3 /* model capacity: at most NF files stored on the disk */
#endif
#define BIG (1ULL << 56) /* assumption: no file reaches 64 PiB (keeps 64-bit sums from wrapping) */

typedef struct vf_pair_vf_str__unsigned_long_long ent_t;
struct Disk g_disk;
struct FileSystemDiskExt g_ext;
struct vf_map_vf_str__unsigned_long_long g_map;
ent_t g_ent[NF + 1];
struct File g_file;
struct Host g_host[2];
vf_str g_hostname[2];

/* ghost */
vf_str gkey;                  /* an arbitrary path: obligations mentioning it hold for every path */
unsigned long long g_old_val; /* size of gkey before the call (0 when absent) */
_Bool g_old_has;              /* gkey present before the call */
unsigned long long g_dst_val; /* move: size stored under the destination path before the call */
_Bool g_dst_has;              /* move: destination path present before the call */
vf_str g_newpath;             /* move: the path computed by fullpath.substr(mount_point_.length(), ..) */
vf_str g_cstr_src;            /* string model: source of the latest c_str() */
char g_cstr_buf[1];

#define N (g_map.n)
#define E(i) (g_ent[i])
#define IN(i) ((size_t)(i) < N)
#if NF == 3
#define ALLF(P) (P(0) && P(1) && P(2))
#define ANYF(P) (P(0) || P(1) || P(2))
#define SUMF(P) (P(0) + P(1) + P(2))
#define ALLPAIRS(P) (P(0, 1) && P(0, 2) && P(1, 2))
#elif NF == 5
#define ALLF(P) (P(0) && P(1) && P(2) && P(3) && P(4))
#define ANYF(P) (P(0) || P(1) || P(2) || P(3) || P(4))
#define SUMF(P) (P(0) + P(1) + P(2) + P(3) + P(4))
#define ALLPAIRS(P)                                                                                                    \
  (P(0, 1) && P(0, 2) && P(0, 3) && P(0, 4) && P(1, 2) && P(1, 3) && P(1, 4) && P(2, 3) && P(2, 4) && P(3, 4))
#else
#error "NF must be 3 or 5"
#endif

/* total size of the files stored on the disk */
#define SZ(i) (IN(i) ? E(i).second : 0ULL)
#define TOTAL SUMF(SZ)
/* lookup of a path in the content */
#define HAS_AT_gkey(i) (IN(i) && E(i).first == gkey)
#define VAL_AT_gkey(i) (HAS_AT_gkey(i) ? E(i).second : 0ULL)
#define HAS_gkey ANYF(HAS_AT_gkey)
#define VAL_gkey SUMF(VAL_AT_gkey)
#define HAS_AT_file(i) (IN(i) && E(i).first == g_file.path_)
#define VAL_AT_file(i) (HAS_AT_file(i) ? E(i).second : 0ULL)
#define HAS_file ANYF(HAS_AT_file)
#define VAL_file SUMF(VAL_AT_file)
#define HAS_AT_new(i) (IN(i) && E(i).first == g_newpath)
#define VAL_AT_new(i) (HAS_AT_new(i) ? E(i).second : 0ULL)
#define HAS_new ANYF(HAS_AT_new)
#define VAL_new SUMF(VAL_AT_new)

/* representation invariant */
#define SMALL_AT(i) (!IN(i) || E(i).second <= BIG)
#define DISTINCT(i, j) (!IN(j) || E(i).first != E(j).first)
#define WF_MAP                                                                                                         \
  (g_ext.content_ == &g_map && g_map.e == g_ent && g_map.cap == NF + 1 && N <= NF && ALLF(SMALL_AT) &&                 \
   ALLPAIRS(DISTINCT))
#define WF_DISK (g_ext.used_size_ == TOTAL)                         /* P1 */
#define WF_FILE (g_file.local_disk_ == &g_disk && HAS_file && VAL_file == g_file.size_ &&                              \
                 g_file.current_position_ <= g_file.size_)
#define WF_FS (WF_MAP && WF_DISK && WF_FILE)
#define OTHERS_UNTOUCHED (gkey == g_file.path_ || (HAS_gkey == g_old_has && VAL_gkey == g_old_val))
/* the ghost snapshot of an OTHER file's entry; nothing is claimed about the operated file's own entry through gkey */
#define GHOST_PINNED (gkey == g_file.path_ || (g_old_has == HAS_gkey && g_old_val == VAL_gkey))

/* ---------------- assumed contracts of callees outside C46 (listed in check.json "trusted") ------------------ */
struct FileSystemDiskExt* Extendable_Disk__extension(struct Extendable_Disk* self)
    __CPROVER_requires(self == &g_disk.__b_Extendable_Disk) __CPROVER_assigns()
    __CPROVER_ensures(__CPROVER_return_value == &g_ext);

_Bool Extension_Disk_FileSystemDiskExt__valid(struct Extension_Disk_FileSystemDiskExt* self)
    __CPROVER_requires(1) __CPROVER_assigns() __CPROVER_ensures(__CPROVER_return_value == 1);

struct Host* Disk__get_host(struct Disk* self)
    __CPROVER_requires(self == &g_disk) __CPROVER_assigns()
    __CPROVER_ensures(vf_exc == 0 && (__CPROVER_return_value == NULL || __CPROVER_return_value == &g_host[0] ||
                                      __CPROVER_return_value == &g_host[1]));

vf_str* Host__get_name(struct Host* self)
    __CPROVER_requires(self == &g_host[0] || self == &g_host[1]) __CPROVER_assigns()
    __CPROVER_ensures(__CPROVER_return_value == (self == &g_host[0] ? &g_hostname[0] : &g_hostname[1]));

struct Host* current(void)
    __CPROVER_requires(1) __CPROVER_assigns()
    __CPROVER_ensures(__CPROVER_return_value == &g_host[0] || __CPROVER_return_value == &g_host[1]);

void sendto(struct Host* from, struct Host* to, unsigned long bytes)
    __CPROVER_requires(from != NULL && to != NULL) __CPROVER_assigns() __CPROVER_ensures(vf_exc == 0);

unsigned long long Disk__write(struct Disk* self, unsigned long long size)
    __CPROVER_requires(self == &g_disk) __CPROVER_assigns()
    __CPROVER_ensures(vf_exc == 0 && __CPROVER_return_value <= size);

unsigned long long Disk__read(struct Disk* self, unsigned long long size)
    __CPROVER_requires(self == &g_disk) __CPROVER_assigns()
    __CPROVER_ensures(vf_exc == 0 && __CPROVER_return_value <= size);

char* Disk__get_cname(struct Disk* self) __CPROVER_requires(self == &g_disk) __CPROVER_assigns()
    __CPROVER_ensures(vf_exc == 0);

/* opaque string model */
unsigned long vf_str_rfind(vf_str s, vf_str what, unsigned long pos) __CPROVER_requires(1) __CPROVER_assigns()
    __CPROVER_ensures(1);
size_t vf_str_size(vf_str s) __CPROVER_requires(1) __CPROVER_assigns() __CPROVER_ensures(1);
vf_str vf_str_substr(vf_str s, unsigned long pos, unsigned long len) __CPROVER_requires(1) __CPROVER_assigns()
    __CPROVER_ensures(__CPROVER_return_value == g_newpath);
char* vf_str_cstr(vf_str s) __CPROVER_requires(1) __CPROVER_assigns(g_cstr_src)
    __CPROVER_ensures(g_cstr_src == s && __CPROVER_return_value == g_cstr_buf);
vf_str vf_str_from_cstr(char* p) __CPROVER_requires(p == g_cstr_buf) __CPROVER_assigns()
    __CPROVER_ensures(__CPROVER_return_value == g_cstr_src);

/* ---------------- contracts of the units ---------------------------------------------------------------------- */
void FileSystemDiskExt__incr_used_size(struct FileSystemDiskExt* self, unsigned long long size)
    __CPROVER_requires(self == &g_ext && vf_exc == 0 && g_ext.used_size_ <= ULLONG_MAX - size)
    __CPROVER_assigns(g_ext.used_size_)
    __CPROVER_ensures(vf_exc == 0 && g_ext.used_size_ == __CPROVER_old(g_ext.used_size_) + size) /*@ incr_adds */;

void FileSystemDiskExt__decr_used_size(struct FileSystemDiskExt* self, unsigned long long size)
    __CPROVER_requires(self == &g_ext && vf_exc == 0 && size <= g_ext.used_size_)
    __CPROVER_assigns(g_ext.used_size_)
    __CPROVER_ensures(vf_exc == 0 && g_ext.used_size_ == __CPROVER_old(g_ext.used_size_) - size) /*@ decr_subtracts */;

/* The one-line accessors FileSystemDiskExt::get_content/get_used_size/get_size and sg_disk_get_size are units without
 * a contract of their own: their real bodies are part of every caller's proof (no modular cut needed for `return f;`).
 * sg_disk_get_size_used is the observation point the property names: it reports exactly used_size_.              */
unsigned long long sg_disk_get_size_used(struct Disk* d)
    __CPROVER_requires(d == &g_disk && vf_exc == 0) __CPROVER_assigns(vf_exc)
    __CPROVER_ensures(vf_exc == 0 && __CPROVER_return_value == g_ext.used_size_) /*@ disk_size_used_is_used_size */;

#define FS_FRAME                                                                                                       \
  vf_exc, g_ext.used_size_, g_map.n, __CPROVER_object_whole(g_ent), g_file.current_position_, g_file.size_

/* seek/extend: position set; a position beyond the end extends the file and the used size consistently */
void File__update_position(struct File* self, long long position)
    __CPROVER_requires(self == &g_file && WF_MAP && g_file.local_disk_ == &g_disk && HAS_file &&
                       VAL_file == g_file.size_ && vf_exc == 0 && position <= (long long)BIG && GHOST_PINNED) /*@ on_stored_file */
    __CPROVER_requires(WF_DISK) /*@ used_equals_total_on_entry */
    __CPROVER_assigns(FS_FRAME)
    __CPROVER_ensures((vf_exc == VF_EXC_ABORT) == (position < 0)) /*@ seek_before_start_rejected */
    __CPROVER_ensures(vf_exc == 0 || vf_exc == VF_EXC_ABORT)
    __CPROVER_ensures(vf_exc != 0 || g_file.current_position_ == (unsigned long long)position) /*@ position_set */
    __CPROVER_ensures(vf_exc != 0 ||
                      g_file.size_ == ((unsigned long long)position > __CPROVER_old(g_file.size_)
                                           ? (unsigned long long)position
                                           : __CPROVER_old(g_file.size_))) /*@ size_is_max_of_size_and_position */
    __CPROVER_ensures(vf_exc != 0 || WF_FS)                                /*@ update_position_keeps_accounting */
    __CPROVER_ensures(vf_exc != 0 || OTHERS_UNTOUCHED)                     /*@ update_position_other_files_untouched */
    __CPROVER_ensures(vf_exc == 0 || (g_ext.used_size_ == __CPROVER_old(g_ext.used_size_) &&
                                      g_file.size_ == __CPROVER_old(g_file.size_) && N == __CPROVER_old(g_map.n)))
    /*@ rejected_seek_changes_no_size */;

void File__seek(struct File* self, long long offset)
    __CPROVER_requires(self == &g_file && WF_FS && vf_exc == 0 && offset <= (long long)BIG && GHOST_PINNED)
    __CPROVER_assigns(FS_FRAME)
    __CPROVER_ensures((vf_exc == VF_EXC_ABORT) == (offset < 0)) /*@ seek_negative_rejected */
    __CPROVER_ensures(vf_exc == 0 || vf_exc == VF_EXC_ABORT)
    __CPROVER_ensures(vf_exc != 0 || g_file.current_position_ == (unsigned long long)offset) /*@ seek_sets_position */
    __CPROVER_ensures(vf_exc != 0 || WF_FS)                                                  /*@ seek_keeps_accounting */
    __CPROVER_ensures(vf_exc != 0 || OTHERS_UNTOUCHED) /*@ seek_other_files_untouched */;

/* base position of a whence-seek (0 = SEEK_SET, 1 = SEEK_CUR, 2 = SEEK_END); positions are <= BIG < 2^63 */
#define SEEK_BASE(origin, oldpos, oldsize) ((origin) == 0 ? 0LL : ((origin) == 1 ? (long long)(oldpos) : (long long)(oldsize)))
void File__seek2(struct File* self, long long offset, int origin)
    __CPROVER_requires(self == &g_file && WF_FS && vf_exc == 0 && GHOST_PINNED && offset <= (long long)BIG &&
                       offset >= -(long long)BIG &&
                       SEEK_BASE(origin, g_file.current_position_, g_file.size_) + offset <= (long long)BIG)
    __CPROVER_assigns(FS_FRAME)
    __CPROVER_ensures(vf_exc == 0 || vf_exc == VF_EXC_ABORT)
    __CPROVER_ensures(!(origin >= 0 && origin <= 2) ||
                      ((vf_exc == VF_EXC_ABORT) ==
                       (SEEK_BASE(origin, __CPROVER_old(g_file.current_position_), __CPROVER_old(g_file.size_)) + offset < 0)))
    /*@ seek_whence_before_start_rejected */
    __CPROVER_ensures(!(origin >= 0 && origin <= 2) || vf_exc != 0 ||
                      (long long)g_file.current_position_ ==
                          SEEK_BASE(origin, __CPROVER_old(g_file.current_position_), __CPROVER_old(g_file.size_)) + offset)
    /*@ seek_whence_position */
    __CPROVER_ensures((origin >= 0 && origin <= 2) ||
                      (vf_exc == 0 && g_file.current_position_ == __CPROVER_old(g_file.current_position_) &&
                       g_file.size_ == __CPROVER_old(g_file.size_))) /*@ seek_unknown_whence_is_noop */
    __CPROVER_ensures(vf_exc != 0 || WF_FS)                          /*@ seek_whence_keeps_accounting */
    __CPROVER_ensures(vf_exc != 0 || OTHERS_UNTOUCHED) /*@ seek_whence_other_files_untouched */;

/* write n bytes at the current position (appending, overwriting = truncate-then-append, or in place) */
unsigned long long File__write(struct File* self, unsigned long long size, _Bool write_inside)
    __CPROVER_requires(self == &g_file && WF_FS && vf_exc == 0 && GHOST_PINNED && size <= BIG &&
                       g_file.current_position_ + size <= BIG)
    __CPROVER_assigns(FS_FRAME)
    __CPROVER_ensures(vf_exc == 0)                                                          /*@ write_does_not_abort */
    __CPROVER_ensures(__CPROVER_return_value <= size)                                       /*@ write_at_most_requested */
    __CPROVER_ensures(g_file.current_position_ ==
                      __CPROVER_old(g_file.current_position_) + __CPROVER_return_value)     /*@ write_advances_position */
    __CPROVER_ensures(WF_MAP && WF_FILE)                                                    /*@ write_keeps_file_entry */
    __CPROVER_ensures(WF_DISK) /*@ write_keeps_used_equal_total */
    __CPROVER_ensures(!write_inside ||
                      g_file.size_ == (g_file.current_position_ > __CPROVER_old(g_file.size_)
                                           ? g_file.current_position_
                                           : __CPROVER_old(g_file.size_))) /*@ write_in_place_grows_only_past_end */
    __CPROVER_ensures(write_inside || __CPROVER_return_value == 0 ||
                      g_file.size_ == g_file.current_position_)           /*@ write_overwrite_truncates_at_new_end */
    __CPROVER_ensures(OTHERS_UNTOUCHED)                                   /*@ write_other_files_untouched */;

unsigned long long File__read(struct File* self, unsigned long long size)
    __CPROVER_requires(self == &g_file && WF_FS && vf_exc == 0) __CPROVER_assigns(vf_exc, g_file.current_position_)
    __CPROVER_ensures(vf_exc == 0)
    __CPROVER_ensures(__CPROVER_return_value <= size) /*@ read_at_most_requested */
    __CPROVER_ensures(__CPROVER_return_value <= __CPROVER_old(g_file.size_) - __CPROVER_old(g_file.current_position_))
    /*@ read_at_most_to_end_of_file */
    __CPROVER_ensures(g_file.current_position_ == __CPROVER_old(g_file.current_position_) + __CPROVER_return_value)
    /*@ read_advances_position */
    __CPROVER_ensures(WF_FS) /*@ read_keeps_accounting */;

/* unlink: gives back exactly the file's size and removes the entry; a file that is not stored is refused */
int File__unlink(struct File* self)
    __CPROVER_requires(self == &g_file && WF_MAP && WF_DISK && g_file.local_disk_ == &g_disk && vf_exc == 0 &&
                       GHOST_PINNED && (!HAS_file || VAL_file == g_file.size_))
    __CPROVER_assigns(vf_exc, g_ext.used_size_, g_map.n, __CPROVER_object_whole(g_ent))
    __CPROVER_ensures(vf_exc == 0)
    __CPROVER_ensures((__CPROVER_return_value == 0) == (__CPROVER_old(g_map.n) != N))         /*@ unlink_ok_iff_removed */
    __CPROVER_ensures(__CPROVER_return_value == 0 || __CPROVER_return_value == -1)
    __CPROVER_ensures(__CPROVER_return_value != 0 ||
                      g_ext.used_size_ == __CPROVER_old(g_ext.used_size_) - g_file.size_)   /*@ unlink_gives_back_its_size */
    __CPROVER_ensures(__CPROVER_return_value != -1 ||
                      (g_ext.used_size_ == __CPROVER_old(g_ext.used_size_) && N == __CPROVER_old(g_map.n)))
    /*@ unlink_refused_changes_nothing */
    __CPROVER_ensures(!HAS_file)                                                            /*@ unlink_entry_gone */
    __CPROVER_ensures(WF_MAP && WF_DISK)                                                    /*@ unlink_keeps_used_equal_total */
    __CPROVER_ensures(OTHERS_UNTOUCHED) /*@ unlink_other_files_untouched */;

/* move inside the mount point: the stored size travels to the new path; the disk's accounting stays consistent */
void File__move(struct File* self, vf_str fullpath)
    __CPROVER_requires(self == &g_file && WF_MAP && WF_DISK && g_file.local_disk_ == &g_disk && vf_exc == 0 &&
                       g_dst_has == HAS_new && g_dst_val == VAL_new && g_old_has == HAS_file && g_old_val == VAL_file)
    __CPROVER_assigns(vf_exc, g_cstr_src, g_ext.used_size_, g_map.n, __CPROVER_object_whole(g_ent))
    __CPROVER_ensures(vf_exc == 0)
    __CPROVER_ensures(WF_MAP)  /*@ move_keeps_map_wellformed */
    __CPROVER_ensures(WF_DISK) /*@ move_keeps_used_equal_total */
    __CPROVER_ensures(N == __CPROVER_old(g_map.n) ||
                      (g_old_has && !HAS_file && HAS_new)) /*@ move_only_renames */
    __CPROVER_ensures(!(g_old_has && !HAS_file) || (HAS_new && VAL_new == g_old_val))
    /*@ moved_file_keeps_its_size_under_the_new_name */
    __CPROVER_ensures(!(g_old_has && !HAS_file) ||
                      g_ext.used_size_ == __CPROVER_old(g_ext.used_size_) - (g_dst_has ? g_dst_val : 0ULL))
    /*@ move_gives_back_exactly_the_overwritten_destination */
    __CPROVER_ensures((g_old_has && !HAS_file) || g_ext.used_size_ == __CPROVER_old(g_ext.used_size_))
    /*@ move_without_rename_keeps_used_size */;

#include "gen.c"

/* ---------------- harnesses ------------------------------------------------------------------------------------ */
unsigned long long nondet_ull(void);
long long nondet_ll(void);
int nondet_int(void);
_Bool nondet_bool(void);

long nondet_long(void);
size_t nondet_size(void);
static void setup(void)
{
  /* every field is arbitrary; the preconditions (WF_*) carve out the states considered */
  for (int i = 0; i < NF + 1; i++) {
    g_ent[i].first  = nondet_long();
    g_ent[i].second = nondet_ull();
  }
  g_map.n                  = nondet_size();
  g_ext.used_size_         = nondet_ull();
  g_ext.size_              = nondet_ull();
  g_file.size_             = nondet_ull();
  g_file.current_position_ = nondet_ull();
  g_file.path_             = nondet_long();
  g_file.mount_point_      = nondet_long();
  g_hostname[0]            = nondet_long();
  g_hostname[1]            = nondet_long();
  gkey                     = nondet_long();
  g_newpath                = nondet_long();
  g_ext.content_ = &g_map;
  g_map.e        = g_ent;
  g_map.cap      = NF + 1;
  g_file.local_disk_ = &g_disk;
  vf_exc         = 0;
  /* ghost copies of the pre-state: arbitrary here, pinned to the pre-state by GHOST_PINNED in the preconditions */
  g_old_has      = nondet_bool();
  g_old_val      = nondet_ull();
  g_dst_has      = nondet_bool();
  g_dst_val      = nondet_ull();
}

#ifdef H_incr_used_size
void harness(void)
{
  setup();
  FileSystemDiskExt__incr_used_size(&g_ext, nondet_ull());
  VF_CANARY_POINT;
}
#endif
#ifdef H_decr_used_size
void harness(void)
{
  setup();
  FileSystemDiskExt__decr_used_size(&g_ext, nondet_ull());
  VF_CANARY_POINT;
}
#endif
#ifdef H_disk_size_used
void harness(void)
{
  setup();
  sg_disk_get_size_used(&g_disk);
  VF_CANARY_POINT;
}
#endif
#ifdef H_update_position
void harness(void)
{
  setup();
  File__update_position(&g_file, nondet_ll());
  VF_CANARY_POINT;
}
#endif
#ifdef H_seek
void harness(void)
{
  setup();
  File__seek(&g_file, nondet_ll());
  VF_CANARY_POINT;
}
#endif
#ifdef H_seek_whence
void harness(void)
{
  setup();
  File__seek2(&g_file, nondet_ll(), nondet_int());
  VF_CANARY_POINT;
}
#endif
#ifdef H_write
void harness(void)
{
  setup();
  File__write(&g_file, nondet_ull(), nondet_bool());
  VF_CANARY_POINT;
}
#endif
#ifdef H_read
void harness(void)
{
  setup();
  File__read(&g_file, nondet_ull());
  VF_CANARY_POINT;
}
#endif
#ifdef H_unlink
void harness(void)
{
  setup();
  File__unlink(&g_file);
  VF_CANARY_POINT;
}
#endif
#ifdef H_move
void harness(void)
{
  setup();
  long fullpath;
  File__move(&g_file, fullpath);
  VF_CANARY_POINT;
}
#endif
