// Native replay for C46: runs the REAL file-system plugin of the working tree (the TU is compiled into this driver,
// everything else comes from libsimgrid.so) inside a one-actor simulation and checks the property's invariant
// "used size of the disk == total size of the files stored on it" after every operation.
#include "src/plugins/file_system/s4u_FileSystem.cpp"
#include <cstdio>
#include <cstring>
#include <string>
namespace sg4 = simgrid::s4u;

static int failures = 0;
static const char* label = "";

static unsigned long long total_stored(const sg4::Disk* d)
{
  unsigned long long sum = 0;
  for (auto const& [path, size] : *d->extension<sg4::FileSystemDiskExt>()->get_content())
    sum += size;
  return sum;
}
// each operation is judged on its own: it must not change the difference used - total (0 on a consistent disk)
static long long drift = 0;
static void check(const sg4::Disk* d, const char* after)
{
  unsigned long long used = sg_disk_get_size_used(d), total = total_stored(d);
  long long now = (long long)used - (long long)total;
  printf("  after %-42s used=%llu total_of_files=%llu %s\n", after, used, total,
         now == drift ? "" : "<-- this operation broke used == total");
  if (now != drift)
    failures++;
  drift = now;
}

static void scenario()
{
  const sg4::Disk* disk = nullptr;
  for (auto const* d : sg4::Host::current()->get_disks())
    if (std::string(sg_disk_get_mount_point(d)) == "/scratch")
      disk = d;
  check(disk, "start (initial content)");
  if (strstr(label, "File__move") || strstr(label, "all")) {
    auto* a = sg4::File::open("/scratch/vf/a.dat", nullptr);
    auto* b = sg4::File::open("/scratch/vf/b.dat", nullptr);
    a->write(100);
    check(disk, "a.write(100)");
    b->write(50);
    check(disk, "b.write(50)");
    a->move("/scratch/vf/b.dat");
    check(disk, "a.move(onto existing b.dat)");
    a->close();
    b->close();
  }
  if (strstr(label, "File__write") || strstr(label, "File__update_position") || strstr(label, "all")) {
    auto* f = sg4::File::open("/scratch/vf/w.dat", nullptr);
    f->write(100);
    check(disk, "w.write(100) [append]");
    f->seek(20);
    check(disk, "w.seek(20)");
    sg_size_t w = f->write(30); // overwriting write strictly inside the file (write_inside == false)
    printf("  write(30) at position 20 of a 100-byte file returned %llu; file size now %llu, position %llu\n", w,
           f->size(), f->tell());
    check(disk, "w.write(30) at position 20 [overwrite]");
    f->close();
  }
}

int main(int argc, char** argv)
{
  label = argc > 1 ? argv[1] : "all";
  std::string platf = std::string(argc > 2 ? argv[2] : "/repo") + "/examples/platforms/hosts_with_disks.xml";
  int ac = 1;
  char* av[] = {argv[0], nullptr};
  sg4::Engine e(&ac, av);
  sg_storage_file_system_init();
  e.load_platform(platf);
  e.host_by_name("bob")->add_actor("vf", scenario);
  e.run();
  printf("%s\n", failures ? "REPRODUCED: disk accounting inconsistent" : "not reproduced");
  return failures ? 1 : 0;
}
