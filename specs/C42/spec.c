/* C42 — Happens-before equals transitive dependency; racing events are the maximal HB-predecessors of other actors.
 *
 * Units (all extracted from the real code by cxx2c): ClockVector::max / max_emplace_left / get / operator[] / begin / end
 * and its defaulted constructors, Clock::operator<=> / has_value / value / Clock(T), Aid::has_value / value / == / != /
 * Aid(T) (src/mc/api), Execution::push_transition (clock part), happens_before, get_racing_events_of,
 * find_pre_event_of_aid, Event(TransitionPtr, ClockVector) and the accessors they call (src/mc/explo/odpor).
 *
 * Part 1 (contracts, complete): the clock-vector algebra. Loops run to the source constant max_threads.
 * Part 2 (bounded lemma over the unit bodies): every execution of NEV events by NACT actors, EVERY symmetric dependency
 *   relation D with same-actor => dependent (Transition::dispatch_depends is replaced by the ghost matrix D, so the
 *   result holds for any such relation, including the real one, see C39).                                          */
#include "gen.h"

#define NT VFC_max_threads         /* 32: slots of a clock vector */
#define AID_INV VFC_Aid__INVALID_VALUE /* 31: Aid::INVALID */
#define CLK_INV 4294967295U        /* Clock::INVALID_VALUE */
_Static_assert(VFC_Clock__INVALID_VALUE == CLK_INV, "Clock::INVALID_VALUE changed");
_Static_assert(VF_CAP == NT, "run with -DVF_CAP=max_threads: local vectors of a ClockVector have max_threads entries");

/* Clock order of the real code's documentation: INVALID is the smallest value */
#define CLK_LT(a, b) ((a) == CLK_INV ? (b) != CLK_INV : ((b) != CLK_INV && (a) < (b)))
#define CLK_MAX(a, b) (CLK_LT(a, b) ? (b) : (a))

/* ---------------- Part 1: state of the contract harnesses ---------------------------------------------------------- */
struct Clock g_a[VFC_max_threads], g_b[VFC_max_threads];
struct ClockVector g_cv1, g_cv2;
size_t gk; /* ghost index: an arbitrary slot */
#define WF_CV(cv, A) ((cv)->contents_.d == (A) && (cv)->contents_.h == 0 && (cv)->contents_.n == NT && (cv)->contents_.cap == NT)
/* any clock vector a caller may hold (harness objects or freshly allocated copies) */
#define OK_CV(cv)                                                                                                      \
  (__CPROVER_r_ok((cv), sizeof(struct ClockVector)) && (cv)->contents_.h == 0 && (cv)->contents_.n == NT &&           \
   (cv)->contents_.cap == NT && __CPROVER_r_ok((cv)->contents_.d, NT * sizeof(struct Clock)))
#define SLOT(cv, k) ((cv)->contents_.d[(cv)->contents_.h + (k)].value_)

/* get: the clock of a valid actor id, INVALID for Aid::INVALID (and for ids beyond the vector) */
struct Clock ClockVector__get(struct ClockVector* self, struct Aid aid)
    __CPROVER_requires(OK_CV(self) && Clock_INVALID.value_ == CLK_INV) __CPROVER_assigns()
    __CPROVER_ensures(__CPROVER_return_value.value_ == ((aid.value_ != AID_INV && aid.value_ < NT) ? SLOT(self, aid.value_) : CLK_INV))
    /*@ get_reads_slot_of_valid_aid */;

/* operator[]: reference to the slot of a valid actor id */
struct Clock* ClockVector__operator_index(struct ClockVector* self, struct Aid aid)
    __CPROVER_requires(OK_CV(self) && aid.value_ <= AID_INV /* type invariant of Aid */) __CPROVER_assigns()
    __CPROVER_ensures(__CPROVER_return_value ==
                      (aid.value_ != AID_INV ? &self->contents_.d[self->contents_.h + aid.value_] : &Clock_INVALID))
    /*@ index_designates_slot_of_valid_aid */;

/* three-way comparison = the documented order */
int Clock__operator_cmp(struct Clock* self, struct Clock* rhs)
    __CPROVER_requires(__CPROVER_r_ok(self, sizeof(*self)) && __CPROVER_r_ok(rhs, sizeof(*rhs))) __CPROVER_assigns()
    __CPROVER_ensures(__CPROVER_return_value ==
                      (CLK_LT(self->value_, rhs->value_) ? -1 : (CLK_LT(rhs->value_, self->value_) ? 1 : 0)))
    /*@ cmp_is_documented_order_invalid_smallest */;

/* max / max_emplace_left: the pointwise-maximum statements are asserted by the lemma harnesses `max` and
 * `max_emplace_left` below over the unit bodies, their loops unwound completely (bound = the source constant
 * max_threads): dfcc instrumentation of the 31-iteration loop with three replaced callees did not finish in 900 s.  */

/* ---------------- Part 2: ghost dependency relation and the assumed tail ------------------------------------------ */
#ifndef NEV
#define NEV 4
#endif
#ifndef NACT
#define NACT 3
#endif
struct ActorCreateTransition g_t[NEV]; /* every transition object is large enough for the ACTOR_CREATE downcast */
_Bool D[NEV][NEV];                     /* ghost: uninterpreted dependency relation between the NEV transitions */

#ifdef H_racing_contract
/* get_racing_events_of against the SPECIFICATION of happens_before (stub below): decided without enumerating executions */
#define VF_OVERRIDE_Execution__happens_before
#endif
#ifdef H_hb_closure
/* hand-made modularity for the plain lemma harness: push_transition sees max_emplace_left through the specification
 * that harness `max_emplace_left` proves for ALL pairs of distinct full-size clock vectors (stub below). Without it
 * the 32-slot std::transform is unrolled once per (actor, event) pair and per pushed event: 630k SSA steps.        */
#define VF_OVERRIDE_ClockVector__max_emplace_left
#endif
#include "gen.c"

size_t nondet_size(void);
int nondet_int(void);
unsigned nondet_unsigned(void);
unsigned char nondet_uchar(void);
_Bool nondet_bool(void);

#if defined(H_hb_closure)
static int t_index(struct Transition* t)
{
  __CPROVER_assert(__CPROVER_same_object(t, g_t), "dispatch_depends only ever sees transitions of the execution");
  return (int)((struct ActorCreateTransition*)t - g_t);
}
void ClockVector__max_emplace_left(struct ClockVector* cv1, struct ClockVector* cv2)
{
  /* precondition of the proved specification */
  __CPROVER_assert(cv1->contents_.n == NT && cv2->contents_.n == NT && cv1->contents_.h == 0 && cv2->contents_.h == 0 &&
                       !__CPROVER_same_object(cv1->contents_.d, cv2->contents_.d),
                   "max_emplace_left called on two distinct full-size clock vectors"); /*@ emplace_left_spec_applicable */
  struct Clock* A = cv1->contents_.d;
  struct Clock* B = cv2->contents_.d;
  for (unsigned k = 0; k < VFC_max_threads; k++) {
    unsigned a = A[k].value_, b = B[k].value_;
    A[k].value_ = CLK_MAX(a, b);
  }
}
/* Transition::dispatch_depends := the ghost relation (C39 proves the real one symmetric and same-actor-dependent) */
_Bool Transition__dispatch_depends(struct Transition* self, struct Transition* other)
{
  return D[t_index(self)][t_index(other)];
}
/* the statements of push_transition after the clock part (epochs of the data-race detector: Event::initialize_epoch /
 * update_epoch_from write Event::last_write_ only, or throw McDataRace): assumed not to touch clocks and skip lists */
void Execution__push_transition__rest(struct Execution* self) {}

struct Execution g_E;
struct Event g_events[NEV + 1];
struct vf_seq_unsigned_int g_skip[VFC_max_threads];

_Bool HB[NEV][NEV]; /* spec: transitive closure of { (i,j) : i < j and D[i][j] } */
#define ACT(i) (g_t[i].__b_Transition.aid_.value_)

void harness(void)
{
  Clock_INVALID.value_ = CLK_INV; /* src/mc/api/BasicTypes.cpp */
  vf_exc               = 0;
  /* ---- any execution: actors and kinds of the NEV transitions, any admissible dependency relation */
  for (int i = 0; i < NEV; i++) {
    unsigned char a = nondet_uchar();
    __CPROVER_assume(a < NACT);
    g_t[i].__b_Transition.aid_.value_ = a;
    g_t[i].__b_Transition.type_       = nondet_int();
    g_t[i].child_.value_              = nondet_uchar();
  }
  for (int i = 0; i < NEV; i++)
    for (int j = 0; j < NEV; j++) {
      if (j >= i)
        D[i][j] = nondet_bool();
      else
        D[i][j] = D[j][i];                           /* symmetric */
      if (ACT(i) == ACT(j))
        __CPROVER_assume(D[i][j]);                   /* transitions of one actor are dependent */
    }
  /* ---- Execution(): no event, skip_list_ = {{}} */
  g_E.contents_.d   = g_events;
  g_E.contents_.h   = 0;
  g_E.contents_.n   = 0;
  g_E.contents_.cap = NEV + 1;
  g_E.skip_list_.d   = g_skip;
  g_E.skip_list_.h   = 0;
  g_E.skip_list_.n   = 1;
  g_E.skip_list_.cap = VFC_max_threads;
  g_skip[0]          = vf_seq_unsigned_int_make();
  _Bool restoring    = nondet_bool();
  for (int i = 0; i < NEV; i++)
    Execution__push_transition(&g_E, &g_t[i].__b_Transition, restoring);
  __CPROVER_assert(vf_exc == 0, "push_transition raises nothing"); /*@ push_never_fails */
  __CPROVER_assert(g_E.contents_.n == NEV, "one event per pushed transition"); /*@ push_appends_one_event */

  /* ---- spec relation */
  for (int i = 0; i < NEV; i++)
    for (int j = 0; j < NEV; j++)
      HB[i][j] = i < j && D[i][j];
  for (int k = 0; k < NEV; k++)
    for (int i = 0; i < NEV; i++)
      for (int j = 0; j < NEV; j++)
        if (i < k && k < j && HB[i][k] && HB[k][j])
          HB[i][j] = 1;

  /* ---- (1) happens_before(e1,e2) <=> e1 before e2 and a chain of pairwise dependent events leads from e1 to e2 */
  for (unsigned i = 0; i < NEV; i++)
    for (unsigned j = 0; j < NEV; j++) {
      _Bool r = Execution__happens_before(&g_E, i, j);
      __CPROVER_assert(r == HB[i][j], "happens_before is the transitive closure of dependency along the execution");
      /*@ happens_before_is_transitive_dependency */
    }
  /* ---- (2) clock vectors: slot a of event j = latest event of actor a that is j itself or happens before j */
  for (unsigned j = 0; j < NEV; j++)
    for (unsigned char a = 0; a < NACT; a++) {
      unsigned want = CLK_INV;
      for (unsigned i = 0; i <= j; i++)
        if (ACT(i) == a && (i == j || HB[i][j]))
          want = i;
      struct Aid aid = {a};
      struct Clock c = ClockVector__get(&g_events[j].clock_vector_, aid);
      __CPROVER_assert(c.value_ == want, "clock vector slot = latest causal predecessor of that actor");
      /*@ clock_slot_is_latest_predecessor_of_actor */
    }
  /* ---- (3) racing events of j = maximal HB-predecessors from other actors not ordered before j's actor's previous event */
  for (unsigned j = 0; j < NEV; j++) {
    struct vf_seq_unsigned_int L = Execution__get_racing_events_of(&g_E, j);
    __CPROVER_assert(vf_exc == 0, "get_racing_events_of raises nothing"); /*@ racing_never_fails */
    int prev = -1;
    for (unsigned i = 0; i < j; i++)
      if (ACT(i) == ACT(j))
        prev = (int)i;
    for (unsigned i = 0; i < NEV; i++) {
      _Bool middle = 0;
      for (unsigned k = 0; k < NEV; k++)
        if (HB[i][k] && HB[k][j])
          middle = 1;
      _Bool want = i < j && ACT(i) != ACT(j) && HB[i][j] && !middle && !(prev >= 0 && HB[i][prev]);
      unsigned count = 0;
      for (size_t p = 0; p < NEV; p++)
        if (p < L.n && L.d[L.h + p] == i)
          count++;
      __CPROVER_assert(count == (want ? 1u : 0u), "racing events = the spec set, each once");
      /*@ racing_events_are_maximal_predecessors_of_other_actors */
    }
    __CPROVER_assert(L.n <= NEV, "no other element in the list"); /*@ racing_events_nothing_else */
  }
  VF_CANARY_POINT;
}
#endif

/* ---------------- Part 3: get_racing_events_of in terms of happens_before (contract route) ----------------------------
 * The unit get_racing_events_of(target) reads: the actor of every event, the clock vector of the TARGET event, and
 * happens_before(e1, e2). Here happens_before is replaced by what it is specified to be (and what hb_closure establishes of
 * the real function on the executions it enumerates): an ARBITRARY relation HBG with
 *   (P1) HBG(i,j) => i < j, (P2) transitive, (P3) two events of one actor are ordered,
 * and the target's clock vector holds, per actor, the latest event that is the target or happens before it (hb_closure's
 * clock_slot_is_latest_predecessor_of_actor). No push_transition, no dependency matrix: NEVR events of up to NACTR
 * actors, every actor assignment, every such HBG, every target.
 * Obligation: the result holds exactly once each event e of ANOTHER actor with HBG(e,target), no event k with
 * HBG(e,k) and HBG(k,target), and not HBG(e, previous event of the target's actor) - and nothing else.              */
#ifdef H_racing_contract
#ifndef NEVR
#define NEVR 5
#endif
#ifndef NACTR
#define NACTR 4
#endif
_Static_assert(NACTR < AID_INV && NEVR < VF_CAP, "actors below Aid::INVALID, events within the list capacity");
_Bool HBG[NEVR][NEVR];
struct Transition g_rt[NEVR];
struct Event g_rev[NEVR];
struct Clock g_rcv[VFC_max_threads];
struct Execution g_RE;
#define RACT(i) (g_rt[i].aid_.value_)
_Bool Execution__happens_before(struct Execution* self, unsigned e1, unsigned e2)
{
  __CPROVER_assert(self == &g_RE && e1 < NEVR && e2 < NEVR, "happens_before asked about two events of the execution");
  /*@ racing_asks_happens_before_within_execution */
  return HBG[e1][e2];
}
void harness(void)
{
  Clock_INVALID.value_ = CLK_INV;
  vf_exc               = 0;
  for (int i = 0; i < NEVR; i++) {
    unsigned char a = nondet_uchar();
    __CPROVER_assume(a < NACTR);
    g_rt[i].aid_.value_  = a;
    g_rt[i].type_        = nondet_int();
    g_rev[i].transition_ = &g_rt[i];
  }
  for (int i = 0; i < NEVR; i++)
    for (int j = 0; j < NEVR; j++) {
      HBG[i][j] = i < j ? nondet_bool() : 0;              /* P1 */
      if (i < j && RACT(i) == RACT(j))
        __CPROVER_assume(HBG[i][j]);                      /* P3 */
    }
  for (int i = 0; i < NEVR; i++)
    for (int k = 0; k < NEVR; k++)
      for (int j = 0; j < NEVR; j++)
        __CPROVER_assume(!(HBG[i][k] && HBG[k][j]) || HBG[i][j]); /* P2 */
  unsigned target = nondet_unsigned();
  __CPROVER_assume(target < NEVR);
  /* clock vector of the target (the only one the unit reads) */
  for (unsigned a = 0; a < VFC_max_threads; a++) {
    unsigned want = CLK_INV;
    for (unsigned i = 0; i < NEVR; i++)
      if (i <= target && RACT(i) == a && (i == target || HBG[i][target]))
        want = i;
    g_rcv[a].value_ = want;
  }
  g_rev[target].clock_vector_.contents_.d   = g_rcv;
  g_rev[target].clock_vector_.contents_.h   = 0;
  g_rev[target].clock_vector_.contents_.n   = NT;
  g_rev[target].clock_vector_.contents_.cap = NT;
  g_RE.contents_.d   = g_rev;
  g_RE.contents_.h   = 0;
  g_RE.contents_.n   = NEVR;
  g_RE.contents_.cap = NEVR;

  struct vf_seq_unsigned_int L = Execution__get_racing_events_of(&g_RE, target);
  __CPROVER_assert(vf_exc == 0, "get_racing_events_of raises nothing"); /*@ racing_contract_never_fails */
  int prev = -1;
  for (unsigned i = 0; i < NEVR; i++)
    if (i < target && RACT(i) == RACT(target))
      prev = (int)i;
  for (unsigned i = 0; i < NEVR; i++) {
    _Bool middle = 0;
    for (unsigned k = 0; k < NEVR; k++)
      if (HBG[i][k] && HBG[k][target])
        middle = 1;
    _Bool want = i < target && RACT(i) != RACT(target) && HBG[i][target] && !middle && !(prev >= 0 && HBG[i][prev]);
    unsigned count = 0;
    for (size_t p = 0; p < NEVR; p++)
      if (p < L.n && L.d[L.h + p] == i)
        count++;
    __CPROVER_assert(count == (want ? 1u : 0u), "racing events = maximal predecessors of other actors, each once");
    /*@ racing_contract_exactly_the_maximal_predecessors_of_other_actors */
  }
  __CPROVER_assert(L.n <= NEVR, "no other element in the list"); /*@ racing_contract_nothing_else */
  for (size_t p = 0; p < NEVR; p++)
    __CPROVER_assert(!(p < L.n) || L.d[L.h + p] < NEVR, "only events of the execution"); /*@ racing_contract_nothing_else */
  VF_CANARY_POINT;
}
#endif

/* ---------------- Part 1 harnesses ------------------------------------------------------------------------------------ */
static void setup_cvs(void)
{
  Clock_INVALID.value_ = CLK_INV;
  vf_exc               = 0;
  g_cv1.contents_.d = g_a; g_cv1.contents_.h = 0; g_cv1.contents_.n = NT; g_cv1.contents_.cap = NT;
  g_cv2.contents_.d = g_b; g_cv2.contents_.h = 0; g_cv2.contents_.n = NT; g_cv2.contents_.cap = NT;
  for (int k = 0; k < VFC_max_threads; k++) { /* statics are zero-initialised: make every slot symbolic */
    g_a[k].value_ = nondet_unsigned();
    g_b[k].value_ = nondet_unsigned();
  }
  gk = nondet_size(); /* a global is zero-initialised, not unconstrained: the ghost index must be drawn explicitly */
  __CPROVER_assume(gk < NT);
}
#ifdef H_max
/* ClockVector::max(cv1, cv2)[k] == max(cv1[k], cv2[k]) for EVERY valid actor id k (0 .. max_threads-2; the value
 * max_threads-1 is Aid::INVALID); the arguments are left alone and the result does not share their storage */
void harness(void)
{
  setup_cvs();
  unsigned a0 = g_a[gk].value_, b0 = g_b[gk].value_;
  struct ClockVector r = ClockVector__max(&g_cv1, &g_cv2);
  __CPROVER_assert(vf_exc == 0, "max raises nothing"); /*@ max_never_fails */
  __CPROVER_assert(r.contents_.n == NT, "result has max_threads slots"); /*@ max_result_full_size */
  struct Aid aid = {(unsigned char)gk};
  struct Clock c = ClockVector__get(&r, aid);
  __CPROVER_assert(gk == AID_INV || c.value_ == CLK_MAX(a0, b0), "pointwise maximum"); /*@ max_is_pointwise_max */
  __CPROVER_assert(g_a[gk].value_ == a0 && g_b[gk].value_ == b0, "arguments unchanged"); /*@ max_leaves_arguments */
  __CPROVER_assert(r.contents_.d != g_a && r.contents_.d != g_b, "fresh storage"); /*@ max_result_is_a_fresh_vector */
  VF_CANARY_POINT;
}
#endif
#ifdef H_max_emplace_left
/* ClockVector__max_emplace_left(cv1, cv2): every slot of cv1 becomes the maximum of the two slots, cv2 is not touched; for ANY two
 * distinct full-size vectors (storage allocated here, contents symbolic) */
void harness(void)
{
  setup_cvs();
  struct Clock* A = (struct Clock*)malloc(NT * sizeof(struct Clock));
  struct Clock* B = (struct Clock*)malloc(NT * sizeof(struct Clock));
  __CPROVER_assume(A != NULL && B != NULL);
  g_cv1.contents_.d = A;
  g_cv2.contents_.d = B;
  unsigned a0 = A[gk].value_, b0 = B[gk].value_;
  ClockVector__max_emplace_left(&g_cv1, &g_cv2);
  __CPROVER_assert(vf_exc == 0, "max_emplace_left raises nothing"); /*@ emplace_left_never_fails */
  __CPROVER_assert(WF_CV(&g_cv1, A) && WF_CV(&g_cv2, B), "vectors keep their storage and size"); /*@ emplace_left_keeps_shape */
  __CPROVER_assert(A[gk].value_ == CLK_MAX(a0, b0), "pointwise maximum"); /*@ emplace_left_is_pointwise_max */
  __CPROVER_assert(B[gk].value_ == b0, "right operand unchanged"); /*@ emplace_left_leaves_right_operand */
  VF_CANARY_POINT;
}
#endif
#ifdef H_get
void harness(void)
{
  setup_cvs();
  struct Aid aid = {nondet_uchar()};
  ClockVector__get(&g_cv1, aid);
  VF_CANARY_POINT;
}
#endif
#ifdef H_index
void harness(void)
{
  setup_cvs();
  struct Aid aid = {nondet_uchar()};
  __CPROVER_assume(aid.value_ <= AID_INV);
  ClockVector__operator_index(&g_cv1, aid);
  VF_CANARY_POINT;
}
#endif
#ifdef H_cmp
void harness(void)
{
  struct Clock x = {nondet_unsigned()}, y = {nondet_unsigned()};
  Clock__operator_cmp(&x, &y);
  VF_CANARY_POINT;
}
#endif
