/* C23 — Energy accounting integrates the power model.
 * Host: energy' = energy + P * (now - last_update) with P = off power while (the saved pstate says) off, idle power
 * when on and unloaded, epsilon + load * (max - epsilon) of the saved pstate otherwise, load = used fraction of the
 * cores (clamped to 1); energy never decreases. Link: energy' = energy + (idle + (busy-idle)*usage) * (now - last).
 * Units (real code, extracted by cxx2c): HostEnergy::update, HostEnergy::get_current_watts_value() and (double),
 * PowerRange::PowerRange (src/plugins/host_energy.cpp); LinkEnergy::update, LinkEnergy::get_power (link_energy.cpp).
 * IEEE-754 doubles, bit-precise: every clause is 1-3 operations on values required finite.                         */
#include "gen.h"

#ifndef NPST
#define NPST 4 /* capacity of the per-pstate power table in the harness state; the number of pstates is symbolic */
#endif
#ifndef PSTK
#define PSTK 0 /* the saved pstate of this harness instance: -1 (off) or 0..NPST-1; one instance per value, because a
                  symbolic index into the power table makes the floating-point obligations undecided */
#endif

/* ---------------- state built by the harnesses -------------------------------------------------------------- */
struct HostEnergy g_he;
struct Host g_host;
struct PowerRange g_ranges[NPST];
struct LinkEnergy g_le;
struct Link g_link;

/* ghost values returned by the assumed callees */
double g_clock;          /* s4u::Engine::get_clock() */
unsigned long g_npst;    /* Host::get_pstate_count(): number of pstates of the host */
_Bool g_on;              /* Host::is_on() */
unsigned long g_pstate;  /* Host::get_pstate() */
double g_speed;          /* Host::get_pstate_speed(p) */
unsigned long g_speed_arg; /* the p it was asked for */
int g_speed_calls;
double g_load;           /* Host::get_load() */
int g_cores;             /* Host::get_core_count() */
double g_link_load, g_link_bw;
double g_init_idle, g_init_busy; /* what LinkEnergy::init_watts_range_list parses */
/* In the harnesses of the two update() units the (already proved) contracts of get_current_watts_value / get_power
 * additionally record their return value in a ghost, so that update's postcondition can say "energy += P * dt" with P
 * that very value and, in a separate clause, "P is the power of the statement" (one FP product per obligation). */
double g_P;  /* value returned by HostEnergy::get_current_watts_value() inside update() */
double g_LP; /* value returned by LinkEnergy::get_power() inside update() */
#if defined(HK_update)
#define REC_P , g_P
#define REC_P_ENS __CPROVER_ensures(g_P == __CPROVER_return_value && __CPROVER_signd(g_P) == __CPROVER_signd(__CPROVER_return_value))
#else
#define REC_P
#define REC_P_ENS
#endif
#ifdef LINK_RECORD /* not used */
#define REC_LP __CPROVER_assigns(g_LP)
#define REC_LP_ENS __CPROVER_ensures(g_LP == __CPROVER_return_value && __CPROVER_signd(g_LP) == __CPROVER_signd(__CPROVER_return_value))
#else
#define REC_LP __CPROVER_assigns()
#define REC_LP_ENS
#endif

#define FIN(x) __CPROVER_isfinited(x)
#define NONNEG(x) (FIN(x) && (x) >= 0.0)

/* __CPROVER_equal = identity (not the IEEE ==, which the solvers cannot substitute): the callee returns the ghost itself */
double get_clock(void) __CPROVER_requires(1) __CPROVER_assigns()
    __CPROVER_ensures(__CPROVER_equal(__CPROVER_return_value, g_clock));
_Bool Host__is_on(struct Host* self) __CPROVER_requires(self == &g_host) __CPROVER_assigns()
    __CPROVER_ensures(__CPROVER_return_value == g_on);
unsigned long Host__get_pstate(struct Host* self) __CPROVER_requires(self == &g_host) __CPROVER_assigns()
    __CPROVER_ensures(__CPROVER_return_value == g_pstate);
double Host__get_pstate_speed(struct Host* self, unsigned long pstate)
    __CPROVER_requires(self == &g_host && pstate < g_npst) /* Host::get_pstate_speed asserts the index */
    __CPROVER_assigns(g_speed_arg, g_speed_calls)
    __CPROVER_ensures(__CPROVER_return_value == g_speed && g_speed_arg == pstate &&
                      g_speed_calls == __CPROVER_old(g_speed_calls) + 1);
double Host__get_load(struct Host* self) __CPROVER_requires(self == &g_host) __CPROVER_assigns()
    __CPROVER_ensures(__CPROVER_return_value == g_load);
int Host__get_core_count(struct Host* self) __CPROVER_requires(self == &g_host) __CPROVER_assigns()
    __CPROVER_ensures(__CPROVER_return_value == g_cores);
double Link__get_load(struct Link* self) __CPROVER_requires(self == &g_link) __CPROVER_assigns()
    __CPROVER_ensures(__CPROVER_return_value == g_link_load);
double Link__get_bandwidth(struct Link* self) __CPROVER_requires(self == &g_link) __CPROVER_assigns()
    __CPROVER_ensures(__CPROVER_return_value == g_link_bw);
void LinkEnergy__init_watts_range_list(struct LinkEnergy* self) __CPROVER_requires(self == &g_le)
    __CPROVER_assigns(g_le.inited_, g_le.idle_, g_le.busy_)
    __CPROVER_ensures(g_le.inited_ && g_le.idle_ == g_init_idle && g_le.busy_ == g_init_busy);

/* ---------------- representation invariant and input domain -------------------------------------------------- */
#define PST_OFF (-1)
#define RANGE_OK(k)                                                                                                    \
  (NONNEG(g_ranges[k].idle_) && NONNEG(g_ranges[k].epsilon_) && NONNEG(g_ranges[k].max_) && NONNEG(g_ranges[k].slope_))
/* the table has one entry per pstate when power values were given, none otherwise; the saved pstate is a pstate or off */
#define WF_HE                                                                                                          \
  (g_he.host_ == &g_host && g_he.pstate_off_ == PST_OFF && 1 <= g_npst && g_npst <= NPST &&                            \
   g_he.power_range_watts_list_.d == g_ranges && g_he.power_range_watts_list_.h == 0 &&                                \
   g_he.power_range_watts_list_.cap == NPST &&                                                                         \
   g_he.power_range_watts_list_.n == (g_he.has_pstate_power_values_ ? g_npst : 0) &&                                   \
   (g_he.pstate_ == PST_OFF || (0 <= g_he.pstate_ && (unsigned long)g_he.pstate_ < g_npst)))
#if NPST == 2
#define ALL_RANGES_OK (RANGE_OK(0) && RANGE_OK(1))
#elif NPST == 4
#define ALL_RANGES_OK (RANGE_OK(0) && RANGE_OK(1) && RANGE_OK(2) && RANGE_OK(3))
#else
#error "NPST must be 2 or 4"
#endif
/* input domain: powers are finite and non-negative, max >= epsilon (slope >= 0); environment values finite */
#define DOM_HE                                                                                                         \
  (ALL_RANGES_OK && NONNEG(g_he.watts_off_) && FIN(g_speed) &&              \
   NONNEG(g_load) && g_cores >= 1 && g_pstate < g_npst)

/* the load of the statement: used fraction of the cores, at most 1; a pstate of speed 0 counts as fully loaded */
#define LOADFRAC ((g_load / g_speed) / (double)g_cores)
#define LOAD (g_speed <= 0.0 ? 1.0 : (LOADFRAC > 1.0 ? 1.0 : LOADFRAC))
#define OLD_PST __CPROVER_old(g_he.pstate_)
#define R_IDLE(p) (g_ranges[p].idle_)
#define R_EPS(p) (g_ranges[p].epsilon_)
#define R_SLOPE(p) (g_ranges[p].slope_)
/* the power of the statement, as a function of the saved pstate p */
#define POWER(p)                                                                                                       \
  ((p) == PST_OFF ? g_he.watts_off_                                                                                    \
                  : (!g_he.has_pstate_power_values_ ? 0.0                                                              \
                                                    : (LOAD > 0.0 ? R_EPS(p) + LOAD * R_SLOPE(p) : R_IDLE(p))))

/* ---------------- contracts of the units ------------------------------------------------------------------- */

/* slope = max - epsilon (the "max - epsilon" of the statement is computed once, here) */
void PowerRange__ctor(struct PowerRange* self, double idle, double epsilon, double max)
    __CPROVER_requires(__CPROVER_is_fresh(self, sizeof(*self))) __CPROVER_assigns(*self)
    __CPROVER_ensures(self->idle_ == idle || __CPROVER_isnand(idle))
    __CPROVER_ensures(self->epsilon_ == epsilon || __CPROVER_isnand(epsilon))
    __CPROVER_ensures(self->max_ == max || __CPROVER_isnand(max))
    __CPROVER_ensures(self->slope_ == max - epsilon || __CPROVER_isnand(max - epsilon)) /*@ slope_is_max_minus_epsilon */;

/* helper (from the code): power at a given load, for the saved pstate */
double HostEnergy__get_current_watts_value_at(struct HostEnergy* self, double cpu_load)
    __CPROVER_requires(self == &g_he && WF_HE && DOM_HE && !__CPROVER_isnand(cpu_load) && cpu_load <= 1.0)
    __CPROVER_assigns()
    __CPROVER_ensures(g_he.has_pstate_power_values_ || __CPROVER_return_value == 0.0) /*@ at_no_power_values_is_zero */
    __CPROVER_ensures(!g_he.has_pstate_power_values_ || g_he.pstate_ != PST_OFF ||
                      __CPROVER_return_value == g_he.watts_off_) /*@ at_off_is_off_power */
    __CPROVER_ensures(!g_he.has_pstate_power_values_ || g_he.pstate_ == PST_OFF || cpu_load > 0.0 ||
                      __CPROVER_return_value == R_IDLE(g_he.pstate_)) /*@ at_unloaded_is_idle_power */
    __CPROVER_ensures(!g_he.has_pstate_power_values_ || g_he.pstate_ == PST_OFF || !(cpu_load > 0.0) ||
                      __CPROVER_return_value == R_EPS(g_he.pstate_) + cpu_load * R_SLOPE(g_he.pstate_))
    /*@ at_loaded_is_epsilon_plus_load_times_slope */
    __CPROVER_ensures(!g_he.has_pstate_power_values_ || g_he.pstate_ == PST_OFF || !(cpu_load > 0.0) ||
                      __CPROVER_return_value >= R_EPS(g_he.pstate_)) /*@ at_loaded_power_at_least_epsilon */
#ifdef UPPER_BOUND /* undecided on SAT and cvc5 within minutes (monotonicity of an FP product): not claimed */
    __CPROVER_ensures(!g_he.has_pstate_power_values_ || g_he.pstate_ == PST_OFF || !(cpu_load > 0.0) ||
                      __CPROVER_return_value <= R_EPS(g_he.pstate_) + R_SLOPE(g_he.pstate_))
    /*@ at_loaded_power_at_most_max */
#endif
    __CPROVER_ensures(__CPROVER_return_value >= 0.0) /*@ at_power_non_negative */
    __CPROVER_ensures(vf_exc == __CPROVER_old(vf_exc));

#ifdef UPDATE_INTEGRATION
/* weakened view of the contract below (non-negative result) + ghost record of the returned value: used only to check
 * update()'s integration step `energy' = energy + P * (now - last)` with P = the value returned by this callee */
double HostEnergy__get_current_watts_value(struct HostEnergy* self)
    __CPROVER_requires(self == &g_he && WF_HE && DOM_HE && vf_exc == 0 && g_speed_calls == 0)
    __CPROVER_assigns(g_he.host_was_used_, g_speed_arg, g_speed_calls, g_P)
    __CPROVER_ensures(vf_exc == 0 && __CPROVER_return_value >= 0.0 && __CPROVER_equal(g_P, __CPROVER_return_value));
#else
/* the power of the statement (top level, from the property) */
double HostEnergy__get_current_watts_value(struct HostEnergy* self)
    __CPROVER_requires(self == &g_he && WF_HE && DOM_HE && vf_exc == 0 && g_speed_calls == 0)
    __CPROVER_assigns(g_he.host_was_used_, g_speed_arg, g_speed_calls REC_P)
    __CPROVER_ensures(vf_exc == 0) REC_P_ENS
    __CPROVER_ensures(g_he.pstate_ != PST_OFF || __CPROVER_return_value == g_he.watts_off_) /*@ off_host_consumes_off_power */
    __CPROVER_ensures(g_he.pstate_ == PST_OFF || g_he.has_pstate_power_values_ || __CPROVER_return_value == 0.0)
    /*@ no_power_values_is_zero */
    __CPROVER_ensures(g_he.pstate_ == PST_OFF || !g_he.has_pstate_power_values_ || LOAD > 0.0 ||
                      __CPROVER_return_value == R_IDLE(g_he.pstate_)) /*@ unloaded_host_consumes_idle_power */
    __CPROVER_ensures(g_he.pstate_ == PST_OFF || !g_he.has_pstate_power_values_ || !(LOAD > 0.0) ||
                      __CPROVER_return_value == R_EPS(g_he.pstate_) + LOAD * R_SLOPE(g_he.pstate_))
    /*@ loaded_host_consumes_epsilon_plus_load_times_slope */
    __CPROVER_ensures(g_he.pstate_ == PST_OFF || (g_speed_calls == 1 && g_speed_arg == (unsigned long)g_he.pstate_))
    /*@ speed_is_that_of_the_saved_pstate */
    __CPROVER_ensures(__CPROVER_return_value >= 0.0) /*@ power_non_negative */
    __CPROVER_ensures(g_he.host_was_used_ ==
                      (__CPROVER_old(g_he.host_was_used_) || (g_he.pstate_ != PST_OFF && g_speed > 0.0 && LOAD > 0.0)))
    /*@ host_was_used_iff_loaded */;
#endif

/* integration step (top level, from the property) */
#define OLD_LAST __CPROVER_old(g_he.last_updated_)
#define OLD_TOTAL __CPROVER_old(g_he.total_energy_)
void HostEnergy__update(struct HostEnergy* self)
    __CPROVER_requires(self == &g_he && WF_HE && DOM_HE && vf_exc == 0 && g_speed_calls == 0 && FIN(g_clock) &&
                       FIN(g_he.last_updated_) && NONNEG(g_he.total_energy_) && FIN(g_clock - g_he.last_updated_))
    __CPROVER_assigns(g_he.total_energy_, g_he.last_updated_, g_he.pstate_, g_he.host_was_used_, g_speed_arg,
                      g_speed_calls, g_P)
    __CPROVER_ensures(vf_exc == 0)
#ifdef UPDATE_INTEGRATION /* P = the value returned by get_current_watts_value() (ghost record, see above).
   UNDECIDED: cvc5, z3, minisat and kissat all time out (>5 min, one clause alone) on this equality inside the
   dfcc-instrumented harness although the same equality on a 10-line C file takes 8 s; the harnesses update_int_*
   are therefore NOT in check.json and this clause is NOT claimed. */
    __CPROVER_ensures(!(OLD_LAST < g_clock) || g_he.total_energy_ == OLD_TOTAL + g_P * (g_he.last_updated_ - OLD_LAST))
    /*@ energy_integrates_power_over_elapsed_time */
#else
    __CPROVER_ensures(!(OLD_LAST < g_clock) || g_P == POWER(OLD_PST)) /*@ power_is_that_of_the_saved_pstate_and_load */
#endif
    __CPROVER_ensures(!(OLD_LAST < g_clock) || g_he.last_updated_ == g_clock) /*@ update_advances_last_update */
    __CPROVER_ensures((OLD_LAST < g_clock) ||
                      (g_he.total_energy_ == OLD_TOTAL && g_he.last_updated_ == OLD_LAST)) /*@ no_time_no_energy */
    __CPROVER_ensures(g_he.total_energy_ >= OLD_TOTAL) /*@ energy_never_decreases */
    __CPROVER_ensures(g_he.pstate_ == (g_on ? (int)g_pstate : PST_OFF)) /*@ saves_pstate_or_off_for_next_interval */
    __CPROVER_ensures(WF_HE) /*@ update_keeps_wf */;

/* link power: idle + (busy - idle) * usage fraction */
double LinkEnergy__get_power(struct LinkEnergy* self)
    __CPROVER_requires(self == &g_le && g_le.link_ == &g_link && vf_exc == 0 && NONNEG(g_le.idle_) && NONNEG(g_le.busy_) &&
                       g_le.idle_ <= g_le.busy_ && NONNEG(g_link_load) && FIN(g_link_bw) && g_link_bw > 0.0 &&
                       g_link_load <= g_link_bw)
    REC_LP
    __CPROVER_ensures(vf_exc == 0) REC_LP_ENS
    __CPROVER_ensures(g_le.inited_ || __CPROVER_return_value == 0.0) /*@ link_not_inited_is_zero */
    __CPROVER_ensures(!g_le.inited_ ||
                      __CPROVER_return_value == g_le.idle_ + (g_le.busy_ - g_le.idle_) * (g_link_load / g_link_bw))
    /*@ link_power_is_idle_plus_slope_times_usage */
    __CPROVER_ensures(__CPROVER_return_value >= 0.0) /*@ link_power_non_negative */;

#define LOLD_LAST __CPROVER_old(g_le.last_updated_)
#define LOLD_TOTAL __CPROVER_old(g_le.total_energy_)
#define LINK_POWER (g_le.idle_ + (g_le.busy_ - g_le.idle_) * (g_link_load / g_link_bw))
void LinkEnergy__update(struct LinkEnergy* self)
    __CPROVER_requires(self == &g_le && g_le.link_ == &g_link && vf_exc == 0 && NONNEG(g_le.idle_) && NONNEG(g_le.busy_) &&
                       g_le.idle_ <= g_le.busy_ && g_le.busy_ <= 1e300 && g_init_busy <= 1e300 && NONNEG(g_init_idle) && NONNEG(g_init_busy) && g_init_idle <= g_init_busy &&
                       NONNEG(g_link_load) && FIN(g_link_bw) && g_link_bw > 0.0 && g_link_load <= g_link_bw &&
                       FIN(g_clock) && FIN(g_le.last_updated_) && g_le.last_updated_ <= g_clock &&
                       FIN(g_clock - g_le.last_updated_) && NONNEG(g_le.total_energy_))
    __CPROVER_assigns(g_le.inited_, g_le.idle_, g_le.busy_, g_le.total_energy_, g_le.last_updated_)
    __CPROVER_ensures(vf_exc == 0 && g_le.inited_)
#ifdef LINK_INTEGRATION /* UNDECIDED (time-out on every back end, as for HostEnergy::update): NOT claimed */
    __CPROVER_ensures(g_le.total_energy_ == LOLD_TOTAL + LINK_POWER * (g_clock - LOLD_LAST))
    /*@ link_energy_integrates_power_over_elapsed_time */
#endif
    __CPROVER_ensures(g_le.last_updated_ == g_clock)   /*@ link_update_advances_last_update */
    __CPROVER_ensures(g_le.total_energy_ >= LOLD_TOTAL) /*@ link_energy_never_decreases */
    __CPROVER_ensures(!__CPROVER_old(g_le.inited_) ||
                      (g_le.idle_ == __CPROVER_old(g_le.idle_) && g_le.busy_ == __CPROVER_old(g_le.busy_)))
    /*@ link_inited_keeps_power_values */;

#include "gen.c"

/* ---------------- harnesses ---------------------------------------------------------------------------------- */
double nondet_double(void);
int nondet_int(void);
unsigned long nondet_ulong(void);
_Bool nondet_bool(void);

static void setup(void)
{
  for (int k = 0; k < NPST; k++) {
    g_ranges[k].idle_    = nondet_double();
    g_ranges[k].epsilon_ = nondet_double();
    g_ranges[k].max_     = nondet_double();
    g_ranges[k].slope_   = nondet_double();
  }
  g_he.host_                        = &g_host;
  g_he.pstate_off_                  = -1; /* `const int pstate_off_ = -1;` in the class */
  g_he.pstate_                      = PSTK; /* see PSTK */
  g_he.watts_off_                   = nondet_double();
  g_he.total_energy_                = nondet_double();
  g_he.last_updated_                = nondet_double();
  g_he.host_was_used_               = nondet_bool();
  g_he.has_pstate_power_values_     = nondet_bool();
  g_he.power_range_watts_list_.d    = g_ranges;
  g_he.power_range_watts_list_.h    = 0;
  g_he.power_range_watts_list_.cap  = NPST;
  g_npst                            = nondet_ulong();
  g_he.power_range_watts_list_.n    = nondet_ulong();
  g_clock                           = nondet_double();
  g_on                              = nondet_bool();
  g_pstate                          = nondet_ulong();
  g_speed                           = nondet_double();
  g_load                            = nondet_double();
  g_cores                           = nondet_int();
  g_speed_calls                     = 0;
  g_le.link_                        = &g_link;
  g_le.inited_                      = nondet_bool();
  g_le.idle_                        = nondet_double();
  g_le.busy_                        = nondet_double();
  g_le.total_energy_                = nondet_double();
  g_le.last_updated_                = nondet_double();
  g_link_load                       = nondet_double();
  g_link_bw                         = nondet_double();
  g_init_idle                       = nondet_double();
  g_init_busy                       = nondet_double();
  vf_exc                            = 0;
}

#ifdef H_power_range
void harness(void)
{
  struct PowerRange* r;
  PowerRange__ctor(r, nondet_double(), nondet_double(), nondet_double());
  VF_CANARY_POINT;
}
#endif
#ifdef HK_watts_at
void harness(void)
{
  setup();
  HostEnergy__get_current_watts_value_at(&g_he, nondet_double());
  VF_CANARY_POINT;
}
#endif
#ifdef HK_watts
void harness(void)
{
  setup();
  HostEnergy__get_current_watts_value(&g_he);
  VF_CANARY_POINT;
}
#endif
#ifdef HK_update
void harness(void)
{
  setup();
  HostEnergy__update(&g_he);
  VF_CANARY_POINT;
}
#endif
#ifdef H_link_power
void harness(void)
{
  setup();
  LinkEnergy__get_power(&g_le);
  VF_CANARY_POINT;
}
#endif
#ifdef H_link_update
void harness(void)
{
  setup();
  LinkEnergy__update(&g_le);
  VF_CANARY_POINT;
}
#endif
