#include <mpi.h>
#include <stdio.h>
int main(int argc, char** argv)
{
  MPI_Init(&argc, &argv);
  MPI_Datatype old, t;
  MPI_Aint lb, ex;
  int fails = 0;
  MPI_Type_create_resized(MPI_DOUBLE, 4, 8, &old); /* lb 4, ub 12, extent 8, size 8 */
  int bls[1] = {2};
  MPI_Aint dsp[1] = {0};
  int idx[1] = {0};
  MPI_Type_create_hindexed(1, bls, dsp, old, &t);
  MPI_Type_get_extent(t, &lb, &ex);
  printf("hindexed(1,{2},{0}) over resized(DOUBLE,lb=4,extent=8): lb=%ld ub=%ld (MPI: lb=4 ub=20)\n", (long)lb, (long)(lb + ex));
  fails += (lb != 4 || lb + ex != 20);
  MPI_Type_indexed(1, bls, idx, old, &t);
  MPI_Type_get_extent(t, &lb, &ex);
  printf("indexed(1,{2},{0}) over the same: lb=%ld ub=%ld (MPI: lb=4 ub=20)\n", (long)lb, (long)(lb + ex));
  fails += (lb != 4 || lb + ex != 20);
  MPI_Type_vector(2, 2, 3, old, &t);
  MPI_Type_get_extent(t, &lb, &ex);
  printf("vector(2,2,3) over the same: lb=%ld ub=%ld (MPI: lb=4 ub=%d)\n", (long)lb, (long)(lb + ex), 3 * 8 + 8 + 12);
  fails += (lb != 4 || lb + ex != 44);
  MPI_Finalize();
  return fails ? 1 : 0;
}
