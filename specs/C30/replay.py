import os, subprocess


def replay(violation, inputs, workdir, repo):
    """End-to-end replay through the public MPI API: a tiny MPI program (replay_mpi.c) built with the tree's smpicc and run
    with smpirun prints lb/ub of indexed / hindexed / vector types over a resized MPI_DOUBLE and exits 1 on a mismatch
    with MPI-3.1 4.1.7. Uses the build tree /repo/_build (library as last built), not a recompilation of the TU."""
    here = os.path.dirname(os.path.abspath(__file__))
    os.makedirs(workdir, exist_ok=True)
    bindir = "/repo/_build/smpi_script/bin"
    # serialize / unserialize obligations: native_pack.c (MPI_Pack of 2 copies of small layouts); lb/ub ones: replay_mpi.c
    prog = "native_pack" if "serialize" in violation.get("label", "") else "replay_mpi"
    exe = os.path.join(workdir, prog)
    p = subprocess.run([bindir + "/smpicc", os.path.join(here, prog + ".c"), "-o", exe], capture_output=True, text=True)
    if p.returncode != 0:
        return {"reproduced": False, "error": "smpicc failed: " + p.stderr[-800:]}
    hf = os.path.join(workdir, "hostfile")
    open(hf, "w").write("Tremblay\n")
    q = subprocess.run([bindir + "/smpirun", "-np", "1", "-platform", "/repo/examples/platforms/small_platform.xml",
                        "-hostfile", hf, exe], capture_output=True, text=True, timeout=300)
    out = "\n".join(l for l in (q.stdout + q.stderr).split("\n") if "over" in l or "MPI:" in l)
    return {"reproduced": q.returncode != 0 and "MPI:" in out, "exit": q.returncode, "output": out[-2000:],
            "driver": os.path.join(here, prog + ".c")}
