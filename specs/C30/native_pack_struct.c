/* Native reproduction for Type_Struct::serialize / unserialize (C30), MPI_Pack AND MPI_Unpack of 2 copies.
 * Build and run:   /repo/_build/smpi_script/bin/smpicc native_pack_struct.c -o native_pack_struct
 *                  echo Tremblay > hf
 *                  /repo/_build/smpi_script/bin/smpirun -np 1 -platform /repo/examples/platforms/small_platform.xml -hostfile hf ./native_pack_struct
 * Before the repair cc827e1571: struct{bl 1,1; disp 4,0} packed 4 0 1 1 (MPI: 4 0 9 5) and unpacked to offsets 1 4 only;
 * struct{bl 1,1; disp 1,3} packed 1 3 4 7 (MPI: 1 3 4 6). Exits 1 on a mismatch. */
#include <mpi.h>
#include <stdio.h>
static int run(const char* what, MPI_Datatype t, int count, const int* expect, int nexp)
{
  unsigned char src[256], dst[256];
  for (int i = 0; i < 256; i++) { src[i] = (unsigned char)i; dst[i] = 0xff; }
  int pos = 0;
  MPI_Type_commit(&t);
  MPI_Aint lb, ex; MPI_Type_get_extent(t, &lb, &ex);
  int sz; MPI_Type_size(t, &sz);
  MPI_Pack(src, count, t, dst, 256, &pos, MPI_COMM_WORLD);
  int bad = (pos != nexp);
  printf("%s count=%d lb=%ld extent=%ld size=%d packed %d bytes:", what, count, (long)lb, (long)ex, sz, pos);
  for (int i = 0; i < pos; i++) { printf(" %d", dst[i]); if (i < nexp && dst[i] != expect[i]) bad = 1; }
  printf("   (MPI:");
  for (int i = 0; i < nexp; i++) printf(" %d", expect[i]);
  printf(") %s\n", bad ? "MISMATCH" : "ok");
  /* and back: unpack into a zeroed buffer, compare positions */
  unsigned char back[256]; for (int i = 0; i < 256; i++) back[i] = 0;
  int p2 = 0; MPI_Unpack(dst, pos, &p2, back, count, t, MPI_COMM_WORLD);
  int badu = 0; printf("   unpack wrote at:");
  for (int i = 0; i < 64; i++) if (back[i]) printf(" %d", i);
  for (int i = 0; i < nexp; i++) if (expect[i] != 0 && back[expect[i]] != expect[i]) badu = 1;
  printf(" %s\n", badu ? "MISMATCH" : "ok");
  return bad || badu;
}
int main(int argc, char** argv)
{
  MPI_Init(&argc, &argv);
  int fails = 0;
  MPI_Datatype t;
  MPI_Datatype types[2] = {MPI_BYTE, MPI_BYTE};
  { int bls[2] = {1, 1}; MPI_Aint dsp[2] = {4, 0};
    MPI_Type_create_struct(2, bls, dsp, types, &t);
    int e[4] = {4, 0, 9, 5};
    fails += run("struct{bl 1,1; disp 4,0}", t, 2, e, 4); }
  { int bls[2] = {1, 1}; MPI_Aint dsp[2] = {1, 3};
    MPI_Type_create_struct(2, bls, dsp, types, &t);
    int e[4] = {1, 3, 4, 6};
    fails += run("struct{bl 1,1; disp 1,3}", t, 2, e, 4); }
  { int bls[2] = {1, 2}; MPI_Aint dsp[2] = {0, 3};
    MPI_Type_create_struct(2, bls, dsp, types, &t);
    int e[6] = {0, 3, 4, 5, 8, 9};
    fails += run("struct{bl 1,2; disp 0,3}", t, 2, e, 6); }
  MPI_Finalize();
  return fails ? 1 : 0;
}
