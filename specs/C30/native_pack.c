/* Native reproduction for the serialize part of C30 (kept under /verif; used by replay.py for "serialize" obligations).
 * Build and run:   /repo/_build/smpi_script/bin/smpicc native_pack.c -o native_pack
 *                  echo Tremblay > hf
 *                  /repo/_build/smpi_script/bin/smpirun -np 1 -platform /repo/examples/platforms/small_platform.xml -hostfile hf ./native_pack
 * MPI_Pack of `count` = 2 copies of hindexed / hvector / struct types over byte-sized cells: prints which source bytes
 * arrive, and exits 1 on a mismatch with MPI-3.1 4.1 (copy j starts j * extent after copy 0).
 * Before the repairs e030d1a091 / 00b7ddbf3a / cc827e1571: hindexed{1,1;1,3} 1 3 4 7 (MPI 1 3 4 6), hindexed{1,1;4,0}
 * 4 0 1 1 (MPI 4 0 9 5), hvector(2,1,3) over resized(BYTE,0,2) 0 3 4 7 (MPI 0 3 5 8), struct like hindexed. */
#include <mpi.h>
#include <stdio.h>
#include <string.h>
/* MPI_Pack of `count` copies of a derived type over MPI_BYTE-sized cells: prints which source bytes arrive */
static int run(const char* what, MPI_Datatype t, int count, const int* expect, int nexp)
{
  unsigned char src[256], dst[256];
  for (int i = 0; i < 256; i++) { src[i] = (unsigned char)i; dst[i] = 0xff; }
  int pos = 0;
  MPI_Type_commit(&t);
  MPI_Aint lb, ex; MPI_Type_get_extent(t, &lb, &ex);
  int sz; MPI_Type_size(t, &sz);
  MPI_Pack(src, count, t, dst, 256, &pos, MPI_COMM_WORLD);
  int bad = (pos != nexp);
  printf("%s count=%d lb=%ld extent=%ld size=%d packed %d bytes:", what, count, (long)lb, (long)ex, sz, pos);
  for (int i = 0; i < pos; i++) { printf(" %d", dst[i]); if (i < nexp && dst[i] != expect[i]) bad = 1; }
  printf("   (MPI:");
  for (int i = 0; i < nexp; i++) printf(" %d", expect[i]);
  printf(") %s\n", bad ? "MISMATCH" : "ok");
  return bad;
}
int main(int argc, char** argv)
{
  MPI_Init(&argc, &argv);
  int fails = 0;
  MPI_Datatype t;
  { /* hindexed, 2 blocks of 1 byte at displacements 1 and 3: lb=1, ub=4, extent=3: copy 1 starts at base+3 */
    int bls[2] = {1, 1}; MPI_Aint dsp[2] = {1, 3};
    MPI_Type_create_hindexed(2, bls, dsp, MPI_BYTE, &t);
    int e[4] = {1, 3, 4, 6};
    fails += run("hindexed{bl 1,1; disp 1,3}", t, 2, e, 4);
  }
  { /* hindexed, displacement 0 first, ascending: the layout the code handles */
    int bls[2] = {1, 2}; MPI_Aint dsp[2] = {0, 3};
    MPI_Type_create_hindexed(2, bls, dsp, MPI_BYTE, &t);
    int e[6] = {0, 3, 4, 5, 8, 9};
    fails += run("hindexed{bl 1,2; disp 0,3}", t, 2, e, 6);
  }
  { /* hindexed, descending displacements: lb=0, ub=5, extent 5 */
    int bls[2] = {1, 1}; MPI_Aint dsp[2] = {4, 0};
    MPI_Type_create_hindexed(2, bls, dsp, MPI_BYTE, &t);
    int e[4] = {4, 0, 9, 5};
    fails += run("hindexed{bl 1,1; disp 4,0}", t, 2, e, 4);
  }
  { /* hindexed with an empty block in the middle */
    int bls[3] = {1, 0, 1}; MPI_Aint dsp[3] = {0, 2, 4};
    MPI_Type_create_hindexed(3, bls, dsp, MPI_BYTE, &t);
    int e[4] = {0, 4, 5, 9};
    fails += run("hindexed{bl 1,0,1; disp 0,2,4}", t, 2, e, 4);
  }
  { /* hvector 2 blocks of 1, stride 3, over a resized byte with extent 2: extent = 3 + 2 = 5 */
    MPI_Datatype old; MPI_Type_create_resized(MPI_BYTE, 0, 2, &old);
    MPI_Type_create_hvector(2, 1, 3, old, &t);
    int e[4] = {0, 3, 5, 8};
    fails += run("hvector(2,1,3) over resized(BYTE,0,2)", t, 2, e, 4);
  }
  { /* hvector 2 blocks of 1 byte, stride 3: extent 4 */
    MPI_Type_create_hvector(2, 1, 3, MPI_BYTE, &t);
    int e[4] = {0, 3, 4, 7};
    fails += run("hvector(2,1,3) over BYTE", t, 2, e, 4);
  }
  MPI_Datatype types[2] = {MPI_BYTE, MPI_BYTE};
  { int bls[2] = {1, 1}; MPI_Aint dsp[2] = {4, 0};
    MPI_Type_create_struct(2, bls, dsp, types, &t);
    int e[4] = {4, 0, 9, 5};
    fails += run("struct{bl 1,1; disp 4,0}", t, 2, e, 4); }
  { int bls[2] = {1, 1}; MPI_Aint dsp[2] = {1, 3};
    MPI_Type_create_struct(2, bls, dsp, types, &t);
    int e[4] = {1, 3, 4, 6};
    fails += run("struct{bl 1,1; disp 1,3}", t, 2, e, 4); }
  { int bls[2] = {1, 2}; MPI_Aint dsp[2] = {0, 3};
    MPI_Type_create_struct(2, bls, dsp, types, &t);
    int e[6] = {0, 3, 4, 5, 8, 9};
    fails += run("struct{bl 1,2; disp 0,3}", t, 2, e, 6); }
  MPI_Finalize();
  return fails ? 1 : 0;
}
