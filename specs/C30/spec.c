/* C30 — derived datatypes: size / lower bound / upper bound arithmetic of the create_* constructors.
 * Contracts on the real Datatype::create_contiguous / create_vector / create_hvector / create_indexed / create_hindexed /
 * create_resized (extracted by cxx2c into gen.c). MPI-3.1 4.1: for a type built from blocks (disp_i, bl_i) of an old type
 * with lower bound lb_o, upper bound ub_o, extent ex = ub_o - lb_o:   size = sum bl_i * size_o,
 *   lb = min_i (disp_i + lb_o),   ub = max_i (disp_i + (bl_i - 1) * ex + ub_o)   over the non-empty blocks; 0,0 if none.
 * Second part (further down): byte-exact transfer of Type_Hindexed / Type_Hvector / Type_Struct ::serialize / unserialize,
 * observed through a ghost log of the leaf transfers (memcpy, nested (un)serialize, Op::apply).                        */
#include "gen.h"

#define SUCCESS 0
#define ERR_ARG ERROR_ENUM__MPI_ERR_ARG
#define DERIVED VFC_DT_FLAG_DERIVED

/* value bounds of the model (keep the multiplications decidable): stated in check.json */
#ifndef VMAX
#define VMAX 4096 /* |lb|, ub, size of the old type, byte displacements */
#endif
#define CMAX 5    /* counts 0..5 (the property's own domain) */
#ifndef BMAX
#define BMAX 16 /* block lengths, element strides / displacements */
#endif

/* ---------------- state ------------------------------------------------------------------------------------------ */
struct Datatype g_old;  /* the old type */
struct Datatype* g_out; /* where the constructors store the new type */
/* operator new of each datatype class hands out one designated object; its constructor is ASSUMED to store
 * (size, lb, ub, flags) in the Datatype base, as Datatype::Datatype(int size, MPI_Aint lb, MPI_Aint ub, int flags) does */
struct Datatype g_nd;
struct Type_Contiguous g_nc;
struct Type_Vector g_nv;
struct Type_Hvector g_nh;
struct Type_Struct g_ns;
struct Type_Indexed g_ni;
struct Type_Hindexed g_nhi;
int g_bls[CMAX], g_idx[CMAX]; /* block lengths, element displacements */
long g_disp[CMAX];           /* byte displacements */

#define STORED(d) ((d)->size_ == (unsigned long)size && (d)->lb_ == lb && (d)->ub_ == ub && (d)->flags_ == flags)
struct Datatype* Datatype__new(int size, long lb, long ub, int flags)
    __CPROVER_requires(size >= 0) __CPROVER_assigns(g_nd) __CPROVER_ensures(__CPROVER_return_value == &g_nd && STORED(&g_nd));
struct Type_Contiguous* Type_Contiguous__new(int size, long lb, long ub, int flags, int count, struct Datatype* old)
    __CPROVER_requires(size >= 0) __CPROVER_assigns(g_nc)
    __CPROVER_ensures(__CPROVER_return_value == &g_nc && STORED(&g_nc.__b_Datatype));
struct Type_Vector* Type_Vector__new(int size, long lb, long ub, int flags, int count, int bl, int stride, struct Datatype* old)
    __CPROVER_requires(size >= 0) __CPROVER_assigns(g_nv)
    __CPROVER_ensures(__CPROVER_return_value == &g_nv && STORED(&g_nv.__b_Type_Hvector.__b_Datatype));
struct Type_Hvector* Type_Hvector__new(int size, long lb, long ub, int flags, int count, int bl, long stride, struct Datatype* old)
    __CPROVER_requires(size >= 0) __CPROVER_assigns(g_nh)
    __CPROVER_ensures(__CPROVER_return_value == &g_nh && STORED(&g_nh.__b_Datatype));
struct Type_Struct* Type_Struct__new(int size, long lb, long ub, int flags, int count, int* bls, long* disps, struct Datatype** olds)
    __CPROVER_requires(size >= 0) __CPROVER_assigns(g_ns)
    __CPROVER_ensures(__CPROVER_return_value == &g_ns && STORED(&g_ns.__b_Datatype));
struct Type_Indexed* Type_Indexed__new(int size, long lb, long ub, int flags, int count, int* bls, int* idx, struct Datatype* old)
    __CPROVER_requires(size >= 0) __CPROVER_assigns(g_ni)
    __CPROVER_ensures(__CPROVER_return_value == &g_ni && STORED(&g_ni.__b_Type_Hindexed.__b_Datatype));
struct Type_Hindexed* Type_Hindexed__new(int size, long lb, long ub, int flags, int count, int* bls, long* disps, struct Datatype* old)
    __CPROVER_requires(size >= 0) __CPROVER_assigns(g_nhi)
    __CPROVER_ensures(__CPROVER_return_value == &g_nhi && STORED(&g_nhi.__b_Datatype));
void Datatype__set_contents(struct Datatype* self, int combiner, int ni, int* ints, int na, long* aints, int nt, struct Datatype** types)
    __CPROVER_requires(1) __CPROVER_assigns() __CPROVER_ensures(1);
void Datatype__set_contents_noaddr(struct Datatype* self, int combiner, int ni, int* ints, int na, void* aints, int nt, struct Datatype** types)
    __CPROVER_requires(1) __CPROVER_assigns() __CPROVER_ensures(1);

/* ---------------- the old type ------------------------------------------------------------------------------------- */
#define SZ_O ((long)g_old.size_)
#define LB_O (g_old.lb_)
#define UB_O (g_old.ub_)
#define EX_O (g_old.ub_ - g_old.lb_)
#define OLD_DERIVED ((((unsigned int)g_old.flags_) & DERIVED) != 0)
/* wf_Type: bounded values, lb <= ub; a type that is not derived is a basic type: lb 0, ub = extent = size */
#define WF_OLD                                                                                                         \
  (g_old.flags_ >= 0 && g_old.size_ <= VMAX && 0 <= LB_O && LB_O <= UB_O && UB_O <= VMAX && (OLD_DERIVED || (LB_O == 0 && UB_O == SZ_O)))
#define PRE (vf_exc == 0 && old_type == &g_old && new_type == &g_out && WF_OLD)
#define NEW_FRAME VF_PT(g_out) /* pointer target: see HOWTO, dfcc havocs pointer lvalues with one shared value */, g_nd, g_nc, g_nv, g_nh, g_ns, g_ni, g_nhi
/* the result is one of the designated objects; clauses are stated on those objects (a contract that is assumed at a call
 * site must not dereference the pointer it has just havocked) */
#define ON_RESULT(P)                                                                                                   \
  ((g_out == &g_nd && P((&g_nd))) || (g_out == &g_nc.__b_Datatype && P((&g_nc.__b_Datatype))) ||                      \
   (g_out == &g_nv.__b_Type_Hvector.__b_Datatype && P((&g_nv.__b_Type_Hvector.__b_Datatype))) ||                      \
   (g_out == &g_nh.__b_Datatype && P((&g_nh.__b_Datatype))) || (g_out == &g_ns.__b_Datatype && P((&g_ns.__b_Datatype))) ||                                                   \
   (g_out == &g_ni.__b_Type_Hindexed.__b_Datatype && P((&g_ni.__b_Type_Hindexed.__b_Datatype))) || (g_out == &g_nhi.__b_Datatype && P((&g_nhi.__b_Datatype))))

/* hvector(count, bl, stride in bytes): blocks at i*stride, i < count */
#define HV_SIZE(d) ((d)->size_ == (unsigned long)(count * block_length * SZ_O))
#define HV_EMPTY(d) (count != 0 || ((d)->lb_ == 0 && (d)->ub_ == 0))
#define HV_LB(d) (count == 0 || (d)->lb_ == LB_O)
#define HV_UB(d) (count == 0 || (d)->ub_ == (count - 1) * stride + (block_length - 1) * EX_O + UB_O)
int Datatype__create_hvector(int count, int block_length, long stride, struct Datatype* old_type, struct Datatype** new_type)
    __CPROVER_requires(PRE && 0 <= count && count <= CMAX * BMAX && block_length <= BMAX && block_length != 0 &&
                       0 <= stride && stride <= 2 * VMAX)
    __CPROVER_assigns(NEW_FRAME)
    __CPROVER_ensures(vf_exc == 0 && __CPROVER_return_value == (block_length < 0 ? ERR_ARG : SUCCESS))
    /*@ hvector_rejects_negative_block_length */
    __CPROVER_ensures(block_length < 0 || ON_RESULT(HV_SIZE)) /*@ hvector_size */
    __CPROVER_ensures(block_length < 0 || ON_RESULT(HV_EMPTY)) /*@ hvector_empty_has_zero_bounds */
    __CPROVER_ensures(block_length < 0 || ON_RESULT(HV_LB)) /*@ hvector_lb_is_lb_of_first_block */
    __CPROVER_ensures(block_length < 0 || ON_RESULT(HV_UB)) /*@ hvector_ub_is_ub_of_last_element_of_last_block */;

/* vector(count, bl, stride in elements) */
#define V_UB(d) (count == 0 || (d)->ub_ == (long)(count - 1) * stride * EX_O + (block_length - 1) * EX_O + UB_O)
int Datatype__create_vector(int count, int block_length, int stride, struct Datatype* old_type, struct Datatype** new_type)
    __CPROVER_requires(PRE && 0 <= count && count <= CMAX && block_length <= BMAX && block_length != 0 && 0 <= stride &&
                       stride <= BMAX)
    __CPROVER_assigns(NEW_FRAME)
    __CPROVER_ensures(vf_exc == 0 && __CPROVER_return_value == (block_length < 0 ? ERR_ARG : SUCCESS))
    /*@ vector_rejects_negative_block_length */
    __CPROVER_ensures(block_length < 0 || ON_RESULT(HV_SIZE)) /*@ vector_size */
    __CPROVER_ensures(block_length < 0 || ON_RESULT(HV_EMPTY)) /*@ vector_empty_has_zero_bounds */
    __CPROVER_ensures(block_length < 0 || ON_RESULT(HV_LB)) /*@ vector_lb_is_lb_of_first_block */
    __CPROVER_ensures(block_length < 0 || ON_RESULT(V_UB)) /*@ vector_ub_is_ub_of_last_element_of_last_block */;

/* contiguous(count) placed at byte offset lb (0 from MPI_Type_contiguous): count copies, one extent apart */
#define C_SIZE(d) ((d)->size_ == (unsigned long)(count * SZ_O))
#define C_EMPTY(d) (count != 0 || ((d)->ub_ == (d)->lb_ && (OLD_DERIVED || (d)->lb_ == lb)))
#define C_BOUNDS(d) (count == 0 || ((d)->lb_ == lb + LB_O && (d)->ub_ == lb + (count - 1) * EX_O + UB_O))
int Datatype__create_contiguous(int count, struct Datatype* old_type, long lb, struct Datatype** new_type)
    __CPROVER_requires(PRE && 0 <= count && count <= CMAX * BMAX && 0 <= lb && lb <= 2 * VMAX * BMAX && (!OLD_DERIVED || lb == 0))
    __CPROVER_assigns(NEW_FRAME)
    __CPROVER_ensures(vf_exc == 0 && __CPROVER_return_value == SUCCESS)
    __CPROVER_ensures(ON_RESULT(C_SIZE)) /*@ contiguous_size */
    __CPROVER_ensures(ON_RESULT(C_EMPTY)) /*@ contiguous_empty_has_no_extent */
    __CPROVER_ensures(ON_RESULT(C_BOUNDS)) /*@ contiguous_bounds_span_count_extents */;

/* resized(old, lb, extent): same data, bounds forced */
#define RS_BOUNDS(d) ((d)->size_ == g_old.size_ && (d)->lb_ == lb && (d)->ub_ == lb + extent)
#define RS_FLAGS(d) ((((unsigned int)(d)->flags_) & DERIVED) != 0 && (((unsigned int)(d)->flags_) & VFC_DT_FLAG_COMMITED) == 0)
int Datatype__create_resized(struct Datatype* oldtype, long lb, long extent, struct Datatype** newtype)
    __CPROVER_requires(vf_exc == 0 && oldtype == &g_old && newtype == &g_out && WF_OLD && -VMAX <= lb && lb <= VMAX &&
                       0 <= extent && extent <= VMAX)
    __CPROVER_assigns(NEW_FRAME)
    __CPROVER_ensures(vf_exc == 0 && __CPROVER_return_value == SUCCESS)
    __CPROVER_ensures(ON_RESULT(RS_BOUNDS)) /*@ resized_keeps_size_forces_bounds */
    __CPROVER_ensures(ON_RESULT(RS_FLAGS)) /*@ resized_is_derived_and_not_committed */;

/* indexed(count, bls, idx in elements) / hindexed(count, bls, disp in bytes): block k at DISP(k), bls[k] >= 1 elements.
 * MPI-3.1 4.1.7: lb = min_k (DISP(k) + lb_o), ub = max_k (DISP(k) + (bls[k]-1)*ex + ub_o); stated as "a lower bound of all
 * blocks, attained by one of them" (resp. upper bound).                                                                */
#define ALL5A(P, a) (P(0, a) && P(1, a) && P(2, a) && P(3, a) && P(4, a))
#define ANY5A(P, a) (P(0, a) || P(1, a) || P(2, a) || P(3, a) || P(4, a))
#define ALL5(P) (P(0) && P(1) && P(2) && P(3) && P(4))
#define SUMBL ((0 < count ? g_bls[0] : 0) + (1 < count ? g_bls[1] : 0) + (2 < count ? g_bls[2] : 0) + (3 < count ? g_bls[3] : 0) + (4 < count ? g_bls[4] : 0))
#define X_SIZE(d) ((d)->size_ == (unsigned long)(SUMBL * SZ_O))
#define X_EMPTY(d) (count != 0 || ((d)->lb_ == 0 && (d)->ub_ == 0))
#define BLS_OK(k) (!((k) < count) || (1 <= g_bls[k] && g_bls[k] <= BMAX))

#define IX_DISP(k) ((long)g_idx[k] * EX_O)
#define IX_BLK_LB(k) (IX_DISP(k) + LB_O)
#define IX_BLK_UB(k) (IX_DISP(k) + (long)(g_bls[k] - 1) * EX_O + UB_O)
#define IX_LB_LE(k, d) (!((k) < count) || (d)->lb_ <= IX_BLK_LB(k))
#define IX_LB_EQ(k, d) ((k) < count && (d)->lb_ == IX_BLK_LB(k))
#define IX_UB_GE(k, d) (!((k) < count) || (d)->ub_ >= IX_BLK_UB(k))
#define IX_UB_EQ(k, d) ((k) < count && (d)->ub_ == IX_BLK_UB(k))
#define IX_LB(d) (count == 0 || (ALL5A(IX_LB_LE, d) && ANY5A(IX_LB_EQ, d)))
#define IX_UB(d) (count == 0 || (ALL5A(IX_UB_GE, d) && ANY5A(IX_UB_EQ, d)))
#define IX_DISP_OK(k) (!((k) < count) || (0 <= g_idx[k] && g_idx[k] <= BMAX))
int Datatype__create_indexed(int count, int* block_lengths, int* indices, struct Datatype* old_type, struct Datatype** new_type)
    __CPROVER_requires(PRE && 0 <= count && count <= CMAX && block_lengths == g_bls && indices == g_idx && ALL5(BLS_OK) &&
                       ALL5(IX_DISP_OK))
    __CPROVER_assigns(NEW_FRAME)
    __CPROVER_ensures(vf_exc == 0 && __CPROVER_return_value == SUCCESS)
    __CPROVER_ensures(ON_RESULT(X_SIZE)) /*@ indexed_size_is_sum_of_blocks */
    __CPROVER_ensures(ON_RESULT(X_EMPTY)) /*@ indexed_empty_has_zero_bounds */
    /*@ indexed_lb_is_min_over_blocks_of_disp_plus_old_lb (cbmc attributes this clause to the line before it) */
    __CPROVER_ensures(ON_RESULT(IX_LB))
    /*@ indexed_lb_is_min_over_blocks_of_disp_plus_old_lb */

    __CPROVER_ensures(ON_RESULT(IX_UB))
    /*@ indexed_ub_is_max_over_blocks_of_last_element_ub */;

#define HX_DISP(k) (g_disp[k])
#define HX_BLK_LB(k) (HX_DISP(k) + LB_O)
#define HX_BLK_UB(k) (HX_DISP(k) + (long)(g_bls[k] - 1) * EX_O + UB_O)
#define HX_LB_LE(k, d) (!((k) < count) || (d)->lb_ <= HX_BLK_LB(k))
#define HX_LB_EQ(k, d) ((k) < count && (d)->lb_ == HX_BLK_LB(k))
#define HX_UB_GE(k, d) (!((k) < count) || (d)->ub_ >= HX_BLK_UB(k))
#define HX_UB_EQ(k, d) ((k) < count && (d)->ub_ == HX_BLK_UB(k))
#define HX_LB(d) (count == 0 || (ALL5A(HX_LB_LE, d) && ANY5A(HX_LB_EQ, d)))
#define HX_UB(d) (count == 0 || (ALL5A(HX_UB_GE, d) && ANY5A(HX_UB_EQ, d)))
#define HX_DISP_OK(k) (!((k) < count) || (0 <= g_disp[k] && g_disp[k] <= VMAX))
int Datatype__create_hindexed(int count, int* block_lengths, long* indices, struct Datatype* old_type, struct Datatype** new_type)
    __CPROVER_requires(PRE && 0 <= count && count <= CMAX && block_lengths == g_bls && indices == g_disp && ALL5(BLS_OK) &&
                       ALL5(HX_DISP_OK))
    __CPROVER_assigns(NEW_FRAME)
    __CPROVER_ensures(vf_exc == 0 && __CPROVER_return_value == SUCCESS)
    __CPROVER_ensures(ON_RESULT(X_SIZE)) /*@ hindexed_size_is_sum_of_blocks */
    __CPROVER_ensures(ON_RESULT(X_EMPTY)) /*@ hindexed_empty_has_zero_bounds */
    /*@ hindexed_lb_is_min_over_blocks_of_disp_plus_old_lb (cbmc attributes this clause to the line before it) */
    __CPROVER_ensures(ON_RESULT(HX_LB))
    /*@ hindexed_lb_is_min_over_blocks_of_disp_plus_old_lb */

    __CPROVER_ensures(ON_RESULT(HX_UB))
    /*@ hindexed_ub_is_max_over_blocks_of_last_element_ub */;

/* ==================== serialize / unserialize (byte-exact transfer part of the property) =============================
 * Type_Hindexed::serialize / unserialize (inherited by Type_Indexed), Type_Hvector::serialize / unserialize (inherited by
 * Type_Vector). MPI-3.1 4.1 / 4.2: `count` copies of the type, copy c placed c * extent(type) after copy 0; inside a copy,
 * block k holds bl_k elements of the old type at byte displacement disp_k; the contiguous side receives the blocks in
 * order, without gaps.
 * The leaf transfers are NOT executed: memcpy (old type basic), Datatype::serialize / unserialize (old type derived) and
 * Op::apply (unserialize, old type basic) are STUBS that log the transfer. For ONE contiguous byte g_D chosen by ghost
 * parameters (copy g_c, block g_k, byte g_b of the block) the log records how many transfers cover it and from / to which
 * noncontiguous offset; the contract states: exactly one transfer covers it, and it pairs it with noncontiguous offset
 *     g_c * extent + disp[g_k] + g_b.
 * Tiny but SYMBOLIC sizes: block_count 1..SBC(3), count 0..SCNT(2), block lengths 0..SBL (EMPTY BLOCKS INCLUDED),
 * displacements 0..SDISP, old type of size/extent 1..SV; loops closed by complete unwinding for those bounds.          */
#define SBC 3
#define SCNT 2
#ifndef SBL
#define SBL 2
#endif
#ifndef SDISP
#define SDISP 16
#endif
#ifndef SV
#define SV 4
#endif
#define NCB 256
#define CTB 128
char g_nbuf[NCB]; /* the noncontiguous (user) buffer: never dereferenced, only offsets into it are observed */
char g_cbuf[CTB]; /* the contiguous (packed) buffer */
struct Type_Hindexed g_hx;
struct Type_Hvector g_hv;
struct Op g_op;
int g_sbl[SBC];   /* block lengths of g_hx */
long g_sdisp[SBC]; /* byte displacements of g_hx */
/* ghost parameters: copy, block, byte inside the block; g_D = the contiguous byte they designate */
int g_c, g_k;
unsigned long g_b, g_D;
/* transfer log (written by the stubs) */
int g_hits;            /* transfers covering contiguous byte g_D */
unsigned long g_nc_off; /* noncontiguous offset handed to the covering transfer */
unsigned long g_rel;   /* position of g_D inside the covering transfer */
int g_kind, g_cnt;     /* 1 = memcpy / Op::apply on a basic old type, 2 = nested (un)serialize of a derived old type; its count */
unsigned long g_total; /* contiguous bytes transferred so far */
_Bool g_bad;           /* a transfer did not start where the previous one ended, or used a foreign buffer */
#define LOG_FRAME g_hits, g_nc_off, g_rel, g_kind, g_cnt, g_total, g_bad

static void vf_xfer(const void* ct, const void* nc, unsigned long nbytes, int kind, int cnt)
{
  unsigned long ct_off = (unsigned long)__CPROVER_POINTER_OFFSET(ct);
  if (!__CPROVER_same_object(ct, g_cbuf) || !__CPROVER_same_object(nc, g_nbuf) || ct_off != g_total)
    g_bad = 1;
  if (ct_off <= g_D && g_D - ct_off < nbytes) {
    g_hits++;
    g_nc_off = (unsigned long)__CPROVER_POINTER_OFFSET(nc);
    g_rel    = g_D - ct_off;
    g_kind   = kind;
    g_cnt    = cnt;
  }
  g_total += nbytes;
}
/* STUBS (assumed): the leaves of the transfer */
void* vf_memcpy_log(void* dst, const void* src, unsigned long n)
{
  vf_xfer(dst, src, n, 1, 0);
  return dst;
}
void Datatype__serialize(struct Datatype* self, void* noncontiguous_buf, void* contiguous_buf, int count)
{
  vf_xfer(contiguous_buf, noncontiguous_buf, (unsigned long)count * self->size_, 2, count);
}
void Datatype__unserialize(struct Datatype* self, void* contiguous_buf, void* noncontiguous_buf, int count, struct Op* op)
{
  vf_xfer(contiguous_buf, noncontiguous_buf, (unsigned long)count * self->size_, 2, count);
}
void Op__apply(struct Op* self, void* invec, void* inoutvec, int* len, struct Datatype* datatype)
{
  vf_xfer(invec, inoutvec, (unsigned long)*len * datatype->size_, 1, 0);
}

/* the old type of the serialize harnesses: small, lb <= ub; basic types have lb 0 and extent = size */
#define SWF_OLD (g_old.flags_ >= 0 && 1 <= g_old.size_ && g_old.size_ <= SV && 0 <= LB_O && LB_O <= SV && LB_O < UB_O && UB_O <= LB_O + 2 * SV && (OLD_DERIVED || (LB_O == 0 && UB_O == SZ_O)))
/* the type itself carries the MPI extent of its layout (what a correct constructor stores): ub - lb == ext */
#define SELF_EXT(d, ext) (0 <= (d).lb_ && (d).lb_ <= 4 * SDISP && (d).ub_ == (d).lb_ + (ext))
#define LOG_EMPTY (g_hits == 0 && g_total == 0 && !g_bad && g_nc_off == 0 && g_rel == 0 && g_kind == 0 && g_cnt == 0)

/* ---- hindexed ---- */
#define HS_BC (g_hx.block_count_)
#define HS_BSZ(k) ((unsigned long)g_sbl[k] * g_old.size_)  /* contiguous bytes of block k */
#define HS_BEXT(k) ((long)g_sbl[k] * (UB_O - LB_O))         /* span of block k in the noncontiguous buffer */
#define HS_COPYSZ (HS_BSZ(0) + (1 < HS_BC ? HS_BSZ(1) : 0) + (2 < HS_BC ? HS_BSZ(2) : 0))
#define HS_PREF(k) (((k) > 0 ? HS_BSZ(0) : 0) + ((k) > 1 ? HS_BSZ(1) : 0))
#define HS_BLK_OK(k) (0 <= g_sbl[k] && g_sbl[k] <= SBL && 0 <= g_sdisp[k] && g_sdisp[k] <= SDISP)
#define HS_PRE                                                                                                         \
  (vf_exc == 0 && self == &g_hx && g_hx.block_indices_ == g_sdisp && g_hx.block_lengths_ == g_sbl && g_hx.old_type_ == &g_old &&   \
   1 <= HS_BC && HS_BC <= SBC && 0 <= count && count <= SCNT && HS_BLK_OK(0) && HS_BLK_OK(1) && HS_BLK_OK(2) && SWF_OLD && SELF_EXT(g_hx.__b_Datatype, HS_EXTENT) && LOG_EMPTY)
/* the ghost byte: copy g_c, block g_k, byte g_b of that block */
#define HS_GHOST                                                                                                       \
  (0 <= g_c && g_c < count && 0 <= g_k && g_k < HS_BC && g_b < HS_BSZ(g_k) && g_D == (g_c == 1 ? HS_COPYSZ : 0) + HS_PREF(g_k) + g_b)
/* MPI extent of the type: over the NON-EMPTY blocks, max (disp + bl * extent(old)) - min disp */
#define HS_HAS(k) ((k) < HS_BC && g_sbl[k] > 0)
#define HS_END(k) (g_sdisp[k] + HS_BEXT(k))
#define HS_IS_MIN(k) (HS_HAS(k) && (!HS_HAS(0) || g_sdisp[k] <= g_sdisp[0]) && (!HS_HAS(1) || g_sdisp[k] <= g_sdisp[1]) && (!HS_HAS(2) || g_sdisp[k] <= g_sdisp[2]))
#define HS_IS_MAX(k) (HS_HAS(k) && (!HS_HAS(0) || HS_END(k) >= HS_END(0)) && (!HS_HAS(1) || HS_END(k) >= HS_END(1)) && (!HS_HAS(2) || HS_END(k) >= HS_END(2)))
#define HS_MIN (HS_IS_MIN(0) ? g_sdisp[0] : HS_IS_MIN(1) ? g_sdisp[1] : g_sdisp[2])
#define HS_MAX (HS_IS_MAX(0) ? HS_END(0) : HS_IS_MAX(1) ? HS_END(1) : HS_END(2))
#define HS_EXTENT (HS_MAX - HS_MIN)
#define HS_NCPOS(ext) (g_nc_off + (g_kind == 1 ? g_rel : 0) == (unsigned long)((g_c == 1 ? (ext) : 0) + g_sdisp[g_k]) + (g_kind == 1 ? g_b : 0))
#define HS_KIND (g_kind == (OLD_DERIVED ? 2 : 1) && (g_kind == 1 || (g_cnt == g_sbl[g_k] && g_rel == g_b)))

void Type_Hindexed__serialize(struct Type_Hindexed* self, void* noncontiguous_buf, void* contiguous_buf, int count)
    __CPROVER_requires(HS_PRE && noncontiguous_buf == g_nbuf && contiguous_buf == g_cbuf && HS_GHOST)
    __CPROVER_assigns(LOG_FRAME)
    __CPROVER_ensures(vf_exc == 0)
    __CPROVER_ensures(g_hits == 1 && HS_KIND)
    /*@ hindexed_serialize_every_packed_byte_is_written_exactly_once_by_the_transfer_of_its_block */
    __CPROVER_ensures(!g_bad && g_total == (count >= 1 ? HS_COPYSZ : 0) + (count >= 2 ? HS_COPYSZ : 0))
    /*@ hindexed_serialize_fills_the_packed_buffer_in_order_without_gaps */
    __CPROVER_ensures(g_c != 0 || HS_NCPOS(0))
    /*@ hindexed_serialize_first_copy_takes_each_block_at_its_displacement */
    __CPROVER_ensures(HS_NCPOS(HS_EXTENT))
    /*@ hindexed_serialize_copy_c_lies_c_extents_after_copy_0 */;

void Type_Hindexed__unserialize(struct Type_Hindexed* self, void* contiguous_buf, void* noncontiguous_buf, int count, struct Op* op)
    __CPROVER_requires(HS_PRE && noncontiguous_buf == g_nbuf && contiguous_buf == g_cbuf && op == &g_op && HS_GHOST)
    __CPROVER_assigns(LOG_FRAME)
    __CPROVER_ensures(vf_exc == 0)
    __CPROVER_ensures(g_hits == 1 && HS_KIND)
    /*@ hindexed_unserialize_every_packed_byte_is_consumed_exactly_once_by_the_transfer_of_its_block */
    __CPROVER_ensures(!g_bad && g_total == (count >= 1 ? HS_COPYSZ : 0) + (count >= 2 ? HS_COPYSZ : 0))
    /*@ hindexed_unserialize_consumes_the_packed_buffer_in_order_without_gaps */
    __CPROVER_ensures(g_c != 0 || HS_NCPOS(0))
    /*@ hindexed_unserialize_first_copy_puts_each_block_at_its_displacement */
    __CPROVER_ensures(HS_NCPOS(HS_EXTENT))
    /*@ hindexed_unserialize_copy_c_lies_c_extents_after_copy_0 */;

/* ---- hvector: block_count blocks of block_length elements, block k at k * stride bytes ---- */
#define VS_BC (g_hv.block_count_)
#define VS_BL (g_hv.block_length_)
#define VS_ST (g_hv.block_stride_)
#define VS_BSZ ((unsigned long)VS_BL * g_old.size_)
#define VS_BEXT ((long)VS_BL * (UB_O - LB_O))
#define VS_COPYSZ (VS_BSZ + (1 < VS_BC ? VS_BSZ : 0) + (2 < VS_BC ? VS_BSZ : 0))
#define VS_PREF(k) (((k) > 0 ? VS_BSZ : 0) + ((k) > 1 ? VS_BSZ : 0))
#define VS_DISP(k) (((k) > 0 ? VS_ST : 0) + ((k) > 1 ? VS_ST : 0))
#define VS_PRE                                                                                                         \
  (vf_exc == 0 && self == &g_hv && g_hv.old_type_ == &g_old && 1 <= VS_BC && VS_BC <= SBC && 0 <= count && count <= SCNT &&     \
   0 <= VS_BL && VS_BL <= SBL && 0 <= VS_ST && VS_ST <= SDISP && SWF_OLD && SELF_EXT(g_hv.__b_Datatype, VS_EXTENT) && LOG_EMPTY)
#define VS_GHOST                                                                                                       \
  (0 <= g_c && g_c < count && 0 <= g_k && g_k < VS_BC && g_b < VS_BSZ && g_D == (g_c == 1 ? VS_COPYSZ : 0) + VS_PREF(g_k) + g_b)
/* MPI extent (stride >= 0, block_length > 0 since g_b < VS_BSZ): end of the last block */
#define VS_EXTENT (VS_DISP(VS_BC - 1) + VS_BEXT)
#define VS_NCPOS(ext) (g_nc_off + (g_kind == 1 ? g_rel : 0) == (unsigned long)((g_c == 1 ? (ext) : 0) + VS_DISP(g_k)) + (g_kind == 1 ? g_b : 0))
#define VS_KIND (g_kind == (OLD_DERIVED ? 2 : 1) && (g_kind == 1 || (g_cnt == VS_BL && g_rel == g_b)))
void Type_Hvector__serialize(struct Type_Hvector* self, void* noncontiguous_buf, void* contiguous_buf, int count)
    __CPROVER_requires(VS_PRE && noncontiguous_buf == g_nbuf && contiguous_buf == g_cbuf && VS_GHOST)
    __CPROVER_assigns(LOG_FRAME)
    __CPROVER_ensures(vf_exc == 0)
    __CPROVER_ensures(g_hits == 1 && VS_KIND)
    /*@ hvector_serialize_every_packed_byte_is_written_exactly_once_by_the_transfer_of_its_block */
    __CPROVER_ensures(!g_bad && g_total == (count >= 1 ? VS_COPYSZ : 0) + (count >= 2 ? VS_COPYSZ : 0))
    /*@ hvector_serialize_fills_the_packed_buffer_in_order_without_gaps */
    __CPROVER_ensures(g_c != 0 || VS_NCPOS(0))
    /*@ hvector_serialize_first_copy_takes_block_k_at_k_strides */
    __CPROVER_ensures(VS_NCPOS(VS_EXTENT))
    /*@ hvector_serialize_copy_c_lies_c_extents_after_copy_0 */;

void Type_Hvector__unserialize(struct Type_Hvector* self, void* contiguous_buf, void* noncontiguous_buf, int count, struct Op* op)
    __CPROVER_requires(VS_PRE && noncontiguous_buf == g_nbuf && contiguous_buf == g_cbuf && op == &g_op && VS_GHOST)
    __CPROVER_assigns(LOG_FRAME)
    __CPROVER_ensures(vf_exc == 0)
    __CPROVER_ensures(g_hits == 1 && VS_KIND)
    /*@ hvector_unserialize_every_packed_byte_is_consumed_exactly_once_by_the_transfer_of_its_block */
    __CPROVER_ensures(!g_bad && g_total == (count >= 1 ? VS_COPYSZ : 0) + (count >= 2 ? VS_COPYSZ : 0))
    /*@ hvector_unserialize_consumes_the_packed_buffer_in_order_without_gaps */
    __CPROVER_ensures(g_c != 0 || VS_NCPOS(0))
    /*@ hvector_unserialize_first_copy_puts_block_k_at_k_strides */
    __CPROVER_ensures(VS_NCPOS(VS_EXTENT))
    /*@ hvector_unserialize_copy_c_lies_c_extents_after_copy_0 */;

/* ---- struct: block k holds bl_k elements of ITS OWN old type at byte displacement disp_k. The extent is the one the type
 * carries (ub_ - lb_, whatever the constructor stored: MPI_LB / MPI_UB markers and alignment padding are not modelled):
 * copy c lies c stored extents after copy 0. ---- */
struct Type_Struct g_ts;
struct Datatype g_o0, g_o1, g_o2; /* the old types of the three blocks */
struct Datatype* g_olds[SBC];
#define O_SZ(k) ((k) == 0 ? g_o0.size_ : (k) == 1 ? g_o1.size_ : g_o2.size_)
#define O_DER(k) (((((unsigned int)((k) == 0 ? g_o0.flags_ : (k) == 1 ? g_o1.flags_ : g_o2.flags_)) & DERIVED) != 0))
#define SWF_O(o) ((o).flags_ >= 0 && 1 <= (o).size_ && (o).size_ <= SV && 0 <= (o).lb_ && (o).lb_ <= SV && (o).lb_ < (o).ub_ && (o).ub_ <= (o).lb_ + 2 * SV)
#define TS_BC (g_ts.block_count_)
#define TS_BSZ(k) ((unsigned long)g_sbl[k] * O_SZ(k))
#define TS_COPYSZ (TS_BSZ(0) + (1 < TS_BC ? TS_BSZ(1) : 0) + (2 < TS_BC ? TS_BSZ(2) : 0))
#define TS_PREF(k) (((k) > 0 ? TS_BSZ(0) : 0) + ((k) > 1 ? TS_BSZ(1) : 0))
#define TS_EXT (g_ts.__b_Datatype.ub_ - g_ts.__b_Datatype.lb_)
#define TS_PRE                                                                                                         \
  (vf_exc == 0 && self == &g_ts && g_ts.block_indices_ == g_sdisp && g_ts.block_lengths_ == g_sbl && g_ts.old_types_ == g_olds &&   \
   g_olds[0] == &g_o0 && g_olds[1] == &g_o1 && g_olds[2] == &g_o2 && 1 <= TS_BC && TS_BC <= SBC && 0 <= count && count <= SCNT &&      \
   HS_BLK_OK(0) && HS_BLK_OK(1) && HS_BLK_OK(2) && SWF_O(g_o0) && SWF_O(g_o1) && SWF_O(g_o2) && 0 <= g_ts.__b_Datatype.lb_ &&       \
   g_ts.__b_Datatype.lb_ <= 4 * SDISP && g_ts.__b_Datatype.lb_ <= g_ts.__b_Datatype.ub_ && g_ts.__b_Datatype.ub_ <= 8 * SDISP && LOG_EMPTY)
#define TS_GHOST                                                                                                       \
  (0 <= g_c && g_c < count && 0 <= g_k && g_k < TS_BC && g_b < TS_BSZ(g_k) && g_D == (g_c == 1 ? TS_COPYSZ : 0) + TS_PREF(g_k) + g_b)
#define TS_NCPOS(ext) (g_nc_off + (g_kind == 1 ? g_rel : 0) == (unsigned long)((g_c == 1 ? (ext) : 0) + g_sdisp[g_k]) + (g_kind == 1 ? g_b : 0))
#define TS_KIND (g_kind == (O_DER(g_k) ? 2 : 1) && (g_kind == 1 || (g_cnt == g_sbl[g_k] && g_rel == g_b)))
void Type_Struct__serialize(struct Type_Struct* self, void* noncontiguous_buf, void* contiguous_buf, int count)
    __CPROVER_requires(TS_PRE && noncontiguous_buf == g_nbuf && contiguous_buf == g_cbuf && TS_GHOST)
    __CPROVER_assigns(LOG_FRAME)
    __CPROVER_ensures(vf_exc == 0)
    __CPROVER_ensures(g_hits == 1 && TS_KIND)
    /*@ struct_serialize_every_packed_byte_is_written_exactly_once_by_the_transfer_of_its_block */
    __CPROVER_ensures(!g_bad && g_total == (count >= 1 ? TS_COPYSZ : 0) + (count >= 2 ? TS_COPYSZ : 0))
    /*@ struct_serialize_fills_the_packed_buffer_in_order_without_gaps */
    __CPROVER_ensures(g_c != 0 || TS_NCPOS(0))
    /*@ struct_serialize_first_copy_takes_each_block_at_its_displacement */
    __CPROVER_ensures(TS_NCPOS(TS_EXT))
    /*@ struct_serialize_copy_c_lies_c_extents_after_copy_0 */;
void Type_Struct__unserialize(struct Type_Struct* self, void* contiguous_buf, void* noncontiguous_buf, int count, struct Op* op)
    __CPROVER_requires(TS_PRE && noncontiguous_buf == g_nbuf && contiguous_buf == g_cbuf && op == &g_op && TS_GHOST)
    __CPROVER_assigns(LOG_FRAME)
    __CPROVER_ensures(vf_exc == 0)
    __CPROVER_ensures(g_hits == 1 && TS_KIND)
    /*@ struct_unserialize_every_packed_byte_is_consumed_exactly_once_by_the_transfer_of_its_block */
    __CPROVER_ensures(!g_bad && g_total == (count >= 1 ? TS_COPYSZ : 0) + (count >= 2 ? TS_COPYSZ : 0))
    /*@ struct_unserialize_consumes_the_packed_buffer_in_order_without_gaps */
    __CPROVER_ensures(g_c != 0 || TS_NCPOS(0))
    /*@ struct_unserialize_first_copy_puts_each_block_at_its_displacement */
    __CPROVER_ensures(TS_NCPOS(TS_EXT))
    /*@ struct_unserialize_copy_c_lies_c_extents_after_copy_0 */;

#define memcpy vf_memcpy_log /* the units' memcpy calls go to the logging stub (the models in gen.h are already parsed) */
#include "gen.c"
#undef memcpy

/* ---------------- harnesses ----------------------------------------------------------------------------------------- */
int nondet_int(void);
long nondet_long(void);
#ifdef H_hvector
void harness(void) { vf_exc = 0; Datatype__create_hvector(nondet_int(), nondet_int(), nondet_long(), &g_old, &g_out); VF_CANARY_POINT; }
#endif
#ifdef H_vector
void harness(void) { vf_exc = 0; Datatype__create_vector(nondet_int(), nondet_int(), nondet_int(), &g_old, &g_out); VF_CANARY_POINT; }
#endif
#ifdef H_contiguous
void harness(void) { vf_exc = 0; Datatype__create_contiguous(nondet_int(), &g_old, nondet_long(), &g_out); VF_CANARY_POINT; }
#endif
#ifdef H_resized
void harness(void) { vf_exc = 0; Datatype__create_resized(&g_old, nondet_long(), nondet_long(), &g_out); VF_CANARY_POINT; }
#endif
#ifdef H_indexed
void harness(void) { vf_exc = 0; Datatype__create_indexed(nondet_int(), g_bls, g_idx, &g_old, &g_out); VF_CANARY_POINT; }
#endif
#ifdef H_hindexed
void harness(void) { vf_exc = 0; Datatype__create_hindexed(nondet_int(), g_bls, g_disp, &g_old, &g_out); VF_CANARY_POINT; }
#endif

/* serialize / unserialize harnesses: everything symbolic within the bounds of the requires clauses */
static void setup_ser(void)
{
  vf_exc               = 0;
  g_hx.block_indices_  = g_sdisp;
  g_hx.block_lengths_  = g_sbl;
  g_hx.old_type_       = &g_old;
  g_hv.old_type_       = &g_old;
  g_ts.block_indices_  = g_sdisp;
  g_ts.block_lengths_  = g_sbl;
  g_ts.old_types_      = g_olds;
  g_olds[0]            = &g_o0;
  g_olds[1]            = &g_o1;
  g_olds[2]            = &g_o2;
}
#ifdef H_hindexed_serialize
void harness(void) { setup_ser(); Type_Hindexed__serialize(&g_hx, g_nbuf, g_cbuf, nondet_int()); VF_CANARY_POINT; }
#endif
#ifdef H_hindexed_unserialize
void harness(void) { setup_ser(); Type_Hindexed__unserialize(&g_hx, g_cbuf, g_nbuf, nondet_int(), &g_op); VF_CANARY_POINT; }
#endif
#ifdef H_hvector_serialize
void harness(void) { setup_ser(); Type_Hvector__serialize(&g_hv, g_nbuf, g_cbuf, nondet_int()); VF_CANARY_POINT; }
#endif
#ifdef H_hvector_unserialize
void harness(void) { setup_ser(); Type_Hvector__unserialize(&g_hv, g_cbuf, g_nbuf, nondet_int(), &g_op); VF_CANARY_POINT; }
#endif
#ifdef H_struct_serialize
void harness(void) { setup_ser(); Type_Struct__serialize(&g_ts, g_nbuf, g_cbuf, nondet_int()); VF_CANARY_POINT; }
#endif
#ifdef H_struct_unserialize
void harness(void) { setup_ser(); Type_Struct__unserialize(&g_ts, g_cbuf, g_nbuf, nondet_int(), &g_op); VF_CANARY_POINT; }
#endif
