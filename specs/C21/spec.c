/* C21 — Work is conserved: the remaining work of an activity never increases, is never negative, decreases by exactly
 * rate * elapsed time (same double expression) or is clamped to zero below the precision, and the activity is
 * finished exactly when its remaining work reached zero (or its maximum duration elapsed).
 * Units (real code, extracted by cxx2c): double_update (math_utils.h), Action::update_remains, update_max_duration,
 * Action::finish, CpuAction::update_remains_lazy, NetworkCm02Action::update_remains_lazy; the one-line accessors of
 * Action / lmm::Variable and Action::get_rate / set_last_update are extracted too and inlined into their callers.
 * Floating point is IEEE-754 bit-precise: every clause is 1-3 operations, inputs are required finite.           */
#include "gen.h"

/* ---------------- state built by the harnesses -------------------------------------------------------------- */
struct CpuAction g_cpu;
struct NetworkCm02Action g_net;
struct Variable g_var;
struct Model g_model;
struct ActionHeap g_heap;
struct vf_ilist_Action__state_set_hook_ g_otherset; /* boost::intrusive::list model (capacity VF_ICAP) */
#define g_started (g_model.started_action_set_)             /* the started set of the model of CPU_A / NET_A */
#define g_cpu_started (g_cpumodel.__b_Model.started_action_set_) /* the started set of the CpuModel under update */
#ifndef NACT
#define NACT 2 /* number of started actions the harness of CpuModel::update_actions_state_full may hold (<= VF_ICAP) */
#endif
struct CpuAction g_acts[4]; /* the actions of the started set in that harness */
struct CpuModel g_cpumodel;
#define ACT(k) (g_acts[k].__b_Action)

#define CPU_A (g_cpu.__b_Action)
#define NET_A (g_net.__b_NetworkAction.__b_Action)

/* ghost observers of the assumed callees */
double g_clock;              /* what EngineImpl::get_clock() returns */
struct vf_ilist_Action__state_set_hook_* g_cur_set;  /* what Action::get_state_set() returns */
int g_set_state_calls;       /* number of Action::set_state calls */
int g_set_state_arg;         /* its latest argument */
struct Action* g_set_state_self;
int g_heap_removed;          /* number of ActionHeap::remove calls */
struct Action* g_heap_removed_action;

#define FIN(x) __CPROVER_isfinited(x)
#define PREC_OK                                                                                                        \
  (FIN(sg_precision_timing) && FIN(sg_precision_workamount) && sg_precision_timing >= 0.0 &&                           \
   sg_precision_workamount >= 0.0 && NO_MAX_DURATION == VFI_NO_MAX_DURATION && VFI_NO_MAX_DURATION == -1.0)
#define THR_WORK (sg_precision_workamount * sg_precision_timing) /* clamp threshold of remains_ (as in the source) */
#define IS_ACTION(p) ((p) == &CPU_A || (p) == &NET_A || (p) == &ACT(0) || (p) == &ACT(1) || (p) == &ACT(2) || (p) == &ACT(3))
#define WF_ACTION(a) ((a).model_ == &g_model && ((a).variable_ == NULL || (a).variable_ == &g_var))
/* the documented effective rate of an action: value of its LMM variable times its factor, 0 without variable */
#define RATE(a) ((a).variable_ != NULL ? g_var.value_ * (a).factor_ : 0.0)

/* ---------------- assumed contracts of callees outside C21 (listed in check.json) --------------------------- */
double get_clock(void) __CPROVER_requires(1) __CPROVER_assigns() __CPROVER_ensures(__CPROVER_return_value == g_clock);

struct vf_ilist_Action__state_set_hook_* Action__get_state_set(struct Action* self) __CPROVER_requires(IS_ACTION(self)) __CPROVER_assigns()
    __CPROVER_ensures(__CPROVER_return_value == g_cur_set);

/* Model::get_started_action_set is a one-line accessor: extracted and inlined (started_action_set_ == &g_started) */

struct ActionHeap* Model__get_action_heap(struct Model* self) __CPROVER_requires(self == &g_model) __CPROVER_assigns()
    __CPROVER_ensures(__CPROVER_return_value == &g_heap);

void Action__set_state(struct Action* self, int state)
    __CPROVER_requires(IS_ACTION(self) && 0 <= self->vf_state_calls && self->vf_state_calls < 1000000 /* ghost counter */)
    /* Action::set_state moves the action between the model's state sets; here it only records the call, globally and
       in two ghost fields of the action (vf_state_calls, vf_state): the started set is NOT modified, i.e. it is assumed
       that removing the finished action does not disturb an iteration whose iterator was advanced beforehand */
    __CPROVER_assigns(g_set_state_calls, g_set_state_arg, VF_PT(g_set_state_self), self->vf_state_calls, self->vf_state)
    __CPROVER_ensures(g_set_state_calls == __CPROVER_old(g_set_state_calls) + 1 && g_set_state_arg == state &&
                      g_set_state_self == self && self->vf_state_calls == __CPROVER_old(self->vf_state_calls) + 1 &&
                      self->vf_state == state);

void ActionHeap__remove(struct ActionHeap* self, struct Action* action)
    __CPROVER_requires(self == &g_heap && IS_ACTION(action)) __CPROVER_assigns(g_heap_removed, VF_PT(g_heap_removed_action))
    __CPROVER_ensures(g_heap_removed == __CPROVER_old(g_heap_removed) + 1 && g_heap_removed_action == action);

/* ---------------- contracts of the units ------------------------------------------------------------------- */

/* helper (from the code): subtract, clamp to zero below the precision */
void double_update(double* variable, double value, double precision)
    __CPROVER_requires(__CPROVER_is_fresh(variable, sizeof(double)) && FIN(*variable) && !__CPROVER_isnand(value) &&
                       !__CPROVER_isnand(precision))
    __CPROVER_assigns(*variable)
    __CPROVER_ensures(*variable == (__CPROVER_old(*variable) - value < precision ? 0.0 : __CPROVER_old(*variable) - value))
    /*@ double_update_subtract_and_clamp */
    __CPROVER_ensures(!(precision >= 0.0) || *variable >= 0.0) /*@ double_update_never_negative */
    __CPROVER_ensures(!(value >= 0.0 && __CPROVER_old(*variable) >= 0.0) ||
                      *variable <= __CPROVER_old(*variable)) /*@ double_update_never_increases */;

/* double_update as seen by its callers: same clauses, on a field of one of the two actions instead of a fresh cell */
/* (dfcc checks is_fresh in requires at call sites: the callers pass &action.remains_ / &action.max_duration_)      */

/* remaining work: never increases, never negative, exact consumption or clamp to zero (property statement) */
void Action__update_remains(struct Action* self, double delta)
    __CPROVER_requires(IS_ACTION(self) && PREC_OK && FIN(self->remains_) && self->remains_ >= 0.0 &&
                       !__CPROVER_isnand(delta) && delta >= 0.0 && vf_exc == 0)
    __CPROVER_assigns(self->remains_)
    __CPROVER_ensures(self->remains_ <= __CPROVER_old(self->remains_)) /*@ remains_never_increases */
    __CPROVER_ensures(self->remains_ >= 0.0)                           /*@ remains_never_negative */
    __CPROVER_ensures(self->remains_ == 0.0 || self->remains_ == __CPROVER_old(self->remains_) - delta)
    /*@ remains_consumed_exactly_or_zero */
    __CPROVER_ensures((self->remains_ == __CPROVER_old(self->remains_) - delta) ||
                      (__CPROVER_old(self->remains_) - delta < THR_WORK)) /*@ remains_zeroed_only_below_precision */
    __CPROVER_ensures(!(__CPROVER_old(self->remains_) - delta < THR_WORK) || self->remains_ == 0.0)
    /*@ remains_below_precision_is_zero */
    __CPROVER_ensures(vf_exc == 0);

/* maximum duration: "no maximum" is left alone, otherwise it is consumed like work */
void Action__update_max_duration(struct Action* self, double delta)
    __CPROVER_requires(IS_ACTION(self) && PREC_OK && FIN(self->max_duration_) &&
                       (self->max_duration_ == -1.0 || self->max_duration_ >= 0.0) && !__CPROVER_isnand(delta) &&
                       delta >= 0.0 && vf_exc == 0)
    __CPROVER_assigns(self->max_duration_)
    __CPROVER_ensures(__CPROVER_old(self->max_duration_) != -1.0 || self->max_duration_ == -1.0)
    /*@ no_max_duration_is_kept */
    __CPROVER_ensures(__CPROVER_old(self->max_duration_) == -1.0 ||
                      (self->max_duration_ >= 0.0 && self->max_duration_ <= __CPROVER_old(self->max_duration_)))
    /*@ max_duration_decreases_to_zero */
    __CPROVER_ensures(__CPROVER_old(self->max_duration_) == -1.0 ||
                      self->max_duration_ == (__CPROVER_old(self->max_duration_) - delta < sg_precision_timing
                                                  ? 0.0
                                                  : __CPROVER_old(self->max_duration_) - delta))
    /*@ max_duration_consumed_exactly_or_zero */
    __CPROVER_ensures(vf_exc == 0);

/* effective rate: value of the LMM variable times the action's factor; 0 for an action without variable */
double Action__get_rate(struct Action* self)
    __CPROVER_requires(IS_ACTION(self) && WF_ACTION(*self)) __CPROVER_assigns()
    __CPROVER_ensures(self->variable_ != NULL || __CPROVER_return_value == 0.0) /*@ rate_without_variable_is_zero */
    __CPROVER_ensures(self->variable_ == NULL || !FIN(g_var.value_) || !FIN(self->factor_) ||
                      __CPROVER_return_value == g_var.value_ * self->factor_) /*@ rate_is_value_times_factor */;

/* finishing an action: dated now, nothing remains, state handed to set_state */
void Action__finish(struct Action* self, int state)
    __CPROVER_requires(IS_ACTION(self) && vf_exc == 0 && 0 <= self->vf_state_calls && self->vf_state_calls < 1000000)
    __CPROVER_assigns(self->finish_time_, self->remains_, g_set_state_calls, g_set_state_arg, VF_PT(g_set_state_self),
                      self->vf_state_calls, self->vf_state)
    __CPROVER_ensures(self->remains_ == 0.0)           /*@ finished_action_has_nothing_left */
    __CPROVER_ensures(self->finish_time_ == g_clock)   /*@ finished_action_is_dated_now */
    __CPROVER_ensures(g_set_state_calls == __CPROVER_old(g_set_state_calls) + 1 && g_set_state_arg == state &&
                      g_set_state_self == self && self->vf_state_calls == __CPROVER_old(self->vf_state_calls) + 1 &&
                      self->vf_state == state)        /*@ finish_sets_the_state */
    __CPROVER_ensures(vf_exc == 0);

/* lazy update of a CPU action at date now */
#define LAZY_PRE(a)                                                                                                    \
  (WF_ACTION(a) && (a).vf_state_calls == 0 && PREC_OK && vf_exc == 0 && FIN(now) && now == g_clock && FIN((a).last_update_) &&                    \
   (a).last_update_ <= now && FIN((a).last_value_) && (a).last_value_ >= 0.0 && FIN((a).remains_) &&                   \
   (a).remains_ >= 0.0 && FIN(now - (a).last_update_) &&                                                            \
   ((a).variable_ == NULL || (FIN(g_var.value_) && FIN((a).factor_))))
#define OLD_CONSUMED(a) (__CPROVER_old((a).last_value_) * (now - __CPROVER_old((a).last_update_)))

void CpuAction__update_remains_lazy(struct CpuAction* self, double now)
    __CPROVER_requires(self == &g_cpu && LAZY_PRE(CPU_A))
    __CPROVER_assigns(vf_exc, CPU_A.remains_, CPU_A.last_update_, CPU_A.last_value_)
    __CPROVER_ensures((vf_exc == VF_EXC_ABORT) == (g_cur_set != &g_started || !(CPU_A.sharing_penalty_ > 0.0)))
    /*@ cpu_lazy_rejects_not_started_or_suspended */
    __CPROVER_ensures(vf_exc == 0 || vf_exc == VF_EXC_ABORT)
    __CPROVER_ensures(vf_exc != 0 || CPU_A.remains_ <= __CPROVER_old(CPU_A.remains_)) /*@ cpu_remains_never_increases */
    __CPROVER_ensures(vf_exc != 0 || CPU_A.remains_ >= 0.0)                            /*@ cpu_remains_never_negative */
    __CPROVER_ensures(vf_exc != 0 || CPU_A.remains_ == 0.0 ||
                      CPU_A.remains_ == __CPROVER_old(CPU_A.remains_) - OLD_CONSUMED(CPU_A))
    /*@ cpu_consumed_is_rate_times_elapsed_or_zero */
    __CPROVER_ensures(vf_exc != 0 || CPU_A.remains_ == __CPROVER_old(CPU_A.remains_) ||
                      CPU_A.remains_ == __CPROVER_old(CPU_A.remains_) - OLD_CONSUMED(CPU_A) ||
                      __CPROVER_old(CPU_A.remains_) - OLD_CONSUMED(CPU_A) < THR_WORK)
    /*@ cpu_zeroed_only_below_precision */
    __CPROVER_ensures(vf_exc != 0 || !(__CPROVER_old(CPU_A.remains_) > 0.0) ||
                      !(__CPROVER_old(CPU_A.remains_) - OLD_CONSUMED(CPU_A) >= THR_WORK) ||
                      CPU_A.remains_ == __CPROVER_old(CPU_A.remains_) - OLD_CONSUMED(CPU_A))
    /*@ cpu_above_precision_consumes_exactly */
    __CPROVER_ensures(vf_exc != 0 || CPU_A.last_update_ == now)       /*@ cpu_last_update_is_now */
    __CPROVER_ensures(vf_exc != 0 || CPU_A.last_value_ == RATE(CPU_A)) /*@ cpu_last_value_is_current_rate */
    __CPROVER_ensures(vf_exc == 0 || (CPU_A.remains_ == __CPROVER_old(CPU_A.remains_) &&
                                      CPU_A.last_update_ == __CPROVER_old(CPU_A.last_update_) &&
                                      CPU_A.last_value_ == __CPROVER_old(CPU_A.last_value_)))
    /*@ cpu_rejected_changes_nothing */;

/* lazy update of a network action at date now; finishes the action when nothing remains or its time is over */
#define NET_DONE                                                                                                       \
  ((NET_A.remains_ <= 0.0 && g_var.sharing_penalty_ > 0.0) || (NET_A.max_duration_ != -1.0 && NET_A.max_duration_ <= 0.0))
void NetworkCm02Action__update_remains_lazy(struct NetworkCm02Action* self, double now)
    __CPROVER_requires(self == &g_net && LAZY_PRE(NET_A) && NET_A.variable_ == &g_var && FIN(NET_A.max_duration_) &&
                       (NET_A.max_duration_ == -1.0 || NET_A.max_duration_ >= 0.0) && g_set_state_calls == 0 &&
                       g_heap_removed == 0)
    __CPROVER_assigns(NET_A.remains_, NET_A.max_duration_, NET_A.last_update_, NET_A.last_value_, NET_A.finish_time_,
                      g_set_state_calls, g_set_state_arg, g_set_state_self, g_heap_removed, g_heap_removed_action,
                      NET_A.vf_state_calls, NET_A.vf_state)
    __CPROVER_ensures(vf_exc == 0)
    __CPROVER_ensures(NET_A.suspended_ == SuspendStates__RUNNING ||
                      (NET_A.remains_ == __CPROVER_old(NET_A.remains_) &&
                       NET_A.max_duration_ == __CPROVER_old(NET_A.max_duration_) &&
                       NET_A.last_update_ == __CPROVER_old(NET_A.last_update_) &&
                       NET_A.last_value_ == __CPROVER_old(NET_A.last_value_) && g_set_state_calls == 0 &&
                       g_heap_removed == 0)) /*@ net_not_running_changes_nothing */
    __CPROVER_ensures(NET_A.remains_ <= __CPROVER_old(NET_A.remains_)) /*@ net_remains_never_increases */
    __CPROVER_ensures(NET_A.remains_ >= 0.0)                            /*@ net_remains_never_negative */
    __CPROVER_ensures(NET_A.suspended_ != SuspendStates__RUNNING || NET_A.remains_ == 0.0 ||
                      NET_A.remains_ == __CPROVER_old(NET_A.remains_) - OLD_CONSUMED(NET_A))
    /*@ net_consumed_is_rate_times_elapsed_or_zero */
    __CPROVER_ensures(NET_A.suspended_ != SuspendStates__RUNNING || g_set_state_calls == 1 ||
                      !(__CPROVER_old(NET_A.remains_) > 0.0) ||
                      !(__CPROVER_old(NET_A.remains_) - OLD_CONSUMED(NET_A) >= THR_WORK) ||
                      NET_A.remains_ == __CPROVER_old(NET_A.remains_) - OLD_CONSUMED(NET_A))
    /*@ net_above_precision_consumes_exactly */
    __CPROVER_ensures(NET_A.suspended_ != SuspendStates__RUNNING || g_set_state_calls == (NET_DONE ? 1 : 0))
    /*@ net_finished_iff_nothing_remains_or_time_over */
    __CPROVER_ensures(g_set_state_calls == 0 ||
                      (NET_A.remains_ == 0.0 && g_set_state_arg == State__FINISHED && g_set_state_self == &NET_A &&
                       NET_A.finish_time_ == now && g_heap_removed == 1 && g_heap_removed_action == &NET_A))
    /*@ net_finished_action_has_nothing_left */
    __CPROVER_ensures(g_set_state_calls != 0 || g_heap_removed == 0) /*@ net_unfinished_stays_in_heap */
    __CPROVER_ensures(NET_A.suspended_ != SuspendStates__RUNNING || __CPROVER_old(NET_A.max_duration_) != -1.0 ||
                      NET_A.max_duration_ == -1.0) /*@ net_no_max_duration_is_kept */
    __CPROVER_ensures(NET_A.suspended_ != SuspendStates__RUNNING || __CPROVER_old(NET_A.max_duration_) == -1.0 ||
                      NET_A.max_duration_ ==
                          (__CPROVER_old(NET_A.max_duration_) - (now - __CPROVER_old(NET_A.last_update_)) <
                                   sg_precision_timing
                               ? 0.0
                               : __CPROVER_old(NET_A.max_duration_) - (now - __CPROVER_old(NET_A.last_update_))))
    /*@ net_max_duration_consumes_elapsed_time */
    __CPROVER_ensures(NET_A.suspended_ != SuspendStates__RUNNING || NET_A.last_update_ == now)
    /*@ net_last_update_is_now */
    __CPROVER_ensures(NET_A.suspended_ != SuspendStates__RUNNING || NET_A.last_value_ == RATE(NET_A))
    /*@ net_last_value_is_current_rate */;


/* ---------------- the full (non-lazy) update of a CPU model: every started action advances by rate * delta ------ */
#define L_N (g_cpu_started.n)
#define IN_SET(k) ((k) < L_N)
#define ACT_PRE(k)                                                                                                     \
  (g_cpu_started.d[k] == &ACT(k) &&                                                                                        \
   (!IN_SET(k) || (ACT(k).model_ == &g_model && ACT(k).variable_ == &g_var && FIN(ACT(k).remains_) &&                  \
                   ACT(k).remains_ >= 0.0 && FIN(ACT(k).max_duration_) &&                                              \
                   (ACT(k).max_duration_ == -1.0 || ACT(k).max_duration_ >= 0.0) && FIN(ACT(k).factor_) &&             \
                   ACT(k).factor_ >= 0.0 && FIN(g_var.value_ * ACT(k).factor_) && ACT(k).vf_state_calls == 0)))
#define ACT_DONE(k)                                                                                                    \
  ((ACT(k).remains_ <= 0.0 && g_var.sharing_penalty_ > 0.0) || (ACT(k).max_duration_ != -1.0 && ACT(k).max_duration_ <= 0.0))
#define OLD_REM(k) __CPROVER_old(ACT(k).remains_)
#define OLD_MAXD(k) __CPROVER_old(ACT(k).max_duration_)
#define USED(k) ((g_var.value_ * ACT(k).factor_) * delta)
/* what the property demands of one started action k */
#define ACT_POST_MONO(k) (!IN_SET(k) || (ACT(k).remains_ <= OLD_REM(k) && ACT(k).remains_ >= 0.0))
#define ACT_POST_EXACT(k) (!IN_SET(k) || ACT(k).remains_ == 0.0 || ACT(k).remains_ == OLD_REM(k) - USED(k))
#define ACT_POST_ABOVE(k)                                                                                              \
  (!IN_SET(k) || ACT(k).vf_state_calls == 1 || !(OLD_REM(k) - USED(k) >= THR_WORK) || ACT(k).remains_ == OLD_REM(k) - USED(k))
#define ACT_POST_FIN(k)                                                                                                \
  (!IN_SET(k) || (ACT(k).vf_state_calls == (ACT_DONE(k) ? 1 : 0) &&                                                    \
                  (ACT(k).vf_state_calls == 0 || (ACT(k).vf_state == State__FINISHED && ACT(k).remains_ == 0.0))))
#define ACT_POST_MAXD(k)                                                                                               \
  (!IN_SET(k) || (OLD_MAXD(k) == -1.0 ? ACT(k).max_duration_ == -1.0                                                   \
                                      : (ACT(k).max_duration_ >= 0.0 && ACT(k).max_duration_ <= OLD_MAXD(k))))
#define ACT_POST_MAXD_EXACT(k)                                                                                         \
  (!IN_SET(k) || OLD_MAXD(k) == -1.0 ||                                                                                \
   ACT(k).max_duration_ == (OLD_MAXD(k) - delta < sg_precision_timing ? 0.0 : OLD_MAXD(k) - delta))
/* a maximum duration that is over (delta >= what was left) reaches zero */
#define ACT_POST_MAXD_ELAPSED(k) (!IN_SET(k) || OLD_MAXD(k) == -1.0 || !(delta >= OLD_MAXD(k)) || ACT(k).max_duration_ == 0.0)
#define ACT_UNTOUCHED(k)                                                                                               \
  (IN_SET(k) || (__CPROVER_equal(ACT(k).remains_, OLD_REM(k)) && ACT(k).vf_state_calls == __CPROVER_old(ACT(k).vf_state_calls)))
#if NACT == 2
#define ALLA(P) (P(0) && P(1))
#elif NACT == 4
#define ALLA(P) (P(0) && P(1) && P(2) && P(3))
#else
#error "NACT must be 2 or 4"
#endif
void CpuModel__update_actions_state_full(struct CpuModel* self, double now, double delta)
    __CPROVER_requires(self == &g_cpumodel && PREC_OK && vf_exc == 0 && FIN(delta) && delta >= 0.0 && L_N <= NACT &&
                       ACT_PRE(0) && ACT_PRE(1) && ACT_PRE(2) && ACT_PRE(3) && FIN(g_var.value_) && g_var.value_ >= 0.0)
    __CPROVER_assigns(__CPROVER_object_whole(g_acts), g_set_state_calls, g_set_state_arg, g_set_state_self)
    __CPROVER_ensures(vf_exc == 0)
    __CPROVER_ensures(ALLA(ACT_POST_MONO))  /*@ full_update_remains_never_increases_never_negative */
#ifdef FULL_EXACT /* UNDECIDED (SAT and cvc5 time out, 5 min per clause, also with get_rate inlined): NOT claimed for the
                     loop; the same statements are proved for one action by Action::update_remains above */
    __CPROVER_ensures(ALLA(ACT_POST_EXACT)) /*@ full_update_consumes_rate_times_delta_or_zero */
    __CPROVER_ensures(ALLA(ACT_POST_ABOVE)) /*@ full_update_above_precision_consumes_exactly */
#endif
    __CPROVER_ensures(ALLA(ACT_POST_FIN))   /*@ full_update_finishes_iff_nothing_remains_or_time_over */
    __CPROVER_ensures(ALLA(ACT_POST_MAXD))  /*@ full_update_max_duration_decreases */
    __CPROVER_ensures(ALLA(ACT_POST_MAXD_ELAPSED)) /*@ full_update_elapsed_max_duration_reaches_zero */
#ifdef FULL_EXACT /* UNDECIDED like the two clauses above: not claimed for the loop */
    __CPROVER_ensures(ALLA(ACT_POST_MAXD_EXACT)) /*@ full_update_max_duration_consumes_delta */
#endif
    __CPROVER_ensures(ALLA(ACT_UNTOUCHED))  /*@ full_update_leaves_other_actions_alone */;

#include "gen.c"

/* ---------------- harnesses ---------------------------------------------------------------------------------- */
double nondet_double(void);
int nondet_int(void);
_Bool nondet_bool(void);

static void havoc_action(struct Action* a)
{
  a->remains_         = nondet_double();
  a->max_duration_    = nondet_double();
  a->factor_          = nondet_double();
  a->last_update_     = nondet_double();
  a->sharing_penalty_ = nondet_double();
  a->last_value_      = nondet_double();
  a->finish_time_     = nondet_double();
  a->suspended_       = nondet_int();
  a->model_           = &g_model;
  a->variable_        = nondet_bool() ? NULL : &g_var;
}

static void setup(void)
{
  havoc_action(&CPU_A);
  havoc_action(&NET_A);
  g_var.value_            = nondet_double();
  g_var.sharing_penalty_  = nondet_double();
  sg_precision_timing     = nondet_double();
  sg_precision_workamount = nondet_double();
  g_clock                 = nondet_double();
  g_cur_set               = nondet_bool() ? &g_started : &g_otherset;
  g_set_state_calls       = 0;
  g_heap_removed          = 0;
  vf_exc                  = 0;
}

#ifdef H_double_update
void harness(void)
{
  double* v;
  double_update(v, nondet_double(), nondet_double());
  VF_CANARY_POINT;
}
#endif
#ifdef H_update_remains
void harness(void)
{
  setup();
  Action__update_remains(nondet_bool() ? &CPU_A : &NET_A, nondet_double());
  VF_CANARY_POINT;
}
#endif
#ifdef H_update_max_duration
void harness(void)
{
  setup();
  Action__update_max_duration(nondet_bool() ? &CPU_A : &NET_A, nondet_double());
  VF_CANARY_POINT;
}
#endif
#if defined(H_get_rate) || defined(H_get_rate_net)
void harness(void)
{
  setup();
#ifdef H_get_rate /* one harness per object: a symbolic choice between two objects makes the FP product undecided */
  Action__get_rate(&CPU_A);
#else
  Action__get_rate(&NET_A);
#endif
  VF_CANARY_POINT;
}
#endif
#ifdef H_finish
void harness(void)
{
  setup();
  Action__finish(nondet_bool() ? &CPU_A : &NET_A, nondet_int());
  VF_CANARY_POINT;
}
#endif
#ifdef H_cpu_lazy
void harness(void)
{
  setup();
  CpuAction__update_remains_lazy(&g_cpu, nondet_double());
  VF_CANARY_POINT;
}
#endif
#ifdef H_net_lazy
void harness(void)
{
  setup();
  NetworkCm02Action__update_remains_lazy(&g_net, nondet_double());
  VF_CANARY_POINT;
}
#endif

#ifdef H_full_update
unsigned long nondet_ulong(void);
void harness(void)
{
  setup();
  for (int k = 0; k < 4; k++) {
    havoc_action(&ACT(k));
    ACT(k).vf_state_calls = 0;
    g_cpu_started.d[k]    = &ACT(k);
  }
  g_cpu_started.n = nondet_ulong();
  CpuModel__update_actions_state_full(&g_cpumodel, nondet_double(), nondet_double());
  VF_CANARY_POINT;
}
#endif
