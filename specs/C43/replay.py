import os, sys
sys.path.insert(0, os.path.join(os.path.dirname(os.path.abspath(__file__)), "..", "..", "replay"))
import native


def replay(violation, inputs, workdir, repo):
    """real observers -> real mc::Channel (socketpair) -> real deserialize_transition; the label selects the kind"""
    here = os.path.dirname(os.path.abspath(__file__))
    lab = violation.get("label", "") + " " + violation.get("harness", "")
    kind = "iget" if "iget" in lab else ("iput" if ("iput" in lab or "mess" in lab) else "random")
    return native.build_and_run(os.path.join(here, "replay.cpp"), workdir, repo, [kind])
