// Native replay for C43: the REAL observers of the working tree serialize into a real mc::Channel (SOCK_SEQPACKET
// socketpair), the REAL deserialize_transition decodes on the other end. For each simcall kind exercised:
//  - the checker must consume exactly the bytes the application packed for that transition (no mis-framing, no block),
//  - a well-known transition (RandomSimcall(7, 42)) packed right after it must decode to Random(7, 42).
// argv[1] selects the kind: iput | iget | random . Exit 1 = disagreement reproduced, 0 = agreement.
#include "src/kernel/actor/CommObserver.cpp" // encoder side compiled from the working tree (the rest links from libsimgrid)
#include "src/kernel/actor/SimcallObserver.hpp"
#include "src/mc/remote/Channel.hpp"
#include "src/mc/transition/Transition.hpp"
#include "src/mc/transition/TransitionComm.hpp"
#include "src/mc/transition/TransitionRandom.hpp"
#include <csignal>
#include <cstdio>
#include <cstring>
#include <sys/socket.h>
#include <unistd.h>

using namespace simgrid;

static const char* g_kind = "";
static void on_alarm(int)
{
  printf("kind=%s: HANG: the checker blocks in recv() waiting for bytes the application never sent\n", g_kind);
  fflush(stdout);
  _exit(1);
}

int main(int argc, char** argv)
{
  g_kind = argc > 1 ? argv[1] : "iput";
  int sv[2];
  if (socketpair(AF_UNIX, SOCK_SEQPACKET, 0, sv) != 0) {
    perror("socketpair");
    return 2;
  }
  mc::Channel app(sv[0]);
  mc::Channel checker(sv[1]);
  auto* queue = reinterpret_cast<kernel::activity::MessageQueueImpl*>(0x1122334455667788UL); // only its address is packed

  size_t before = app.buffer_out_size_;
  mc::Transition::Type expected;
  if (strcmp(g_kind, "iput") == 0) {
    kernel::actor::MessIputSimcall obs(nullptr, queue, nullptr, nullptr, false);
    obs.serialize(app);
    expected = mc::Transition::Type::COMM_ASYNC_SEND;
  } else if (strcmp(g_kind, "iget") == 0) {
    kernel::actor::MessIgetSimcall obs(nullptr, queue, nullptr, nullptr, nullptr);
    obs.serialize(app);
    expected = mc::Transition::Type::COMM_ASYNC_RECV;
  } else {
    kernel::actor::RandomSimcall obs(nullptr, 1, 3);
    obs.serialize(app);
    expected = mc::Transition::Type::RANDOM;
  }
  size_t packed = app.buffer_out_size_ - before;
  kernel::actor::RandomSimcall next(nullptr, 7, 42); // the next transition of the same message
  next.serialize(app);
  size_t total = app.buffer_out_size_;
  if (app.send() != 0) {
    perror("send");
    return 2;
  }

  signal(SIGALRM, on_alarm);
  alarm(5);
  int failures = 0;
  mc::Transition* t = mc::deserialize_transition(mc::Aid(1), 0, checker);
  size_t consumed   = total - checker.buffer_in_size_;
  printf("kind=%s: application packed %zu bytes, checker consumed %zu bytes, decoded type %s\n", g_kind, packed, consumed,
         mc::Transition::to_c_str(t->type_));
  if (t->type_ != expected) {
    printf("  DISAGREE: decoded type differs from the announced one\n");
    failures++;
  }
  if (consumed != packed) {
    printf("  DISAGREE: the checker does not read the cells the application wrote (mis-framing)\n");
    failures++;
  }
  if (t->type_ == mc::Transition::Type::COMM_ASYNC_SEND)
    printf("  decoded as %s\n", t->to_string(true).c_str());
  mc::Transition* t2 = mc::deserialize_transition(mc::Aid(1), 0, checker);
  printf("  next transition decodes as %s %s\n", mc::Transition::to_c_str(t2->type_), t2->to_string(true).c_str());
  if (t2->type_ != mc::Transition::Type::RANDOM) {
    printf("  DISAGREE: the following Random(7,42) transition is decoded as something else\n");
    failures++;
  }
  alarm(0);
  printf("%s\n", failures ? "REPRODUCED" : "agreement");
  return failures ? 1 : 0;
}
