/* C43 — Checker and application agree on every transition.
 * Encoder side : every *Observer::serialize of src/kernel/actor/{Synchro,Comm,Simcall,WaitTest}Observer.cpp.
 * Decoder side : deserialize_transition (Transition.cpp) and every *Transition(.., mc::Channel&) constructor.
 * All of them are extracted from the real code by cxx2c. mc::Channel::pack<T>/unpack<T> are MODELS over a ghost typed
 * word stream: one cell per pack<T> call = (width sizeof(T), value bits). A std::string is one cell of width W_STR.
 * unpack<T> on a cell of another width, or past the written cells, raises g_misframe (the real checker would mis-frame
 * the bytes or block in recv()).
 *
 * Contracts: serialize   : stream' == stream ++ enc_K(fields of the observer)          (cell by cell, prefix kept)
 *            constructor : stream == enc cells of kind K ++ rest  ==>  fields == decoded cells, stream' == rest
 * Round-trip lemma per observable simcall kind (harnesses rt_*), from the property statement: after serialize, the
 * real deserialize_transition dispatches to the right class, consumes exactly the cells written (no mis-framing,
 * nothing left), and type / issuer / objects / parameters of the decoded transition equal the encoded ones.       */
#include "gen.h"

#ifndef NANY
#define NANY 2 /* activities inside a TESTANY / WAITANY (bounded part) */
#endif
#define SCAP 32   /* cells in the ghost stream */
#define W_STR 100 /* width tag of a std::string cell */

struct vf_cell {
  int w;
  long v;
};
struct vf_cell g_st[SCAP];
size_t g_wr, g_rd;
int g_misframe; /* an unpack<T> met a cell of another width or an exhausted stream */
int g_overflow; /* model capacity exceeded (never under the preconditions) */
struct Channel g_chan;
size_t gk; /* ghost index: any cell */

int nondet_int(void);
long nondet_long(void);
unsigned nondet_unsigned(void);
_Bool nondet_bool(void);
double nondet_double(void);
size_t nondet_size(void);

#define U32(x) (((long)(x)) & 0xFFFFFFFFL)
#define S32(v) ((int)((v) >= 0x80000000L ? (v)-0x100000000L : (v)))

/* ---------------- model of mc::Channel (trusted) ---------------- */
static void vf_put(int w, long v)
{
  if (g_wr < SCAP) {
    g_st[g_wr].w = w;
    g_st[g_wr].v = v;
    g_wr = g_wr + 1;
  } else
    g_overflow = 1;
}
static long vf_get(int w)
{
  if (g_wr <= SCAP && g_rd < g_wr && g_st[g_rd].w == w) {
    long v = g_st[g_rd].v;
    g_rd    = g_rd + 1;
    return v;
  }
  g_misframe = 1;
  return 0;
}
void Channel__pack__int(struct Channel* c, int v) { vf_put(4, U32(v)); }
void Channel__pack__unsigned_int(struct Channel* c, unsigned int v) { vf_put(4, (long)v); }
void Channel__pack__long(struct Channel* c, long v) { vf_put(8, v); }
void Channel__pack__Bool(struct Channel* c, _Bool v) { vf_put(1, v ? 1L : 0L); }
void Channel__pack__vf_str(struct Channel* c, vf_str s) { vf_put(W_STR, s); }
void Channel__pack__struct_MessImpl_ptr(struct Channel* c, struct MessImpl* p) { vf_put(8, (long)p); }
void Channel__pack__struct_MessageQueueImpl_ptr(struct Channel* c, struct MessageQueueImpl* p) { vf_put(8, (long)p); }
int Channel__unpack__int(struct Channel* c, int cb_is_null)
{
  long v = vf_get(4);
  return S32(v);
}
unsigned int Channel__unpack__unsigned_int(struct Channel* c, int cb_is_null) { return (unsigned int)vf_get(4); }
long Channel__unpack__long(struct Channel* c, int cb_is_null) { return vf_get(8); }
_Bool Channel__unpack__Bool(struct Channel* c, int cb_is_null) { return vf_get(1) != 0; }
vf_str Channel__unpack__vf_str(struct Channel* c, int cb_is_null) { return vf_get(W_STR); }
/* THROW_UNIMPLEMENTED */
void xbt_throw_unimplemented(char* file, int line, char* func) { vf_exc = VF_EXC_ABORT; }

/* ---------------- application-side state built by the harnesses (all distinct objects) ---------------- */
struct ActorImpl g_a0, g_a1;
struct Actor g_s4u_actor;
struct MutexImpl g_mutex;
struct SemaphoreImpl g_sem;
struct BarrierImpl g_bar;
struct ConditionVariableImpl g_cond;
struct MailboxImpl g_mbox;
struct CommImpl g_comm0, g_comm1;
struct ActivityImpl g_other_act; /* an activity that is not a CommImpl */
struct MutexAcquisitionImpl g_macq;
struct SemAcquisitionImpl g_sacq;
struct BarrierAcquisitionImpl g_bacq;
struct ConditionVariableAcquisitionImpl g_cacq;
struct MessImpl g_mess;
struct MessageQueueImpl g_queue;

struct MutexObserver g_o_mutex;
struct MutexAcquisitionObserver g_o_macq;
struct SemaphoreObserver g_o_sem;
struct SemaphoreAcquisitionObserver g_o_sacq;
struct BarrierObserver g_o_bar;
struct ConditionVariableObserver g_o_cond;
struct CommIsendSimcall g_o_isend;
struct CommIrecvSimcall g_o_irecv;
struct IprobeSimcall g_o_iprobe;
struct MessIputSimcall g_o_iput;
struct MessIgetSimcall g_o_iget;
struct RandomSimcall g_o_random;
struct ActorJoinSimcall g_o_join;
struct ActorExitSimcall g_o_exit;
struct ActorSleepSimcall g_o_sleep;
struct ActorCreateSimcall g_o_create;
struct ActivityTestSimcall g_o_test;
struct ActivityWaitSimcall g_o_wait;
struct ActivityTestanySimcall g_o_testany;
struct ActivityWaitanySimcall g_o_waitany;
struct ActivityImpl* g_acts[NANY];

/* dynamic_cast<CommImpl*>(ActivityImpl*) over the harness universe (trusted model) */
struct CommImpl* vf_dyncast_ActivityImpl_to_CommImpl(struct ActivityImpl* a)
{
  if (a == (struct ActivityImpl*)&g_comm0)
    return &g_comm0;
  if (a == (struct ActivityImpl*)&g_comm1)
    return &g_comm1;
  return (struct CommImpl*)0;
}
#define IS_ACTIVITY(a)                                                                                                 \
  ((a) == (struct ActivityImpl*)&g_comm0 || (a) == (struct ActivityImpl*)&g_comm1 || (a) == &g_other_act)
#define AS_COMM(a)                                                                                                     \
  ((a) == (struct ActivityImpl*)&g_comm0 ? &g_comm0 : ((a) == (struct ActivityImpl*)&g_comm1 ? &g_comm1 : (struct CommImpl*)0))

#define ACT_OR_NULL(p) ((p) == 0 || (p) == &g_a0 || (p) == &g_a1)
#define PID(p) ((p) == 0 ? -1L : (p)->__b_ActorIDTrait.pid_)
#define WF_COMM(c) (ACT_OR_NULL((c).src_actor_) && ACT_OR_NULL((c).dst_actor_))
#define WF_COMMS (WF_COMM(g_comm0) && WF_COMM(g_comm1))

/* ---------------- encoder side: stream' == stream ++ cells ---------------- */
#define ENC_PRE(n) (vf_exc == 0 && g_overflow == 0 && g_wr <= SCAP && SCAP - g_wr >= (n) && gk < SCAP)
#define ENC_FRAME __CPROVER_assigns(g_wr, __CPROVER_object_whole(g_st), vf_exc, g_overflow)
#define OWR __CPROVER_old(g_wr)
#define E(k, W_, V_) (g_st[OWR + (k)].w == (W_) && g_st[OWR + (k)].v == (V_))
#define ENC_POST(n) (vf_exc == 0 && g_overflow == 0 && g_wr == OWR + (n))
/* every earlier cell kept (explicit conjunction over the model capacity: usable by callers that make several calls) */
#define K1(i) (!((i) < OWR) || (g_st[i].w == __CPROVER_old(g_st[i].w) && g_st[i].v == __CPROVER_old(g_st[i].v)))
#define K8(b) (K1(b) && K1(b + 1) && K1(b + 2) && K1(b + 3) && K1(b + 4) && K1(b + 5) && K1(b + 6) && K1(b + 7))
#define KEPT_ALL (K8(0) && K8(8) && K8(16) && K8(24))
_Static_assert(SCAP == 32, "KEPT_ALL enumerates 32 cells");
#define KEPT (!(gk < OWR) || (g_st[gk].w == __CPROVER_old(g_st[gk].w) && g_st[gk].v == __CPROVER_old(g_st[gk].v)))

/* ---------------- decoder side: the next cells, by width ---------------- */
#define TC_OK (times_considered >= 0 && times_considered <= 65535)
#define DEC_PRE(n)                                                                                                     \
  (vf_exc == 0 && g_misframe == 0 && g_wr <= SCAP && g_rd <= g_wr && g_wr - g_rd >= (n) &&                             \
   INVALID.value_ == VFC_INVALID_VALUE && TC_OK)
#define CW(i) (g_st[g_rd + (i)].w)
#define CV(i) (g_st[g_rd + (i)].v)
#define C4(i) (CW(i) == 4 && CV(i) >= 0 && CV(i) <= 0xFFFFFFFFL)
#define C1(i) (CW(i) == 1 && (CV(i) == 0 || CV(i) == 1))
#define C8PID(i) (CW(i) == 8 && CV(i) >= -1 && CV(i) <= 0x7FFFFFFFL) /* trusted: actor ids fit an int */
#define CS(i) (CW(i) == W_STR)
#define ORD __CPROVER_old(g_rd)
#define OV(i) (g_st[ORD + (i)].v)
#define DEC_FRAME __CPROVER_assigns(*self, g_rd, g_misframe, vf_exc)
#define AID_OK(v) ((v) < VFC_INVALID_VALUE) /* for v >= -1: -1 is "none", else a valid actor id */
#define AID_OF(v) ((v) == -1 ? VFC_INVALID_VALUE : (v))
#define BASE_OF(t, ty)                                                                                                 \
  ((t).type_ == (ty) && (t).aid_.value_ == issuer.value_ && (t).times_considered_ == times_considered)
#define BASE_OK(ty) BASE_OF(self->__b_Transition, ty)
#define DEC_POST(n) (vf_exc == 0 && g_misframe == 0 && g_rd == ORD + (n))
#define LOC_IS(t, v) (__CPROVER_is_fresh((t).call_location_, sizeof(vf_str)) && *(t).call_location_ == (v))


/* =====================================================================================================================
 * ENCODER CONTRACTS (application side)
 * =================================================================================================================== */
void MutexObserver__serialize(struct MutexObserver* self, struct Channel* channel)
    __CPROVER_requires(self == &g_o_mutex && g_o_mutex.mutex_ == &g_mutex && ACT_OR_NULL(g_mutex.owner_) && ENC_PRE(3))
    ENC_FRAME
    __CPROVER_ensures(ENC_POST(3))                                 /*@ mutex_enc_three_cells */
    __CPROVER_ensures(E(0, 4, U32(g_o_mutex.type_)))               /*@ mutex_enc_type */
    __CPROVER_ensures(E(1, 4, (long)g_mutex.id_))                  /*@ mutex_enc_id_u32 */
    __CPROVER_ensures(E(2, 8, PID(g_mutex.owner_)))                /*@ mutex_enc_owner_aid_or_minus1 */
    __CPROVER_ensures(KEPT)                                        /*@ mutex_enc_prefix_kept */;

void MutexAcquisitionObserver__serialize(struct MutexAcquisitionObserver* self, struct Channel* channel)
    __CPROVER_requires(self == &g_o_macq && g_o_macq.acquisition_ == &g_macq && g_macq.mutex_ == &g_mutex &&
                       ACT_OR_NULL(g_mutex.owner_) && ENC_PRE(3))
    ENC_FRAME
    __CPROVER_ensures(ENC_POST(3))                                 /*@ macq_enc_three_cells */
    __CPROVER_ensures(E(0, 4, U32(g_o_macq.type_)))                /*@ macq_enc_type */
    __CPROVER_ensures(E(1, 4, (long)g_mutex.id_))                  /*@ macq_enc_id_u32 */
    __CPROVER_ensures(E(2, 8, PID(g_mutex.owner_)))                /*@ macq_enc_owner_aid_or_minus1 */
    __CPROVER_ensures(KEPT)                                        /*@ macq_enc_prefix_kept */;

#define SEM_AVAIL ((long)g_sem.value_ - (long)g_sem.ongoing_acquisitions_.n)
void SemaphoreObserver__serialize(struct SemaphoreObserver* self, struct Channel* channel)
    __CPROVER_requires(self == &g_o_sem && g_o_sem.sem_ == &g_sem && g_sem.ongoing_acquisitions_.n <= VF_CAP && ENC_PRE(4))
    ENC_FRAME
    __CPROVER_ensures(ENC_POST(4))                                 /*@ sem_enc_four_cells */
    __CPROVER_ensures(E(0, 4, U32(g_o_sem.type_)))                 /*@ sem_enc_type */
    __CPROVER_ensures(E(1, 4, (long)g_sem.id_))                    /*@ sem_enc_id_u32 */
    __CPROVER_ensures(E(2, 1, 0))                                  /*@ sem_enc_granted_false */
    __CPROVER_ensures(E(3, 4, U32(SEM_AVAIL)))                     /*@ sem_enc_available_capacity_i32 */
    __CPROVER_ensures(KEPT)                                        /*@ sem_enc_prefix_kept */;

void SemaphoreAcquisitionObserver__serialize(struct SemaphoreAcquisitionObserver* self, struct Channel* channel)
    __CPROVER_requires(self == &g_o_sacq && g_o_sacq.acquisition_ == &g_sacq && g_sacq.semaphore_ == &g_sem && ENC_PRE(4))
    ENC_FRAME
    __CPROVER_ensures(ENC_POST(4))                                 /*@ sacq_enc_four_cells */
    __CPROVER_ensures(E(0, 4, U32(g_o_sacq.type_)))                /*@ sacq_enc_type */
    __CPROVER_ensures(E(1, 4, (long)g_sem.id_))                    /*@ sacq_enc_id_u32 */
    __CPROVER_ensures(E(2, 1, (g_sacq.granted_ ? 1 : 0)))          /*@ sacq_enc_granted */
    __CPROVER_ensures(E(3, 4, (long)g_sem.value_))                 /*@ sacq_enc_capacity_u32 */
    __CPROVER_ensures(KEPT)                                        /*@ sacq_enc_prefix_kept */;

#define BAR_WIRED                                                                                                      \
  ((g_o_bar.barrier_ == 0 || g_o_bar.barrier_ == &g_bar) && (g_o_bar.acquisition_ == 0 || g_o_bar.acquisition_ == &g_bacq) && \
   (g_bacq.barrier_ == 0 || g_bacq.barrier_ == &g_bar))
#define BAR_HAS (g_o_bar.barrier_ != 0 || (g_o_bar.acquisition_ != 0 && g_bacq.barrier_ != 0))
void BarrierObserver__serialize(struct BarrierObserver* self, struct Channel* channel)
    __CPROVER_requires(self == &g_o_bar && BAR_WIRED && ENC_PRE(2))
    ENC_FRAME
    __CPROVER_ensures((vf_exc == 0) == BAR_HAS)                    /*@ bar_enc_aborts_iff_no_barrier */
    __CPROVER_ensures(vf_exc == 0 || (vf_exc == VF_EXC_ABORT && g_wr == OWR))
    __CPROVER_ensures(vf_exc != 0 || (g_wr == OWR + 2 && g_overflow == 0)) /*@ bar_enc_two_cells */
    __CPROVER_ensures(vf_exc != 0 || E(0, 4, U32(g_o_bar.type_)))  /*@ bar_enc_type */
    __CPROVER_ensures(vf_exc != 0 || E(1, 4, (long)g_bar.id_))     /*@ bar_enc_id_u32 */
    __CPROVER_ensures(KEPT)                                        /*@ bar_enc_prefix_kept */;

#define CV_T (g_o_cond.type_)
#define CV_WIRED                                                                                                       \
  (g_o_cond.acquisition_ == &g_cacq && g_cacq.cond_ == &g_cond && g_cacq.mutex_ == &g_mutex && g_o_cond.cond_ == &g_cond && \
   g_o_cond.mutex_ == &g_mutex)
#define CV_KNOWN                                                                                                       \
  (CV_T == Type__CONDVAR_WAIT || CV_T == Type__CONDVAR_ASYNC_LOCK || CV_T == Type__CONDVAR_SIGNAL ||                    \
   CV_T == Type__CONDVAR_BROADCAST)
#define CV_LEN (CV_T == Type__CONDVAR_WAIT ? 5 : (CV_T == Type__CONDVAR_ASYNC_LOCK ? 3 : 2))
void ConditionVariableObserver__serialize(struct ConditionVariableObserver* self, struct Channel* channel)
    __CPROVER_requires(self == &g_o_cond && CV_WIRED && ENC_PRE(5))
    ENC_FRAME
    __CPROVER_ensures((vf_exc == 0) == CV_KNOWN)                   /*@ cond_enc_unimplemented_iff_other_type */
    __CPROVER_ensures(vf_exc != 0 || (g_wr == OWR + CV_LEN && g_overflow == 0)) /*@ cond_enc_cell_count */
    __CPROVER_ensures(vf_exc != 0 || E(0, 4, U32(CV_T)))           /*@ cond_enc_type */
    __CPROVER_ensures(vf_exc != 0 || E(1, 4, (long)g_cond.id_))    /*@ cond_enc_cond_id_u32 */
    __CPROVER_ensures(vf_exc != 0 || CV_LEN < 3 || E(2, 4, (long)g_mutex.id_)) /*@ cond_enc_mutex_id_u32 */
    __CPROVER_ensures(vf_exc != 0 || CV_LEN < 5 || E(3, 1, (g_cacq.granted_ ? 1 : 0))) /*@ cond_enc_granted */
    __CPROVER_ensures(vf_exc != 0 || CV_LEN < 5 || E(4, 1, (g_o_cond.timeout_ > 0 ? 1 : 0))) /*@ cond_enc_timeout */
    __CPROVER_ensures(KEPT)                                        /*@ cond_enc_prefix_kept */;

void CommIsendSimcall__serialize(struct CommIsendSimcall* self, struct Channel* channel)
    __CPROVER_requires(self == &g_o_isend && (g_o_isend.comm_ == 0 || g_o_isend.comm_ == &g_comm0) && g_o_isend.mbox_ == &g_mbox && ENC_PRE(5))
    ENC_FRAME
    __CPROVER_ensures(ENC_POST(5))                                 /*@ isend_enc_five_cells */
    __CPROVER_ensures(E(0, 4, Type__COMM_ASYNC_SEND))                 /*@ isend_enc_type */
    __CPROVER_ensures(E(1, 4, (g_o_isend.comm_ != 0 ? (long)g_comm0.id_ : 0L))) /*@ isend_enc_comm_u32_or_0 */
    __CPROVER_ensures(E(2, 4, (long)g_mbox.id_))                   /*@ isend_enc_mbox_u32 */
    __CPROVER_ensures(E(3, 4, U32(g_o_isend.tag_)))               /*@ isend_enc_tag_i32 */
    __CPROVER_ensures(E(4, W_STR, g_o_isend.fun_call_))           /*@ isend_enc_location */
    __CPROVER_ensures(KEPT)                                        /*@ isend_enc_prefix_kept */;

void CommIrecvSimcall__serialize(struct CommIrecvSimcall* self, struct Channel* channel)
    __CPROVER_requires(self == &g_o_irecv && (g_o_irecv.comm_ == 0 || g_o_irecv.comm_ == &g_comm0) && g_o_irecv.mbox_ == &g_mbox && ENC_PRE(5))
    ENC_FRAME
    __CPROVER_ensures(ENC_POST(5))                                 /*@ irecv_enc_five_cells */
    __CPROVER_ensures(E(0, 4, Type__COMM_ASYNC_RECV))                 /*@ irecv_enc_type */
    __CPROVER_ensures(E(1, 4, (g_o_irecv.comm_ != 0 ? (long)g_comm0.id_ : 0L))) /*@ irecv_enc_comm_u32_or_0 */
    __CPROVER_ensures(E(2, 4, (long)g_mbox.id_))                   /*@ irecv_enc_mbox_u32 */
    __CPROVER_ensures(E(3, 4, U32(g_o_irecv.tag_)))               /*@ irecv_enc_tag_i32 */
    __CPROVER_ensures(E(4, W_STR, g_o_irecv.fun_call_))           /*@ irecv_enc_location */
    __CPROVER_ensures(KEPT)                                        /*@ irecv_enc_prefix_kept */;

void IprobeSimcall__serialize(struct IprobeSimcall* self, struct Channel* channel)
    __CPROVER_requires(self == &g_o_iprobe && g_o_iprobe.mbox_ == &g_mbox && ENC_PRE(4))
    ENC_FRAME
    __CPROVER_ensures(ENC_POST(4))                                 /*@ iprobe_enc_four_cells */
    __CPROVER_ensures(E(0, 4, Type__COMM_IPROBE))                  /*@ iprobe_enc_type */
    __CPROVER_ensures(E(1, 4, (long)g_mbox.id_))                   /*@ iprobe_enc_mbox_u32 */
    __CPROVER_ensures(E(2, 1, (g_o_iprobe.kind_ == IprobeKind__SEND ? 1 : 0))) /*@ iprobe_enc_is_sender */
    __CPROVER_ensures(E(3, 4, U32(g_o_iprobe.tag_)))               /*@ iprobe_enc_tag_i32 */
    __CPROVER_ensures(KEPT)                                        /*@ iprobe_enc_prefix_kept */;

/* message queues: what the code does today (two raw pointers) -- the round-trip lemma rt_iput / rt_iget needs the
 * COMM_ASYNC_SEND / COMM_ASYNC_RECV layout of the checker instead */
void MessIputSimcall__serialize(struct MessIputSimcall* self, struct Channel* channel)
    __CPROVER_requires(self == &g_o_iput && ENC_PRE(3))
    ENC_FRAME
    __CPROVER_ensures(ENC_POST(3))                                 /*@ iput_enc_three_cells */
    __CPROVER_ensures(E(0, 4, Type__COMM_ASYNC_SEND))              /*@ iput_enc_type */
    __CPROVER_ensures(g_st[OWR + 1].w == 8 && g_st[OWR + 2].w == 8) /*@ iput_enc_two_pointers */
    __CPROVER_ensures(KEPT)                                        /*@ iput_enc_prefix_kept */;
void MessIgetSimcall__serialize(struct MessIgetSimcall* self, struct Channel* channel)
    __CPROVER_requires(self == &g_o_iget && ENC_PRE(3))
    ENC_FRAME
    __CPROVER_ensures(ENC_POST(3))                                 /*@ iget_enc_three_cells */
    __CPROVER_ensures(E(0, 4, Type__COMM_ASYNC_RECV))              /*@ iget_enc_type */
    __CPROVER_ensures(g_st[OWR + 1].w == 8 && g_st[OWR + 2].w == 8) /*@ iget_enc_two_pointers */
    __CPROVER_ensures(KEPT)                                        /*@ iget_enc_prefix_kept */;

void RandomSimcall__serialize(struct RandomSimcall* self, struct Channel* channel)
    __CPROVER_requires(self == &g_o_random && ENC_PRE(3))
    ENC_FRAME
    __CPROVER_ensures(ENC_POST(3))                                 /*@ random_enc_three_cells */
    __CPROVER_ensures(E(0, 4, Type__RANDOM))                       /*@ random_enc_type */
    __CPROVER_ensures(E(1, 4, U32(g_o_random.min_)))               /*@ random_enc_min_i32 */
    __CPROVER_ensures(E(2, 4, U32(g_o_random.max_)))               /*@ random_enc_max_i32 */
    __CPROVER_ensures(KEPT)                                        /*@ random_enc_prefix_kept */;

void ActorJoinSimcall__serialize(struct ActorJoinSimcall* self, struct Channel* channel)
    __CPROVER_requires(self == &g_o_join && g_o_join.other_ == &g_s4u_actor && g_s4u_actor.pimpl_ == &g_a0 && ENC_PRE(3))
    ENC_FRAME
    __CPROVER_ensures(ENC_POST(3))                                 /*@ join_enc_three_cells */
    __CPROVER_ensures(E(0, 4, Type__ACTOR_JOIN))                   /*@ join_enc_type */
    __CPROVER_ensures(E(1, 8, g_a0.__b_ActorIDTrait.pid_))         /*@ join_enc_target_aid */
    __CPROVER_ensures(E(2, 1, (g_o_join.timeout_ > 0 ? 1 : 0)))    /*@ join_enc_timeout */
    __CPROVER_ensures(KEPT)                                        /*@ join_enc_prefix_kept */;

void ActorExitSimcall__serialize(struct ActorExitSimcall* self, struct Channel* channel)
    __CPROVER_requires(self == &g_o_exit && ENC_PRE(1))
    ENC_FRAME
    __CPROVER_ensures(ENC_POST(1) && E(0, 4, Type__ACTOR_EXIT))    /*@ exit_enc_type_only */
    __CPROVER_ensures(KEPT)                                        /*@ exit_enc_prefix_kept */;
void ActorSleepSimcall__serialize(struct ActorSleepSimcall* self, struct Channel* channel)
    __CPROVER_requires(self == &g_o_sleep && ENC_PRE(1))
    ENC_FRAME
    __CPROVER_ensures(ENC_POST(1) && E(0, 4, Type__ACTOR_SLEEP))   /*@ sleep_enc_type_only */
    __CPROVER_ensures(KEPT)                                        /*@ sleep_enc_prefix_kept */;
void ActorCreateSimcall__serialize(struct ActorCreateSimcall* self, struct Channel* channel)
    __CPROVER_requires(self == &g_o_create && ENC_PRE(2))
    ENC_FRAME
    __CPROVER_ensures(ENC_POST(2) && E(0, 4, Type__ACTOR_CREATE))  /*@ create_enc_type */
    __CPROVER_ensures(E(1, 8, g_o_create.child_))                  /*@ create_enc_child_aid */
    __CPROVER_ensures(KEPT)                                        /*@ create_enc_prefix_kept */;

/* COMM_TEST / COMM_WAIT of one activity (shared by Test, Wait, TestAny, WaitAny) */
#define CM (AS_COMM(act))
void serialize_activity_test(struct ActivityImpl* act, vf_str call_location, struct Channel* channel)
    __CPROVER_requires(IS_ACTIVITY(act) && WF_COMMS && ENC_PRE(6))
    ENC_FRAME
    __CPROVER_ensures(vf_exc == 0 && g_overflow == 0 && g_wr == OWR + (CM != 0 ? 6 : 1)) /*@ test_enc_cell_count */
    __CPROVER_ensures(E(0, 4, (CM != 0 ? Type__COMM_TEST : Type__UNKNOWN)))              /*@ test_enc_type */
    __CPROVER_ensures(CM == 0 || E(1, 4, (long)CM->id_))                                 /*@ test_enc_comm_u32 */
    __CPROVER_ensures(CM == 0 || E(2, 8, PID(CM->src_actor_)))                           /*@ test_enc_sender_aid */
    __CPROVER_ensures(CM == 0 || E(3, 8, PID(CM->dst_actor_)))                           /*@ test_enc_receiver_aid */
    __CPROVER_ensures(CM == 0 || E(4, 4, U32(CM->mbox_id_)))                             /*@ test_enc_mbox_u32 */
    __CPROVER_ensures(CM == 0 || E(5, W_STR, call_location))                             /*@ test_enc_location */
    __CPROVER_ensures(KEPT_ALL)                                                          /*@ test_enc_prefix_kept */;

void serialize_activity_wait(struct ActivityImpl* act, _Bool timeout, vf_str call_location, struct Channel* channel)
    __CPROVER_requires(IS_ACTIVITY(act) && WF_COMMS && ENC_PRE(7))
    ENC_FRAME
    __CPROVER_ensures(vf_exc == 0 && g_overflow == 0 && g_wr == OWR + (CM != 0 ? 7 : 1)) /*@ wait_enc_cell_count */
    __CPROVER_ensures(E(0, 4, (CM != 0 ? Type__COMM_WAIT : Type__UNKNOWN)))              /*@ wait_enc_type */
    __CPROVER_ensures(CM == 0 || E(1, 1, (timeout ? 1 : 0)))                             /*@ wait_enc_timeout */
    __CPROVER_ensures(CM == 0 || E(2, 4, (long)CM->id_))                                 /*@ wait_enc_comm_u32 */
    __CPROVER_ensures(CM == 0 || E(3, 8, PID(CM->src_actor_)))                           /*@ wait_enc_sender_aid */
    __CPROVER_ensures(CM == 0 || E(4, 8, PID(CM->dst_actor_)))                           /*@ wait_enc_receiver_aid */
    __CPROVER_ensures(CM == 0 || E(5, 4, U32(CM->mbox_id_)))                             /*@ wait_enc_mbox_u32 */
    __CPROVER_ensures(CM == 0 || E(6, W_STR, call_location))                             /*@ wait_enc_location */
    __CPROVER_ensures(KEPT_ALL)                                                          /*@ wait_enc_prefix_kept */;
#undef CM

/* Test / Wait observers: exactly the cells of their activity */
#define CM (AS_COMM(g_o_test.activity_))
void ActivityTestSimcall__serialize(struct ActivityTestSimcall* self, struct Channel* channel)
    __CPROVER_requires(self == &g_o_test && IS_ACTIVITY(g_o_test.activity_) && WF_COMMS && ENC_PRE(6))
    ENC_FRAME
    __CPROVER_ensures(vf_exc == 0 && g_overflow == 0 && g_wr == OWR + (CM != 0 ? 6 : 1)) /*@ otest_enc_cell_count */
    __CPROVER_ensures(E(0, 4, (CM != 0 ? Type__COMM_TEST : Type__UNKNOWN)))              /*@ otest_enc_type */
    __CPROVER_ensures(CM == 0 || (E(1, 4, (long)CM->id_) && E(2, 8, PID(CM->src_actor_)) && E(3, 8, PID(CM->dst_actor_)) &&
                                  E(4, 4, U32(CM->mbox_id_)) && E(5, W_STR, g_o_test.fun_call_))) /*@ otest_enc_fields */
    __CPROVER_ensures(KEPT)                                                              /*@ otest_enc_prefix_kept */;
#undef CM
#define CM (AS_COMM(g_o_wait.activity_))
void ActivityWaitSimcall__serialize(struct ActivityWaitSimcall* self, struct Channel* channel)
    __CPROVER_requires(self == &g_o_wait && IS_ACTIVITY(g_o_wait.activity_) && WF_COMMS && ENC_PRE(7))
    ENC_FRAME
    __CPROVER_ensures(vf_exc == 0 && g_overflow == 0 && g_wr == OWR + (CM != 0 ? 7 : 1)) /*@ owait_enc_cell_count */
    __CPROVER_ensures(E(0, 4, (CM != 0 ? Type__COMM_WAIT : Type__UNKNOWN)))              /*@ owait_enc_type */
    __CPROVER_ensures(CM == 0 || (E(1, 1, (g_o_wait.timeout_ > 0 ? 1 : 0)) && E(2, 4, (long)CM->id_) &&
                                  E(3, 8, PID(CM->src_actor_)) && E(4, 8, PID(CM->dst_actor_)) &&
                                  E(5, 4, U32(CM->mbox_id_)) && E(6, W_STR, g_o_wait.fun_call_))) /*@ owait_enc_fields */
    __CPROVER_ensures(KEPT)                                                              /*@ owait_enc_prefix_kept */;
#undef CM

/* TESTANY / WAITANY observers (bounded: at most NANY activities, each any object of the activity universe, kinds mixed):
 *   stream' == stream ++ [type tag] ++ [count n : u32] ++ record(act_0) ++ .. ++ record(act_{n-1}) ++ [call location]
 * where record(act) is exactly what serialize_activity_test / _wait writes for that activity (6 / 7 cells for a
 * communication, the single UNKNOWN tag for any other kind). The decoder reads the count, then THAT MANY records: so
 * the number of records written must be the count that was packed - one record per activity, whatever its kind.    */
#if NANY != 3
#error "the ANY contracts are written out for NANY == 3"
#endif
#define ACTS_OK (IS_ACTIVITY(g_acts[0]) && IS_ACTIVITY(g_acts[1]) && IS_ACTIVITY(g_acts[2]))
#define ANY_WIRED(o)                                                                                                   \
  ((o).activities_.d == g_acts && (o).activities_.h == 0 && (o).activities_.n <= NANY && (o).activities_.cap == NANY && ACTS_OK)
#define CMI(i) (AS_COMM(g_acts[i]))
#define RLEN(i, L) (CMI(i) != 0 ? (L) : 1) /* cells of the record of activity i */
#define OFF0 2
#define OFF1(n, L) (OFF0 + ((n) > 0 ? RLEN(0, L) : 0))
#define OFF2(n, L) (OFF1(n, L) + ((n) > 1 ? RLEN(1, L) : 0))
#define OFF3(n, L) (OFF2(n, L) + ((n) > 2 ? RLEN(2, L) : 0))
#define REC_TEST(i, o, loc)                                                                                            \
  (CMI(i) == 0 ? E(o, 4, Type__UNKNOWN)                                                                                \
               : (E(o, 4, Type__COMM_TEST) && E((o) + 1, 4, (long)CMI(i)->id_) && E((o) + 2, 8, PID(CMI(i)->src_actor_)) && \
                  E((o) + 3, 8, PID(CMI(i)->dst_actor_)) && E((o) + 4, 4, U32(CMI(i)->mbox_id_)) && E((o) + 5, W_STR, loc)))
#define REC_WAIT(i, o, to, loc)                                                                                        \
  (CMI(i) == 0 ? E(o, 4, Type__UNKNOWN)                                                                                \
               : (E(o, 4, Type__COMM_WAIT) && E((o) + 1, 1, ((to) ? 1 : 0)) && E((o) + 2, 4, (long)CMI(i)->id_) &&       \
                  E((o) + 3, 8, PID(CMI(i)->src_actor_)) && E((o) + 4, 8, PID(CMI(i)->dst_actor_)) &&                    \
                  E((o) + 5, 4, U32(CMI(i)->mbox_id_)) && E((o) + 6, W_STR, loc)))
#define TN (g_o_testany.activities_.n)
#define WN (g_o_waitany.activities_.n)
void ActivityTestanySimcall__serialize(struct ActivityTestanySimcall* self, struct Channel* channel)
    __CPROVER_requires(self == &g_o_testany && ANY_WIRED(g_o_testany) && WF_COMMS && ENC_PRE(2 + 6 * NANY + 1))
    ENC_FRAME
    __CPROVER_ensures(ENC_POST(OFF3(TN, 6) + 1))                                  /*@ testany_enc_cell_count */
    __CPROVER_ensures(E(0, 4, Type__TESTANY))                                     /*@ testany_enc_type */
    __CPROVER_ensures(E(1, 4, (long)TN))                                          /*@ testany_enc_count_u32 */
    __CPROVER_ensures(!(TN > 0) || REC_TEST(0, OFF0, g_o_testany.fun_call_))      /*@ testany_enc_one_record_per_activity_0 */
    __CPROVER_ensures(!(TN > 1) || REC_TEST(1, OFF1(TN, 6), g_o_testany.fun_call_)) /*@ testany_enc_one_record_per_activity_1 */
    __CPROVER_ensures(!(TN > 2) || REC_TEST(2, OFF2(TN, 6), g_o_testany.fun_call_)) /*@ testany_enc_one_record_per_activity_2 */
    __CPROVER_ensures(E(OFF3(TN, 6), W_STR, g_o_testany.fun_call_))               /*@ testany_enc_location_after_the_records */
    __CPROVER_ensures(KEPT)                                                       /*@ testany_enc_prefix_kept */;
#define WTO (g_o_waitany.timeout_ > 0)
void ActivityWaitanySimcall__serialize(struct ActivityWaitanySimcall* self, struct Channel* channel)
    __CPROVER_requires(self == &g_o_waitany && ANY_WIRED(g_o_waitany) && WF_COMMS && ENC_PRE(2 + 7 * NANY + 1))
    ENC_FRAME
    __CPROVER_ensures(ENC_POST(OFF3(WN, 7) + 1))                                  /*@ waitany_enc_cell_count */
    __CPROVER_ensures(E(0, 4, Type__WAITANY))                                     /*@ waitany_enc_type */
    __CPROVER_ensures(E(1, 4, (long)WN))                                          /*@ waitany_enc_count_u32 */
    __CPROVER_ensures(!(WN > 0) || REC_WAIT(0, OFF0, WTO, g_o_waitany.fun_call_)) /*@ waitany_enc_one_record_per_activity_0 */
    __CPROVER_ensures(!(WN > 1) || REC_WAIT(1, OFF1(WN, 7), WTO, g_o_waitany.fun_call_)) /*@ waitany_enc_one_record_per_activity_1 */
    __CPROVER_ensures(!(WN > 2) || REC_WAIT(2, OFF2(WN, 7), WTO, g_o_waitany.fun_call_)) /*@ waitany_enc_one_record_per_activity_2 */
    __CPROVER_ensures(E(OFF3(WN, 7), W_STR, g_o_waitany.fun_call_))               /*@ waitany_enc_location_after_the_records */
    __CPROVER_ensures(KEPT)                                                       /*@ waitany_enc_prefix_kept */;

/* =====================================================================================================================
 * DECODER CONTRACTS (checker side)
 * =================================================================================================================== */
#define EXC_ABOVE VF_EXC_AidCannotBeAboveMaxThreads
int verify_aid_is_valid(int val)
    __CPROVER_requires(vf_exc == 0)
    __CPROVER_assigns(vf_exc)
    __CPROVER_ensures((vf_exc == 0) == (val >= 0 && val < VFC_INVALID_VALUE))  /*@ aid_valid_iff_in_0_to_invalid */
    __CPROVER_ensures(vf_exc != 0 || __CPROVER_return_value == val)            /*@ aid_valid_returns_val */
    __CPROVER_ensures(vf_exc == 0 || __CPROVER_return_value == 0)
    __CPROVER_ensures(vf_exc == 0 || vf_exc == (val < 0 ? VF_EXC_AidCannotBeNegative : EXC_ABOVE)) /*@ aid_error_kind */;

void Aid__ctor(struct Aid* self, int val, _Bool check_validity)
    __CPROVER_requires(__CPROVER_rw_ok(self, sizeof(*self)) && vf_exc == 0 && (check_validity || (val >= 0 && val <= 255)))
    __CPROVER_assigns(*self, vf_exc)
    __CPROVER_ensures((vf_exc == 0) == (!check_validity || (val >= 0 && val < VFC_INVALID_VALUE))) /*@ aid_ctor_checks_range */
    __CPROVER_ensures(vf_exc != 0 || self->value_ == val)                      /*@ aid_ctor_stores_val */
    __CPROVER_ensures(vf_exc == 0 || vf_exc == (val < 0 ? VF_EXC_AidCannotBeNegative : EXC_ABOVE));

void Aid__ctor0(struct Aid* self)
    __CPROVER_requires(__CPROVER_rw_ok(self, sizeof(*self)))
    __CPROVER_assigns(*self)
    __CPROVER_ensures(self->value_ == VFC_INVALID_VALUE)                        /*@ aid_default_is_invalid */;

void Transition__ctor(struct Transition* self, int type, struct Aid issuer, int times_considered)
    __CPROVER_requires(__CPROVER_rw_ok(self, sizeof(*self)) && TC_OK)
    __CPROVER_assigns(*self)
    __CPROVER_ensures(BASE_OF(*self, type))                                     /*@ transition_base_type_issuer_times */
    __CPROVER_ensures(self->call_location_ == 0);

#define SELF_OK __CPROVER_rw_ok(self, sizeof(*self))

void BarrierTransition__ctor(struct BarrierTransition* self, struct Aid issuer, int times_considered, int type, struct Channel* channel)
    __CPROVER_requires(SELF_OK && DEC_PRE(1) && C4(0))
    DEC_FRAME
    __CPROVER_ensures(DEC_POST(1))                                              /*@ bar_dec_one_cell */
    __CPROVER_ensures(BASE_OK(type))                                            /*@ bar_dec_base */
    __CPROVER_ensures(self->bar_ == (unsigned)OV(0))                            /*@ bar_dec_id */;

void MutexTransition__ctor(struct MutexTransition* self, struct Aid issuer, int times_considered, int type, struct Channel* channel)
    __CPROVER_requires(SELF_OK && DEC_PRE(2) && C4(0) && C8PID(1))
    DEC_FRAME
    __CPROVER_ensures(g_misframe == 0 && g_rd == ORD + 2)                       /*@ mutex_dec_two_cells */
    __CPROVER_ensures((vf_exc == 0) == AID_OK(OV(1)))                           /*@ mutex_dec_error_iff_owner_not_an_aid */
    __CPROVER_ensures(vf_exc == 0 || vf_exc == EXC_ABOVE)
    __CPROVER_ensures(vf_exc != 0 || BASE_OK(type))                             /*@ mutex_dec_base */
    __CPROVER_ensures(vf_exc != 0 || self->mutex_ == (unsigned long)OV(0))      /*@ mutex_dec_id */
    __CPROVER_ensures(vf_exc != 0 || self->owner_.value_ == AID_OF(OV(1)))      /*@ mutex_dec_owner_minus1_is_invalid */;

void SemaphoreTransition__ctor(struct SemaphoreTransition* self, struct Aid issuer, int times_considered, int type, struct Channel* channel)
    __CPROVER_requires(SELF_OK && DEC_PRE(3) && C4(0) && C1(1) && C4(2))
    DEC_FRAME
    __CPROVER_ensures(DEC_POST(3))                                              /*@ sem_dec_three_cells */
    __CPROVER_ensures(BASE_OK(type))                                            /*@ sem_dec_base */
    __CPROVER_ensures(self->sem_ == (unsigned)OV(0))                            /*@ sem_dec_id */
    __CPROVER_ensures(self->granted_ == (OV(1) != 0))                           /*@ sem_dec_granted */
    __CPROVER_ensures(self->capacity_ == S32(OV(2)))                            /*@ sem_dec_capacity_i32 */;

#define CVD_LEN (type == Type__CONDVAR_WAIT ? 4 : (type == Type__CONDVAR_ASYNC_LOCK ? 2 : 1))
#define CVD_KNOWN                                                                                                      \
  (type == Type__CONDVAR_WAIT || type == Type__CONDVAR_ASYNC_LOCK || type == Type__CONDVAR_SIGNAL ||                    \
   type == Type__CONDVAR_BROADCAST)
void CondvarTransition__ctor(struct CondvarTransition* self, struct Aid issuer, int times_considered, int type, struct Channel* channel)
    __CPROVER_requires(SELF_OK && DEC_PRE(CVD_LEN) && CVD_KNOWN && C4(0))
    __CPROVER_requires(CVD_LEN < 2 || C4(1))
    __CPROVER_requires(CVD_LEN < 4 || (C1(2) && C1(3)))
    DEC_FRAME
    __CPROVER_ensures(DEC_POST(CVD_LEN))                                        /*@ cond_dec_cell_count */
    __CPROVER_ensures(BASE_OK(type))                                            /*@ cond_dec_base */
    __CPROVER_ensures(self->condvar_ == (unsigned)OV(0))                        /*@ cond_dec_cond_id */
    __CPROVER_ensures(CVD_LEN < 2 || self->mutex_ == (unsigned)OV(1))           /*@ cond_dec_mutex_id */
    __CPROVER_ensures(CVD_LEN < 4 || self->granted_ == (OV(2) != 0))            /*@ cond_dec_granted */
    __CPROVER_ensures(CVD_LEN < 4 || self->timeout_ == (OV(3) != 0))            /*@ cond_dec_timeout */;

void CommWaitTransition__ctor(struct CommWaitTransition* self, struct Aid issuer, int times_considered, struct Channel* channel)
    __CPROVER_requires(SELF_OK && DEC_PRE(6) && C1(0) && C4(1) && C8PID(2) && C8PID(3) && C4(4) && CS(5))
    DEC_FRAME
    __CPROVER_ensures(g_misframe == 0)
    __CPROVER_ensures((vf_exc == 0) == (AID_OK(OV(2)) && AID_OK(OV(3))))        /*@ cwait_dec_error_iff_actor_not_an_aid */
    __CPROVER_ensures(vf_exc == 0 || vf_exc == EXC_ABOVE)
    __CPROVER_ensures(vf_exc != 0 || g_rd == ORD + 6)                           /*@ cwait_dec_six_cells */
    __CPROVER_ensures(vf_exc != 0 || BASE_OK(Type__COMM_WAIT))                  /*@ cwait_dec_base */
    __CPROVER_ensures(vf_exc != 0 || self->timeout_ == (OV(0) != 0))            /*@ cwait_dec_timeout */
    __CPROVER_ensures(vf_exc != 0 || self->comm_ == (unsigned)OV(1))            /*@ cwait_dec_comm */
    __CPROVER_ensures(vf_exc != 0 || self->sender_.value_ == AID_OF(OV(2)))     /*@ cwait_dec_sender */
    __CPROVER_ensures(vf_exc != 0 || self->receiver_.value_ == AID_OF(OV(3)))   /*@ cwait_dec_receiver */
    __CPROVER_ensures(vf_exc != 0 || self->mbox_ == (unsigned)OV(4))            /*@ cwait_dec_mbox */
    __CPROVER_ensures(vf_exc != 0 || LOC_IS(self->__b_Transition, OV(5)))       /*@ cwait_dec_location */;

void CommTestTransition__ctor(struct CommTestTransition* self, struct Aid issuer, int times_considered, struct Channel* channel)
    __CPROVER_requires(SELF_OK && DEC_PRE(5) && C4(0) && C8PID(1) && C8PID(2) && C4(3) && CS(4))
    DEC_FRAME
    __CPROVER_ensures(g_misframe == 0)
    __CPROVER_ensures((vf_exc == 0) == (AID_OK(OV(1)) && AID_OK(OV(2))))        /*@ ctest_dec_error_iff_actor_not_an_aid */
    __CPROVER_ensures(vf_exc == 0 || vf_exc == EXC_ABOVE)
    __CPROVER_ensures(vf_exc != 0 || g_rd == ORD + 5)                           /*@ ctest_dec_five_cells */
    __CPROVER_ensures(vf_exc != 0 || BASE_OK(Type__COMM_TEST))                  /*@ ctest_dec_base */
    __CPROVER_ensures(vf_exc != 0 || self->comm_ == (unsigned)OV(0))            /*@ ctest_dec_comm */
    __CPROVER_ensures(vf_exc != 0 || self->sender_.value_ == AID_OF(OV(1)))     /*@ ctest_dec_sender */
    __CPROVER_ensures(vf_exc != 0 || self->receiver_.value_ == AID_OF(OV(2)))   /*@ ctest_dec_receiver */
    __CPROVER_ensures(vf_exc != 0 || self->mbox_ == (unsigned)OV(3))            /*@ ctest_dec_mbox */
    __CPROVER_ensures(vf_exc != 0 || LOC_IS(self->__b_Transition, OV(4)))       /*@ ctest_dec_location */;

void CommRecvTransition__ctor(struct CommRecvTransition* self, struct Aid issuer, int times_considered, struct Channel* channel)
    __CPROVER_requires(SELF_OK && DEC_PRE(4) && C4(0) && C4(1) && C4(2) && CS(3))
    DEC_FRAME
    __CPROVER_ensures(DEC_POST(4))                                              /*@ recv_dec_four_cells */
    __CPROVER_ensures(BASE_OK(Type__COMM_ASYNC_RECV))                           /*@ recv_dec_base */
    __CPROVER_ensures(self->comm_ == (unsigned)OV(0))                           /*@ recv_dec_comm */
    __CPROVER_ensures(self->mbox_ == (unsigned)OV(1))                           /*@ recv_dec_mbox */
    __CPROVER_ensures(self->tag_ == S32(OV(2)))                                 /*@ recv_dec_tag */
    __CPROVER_ensures(LOC_IS(self->__b_Transition, OV(3)))                      /*@ recv_dec_location */;

void CommSendTransition__ctor(struct CommSendTransition* self, struct Aid issuer, int times_considered, struct Channel* channel)
    __CPROVER_requires(SELF_OK && DEC_PRE(4) && C4(0) && C4(1) && C4(2) && CS(3))
    DEC_FRAME
    __CPROVER_ensures(DEC_POST(4))                                              /*@ send_dec_four_cells */
    __CPROVER_ensures(BASE_OK(Type__COMM_ASYNC_SEND))                           /*@ send_dec_base */
    __CPROVER_ensures(self->comm_ == (unsigned)OV(0))                           /*@ send_dec_comm */
    __CPROVER_ensures(self->mbox_ == (unsigned)OV(1))                           /*@ send_dec_mbox */
    __CPROVER_ensures(self->tag_ == S32(OV(2)))                                 /*@ send_dec_tag */
    __CPROVER_ensures(LOC_IS(self->__b_Transition, OV(3)))                      /*@ send_dec_location */;

void CommIprobeTransition__ctor(struct CommIprobeTransition* self, struct Aid issuer, int times_considered, struct Channel* channel)
    __CPROVER_requires(SELF_OK && DEC_PRE(3) && C4(0) && C1(1) && C4(2))
    DEC_FRAME
    __CPROVER_ensures(DEC_POST(3))                                              /*@ iprobe_dec_three_cells */
    __CPROVER_ensures(BASE_OK(Type__COMM_IPROBE))                               /*@ iprobe_dec_base */
    __CPROVER_ensures(self->mbox_ == (unsigned)OV(0))                           /*@ iprobe_dec_mbox */
    __CPROVER_ensures(self->is_sender_ == (OV(1) != 0))                         /*@ iprobe_dec_is_sender */
    __CPROVER_ensures(self->tag_ == S32(OV(2)))                                 /*@ iprobe_dec_tag */;

void ActorJoinTransition__ctor(struct ActorJoinTransition* self, struct Aid issuer, int times_considered, struct Channel* channel)
    __CPROVER_requires(SELF_OK && DEC_PRE(2) && C8PID(0) && C1(1))
    DEC_FRAME
    __CPROVER_ensures(g_misframe == 0)
    __CPROVER_ensures((vf_exc == 0) == AID_OK(OV(0)))                           /*@ join_dec_error_iff_target_not_an_aid */
    __CPROVER_ensures(vf_exc == 0 || vf_exc == EXC_ABOVE)
    __CPROVER_ensures(vf_exc != 0 || g_rd == ORD + 2)                           /*@ join_dec_two_cells */
    __CPROVER_ensures(vf_exc != 0 || BASE_OK(Type__ACTOR_JOIN))                 /*@ join_dec_base */
    __CPROVER_ensures(vf_exc != 0 || self->target_.value_ == AID_OF(OV(0)))     /*@ join_dec_target */
    __CPROVER_ensures(vf_exc != 0 || self->timeout_ == (OV(1) != 0))            /*@ join_dec_timeout */;

void ActorExitTransition__ctor(struct ActorExitTransition* self, struct Aid issuer, int times_considered, struct Channel* channel)
    __CPROVER_requires(SELF_OK && DEC_PRE(0))
    DEC_FRAME
    __CPROVER_ensures(DEC_POST(0) && BASE_OK(Type__ACTOR_EXIT))                 /*@ exit_dec_no_cell */;

void ActorSleepTransition__ctor(struct ActorSleepTransition* self, struct Aid issuer, int times_considered, struct Channel* channel)
    __CPROVER_requires(SELF_OK && DEC_PRE(0))
    DEC_FRAME
    __CPROVER_ensures(DEC_POST(0) && BASE_OK(Type__ACTOR_SLEEP))                /*@ sleep_dec_no_cell */;

void ActorCreateTransition__ctor(struct ActorCreateTransition* self, struct Aid issuer, int times_considered, struct Channel* channel)
    __CPROVER_requires(SELF_OK && DEC_PRE(1) && C8PID(0))
    DEC_FRAME
    __CPROVER_ensures(g_misframe == 0 && g_rd == ORD + 1)                       /*@ create_dec_one_cell */
    __CPROVER_ensures((vf_exc == 0) == AID_OK(OV(0)))                           /*@ create_dec_error_iff_child_not_an_aid */
    __CPROVER_ensures(vf_exc == 0 || vf_exc == EXC_ABOVE)
    __CPROVER_ensures(vf_exc != 0 || BASE_OK(Type__ACTOR_CREATE))               /*@ create_dec_base */
    __CPROVER_ensures(vf_exc != 0 || self->child_.value_ == AID_OF(OV(0)))      /*@ create_dec_child */;

void RandomTransition__ctor(struct RandomTransition* self, struct Aid issuer, int times_considered, struct Channel* channel)
    __CPROVER_requires(SELF_OK && DEC_PRE(2) && C4(0) && C4(1))
    DEC_FRAME
    __CPROVER_ensures(DEC_POST(2))                                              /*@ random_dec_two_cells */
    __CPROVER_ensures(BASE_OK(Type__RANDOM))                                    /*@ random_dec_base */
    __CPROVER_ensures(self->min_ == S32(OV(0)))                                 /*@ random_dec_min */
    __CPROVER_ensures(self->max_ == S32(OV(1)))                                 /*@ random_dec_max */;

/* Two versions of the TESTANY / WAITANY constructor contracts. The one in force (used by every listed harness) is the
 * EMPTY-case contract of the first round. The GENERAL one (-DVF_ANY_GENERAL: n <= NANY records) is kept for the
 * harnesses dec_testany / dec_waitany / rt_testany / rt_waitany, which are NOT listed in check.json: see level_note. */
#ifdef VF_ANY_GENERAL
/* TESTANY / WAITANY constructors (bounded: count <= NANY). Precondition: the cells after the tag are a count n, then n
 * well-framed records (UNKNOWN tag alone, or COMM_TEST / COMM_WAIT with its cells; actor ids valid or -1: the error path
 * of an id beyond max_threads is covered by rt_test / rt_wait), then a string. The constructor consumes exactly these
 * cells and builds n inner transitions. The layout predicates are plain C functions (nested macros made cbmc's
 * property instrumentation run > 10 min); b = read position at entry (<= 3: at most two cells of earlier transitions
 * + the tag), offsets are relative to b.                                                                           */
#define ANY_BMAX 3
static _Bool any_c4(size_t p) { return p < SCAP && g_st[p].w == 4 && g_st[p].v >= 0 && g_st[p].v <= 0xFFFFFFFFL; }
static _Bool any_c1(size_t p) { return p < SCAP && g_st[p].w == 1 && (g_st[p].v == 0 || g_st[p].v == 1); }
static _Bool any_c8aid(size_t p) { return p < SCAP && g_st[p].w == 8 && g_st[p].v >= -1 && g_st[p].v < VFC_INVALID_VALUE; }
static _Bool any_cs(size_t p) { return p < SCAP && g_st[p].w == W_STR; }
/* ghost description of the records that follow (pinned to the stream by any_stream_ok): their number and, for each,
 * whether it is a communication record (L cells) or the single UNKNOWN tag. Offsets are computed from the GHOSTS, not
 * from tags read back from the stream: a read at an index that depends on earlier symbolic reads is a 32-way case split
 * per level in cbmc's symbolic execution (three levels never finished).                                            */
size_t g_any_n;
_Bool g_any_comm[NANY];
/* offset of record k (k == count: of the call location) when communication records have L cells */
static size_t any_off(int k, int L)
{
  size_t o = 1;
  if (k > 0 && g_any_n > 0)
    o += (g_any_comm[0] ? (size_t)L : 1);
  if (k > 1 && g_any_n > 1)
    o += (g_any_comm[1] ? (size_t)L : 1);
  if (k > 2 && g_any_n > 2)
    o += (g_any_comm[2] ? (size_t)L : 1);
  return o;
}
static _Bool any_rec_ok(size_t p, int T, _Bool comm)
{
  if (!any_c4(p))
    return 0;
  if (!comm)
    return g_st[p].v == Type__UNKNOWN;
  if (g_st[p].v != T)
    return 0;
  if (T == Type__COMM_WAIT)
    return any_c1(p + 1) && any_c4(p + 2) && any_c8aid(p + 3) && any_c8aid(p + 4) && any_c4(p + 5) && any_cs(p + 6);
  return any_c4(p + 1) && any_c8aid(p + 2) && any_c8aid(p + 3) && any_c4(p + 4) && any_cs(p + 5);
}
static _Bool any_stream_ok(size_t b, int T, int L)
{
  if (b > ANY_BMAX || g_any_n > NANY || !any_c4(b) || g_st[b].v != (long)g_any_n)
    return 0;
  if (!(g_wr <= SCAP && b <= g_wr && g_wr - b >= any_off(3, L) + 1))
    return 0;
  if (g_any_n > 0 && !any_rec_ok(b + any_off(0, L), T, g_any_comm[0]))
    return 0;
  if (g_any_n > 1 && !any_rec_ok(b + any_off(1, L), T, g_any_comm[1]))
    return 0;
  if (g_any_n > 2 && !any_rec_ok(b + any_off(2, L), T, g_any_comm[2]))
    return 0;
  return any_cs(b + any_off(3, L));
}
static long any_loc(size_t b, int L)
{
  size_t p = b + any_off(3, L);
  return (b <= ANY_BMAX && p < SCAP) ? g_st[p].v : 0;
}
#define TRS (self->transitions_)
void TestAnyTransition__ctor(struct TestAnyTransition* self, struct Aid issuer, int times_considered, struct Channel* channel)
    __CPROVER_requires(SELF_OK && DEC_PRE(2) && any_stream_ok(g_rd, Type__COMM_TEST, 6))
    DEC_FRAME
    __CPROVER_ensures(DEC_POST(any_off(3, 6) + 1))        /*@ testany_dec_consumes_count_records_location */
    __CPROVER_ensures(BASE_OK(Type__TESTANY))                                    /*@ testany_dec_base */
    __CPROVER_ensures(TRS.n == g_any_n && TRS.h == 0)                      /*@ testany_dec_as_many_inner_transitions_as_the_count */
    __CPROVER_ensures(LOC_IS(self->__b_Transition, any_loc(ORD, 6))) /*@ testany_dec_location */;
void WaitAnyTransition__ctor(struct WaitAnyTransition* self, struct Aid issuer, int times_considered, struct Channel* channel)
    __CPROVER_requires(SELF_OK && DEC_PRE(2) && any_stream_ok(g_rd, Type__COMM_WAIT, 7))
    DEC_FRAME
    __CPROVER_ensures(DEC_POST(any_off(3, 7) + 1))        /*@ waitany_dec_consumes_count_records_location */
    __CPROVER_ensures(BASE_OK(Type__WAITANY))                                    /*@ waitany_dec_base */
    __CPROVER_ensures(TRS.n == g_any_n && TRS.h == 0)                      /*@ waitany_dec_as_many_inner_transitions_as_the_count */
    __CPROVER_ensures(LOC_IS(self->__b_Transition, any_loc(ORD, 7))) /*@ waitany_dec_location */;

#else
/* TESTANY / WAITANY constructors: contract for the EMPTY case only (used when the real deserialize_transition body is
 * run by the lemmas of the other kinds and by rt_any_dispatch); the general case is lemma rt_testany / rt_waitany,
 * which runs the constructor BODY (bounded by NANY). */
void TestAnyTransition__ctor(struct TestAnyTransition* self, struct Aid issuer, int times_considered, struct Channel* channel)
    __CPROVER_requires(SELF_OK && DEC_PRE(2) && C4(0) && CV(0) == 0 && CS(1))
    DEC_FRAME
    __CPROVER_ensures(DEC_POST(2))                                              /*@ testany0_dec_two_cells */
    __CPROVER_ensures(BASE_OK(Type__TESTANY) && self->transitions_.n == 0)      /*@ testany0_dec_base_and_empty */
    __CPROVER_ensures(LOC_IS(self->__b_Transition, OV(1)))                      /*@ testany0_dec_location */;
void WaitAnyTransition__ctor(struct WaitAnyTransition* self, struct Aid issuer, int times_considered, struct Channel* channel)
    __CPROVER_requires(SELF_OK && DEC_PRE(2) && C4(0) && CV(0) == 0 && CS(1))
    DEC_FRAME
    __CPROVER_ensures(DEC_POST(2))                                              /*@ waitany0_dec_two_cells */
    __CPROVER_ensures(BASE_OK(Type__WAITANY) && self->transitions_.n == 0)      /*@ waitany0_dec_base_and_empty */
    __CPROVER_ensures(LOC_IS(self->__b_Transition, OV(1)))                      /*@ waitany0_dec_location */;

#endif
/* deserialize_transition as a CALLEE (inner transitions of TESTANY / WAITANY): COMM_TEST, COMM_WAIT, UNKNOWN.
 * (The round-trip lemmas of every kind run its real BODY.) */
#define TAG0 (g_st[g_rd].v)
#define OTAG (g_st[ORD].v)
#define RES __CPROVER_return_value
struct Transition* deserialize_transition(struct Aid issuer, int times_considered, struct Channel* channel)
    __CPROVER_requires(DEC_PRE(1) && C4(0))
    __CPROVER_requires(TAG0 == Type__COMM_TEST || TAG0 == Type__COMM_WAIT || TAG0 == Type__UNKNOWN)
    __CPROVER_requires(TAG0 != Type__COMM_TEST ||
                       (g_wr - g_rd >= 6 && C4(1) && C8PID(2) && C8PID(3) && C4(4) && CS(5)))
    __CPROVER_requires(TAG0 != Type__COMM_WAIT ||
                       (g_wr - g_rd >= 7 && C1(1) && C4(2) && C8PID(3) && C8PID(4) && C4(5) && CS(6)))
    __CPROVER_assigns(g_rd, g_misframe, vf_exc)
    __CPROVER_ensures(g_misframe == 0)                                          /*@ deser_inner_no_misframe */
    __CPROVER_ensures(vf_exc == 0 || vf_exc == EXC_ABOVE)
    __CPROVER_ensures(OTAG != Type__UNKNOWN ||
                      (vf_exc == 0 && g_rd == ORD + 1 && __CPROVER_is_fresh(RES, sizeof(struct Transition)) &&
                       BASE_OF(*RES, Type__UNKNOWN)))                           /*@ deser_unknown_is_plain_transition */
    __CPROVER_ensures(OTAG != Type__COMM_TEST || ((vf_exc == 0) == (AID_OK(OV(2)) && AID_OK(OV(3))))) /*@ deser_test_error_iff_not_an_aid */
    __CPROVER_ensures(OTAG != Type__COMM_TEST || vf_exc != 0 ||
                      (g_rd == ORD + 6 && __CPROVER_is_fresh(RES, sizeof(struct CommTestTransition)) &&
                       BASE_OF(*RES, Type__COMM_TEST) && ((struct CommTestTransition*)RES)->comm_ == (unsigned)OV(1) &&
                       ((struct CommTestTransition*)RES)->sender_.value_ == AID_OF(OV(2)) &&
                       ((struct CommTestTransition*)RES)->receiver_.value_ == AID_OF(OV(3)) &&
                       ((struct CommTestTransition*)RES)->mbox_ == (unsigned)OV(4) && LOC_IS(*RES, OV(5)))) /*@ deser_test_fields */
    __CPROVER_ensures(OTAG != Type__COMM_WAIT || ((vf_exc == 0) == (AID_OK(OV(3)) && AID_OK(OV(4))))) /*@ deser_wait_error_iff_not_an_aid */
    __CPROVER_ensures(OTAG != Type__COMM_WAIT || vf_exc != 0 ||
                      (g_rd == ORD + 7 && __CPROVER_is_fresh(RES, sizeof(struct CommWaitTransition)) &&
                       BASE_OF(*RES, Type__COMM_WAIT) && ((struct CommWaitTransition*)RES)->timeout_ == (OV(1) != 0) &&
                       ((struct CommWaitTransition*)RES)->comm_ == (unsigned)OV(2) &&
                       ((struct CommWaitTransition*)RES)->sender_.value_ == AID_OF(OV(3)) &&
                       ((struct CommWaitTransition*)RES)->receiver_.value_ == AID_OF(OV(4)) &&
                       ((struct CommWaitTransition*)RES)->mbox_ == (unsigned)OV(5) && LOC_IS(*RES, OV(6)))) /*@ deser_wait_fields */;

/* the loops of the TESTANY / WAITANY observers carry no loop contract: they are unwound (NANY + 2, with unwinding
 * assertions, before dfcc: check.json unwind_first) in enc_testany / enc_waitany. */
#ifdef VF_ANY_GENERAL
/* the loops of the TESTANY / WAITANY observers carry no loop contract: they are unwound (NANY + 2, with unwinding
 * assertions, before dfcc: check.json unwind_first) in enc_testany / enc_waitany.
 * The constructors' loops have a loop contract (one symbolic iteration = ONE application of the deserialize_transition
 * contract; unwinding them piles up the conditional is_fresh objects of that contract and symex does not finish):
 * after i records the read position is the offset of record i (computed from the ghosts), i inner transitions stored */
#define ANY_LEN(k, L) (g_any_comm[k] ? (L) : 1)
#define ANY_OFFI(i, L) (((i) > 0 ? ANY_LEN(0, L) : 0) + ((i) > 1 ? ANY_LEN(1, L) : 0) + ((i) > 2 ? ANY_LEN(2, L) : 0))
#define ANY_LOOP(L)                                                                                                    \
  __CPROVER_assigns(i, g_rd, g_misframe, vf_exc, self->transitions_.n, __CPROVER_object_whole(self->transitions_.d))   \
      __CPROVER_loop_invariant(i <= size && size == g_any_n && g_any_n <= NANY && vf_exc == 0 && g_misframe == 0 &&    \
                               g_rd == __CPROVER_loop_entry(g_rd) + ANY_OFFI(i, L) && self->transitions_.n == i &&     \
                               self->transitions_.h == 0 && self->transitions_.cap == VF_CAP &&                        \
                               self->transitions_.d == __CPROVER_loop_entry(self->transitions_.d))                     \
          __CPROVER_decreases(size - i)
#define VF_LOOP_TestAnyTransition__ctor_0 ANY_LOOP(6)
#define VF_LOOP_WaitAnyTransition__ctor_0 ANY_LOOP(7)
#else
/* TESTANY / WAITANY constructor loops, for the empty-case contracts above: never entered */
#define VF_LOOP_TestAnyTransition__ctor_0 __CPROVER_assigns(i) __CPROVER_loop_invariant(i == 0 && size == 0) __CPROVER_decreases(size - i)
#define VF_LOOP_WaitAnyTransition__ctor_0 __CPROVER_assigns(i) __CPROVER_loop_invariant(i == 0 && size == 0) __CPROVER_decreases(size - i)
#endif
#include "gen.c"

/* =====================================================================================================================
 * HARNESSES
 * =================================================================================================================== */
unsigned char nondet_uchar(void);
static struct ActorImpl* pick_actor(void)
{
  int c = nondet_int();
  return c == 0 ? (struct ActorImpl*)0 : (c == 1 ? &g_a0 : &g_a1);
}
static struct ActivityImpl* pick_activity(void)
{
  int c = nondet_int();
  return c == 0 ? (struct ActivityImpl*)&g_comm0 : (c == 1 ? (struct ActivityImpl*)&g_comm1 : &g_other_act);
}
/* arbitrary stream, arbitrary read / write positions */
static void setup_stream(void)
{
  __CPROVER_havoc_object(g_st);
  g_wr       = nondet_size();
  g_rd       = nondet_size();
  gk         = nondet_size();
  __CPROVER_assume(gk < SCAP);
  g_misframe = 0;
  g_overflow = 0;
  vf_exc     = 0;
  INVALID.value_ = VFC_INVALID_VALUE; /* src/mc/api/BasicTypes.cpp: Aid::INVALID{INVALID_VALUE, false} */
}
/* arbitrary application objects, pointers wired among the objects above */
static void setup_app(void)
{
  g_a0.__b_ActorIDTrait.pid_ = nondet_long();
  g_a1.__b_ActorIDTrait.pid_ = nondet_long();
  g_s4u_actor.pimpl_         = &g_a0;
  g_mutex.id_                = nondet_unsigned();
  g_mutex.owner_             = pick_actor();
  g_sem.id_                  = nondet_unsigned();
  g_sem.value_               = nondet_unsigned();
  g_sem.ongoing_acquisitions_.d   = 0;
  g_sem.ongoing_acquisitions_.h   = 0;
  g_sem.ongoing_acquisitions_.cap = VF_CAP;
  g_sem.ongoing_acquisitions_.n   = nondet_size();
  __CPROVER_assume(g_sem.ongoing_acquisitions_.n <= VF_CAP);
  g_bar.id_       = nondet_unsigned();
  g_cond.id_      = nondet_unsigned();
  g_mbox.id_      = nondet_unsigned();
  g_comm0.id_     = nondet_unsigned();
  g_comm1.id_     = nondet_unsigned();
  g_comm0.mbox_id_ = nondet_long();
  g_comm1.mbox_id_ = nondet_long();
  __CPROVER_assume(g_comm0.mbox_id_ >= -1 && g_comm0.mbox_id_ <= 0xFFFFFFFFL);
  __CPROVER_assume(g_comm1.mbox_id_ >= -1 && g_comm1.mbox_id_ <= 0xFFFFFFFFL);
  g_comm0.src_actor_ = pick_actor();
  g_comm0.dst_actor_ = pick_actor();
  g_comm1.src_actor_ = pick_actor();
  g_comm1.dst_actor_ = pick_actor();
  g_macq.mutex_      = &g_mutex;
  g_sacq.semaphore_  = &g_sem;
  g_sacq.granted_    = nondet_bool();
  g_bacq.barrier_    = nondet_bool() ? &g_bar : (struct BarrierImpl*)0;
  g_cacq.cond_       = &g_cond;
  g_cacq.mutex_      = &g_mutex;
  g_cacq.granted_    = nondet_bool();

  g_o_mutex.type_       = nondet_int();
  g_o_mutex.mutex_      = &g_mutex;
  g_o_macq.type_        = nondet_int();
  g_o_macq.acquisition_ = &g_macq;
  g_o_sem.type_         = nondet_int();
  g_o_sem.sem_          = &g_sem;
  g_o_sacq.type_        = nondet_int();
  g_o_sacq.acquisition_ = &g_sacq;
  g_o_bar.type_         = nondet_int();
  g_o_bar.barrier_      = nondet_bool() ? &g_bar : (struct BarrierImpl*)0;
  g_o_bar.acquisition_  = nondet_bool() ? &g_bacq : (struct BarrierAcquisitionImpl*)0;
  g_o_cond.type_        = nondet_int();
  g_o_cond.acquisition_ = &g_cacq;
  g_o_cond.cond_        = &g_cond;
  g_o_cond.mutex_       = &g_mutex;
  g_o_cond.timeout_     = nondet_double();
  g_o_isend.comm_       = nondet_bool() ? &g_comm0 : (struct CommImpl*)0;
  g_o_isend.mbox_       = &g_mbox;
  g_o_isend.tag_        = nondet_int();
  g_o_isend.fun_call_   = nondet_long();
  g_o_irecv.comm_       = nondet_bool() ? &g_comm0 : (struct CommImpl*)0;
  g_o_irecv.mbox_       = &g_mbox;
  g_o_irecv.tag_        = nondet_int();
  g_o_irecv.fun_call_   = nondet_long();
  g_o_iprobe.mbox_      = &g_mbox;
  g_o_iprobe.kind_      = nondet_int();
  g_o_iprobe.tag_       = nondet_int();
  g_o_iput.mess_        = nondet_bool() ? &g_mess : (struct MessImpl*)0;
  g_o_iput.queue_       = &g_queue;
  g_o_iget.mess_        = nondet_bool() ? &g_mess : (struct MessImpl*)0;
  g_o_iget.queue_       = &g_queue;
  g_o_random.min_       = nondet_int();
  g_o_random.max_       = nondet_int();
  g_o_join.other_       = &g_s4u_actor;
  g_o_join.timeout_     = nondet_double();
  g_o_create.child_     = nondet_long();
  g_o_test.activity_    = pick_activity();
  g_o_test.fun_call_    = nondet_long();
  g_o_wait.activity_    = pick_activity();
  g_o_wait.fun_call_    = nondet_long();
  g_o_wait.timeout_     = nondet_double();
}

#ifdef H_enc_mutex
void harness(void)
{
  setup_stream();
  setup_app();
  MutexObserver__serialize(&g_o_mutex, &g_chan);
  VF_CANARY_POINT;
}
#endif
#ifdef H_enc_macq
void harness(void)
{
  setup_stream();
  setup_app();
  MutexAcquisitionObserver__serialize(&g_o_macq, &g_chan);
  VF_CANARY_POINT;
}
#endif
#ifdef H_enc_sem
void harness(void)
{
  setup_stream();
  setup_app();
  SemaphoreObserver__serialize(&g_o_sem, &g_chan);
  VF_CANARY_POINT;
}
#endif
#ifdef H_enc_sacq
void harness(void)
{
  setup_stream();
  setup_app();
  SemaphoreAcquisitionObserver__serialize(&g_o_sacq, &g_chan);
  VF_CANARY_POINT;
}
#endif
#ifdef H_enc_bar
void harness(void)
{
  setup_stream();
  setup_app();
  BarrierObserver__serialize(&g_o_bar, &g_chan);
  VF_CANARY_POINT;
}
#endif
#ifdef H_enc_cond
void harness(void)
{
  setup_stream();
  setup_app();
  ConditionVariableObserver__serialize(&g_o_cond, &g_chan);
  VF_CANARY_POINT;
}
#endif
#ifdef H_enc_isend
void harness(void)
{
  setup_stream();
  setup_app();
  CommIsendSimcall__serialize(&g_o_isend, &g_chan);
  VF_CANARY_POINT;
}
#endif
#ifdef H_enc_irecv
void harness(void)
{
  setup_stream();
  setup_app();
  CommIrecvSimcall__serialize(&g_o_irecv, &g_chan);
  VF_CANARY_POINT;
}
#endif
#ifdef H_enc_iprobe
void harness(void)
{
  setup_stream();
  setup_app();
  IprobeSimcall__serialize(&g_o_iprobe, &g_chan);
  VF_CANARY_POINT;
}
#endif
#ifdef H_enc_iput
void harness(void)
{
  setup_stream();
  setup_app();
  MessIputSimcall__serialize(&g_o_iput, &g_chan);
  VF_CANARY_POINT;
}
#endif
#ifdef H_enc_iget
void harness(void)
{
  setup_stream();
  setup_app();
  MessIgetSimcall__serialize(&g_o_iget, &g_chan);
  VF_CANARY_POINT;
}
#endif
#ifdef H_enc_random
void harness(void)
{
  setup_stream();
  setup_app();
  RandomSimcall__serialize(&g_o_random, &g_chan);
  VF_CANARY_POINT;
}
#endif
#ifdef H_enc_join
void harness(void)
{
  setup_stream();
  setup_app();
  ActorJoinSimcall__serialize(&g_o_join, &g_chan);
  VF_CANARY_POINT;
}
#endif
#ifdef H_enc_exit
void harness(void)
{
  setup_stream();
  setup_app();
  ActorExitSimcall__serialize(&g_o_exit, &g_chan);
  VF_CANARY_POINT;
}
#endif
#ifdef H_enc_sleep
void harness(void)
{
  setup_stream();
  setup_app();
  ActorSleepSimcall__serialize(&g_o_sleep, &g_chan);
  VF_CANARY_POINT;
}
#endif
#ifdef H_enc_create
void harness(void)
{
  setup_stream();
  setup_app();
  ActorCreateSimcall__serialize(&g_o_create, &g_chan);
  VF_CANARY_POINT;
}
#endif
#ifdef H_enc_otest
void harness(void)
{
  setup_stream();
  setup_app();
  ActivityTestSimcall__serialize(&g_o_test, &g_chan);
  VF_CANARY_POINT;
}
#endif
#ifdef H_enc_owait
void harness(void)
{
  setup_stream();
  setup_app();
  ActivityWaitSimcall__serialize(&g_o_wait, &g_chan);
  VF_CANARY_POINT;
}
#endif
#ifdef H_enc_act_test
void harness(void)
{
  setup_stream();
  setup_app();
  serialize_activity_test(pick_activity(), nondet_long(), &g_chan);
  VF_CANARY_POINT;
}
#endif
/* activities of a TESTANY / WAITANY: any number <= NANY, each one any object of the activity universe (kinds mixed) */
static void setup_any(void)
{
  size_t n = nondet_size();
  __CPROVER_assume(n <= NANY);
  for (int i = 0; i < NANY; i++)
    g_acts[i] = pick_activity();
  struct vf_seq_ActivityImplP acts = {g_acts, 0, n, NANY};
  g_o_testany.activities_          = acts;
  g_o_testany.fun_call_            = nondet_long();
  g_o_waitany.activities_          = acts;
  g_o_waitany.fun_call_            = nondet_long();
  g_o_waitany.timeout_             = nondet_double();
}
#ifdef H_enc_testany
void harness(void)
{
  setup_stream();
  setup_app();
  setup_any();
  ActivityTestanySimcall__serialize(&g_o_testany, &g_chan);
  VF_CANARY_POINT;
}
#endif
#ifdef H_enc_waitany
void harness(void)
{
  setup_stream();
  setup_app();
  setup_any();
  ActivityWaitanySimcall__serialize(&g_o_waitany, &g_chan);
  VF_CANARY_POINT;
}
#endif
#ifdef H_enc_act_wait
void harness(void)
{
  setup_stream();
  setup_app();
  serialize_activity_wait(pick_activity(), nondet_bool(), nondet_long(), &g_chan);
  VF_CANARY_POINT;
}
#endif
#ifdef H_dec_bar
void harness(void)
{
  setup_stream();
  struct BarrierTransition o;
  struct Aid is;
  is.value_ = nondet_uchar();
  BarrierTransition__ctor(&o, is, nondet_int(), nondet_int(), &g_chan);
  VF_CANARY_POINT;
}
#endif
#ifdef H_dec_mutex
void harness(void)
{
  setup_stream();
  struct MutexTransition o;
  struct Aid is;
  is.value_ = nondet_uchar();
  MutexTransition__ctor(&o, is, nondet_int(), nondet_int(), &g_chan);
  VF_CANARY_POINT;
}
#endif
#ifdef H_dec_sem
void harness(void)
{
  setup_stream();
  struct SemaphoreTransition o;
  struct Aid is;
  is.value_ = nondet_uchar();
  SemaphoreTransition__ctor(&o, is, nondet_int(), nondet_int(), &g_chan);
  VF_CANARY_POINT;
}
#endif
#ifdef H_dec_cond
void harness(void)
{
  setup_stream();
  struct CondvarTransition o;
  struct Aid is;
  is.value_ = nondet_uchar();
  CondvarTransition__ctor(&o, is, nondet_int(), nondet_int(), &g_chan);
  VF_CANARY_POINT;
}
#endif
#ifdef H_dec_cwait
void harness(void)
{
  setup_stream();
  struct CommWaitTransition o;
  struct Aid is;
  is.value_ = nondet_uchar();
  CommWaitTransition__ctor(&o, is, nondet_int(), &g_chan);
  VF_CANARY_POINT;
}
#endif
#ifdef H_dec_ctest
void harness(void)
{
  setup_stream();
  struct CommTestTransition o;
  struct Aid is;
  is.value_ = nondet_uchar();
  CommTestTransition__ctor(&o, is, nondet_int(), &g_chan);
  VF_CANARY_POINT;
}
#endif
#ifdef H_dec_recv
void harness(void)
{
  setup_stream();
  struct CommRecvTransition o;
  struct Aid is;
  is.value_ = nondet_uchar();
  CommRecvTransition__ctor(&o, is, nondet_int(), &g_chan);
  VF_CANARY_POINT;
}
#endif
#ifdef H_dec_send
void harness(void)
{
  setup_stream();
  struct CommSendTransition o;
  struct Aid is;
  is.value_ = nondet_uchar();
  CommSendTransition__ctor(&o, is, nondet_int(), &g_chan);
  VF_CANARY_POINT;
}
#endif
#ifdef H_dec_iprobe
void harness(void)
{
  setup_stream();
  struct CommIprobeTransition o;
  struct Aid is;
  is.value_ = nondet_uchar();
  CommIprobeTransition__ctor(&o, is, nondet_int(), &g_chan);
  VF_CANARY_POINT;
}
#endif
#ifdef H_dec_join
void harness(void)
{
  setup_stream();
  struct ActorJoinTransition o;
  struct Aid is;
  is.value_ = nondet_uchar();
  ActorJoinTransition__ctor(&o, is, nondet_int(), &g_chan);
  VF_CANARY_POINT;
}
#endif
#ifdef H_dec_exit
void harness(void)
{
  setup_stream();
  struct ActorExitTransition o;
  struct Aid is;
  is.value_ = nondet_uchar();
  ActorExitTransition__ctor(&o, is, nondet_int(), &g_chan);
  VF_CANARY_POINT;
}
#endif
#ifdef H_dec_sleep
void harness(void)
{
  setup_stream();
  struct ActorSleepTransition o;
  struct Aid is;
  is.value_ = nondet_uchar();
  ActorSleepTransition__ctor(&o, is, nondet_int(), &g_chan);
  VF_CANARY_POINT;
}
#endif
#ifdef H_dec_create
void harness(void)
{
  setup_stream();
  struct ActorCreateTransition o;
  struct Aid is;
  is.value_ = nondet_uchar();
  ActorCreateTransition__ctor(&o, is, nondet_int(), &g_chan);
  VF_CANARY_POINT;
}
#endif
#ifdef H_dec_random
void harness(void)
{
  setup_stream();
  struct RandomTransition o;
  struct Aid is;
  is.value_ = nondet_uchar();
  RandomTransition__ctor(&o, is, nondet_int(), &g_chan);
  VF_CANARY_POINT;
}
#endif
#ifdef H_dec_aid
void harness(void)
{
  setup_stream();
  struct Aid a;
  Aid__ctor(&a, nondet_int(), nondet_bool());
  VF_CANARY_POINT;
}
#endif
#ifdef H_dec_aid0
void harness(void)
{
  struct Aid a;
  Aid__ctor0(&a);
  VF_CANARY_POINT;
}
#endif
#ifdef H_dec_verify_aid
void harness(void)
{
  setup_stream();
  verify_aid_is_valid(nondet_int());
  VF_CANARY_POINT;
}
#endif
#ifdef H_dec_base
void harness(void)
{
  struct Transition o;
  struct Aid is;
  is.value_ = nondet_uchar();
  Transition__ctor(&o, nondet_int(), is, nondet_int());
  VF_CANARY_POINT;
}
#endif
#ifdef VF_ANY_GENERAL
static void setup_any_ghosts(void)
{
  g_any_n       = nondet_size();
  g_any_comm[0] = nondet_bool(); /* no loop here: these harnesses run with --unwind 2 */
  g_any_comm[1] = nondet_bool();
  g_any_comm[2] = nondet_bool();
}
#endif
#ifdef H_dec_testany0
void harness(void)
{
  setup_stream();
  struct TestAnyTransition o;
  struct Aid is;
  is.value_ = nondet_uchar();
  TestAnyTransition__ctor(&o, is, nondet_int(), &g_chan);
  VF_CANARY_POINT;
}
#endif
#ifdef H_dec_waitany0
void harness(void)
{
  setup_stream();
  struct WaitAnyTransition o;
  struct Aid is;
  is.value_ = nondet_uchar();
  WaitAnyTransition__ctor(&o, is, nondet_int(), &g_chan);
  VF_CANARY_POINT;
}
#endif
#ifdef VF_ANY_GENERAL
/* The contracts of the TESTANY / WAITANY constructors are proved as LEMMAS over the real constructor bodies (loop
 * contract applied), not with --enforce-contract: dfcc's write-set inclusion check of the 6-target loop contract needs 7
 * iterations of a library loop while its other library loops only finish with --unwind 2 (runs with --unwind 7 /
 * --unwindset / no bound: > 30 min each). Same precondition (assumed) and postconditions (asserted) as the contracts;
 * the frame is asserted for what the lemmas' callers read: write position and every cell of the stream unchanged.   */
#if defined(H_dec_testany) || defined(H_dec_waitany)
void harness(void)
{
  setup_stream();
  struct Aid issuer;
  issuer.value_        = nondet_uchar();
  int times_considered = nondet_int();
  setup_any_ghosts();
#ifdef H_dec_testany
  struct TestAnyTransition o;
  struct TestAnyTransition* self = &o;
  int ty = Type__TESTANY, T = Type__COMM_TEST, L = 6;
#else
  struct WaitAnyTransition o;
  struct WaitAnyTransition* self = &o;
  int ty = Type__WAITANY, T = Type__COMM_WAIT, L = 7;
#endif
  __CPROVER_assume(DEC_PRE(2) && any_stream_ok(g_rd, T, L));
  size_t ord = g_rd, wr0 = g_wr;
  struct vf_cell c0 = g_st[gk];
#ifdef H_dec_testany
  TestAnyTransition__ctor(self, issuer, times_considered, &g_chan);
#else
  WaitAnyTransition__ctor(self, issuer, times_considered, &g_chan);
#endif
  __CPROVER_assert(vf_exc == 0 && g_misframe == 0 && g_rd == ord + any_off(3, L) + 1, "consumes count, records, location"); /*@ any_dec_consumes_count_records_location */
  __CPROVER_assert(BASE_OK(ty), "type, issuer, times_considered");                                                          /*@ any_dec_base */
  __CPROVER_assert(TRS.n == g_any_n && TRS.h == 0, "as many inner transitions as the count");      /*@ any_dec_as_many_inner_transitions_as_the_count */
  __CPROVER_assert(self->__b_Transition.call_location_ != 0 && *self->__b_Transition.call_location_ == any_loc(ord, L), "location"); /*@ any_dec_location */
  __CPROVER_assert(g_wr == wr0 && g_st[gk].w == c0.w && g_st[gk].v == c0.v, "stream untouched");                            /*@ any_dec_stream_untouched */
  VF_CANARY_POINT;
}
#endif
#endif
#ifdef H_dec_deser_inner
void harness(void)
{
  setup_stream();
  struct Aid is;
  is.value_ = nondet_uchar();
  deserialize_transition(is, nondet_int(), &g_chan);
  VF_CANARY_POINT;
}
#endif

/* ---------------------------------------------------------------------------------------------------------------------
 * ROUND-TRIP LEMMAS (from the property statement): serialize (through its contract), then the real body of
 * deserialize_transition (constructors through their contracts).
 * ------------------------------------------------------------------------------------------------------------------- */
#define RT_BEGIN                                                                                                       \
  setup_stream();                                                                                                      \
  setup_app();                                                                                                         \
  g_wr = nondet_size();                                                                                                \
  __CPROVER_assume(g_wr <= 2); /* cells of earlier transitions of the same message, already consumed */                \
  g_rd = g_wr;                                                                                                         \
  struct Aid issuer;                                                                                                   \
  issuer.value_ = nondet_uchar();                                                                                      \
  int tc        = nondet_int();                                                                                        \
  __CPROVER_assume(tc >= 0 && tc <= 65535);                                                                            \
  /* trusted: actor ids are non-negative and fit an int */                                                             \
  __CPROVER_assume(g_a0.__b_ActorIDTrait.pid_ >= 0 && g_a0.__b_ActorIDTrait.pid_ <= 0x7FFFFFFFL);                      \
  __CPROVER_assume(g_a1.__b_ActorIDTrait.pid_ >= 0 && g_a1.__b_ActorIDTrait.pid_ <= 0x7FFFFFFFL)
#define RT_DESER struct Transition* t = deserialize_transition(issuer, tc, &g_chan)
#define RT_BASE(ty) (t->type_ == (ty) && t->aid_.value_ == issuer.value_ && t->times_considered_ == tc)
#define A(c, msg) __CPROVER_assert(c, msg)
#define IS_MUTEX_T(x)                                                                                                  \
  ((x) == Type__MUTEX_TRYLOCK || (x) == Type__MUTEX_ASYNC_LOCK || (x) == Type__MUTEX_TEST || (x) == Type__MUTEX_WAIT ||  \
   (x) == Type__MUTEX_UNLOCK)
#define IS_SEM_T(x) ((x) == Type__SEM_ASYNC_LOCK || (x) == Type__SEM_UNLOCK || (x) == Type__SEM_WAIT)
#define IS_BAR_T(x) ((x) == Type__BARRIER_ASYNC_LOCK || (x) == Type__BARRIER_WAIT)
#define AIDV(p) ((p) == -1 ? VFC_INVALID_VALUE : (p))

#if defined(H_rt_mutex) || defined(H_rt_macq)
void harness(void)
{
  RT_BEGIN;
#ifdef H_rt_mutex
  int ty = g_o_mutex.type_;
  __CPROVER_assume(IS_MUTEX_T(ty));
  MutexObserver__serialize(&g_o_mutex, &g_chan);
#else
  int ty = g_o_macq.type_;
  __CPROVER_assume(IS_MUTEX_T(ty));
  MutexAcquisitionObserver__serialize(&g_o_macq, &g_chan);
#endif
  RT_DESER;
  long own = PID(g_mutex.owner_);
  A(g_misframe == 0, "same cell widths in the same order"); /*@ rt_mutex_no_misframe */
  if (own >= VFC_INVALID_VALUE) {
    A(vf_exc == EXC_ABOVE, "owner id beyond max_threads: clear error"); /*@ rt_mutex_owner_beyond_max_threads_is_clear_error */
  } else {
    A(vf_exc == 0, "decoded without error");                                 /*@ rt_mutex_no_error */
    A(g_rd == g_wr, "stream fully consumed");                                /*@ rt_mutex_fully_consumed */
    A(RT_BASE(ty), "same type, issuer, times_considered");                   /*@ rt_mutex_same_type_and_issuer */
    A(((struct MutexTransition*)t)->mutex_ == g_mutex.id_, "same mutex");    /*@ rt_mutex_same_mutex */
    A(((struct MutexTransition*)t)->owner_.value_ == AIDV(own), "same owner (none = Aid::INVALID)"); /*@ rt_mutex_same_owner */
  }
  VF_CANARY_POINT;
}
#endif

#if defined(H_rt_sem) || defined(H_rt_sacq)
void harness(void)
{
  RT_BEGIN;
#ifdef H_rt_sem
  int ty = g_o_sem.type_;
  __CPROVER_assume(IS_SEM_T(ty));
  __CPROVER_assume(g_sem.value_ <= 0x7FFFFFFF); /* capacities fit an int */
  SemaphoreObserver__serialize(&g_o_sem, &g_chan);
#else
  int ty = g_o_sacq.type_;
  __CPROVER_assume(IS_SEM_T(ty));
  SemaphoreAcquisitionObserver__serialize(&g_o_sacq, &g_chan);
#endif
  RT_DESER;
  struct SemaphoreTransition* s = (struct SemaphoreTransition*)t;
  A(g_misframe == 0, "same cell widths in the same order");                  /*@ rt_sem_no_misframe */
  A(vf_exc == 0, "decoded without error");                                   /*@ rt_sem_no_error */
  A(g_rd == g_wr, "stream fully consumed");                                  /*@ rt_sem_fully_consumed */
  A(RT_BASE(ty), "same type, issuer, times_considered");                     /*@ rt_sem_same_type_and_issuer */
  A(s->sem_ == g_sem.id_, "same semaphore");                                 /*@ rt_sem_same_semaphore */
#ifdef H_rt_sem
  A(!s->granted_, "granted is false for lock/unlock");                       /*@ rt_sem_granted_false */
  A((long)s->capacity_ == SEM_AVAIL, "capacity = available capacity");       /*@ rt_sem_same_available_capacity */
#else
  A(s->granted_ == g_sacq.granted_, "same granted flag");                    /*@ rt_sacq_same_granted */
  A(U32(s->capacity_) == (long)g_sem.value_, "same capacity (bit pattern: packed unsigned, unpacked int)"); /*@ rt_sacq_same_capacity_bits */
#endif
  VF_CANARY_POINT;
}
#endif

#ifdef H_rt_bar
void harness(void)
{
  RT_BEGIN;
  int ty = g_o_bar.type_;
  __CPROVER_assume(IS_BAR_T(ty));
  __CPROVER_assume(BAR_HAS);
  BarrierObserver__serialize(&g_o_bar, &g_chan);
  RT_DESER;
  A(g_misframe == 0, "same cell widths in the same order");                  /*@ rt_bar_no_misframe */
  A(vf_exc == 0, "decoded without error");                                   /*@ rt_bar_no_error */
  A(g_rd == g_wr, "stream fully consumed");                                  /*@ rt_bar_fully_consumed */
  A(RT_BASE(ty), "same type, issuer, times_considered");                     /*@ rt_bar_same_type_and_issuer */
  A(((struct BarrierTransition*)t)->bar_ == g_bar.id_, "same barrier");      /*@ rt_bar_same_barrier */
  VF_CANARY_POINT;
}
#endif

#ifdef H_rt_cond
void harness(void)
{
  RT_BEGIN;
  int ty = g_o_cond.type_;
  __CPROVER_assume(CV_KNOWN);
  ConditionVariableObserver__serialize(&g_o_cond, &g_chan);
  RT_DESER;
  struct CondvarTransition* c = (struct CondvarTransition*)t;
  A(g_misframe == 0, "same cell widths in the same order");                  /*@ rt_cond_no_misframe */
  A(vf_exc == 0, "decoded without error");                                   /*@ rt_cond_no_error */
  A(g_rd == g_wr, "stream fully consumed");                                  /*@ rt_cond_fully_consumed */
  A(RT_BASE(ty), "same type, issuer, times_considered");                     /*@ rt_cond_same_type_and_issuer */
  A(c->condvar_ == g_cond.id_, "same condition variable");                   /*@ rt_cond_same_condvar */
  A((ty != Type__CONDVAR_WAIT && ty != Type__CONDVAR_ASYNC_LOCK) || c->mutex_ == g_mutex.id_, "same mutex"); /*@ rt_cond_same_mutex */
  A(ty != Type__CONDVAR_WAIT || (c->granted_ == g_cacq.granted_ && c->timeout_ == (g_o_cond.timeout_ > 0)),
    "same granted / timeout flags");                                         /*@ rt_cond_same_flags */
  VF_CANARY_POINT;
}
#endif

#if defined(H_rt_isend) || defined(H_rt_irecv)
void harness(void)
{
  RT_BEGIN;
#ifdef H_rt_isend
  CommIsendSimcall__serialize(&g_o_isend, &g_chan);
  RT_DESER;
  struct CommSendTransition* c = (struct CommSendTransition*)t;
  int ty = Type__COMM_ASYNC_SEND, tag = g_o_isend.tag_;
  unsigned cid = g_o_isend.comm_ ? g_comm0.id_ : 0;
  vf_str loc = g_o_isend.fun_call_;
#else
  CommIrecvSimcall__serialize(&g_o_irecv, &g_chan);
  RT_DESER;
  struct CommRecvTransition* c = (struct CommRecvTransition*)t;
  int ty = Type__COMM_ASYNC_RECV, tag = g_o_irecv.tag_;
  unsigned cid = g_o_irecv.comm_ ? g_comm0.id_ : 0;
  vf_str loc = g_o_irecv.fun_call_;
#endif
  A(g_misframe == 0, "same cell widths in the same order");                  /*@ rt_sendrecv_no_misframe */
  A(vf_exc == 0, "decoded without error");                                   /*@ rt_sendrecv_no_error */
  A(g_rd == g_wr, "stream fully consumed");                                  /*@ rt_sendrecv_fully_consumed */
  A(RT_BASE(ty), "same type, issuer, times_considered");                     /*@ rt_sendrecv_same_type_and_issuer */
  A(c->comm_ == cid && c->mbox_ == g_mbox.id_, "same comm and mailbox");     /*@ rt_sendrecv_same_comm_and_mailbox */
  A(c->tag_ == tag, "same tag");                                             /*@ rt_sendrecv_same_tag */
  A(*t->call_location_ == loc, "same call location");                        /*@ rt_sendrecv_same_location */
  VF_CANARY_POINT;
}
#endif

#ifdef H_rt_iprobe
void harness(void)
{
  RT_BEGIN;
  IprobeSimcall__serialize(&g_o_iprobe, &g_chan);
  RT_DESER;
  struct CommIprobeTransition* c = (struct CommIprobeTransition*)t;
  A(g_misframe == 0, "same cell widths in the same order");                  /*@ rt_iprobe_no_misframe */
  A(vf_exc == 0, "decoded without error");                                   /*@ rt_iprobe_no_error */
  A(g_rd == g_wr, "stream fully consumed");                                  /*@ rt_iprobe_fully_consumed */
  A(RT_BASE(Type__COMM_IPROBE), "same type, issuer, times_considered");      /*@ rt_iprobe_same_type_and_issuer */
  A(c->mbox_ == g_mbox.id_ && c->tag_ == g_o_iprobe.tag_ && c->is_sender_ == (g_o_iprobe.kind_ == IprobeKind__SEND),
    "same mailbox, tag, side");                                              /*@ rt_iprobe_same_parameters */
  VF_CANARY_POINT;
}
#endif

/* message queues (Mess put / get): the observers announce COMM_ASYNC_SEND / COMM_ASYNC_RECV */
#if defined(H_rt_iput) || defined(H_rt_iget)
void harness(void)
{
  RT_BEGIN;
#ifdef H_rt_iput
  MessIputSimcall__serialize(&g_o_iput, &g_chan);
  int ty = Type__COMM_ASYNC_SEND;
#else
  MessIgetSimcall__serialize(&g_o_iget, &g_chan);
  int ty = Type__COMM_ASYNC_RECV;
#endif
  /* the cells the checker's constructor for this type needs are there, with these widths: its precondition */
#define MESS_CELLS (g_wr - g_rd == 5 && g_st[g_rd + 1].w == 4 && g_st[g_rd + 2].w == 4 && g_st[g_rd + 3].w == 4 && g_st[g_rd + 4].w == W_STR)
  A(MESS_CELLS, "message-queue observer writes the cells the checker reads for this type"); /*@ rt_mess_same_cell_widths_as_checker_reads */
  VF_CANARY_POINT;
  __CPROVER_assume(MESS_CELLS); /* the rest of the lemma (decoding) is checked for the day the layouts agree */
  RT_DESER;
  A(g_misframe == 0 && vf_exc == 0 && g_rd == g_wr && RT_BASE(ty), "decoded, fully consumed, same type and issuer"); /*@ rt_mess_decoded_and_fully_consumed */
  VF_CANARY_POINT;
}
#endif

#ifdef H_rt_random
void harness(void)
{
  RT_BEGIN;
  RandomSimcall__serialize(&g_o_random, &g_chan);
  RT_DESER;
  struct RandomTransition* c = (struct RandomTransition*)t;
  A(g_misframe == 0, "same cell widths in the same order");                  /*@ rt_random_no_misframe */
  A(vf_exc == 0, "decoded without error");                                   /*@ rt_random_no_error */
  A(g_rd == g_wr, "stream fully consumed");                                  /*@ rt_random_fully_consumed */
  A(RT_BASE(Type__RANDOM), "same type, issuer, times_considered");           /*@ rt_random_same_type_and_issuer */
  A(c->min_ == g_o_random.min_ && c->max_ == g_o_random.max_, "same bounds"); /*@ rt_random_same_bounds */
  VF_CANARY_POINT;
}
#endif

#if defined(H_rt_join) || defined(H_rt_create)
void harness(void)
{
  RT_BEGIN;
#ifdef H_rt_join
  long pid = g_a0.__b_ActorIDTrait.pid_;
  int ty   = Type__ACTOR_JOIN;
  ActorJoinSimcall__serialize(&g_o_join, &g_chan);
#else
  long pid = g_o_create.child_;
  int ty   = Type__ACTOR_CREATE;
  __CPROVER_assume(pid >= 0 && pid <= 0x7FFFFFFFL);
  ActorCreateSimcall__serialize(&g_o_create, &g_chan);
#endif
  RT_DESER;
  A(g_misframe == 0, "same cell widths in the same order");                  /*@ rt_actor_no_misframe */
  if (pid >= VFC_INVALID_VALUE) {
    A(vf_exc == EXC_ABOVE, "actor id beyond max_threads: clear error");      /*@ rt_actor_beyond_max_threads_is_clear_error */
  } else {
    A(vf_exc == 0, "decoded without error");                                 /*@ rt_actor_no_error */
    A(g_rd == g_wr, "stream fully consumed");                                /*@ rt_actor_fully_consumed */
    A(RT_BASE(ty), "same type, issuer, times_considered");                   /*@ rt_actor_same_type_and_issuer */
#ifdef H_rt_join
    A(((struct ActorJoinTransition*)t)->target_.value_ == pid, "same target"); /*@ rt_join_same_target */
    A(((struct ActorJoinTransition*)t)->timeout_ == (g_o_join.timeout_ > 0), "same timeout flag"); /*@ rt_join_same_timeout */
#else
    A(((struct ActorCreateTransition*)t)->child_.value_ == pid, "same child"); /*@ rt_create_same_child */
#endif
  }
  VF_CANARY_POINT;
}
#endif

#if defined(H_rt_exit) || defined(H_rt_sleep)
void harness(void)
{
  RT_BEGIN;
#ifdef H_rt_exit
  int ty = Type__ACTOR_EXIT;
  ActorExitSimcall__serialize(&g_o_exit, &g_chan);
#else
  int ty = Type__ACTOR_SLEEP;
  ActorSleepSimcall__serialize(&g_o_sleep, &g_chan);
#endif
  RT_DESER;
  A(g_misframe == 0 && vf_exc == 0, "decoded without error");                /*@ rt_exit_sleep_no_error */
  A(g_rd == g_wr, "stream fully consumed");                                  /*@ rt_exit_sleep_fully_consumed */
  A(RT_BASE(ty), "same type, issuer, times_considered");                     /*@ rt_exit_sleep_same_type_and_issuer */
  VF_CANARY_POINT;
}
#endif

#if defined(H_rt_test) || defined(H_rt_wait)
void harness(void)
{
  RT_BEGIN;
#ifdef H_rt_test
  struct ActivityImpl* act = g_o_test.activity_;
  vf_str loc               = g_o_test.fun_call_;
  int ty                   = Type__COMM_TEST;
  ActivityTestSimcall__serialize(&g_o_test, &g_chan);
#else
  struct ActivityImpl* act = g_o_wait.activity_;
  vf_str loc               = g_o_wait.fun_call_;
  int ty                   = Type__COMM_WAIT;
  ActivityWaitSimcall__serialize(&g_o_wait, &g_chan);
#endif
  RT_DESER;
  struct CommImpl* cm = AS_COMM(act);
  A(g_misframe == 0, "same cell widths in the same order");                  /*@ rt_testwait_no_misframe */
  if (cm == 0) {
    A(vf_exc == 0 && g_rd == g_wr && RT_BASE(Type__UNKNOWN), "non-comm activity: UNKNOWN transition, fully consumed"); /*@ rt_testwait_unknown_activity */
  } else if (PID(cm->src_actor_) >= VFC_INVALID_VALUE || PID(cm->dst_actor_) >= VFC_INVALID_VALUE) {
    A(vf_exc == EXC_ABOVE, "actor id beyond max_threads: clear error");      /*@ rt_testwait_beyond_max_threads_is_clear_error */
  } else {
    A(vf_exc == 0, "decoded without error");                                 /*@ rt_testwait_no_error */
    A(g_rd == g_wr, "stream fully consumed");                                /*@ rt_testwait_fully_consumed */
    A(RT_BASE(ty), "same type, issuer, times_considered");                   /*@ rt_testwait_same_type_and_issuer */
    A(*t->call_location_ == loc, "same call location");                      /*@ rt_testwait_same_location */
#ifdef H_rt_test
    struct CommTestTransition* c = (struct CommTestTransition*)t;
#else
    struct CommWaitTransition* c = (struct CommWaitTransition*)t;
    A(c->timeout_ == (g_o_wait.timeout_ > 0), "same timeout flag");          /*@ rt_wait_same_timeout */
#endif
    A(c->comm_ == cm->id_ && c->mbox_ == (unsigned)U32(cm->mbox_id_), "same comm and mailbox"); /*@ rt_testwait_same_comm_and_mailbox */
    A(c->sender_.value_ == AIDV(PID(cm->src_actor_)) && c->receiver_.value_ == AIDV(PID(cm->dst_actor_)),
      "same sender and receiver (none = Aid::INVALID)");                     /*@ rt_testwait_same_sender_receiver */
  }
  VF_CANARY_POINT;
}
#endif

/* a type the checker has no transition for (e.g. *_NOMC): clear error, not a hang */
#ifdef H_rt_unsupported
#define SUPPORTED(x)                                                                                                   \
  (IS_BAR_T(x) || IS_MUTEX_T(x) || IS_SEM_T(x) || (x) == Type__COMM_ASYNC_RECV || (x) == Type__COMM_ASYNC_SEND ||       \
   (x) == Type__COMM_IPROBE || (x) == Type__COMM_TEST || (x) == Type__COMM_WAIT || (x) == Type__TESTANY ||              \
   (x) == Type__WAITANY || (x) == Type__RANDOM || (x) == Type__CONDVAR_ASYNC_LOCK || (x) == Type__CONDVAR_BROADCAST ||  \
   (x) == Type__CONDVAR_SIGNAL || (x) == Type__CONDVAR_WAIT || (x) == Type__ACTOR_CREATE || (x) == Type__ACTOR_EXIT ||  \
   (x) == Type__ACTOR_JOIN || (x) == Type__ACTOR_SLEEP || (x) == Type__UNKNOWN)
void harness(void)
{
  RT_BEGIN;
  int ty = nondet_int();
  __CPROVER_assume(!SUPPORTED(ty));
  Channel__pack__int(&g_chan, ty);
  RT_DESER;
  A(vf_exc == VF_EXC_ABORT && g_misframe == 0, "unsupported type: xbt_die, no read beyond the tag"); /*@ rt_unsupported_type_is_clear_error */
  VF_CANARY_POINT;
}
#endif

/* TESTANY / WAITANY (bounded: at most NANY activities, kinds mixed). Composition lemma: the stream the observer writes
 * (contract of its serialize, proved on the real body by enc_testany / enc_waitany) is dispatched by the real
 * deserialize_transition body to the matching class, whose constructor (contract proved on the real body by dec_testany /
 * dec_waitany) accepts it: same count, one inner transition per activity, nothing left in the stream. Actor ids of
 * the activities are assumed valid Aids here (the error path is covered by rt_test / rt_wait).                      */
#if defined(H_rt_testany) || defined(H_rt_waitany)
#ifndef VF_ANY_GENERAL
#error "rt_testany / rt_waitany need -DVF_ANY_GENERAL (general constructor contracts)"
#endif
#define RT_INNER(k)                                                                                                    \
  if (k < n) {                                                                                                         \
    struct Transition* it = trs->d[k];                                                                                 \
    struct CommImpl* cm   = AS_COMM(g_acts[k]);                                                                        \
    if (cm == 0) {                                                                                                     \
      A(it->type_ == Type__UNKNOWN, "k-th inner: non-comm activity is UNKNOWN"); /*@ rt_any_inner_unknown */           \
    } else {                                                                                                           \
      A(it->type_ == ity && it->aid_.value_ == issuer.value_, "k-th inner: same type and issuer"); /*@ rt_any_inner_type_and_issuer */ \
      A(*it->call_location_ == loc, "k-th inner: call location of the ANY"); /*@ rt_any_inner_location */              \
      RT_INNER_KIND                                                                                                    \
      A(c->comm_ == cm->id_ && c->mbox_ == (unsigned)U32(cm->mbox_id_), "k-th inner: same comm and mailbox"); /*@ rt_any_inner_comm_and_mailbox */ \
      A(c->sender_.value_ == AIDV(PID(cm->src_actor_)) && c->receiver_.value_ == AIDV(PID(cm->dst_actor_)),            \
        "k-th inner: same sender and receiver"); /*@ rt_any_inner_sender_receiver */                                   \
    }                                                                                                                  \
  }
#ifdef H_rt_testany
#define RT_INNER_KIND struct CommTestTransition* c = (struct CommTestTransition*)it;
#else
#define RT_INNER_KIND                                                                                                  \
  struct CommWaitTransition* c = (struct CommWaitTransition*)it;                                                       \
  A(c->timeout_ == (g_o_waitany.timeout_ > 0), "k-th inner: same timeout flag"); /*@ rt_waitany_inner_timeout */
#endif
void harness(void)
{
  RT_BEGIN;
  __CPROVER_assume(g_a0.__b_ActorIDTrait.pid_ < VFC_INVALID_VALUE && g_a1.__b_ActorIDTrait.pid_ < VFC_INVALID_VALUE);
  setup_any();
#ifdef H_rt_testany
  size_t n   = g_o_testany.activities_.n;
  vf_str loc = g_o_testany.fun_call_;
  int ty = Type__TESTANY, ity = Type__COMM_TEST;
  ActivityTestanySimcall__serialize(&g_o_testany, &g_chan);
#else
  size_t n   = g_o_waitany.activities_.n;
  vf_str loc = g_o_waitany.fun_call_;
  int ty = Type__WAITANY, ity = Type__COMM_WAIT;
  ActivityWaitanySimcall__serialize(&g_o_waitany, &g_chan);
#endif
  A(vf_exc == 0 && g_overflow == 0, "encoded");                              /*@ rt_any_encoded */
  /* ghost description of what was encoded, for the constructor's contract: one record per activity, by kind */
  g_any_n = n;
  for (int i = 0; i < NANY; i++)
    g_any_comm[i] = (AS_COMM(g_acts[i]) != 0);
  RT_DESER;
  A(g_misframe == 0, "same cell widths in the same order");                  /*@ rt_any_no_misframe */
  A(vf_exc == 0, "decoded without error");                                   /*@ rt_any_no_error */
  A(g_rd == g_wr, "stream fully consumed");                                  /*@ rt_any_fully_consumed */
  A(RT_BASE(ty), "same type, issuer, times_considered");                     /*@ rt_any_same_type_and_issuer */
#ifdef H_rt_testany
  struct vf_seq_TransitionP* trs = &((struct TestAnyTransition*)t)->transitions_;
#else
  struct vf_seq_TransitionP* trs = &((struct WaitAnyTransition*)t)->transitions_;
#endif
  A(trs->n == n && trs->h == 0, "as many inner transitions as activities");  /*@ rt_any_same_count */
  A(*t->call_location_ == loc, "same call location");                        /*@ rt_any_same_location */
#ifdef VF_RT_ANY_INNER /* needs inner clauses in the constructor contracts (not written: see check.json level_note) */
  RT_INNER(0)
  RT_INNER(1)
  RT_INNER(2)
#endif
  VF_CANARY_POINT;
}
#endif

/* the real deserialize_transition dispatches TESTANY / WAITANY to the matching class (empty ANY: no recursion) */
#ifdef H_rt_any_dispatch
void harness(void)
{
  RT_BEGIN;
  int ty = nondet_bool() ? Type__TESTANY : Type__WAITANY;
  vf_str loc = nondet_long();
  Channel__pack__int(&g_chan, ty);
  Channel__pack__unsigned_int(&g_chan, 0);
  Channel__pack__vf_str(&g_chan, loc);
  RT_DESER;
  A(g_misframe == 0 && vf_exc == 0 && g_rd == g_wr, "decoded, fully consumed"); /*@ rt_any_dispatch_consumed */
  A(RT_BASE(ty), "same type, issuer, times_considered");                     /*@ rt_any_dispatch_same_type */
  A(ty != Type__TESTANY || ((struct TestAnyTransition*)t)->transitions_.n == 0, "no inner transition"); /*@ rt_any_dispatch_empty */
  A(ty != Type__WAITANY || ((struct WaitAnyTransition*)t)->transitions_.n == 0, "no inner transition"); /*@ rt_any_dispatch_empty_w */
  A(*t->call_location_ == loc, "same call location");                        /*@ rt_any_dispatch_location */
  VF_CANARY_POINT;
}
#endif
