// Native replay for C18 (finding: suspending an enabled variable does not wake the staged variables of its constraints).
// Runs the REAL lmm code of the working tree (libsimgrid of the build + headers of the tree): one constraint with
// concurrency limit 1, variables a (enabled) and b (staged behind a); suspend a with update_variable_penalty(a, 0).
// Property C18: "after any change, a staged activity uses at least one resource that has no free slot".
// exit 1 = reproduced (b still staged although its only constraint has a free slot), 0 = not reproduced.
#include "src/kernel/lmm/System.hpp"
#include "src/kernel/lmm/maxmin.hpp"
#include <cstdio>
using namespace simgrid::kernel::lmm;
int main()
{
  System* sys = System::build("maxmin", false);
  Constraint* c = sys->constraint_new(nullptr, 10.0);
  c->set_concurrency_limit(1);
  Variable* a = sys->variable_new(nullptr, 1.0, -1.0, 1);
  Variable* b = sys->variable_new(nullptr, 1.0, -1.0, 1);
  sys->expand(c, a, 1.0);
  sys->expand(c, b, 1.0);
  printf("after expand: a.pen=%g a.staged=%g b.pen=%g b.staged=%g cur=%d slack=%d\n", a->sharing_penalty_, a->staged_sharing_penalty_, b->sharing_penalty_, b->staged_sharing_penalty_, c->concurrency_current_, c->get_concurrency_slack());
  sys->update_variable_penalty(a, 0.0); // suspend a
  printf("after suspend a: a.pen=%g a.staged=%g b.pen=%g b.staged=%g cur=%d slack=%d b.minslack=%d\n", a->sharing_penalty_, a->staged_sharing_penalty_, b->sharing_penalty_, b->staged_sharing_penalty_, c->concurrency_current_, c->get_concurrency_slack(), b->get_min_concurrency_slack());
  bool starving = b->staged_sharing_penalty_ > 0 && b->get_min_concurrency_slack() > 0;
  printf(starving ? "STARVATION: b staged while its only constraint has a free slot\n" : "ok\n");
  return starving ? 1 : 0;
}
