import os, sys
sys.path.insert(0, os.path.join(os.path.dirname(os.path.abspath(__file__)), "..", "..", "replay"))
import native


def replay(violation, inputs, workdir, repo):
    """real lmm::System code: limit-1 constraint, enabled a + staged b, suspend a; checks the C18 starvation clause"""
    here = os.path.dirname(os.path.abspath(__file__))
    return native.build_and_run(os.path.join(here, "replay.cpp"), workdir, repo, [violation["label"]])
