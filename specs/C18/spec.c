/* C18 — Concurrency limits are enforced without starvation (src/kernel/lmm/System.cpp, System.hpp).
 *
 * Abstract view, written from the property statement:
 *   COUNT(c)  = number of elements (v,k) that use constraint c, belong to an ENABLED variable (sharing_penalty_ > 0)
 *               and count towards the limit (Element::get_concurrency() == 1)
 *   INV1(c)   : c.concurrency_current_ == COUNT(c)  and  (c.concurrency_limit_ < 0  or  COUNT(c) <= c.concurrency_limit_)
 *   INV2(v)   : v.staged_sharing_penalty_ > 0  ==>  v is disabled and uses at least one constraint with slack 0
 *               ("no staged activity waits while all its resources have room")
 * The state is a system of NC constraints, NV variables with at most NE elements each, built by the harness; the
 * boost::intrusive lists are the cxx2c array model (capacity VF_ICAP >= NV*NE).                                     */
#include "gen.h"

#define NC 2
#define NV 2
#define NE 2
#if VF_ICAP < NV * NE
#error "VF_ICAP must hold every element"
#endif

/* every constraint / variable / element row is an object of its own (pointers into arrays of structs would make the
 * back end case-split on byte offsets) */
struct System g_sys;
struct Constraint g_c0, g_c1;
struct Variable g_v0, g_v1;
struct Element g_e0[NE], g_e1[NE];
#define C(ci) (g_c##ci)
#define V(v) (g_v##v)

/* ---------- quantifiers over the (small, fixed) universe, written out --------------------------------------- */
#define ALLC(P) (P(0) && P(1))
#define ALLV(P) (P(0) && P(1))
#define ANYV(P) (P(0) || P(1))
#define ALLE(P) (P(0, 0) && P(0, 1) && P(1, 0) && P(1, 1))
#define ALLE1(P, a) (P(a, 0, 0) && P(a, 0, 1) && P(a, 1, 0) && P(a, 1, 1))
#define ANYE1(P, a) (P(a, 0, 0) || P(a, 0, 1) || P(a, 1, 0) || P(a, 1, 1))
#define SUME1(F, a) (F(a, 0, 0) + F(a, 0, 1) + F(a, 1, 0) + F(a, 1, 1))
#define ALLK1(P, a) (P(a, 0) && P(a, 1) && P(a, 2) && P(a, 3))             /* list positions 0..VF_ICAP-1 */
#define ANYK2(P, a, b) (P(a, b, 0) || P(a, b, 1) || P(a, b, 2) || P(a, b, 3))
#define ALLKPAIRS1(P, a) (P(a, 0, 1) && P(a, 0, 2) && P(a, 0, 3) && P(a, 1, 2) && P(a, 1, 3) && P(a, 2, 3))
#define ALLSLOT1(P, a) (P(a, 0) && P(a, 1))                                  /* element slots of one variable */
#define ANYSLOT1(P, a) (P(a, 0) || P(a, 1))
#if VF_ICAP != 4
#error "the written-out quantifiers are for VF_ICAP == 4"
#endif

#define IS_C(p) ((p) == &g_c0 || (p) == &g_c1)
#define IS_V(p) ((p) == &g_v0 || (p) == &g_v1)
#define IS_E(p) ((p) == &g_e0[0] || (p) == &g_e0[1] || (p) == &g_e1[0] || (p) == &g_e1[1])

/* ---------- abstract view ------------------------------------------------------------------------------------ */
#define E(v, k) (g_e##v[k])
#define LIVE(v, k) ((size_t)(k) < V(v).cnsts_.n)
#define ENA(v) (V(v).sharing_penalty_ > 0.0)
#define CONC_OF(e) ((((e).constraint->sharing_policy_ == SharingPolicy__WIFI) || (e).consumption_weight >= 1.0) ? 1 : 0)
#define USES(ci, v, k) (LIVE(v, k) && E(v, k).constraint == &C(ci))
#define CNT1(ci, v, k) ((USES(ci, v, k) && ENA(v)) ? CONC_OF(E(v, k)) : 0)
#define COUNT(ci) SUME1(CNT1, ci)
#define SLACK(c) ((c)->concurrency_limit_ < 0 ? INT_MAX : (c)->concurrency_limit_ - (c)->concurrency_current_)

/* ---------- representation invariant ------------------------------------------------------------------------- */
#define EL(ci) (C(ci).enabled_element_set_)
#define DL(ci) (C(ci).disabled_element_set_)
/* position k of the enabled/disabled list of constraint ci holds a live element that uses ci and is linked there.
 * List entries are only COMPARED with the addresses of the elements, never dereferenced: after a callee contract has
 * havocked a list, CBMC cannot resolve a dereference of its entries.                                              */
#define EL_IS(p, ci, v, k) ((p) == &E(v, k) && USES(ci, v, k) && E(v, k).enabled_element_set_hook.linked)
#define DL_IS(p, ci, v, k) ((p) == &E(v, k) && USES(ci, v, k) && E(v, k).disabled_element_set_hook.linked)
#define EL_POS_OK(ci, k)                                                                                               \
  (!((size_t)(k) < EL(ci).n) || EL_IS(EL(ci).d[k], ci, 0, 0) || EL_IS(EL(ci).d[k], ci, 0, 1) ||                        \
   EL_IS(EL(ci).d[k], ci, 1, 0) || EL_IS(EL(ci).d[k], ci, 1, 1))
#define DL_POS_OK(ci, k)                                                                                               \
  (!((size_t)(k) < DL(ci).n) || DL_IS(DL(ci).d[k], ci, 0, 0) || DL_IS(DL(ci).d[k], ci, 0, 1) ||                        \
   DL_IS(DL(ci).d[k], ci, 1, 0) || DL_IS(DL(ci).d[k], ci, 1, 1))
#define EL_DISTINCT(ci, i, j) (!((size_t)(j) < EL(ci).n) || EL(ci).d[i] != EL(ci).d[j])
#define DL_DISTINCT(ci, i, j) (!((size_t)(j) < DL(ci).n) || DL(ci).d[i] != DL(ci).d[j])
#define EL_AT(ci, p, k) ((size_t)(k) < EL(ci).n && EL(ci).d[k] == (p))
#define DL_AT(ci, p, k) ((size_t)(k) < DL(ci).n && DL(ci).d[k] == (p))
#define EL_MEM(ci, p) ANYK2(EL_AT, ci, p)
#define DL_MEM(ci, p) ANYK2(DL_AT, ci, p)
/* every linked element that uses ci is in the corresponding list of ci */
#define EL_COMPLETE(ci, v, k) (!(USES(ci, v, k) && E(v, k).enabled_element_set_hook.linked) || EL_MEM(ci, &E(v, k)))
#define DL_COMPLETE(ci, v, k) (!(USES(ci, v, k) && E(v, k).disabled_element_set_hook.linked) || DL_MEM(ci, &E(v, k)))

#define WF_LISTS(ci)                                                                                                   \
  (EL(ci).n <= VF_ICAP && DL(ci).n <= VF_ICAP && C(ci).active_element_set_.n == 0 && ALLK1(EL_POS_OK, ci) &&         \
   ALLK1(DL_POS_OK, ci) && ALLKPAIRS1(EL_DISTINCT, ci) && ALLKPAIRS1(DL_DISTINCT, ci) && ALLE1(EL_COMPLETE, ci) &&     \
   ALLE1(DL_COMPLETE, ci))

/* a live element belongs to its variable, uses a constraint of the system, and sits in the enabled set iff its
 * variable is enabled, else in the disabled set (solver state "active" is not modelled: never linked)            */
#define WF_ELEM(v, k)                                                                                                  \
  (!LIVE(v, k) || (E(v, k).variable == &V(v) && IS_C(E(v, k).constraint) &&                                          \
                   E(v, k).enabled_element_set_hook.linked == ENA(v) &&                                                \
                   E(v, k).disabled_element_set_hook.linked == !ENA(v) && !E(v, k).active_element_set_hook.linked))
/* assumption (stated in check.json): a variable uses a constraint through at most one element */
#define WF_VAR(v)                                                                                                      \
  (V(v).cnsts_.d == g_e##v && V(v).cnsts_.h == 0 && V(v).cnsts_.n <= NE && V(v).cnsts_.cap == NE &&            \
   V(v).sharing_penalty_ >= 0.0 && V(v).staged_sharing_penalty_ >= 0.0 && V(v).variable_set_hook_.linked &&      \
   (V(v).cnsts_.n < 2 || E(v, 0).constraint != E(v, 1).constraint))
#define WF_VARSET                                                                                                      \
  (g_sys.variable_set.n == NV && IS_V(g_sys.variable_set.d[0]) && IS_V(g_sys.variable_set.d[1]) &&                     \
   g_sys.variable_set.d[0] != g_sys.variable_set.d[1])
#define WF_STRUCT (WF_VARSET && ALLV(WF_VAR) && ALLE(WF_ELEM) && ALLC(WF_LISTS))

/* the two halves of the property */
#define C_RANGE(ci)                                                                                                    \
  (C(ci).concurrency_current_ >= 0 && C(ci).concurrency_current_ <= NV * NE &&                                     \
   (C(ci).concurrency_limit_ < 0 || C(ci).concurrency_current_ <= C(ci).concurrency_limit_))
#define INV1(ci) (C(ci).concurrency_current_ == COUNT(ci) && C_RANGE(ci))
#define FULL_AT(v, k) (LIVE(v, k) && SLACK(E(v, k).constraint) == 0)
#define INV2(v) (!(V(v).staged_sharing_penalty_ > 0.0) || (V(v).sharing_penalty_ == 0.0 && ANYSLOT1(FULL_AT, v)))

/* ---------- leaf functions ----------------------------------------------------------------------------------- */
int Element__get_concurrency(struct Element* self)
    __CPROVER_requires(IS_E(self) && IS_C(self->constraint))
    __CPROVER_assigns()
    __CPROVER_ensures(__CPROVER_return_value == CONC_OF(*self)) /*@ counts_one_iff_wifi_or_weight_at_least_one */;

int Constraint__get_concurrency_slack(struct Constraint* self)
    __CPROVER_requires(IS_C(self) && (self->concurrency_limit_ < 0 || self->concurrency_current_ >= 0))
    __CPROVER_assigns()
    __CPROVER_ensures(__CPROVER_return_value == SLACK(self)) /*@ slack_is_free_slots_or_intmax_when_unlimited */;

void Element__decrease_concurrency(struct Element* self)
    __CPROVER_requires(IS_E(self) && IS_C(self->constraint) && vf_exc == 0)
    __CPROVER_assigns(vf_exc, self->constraint->concurrency_current_)
    __CPROVER_ensures((vf_exc == VF_EXC_ABORT) == (__CPROVER_old(self->constraint->concurrency_current_) < CONC_OF(*self)))
    /*@ decrease_rejects_underflow */
    __CPROVER_ensures(vf_exc == 0 || vf_exc == VF_EXC_ABORT)
    __CPROVER_ensures(self->constraint->concurrency_current_ ==
                      __CPROVER_old(self->constraint->concurrency_current_) - (vf_exc ? 0 : CONC_OF(*self)))
    /*@ decrease_subtracts_own_count */;

void Element__increase_concurrency(struct Element* self, _Bool check_limit)
    __CPROVER_requires(IS_E(self) && IS_C(self->constraint) && vf_exc == 0 &&
                       self->constraint->concurrency_current_ < 1000000)
    __CPROVER_assigns(vf_exc, self->constraint->concurrency_current_, self->constraint->concurrency_maximum_)
    __CPROVER_ensures(self->constraint->concurrency_current_ ==
                      __CPROVER_old(self->constraint->concurrency_current_) + CONC_OF(*self))
    /*@ increase_adds_own_count */
    __CPROVER_ensures(self->constraint->concurrency_maximum_ ==
                      (__CPROVER_old(self->constraint->concurrency_maximum_) < self->constraint->concurrency_current_
                           ? self->constraint->concurrency_current_
                           : __CPROVER_old(self->constraint->concurrency_maximum_))) /*@ increase_tracks_maximum */
    __CPROVER_ensures((vf_exc == VF_EXC_ABORT) ==
                      (check_limit && self->constraint->concurrency_limit_ >= 0 &&
                       self->constraint->concurrency_current_ > self->constraint->concurrency_limit_))
    /*@ increase_checked_never_passes_limit */
    __CPROVER_ensures(vf_exc == 0 || vf_exc == VF_EXC_ABORT);

/* slack of the constraint used by slot k of variable *self */
#define VSLACK(self, k) SLACK((self)->cnsts_.d[k].constraint)
#define V_SLOT_LE(self, k) (!((size_t)(k) < (self)->cnsts_.n) || __CPROVER_return_value <= VSLACK(self, k))
#define V_SLOT_EQ(self, k) ((size_t)(k) < (self)->cnsts_.n && __CPROVER_return_value == VSLACK(self, k))
#define V_SLOT_POS(self, k) (!((size_t)(k) < (self)->cnsts_.n) || VSLACK(self, k) > 0)

int Variable__get_min_concurrency_slack(struct Variable* self)
    __CPROVER_requires(IS_V(self) && ALLV(WF_VAR) && ALLE(WF_ELEM) && ALLC(C_RANGE) && vf_exc == 0)
    __CPROVER_assigns()
    /*@ min_slack_is_a_lower_bound_of_every_used_constraint */
    __CPROVER_ensures(1 && ALLSLOT1(V_SLOT_LE, self)) /*@ min_slack_is_a_lower_bound_of_every_used_constraint */
    __CPROVER_ensures(1 && ANYSLOT1(V_SLOT_EQ, self) ||
                      (__CPROVER_return_value == INT_MAX)) /*@ min_slack_is_attained_or_intmax */
    __CPROVER_ensures(__CPROVER_return_value >= 0 && vf_exc == 0);

#define L_LE(k) (!((size_t)(k) < __i0) || minslack <= VSLACK(self, k))
#define L_EQ(k) ((size_t)(k) < __i0 && minslack == VSLACK(self, k))
#define VF_LOOP_Variable__get_min_concurrency_slack_0                                                                  \
  __CPROVER_assigns(__i0, minslack)                                                                                    \
      __CPROVER_loop_invariant(__i0 <= __r0->n && L_LE(0) && L_LE(1) && (minslack == INT_MAX || L_EQ(0) || L_EQ(1)) && \
                               minslack > 0) __CPROVER_decreases(__r0->n - __i0)

_Bool Variable__can_enable(struct Variable* self)
    __CPROVER_requires(IS_V(self) && ALLV(WF_VAR) && ALLE(WF_ELEM) && ALLC(C_RANGE) && vf_exc == 0)
    __CPROVER_assigns()
    __CPROVER_ensures(__CPROVER_return_value ==
                      (self->staged_sharing_penalty_ > 0.0 && ALLSLOT1(V_SLOT_POS, self)))
    /*@ can_enable_iff_staged_and_every_used_constraint_has_room */
    __CPROVER_ensures(vf_exc == 0);

/* ---------- assumed callees (outside C18) -------------------------------------------------------------------- */
/* selective-update bookkeeping (C17): touches only modified_constraint_set / visited_ stamps, none of which is part of
 * the C18 view */
int g_modset_updates;
void System__update_modified_cnst_set_from_variable(struct System* self, struct Variable* var)
    __CPROVER_requires(IS_V(var)) __CPROVER_assigns(g_modset_updates) __CPROVER_ensures(1);
/* debug-only consistency checker (returns at once unless the lmm log category is at debug level; then it aborts when
 * the very invariants proved here are broken) */
void System__check_concurrency(struct System* self)
    __CPROVER_requires(1) __CPROVER_assigns(vf_exc)
    __CPROVER_ensures(vf_exc == __CPROVER_old(vf_exc) || (vf_log_enabled && vf_exc == VF_EXC_ABORT));

/* ---------- mutators ------------------------------------------------------------------------------------------ */
#define C_FRAME(ci) C(ci).enabled_element_set_, C(ci).disabled_element_set_, C(ci).concurrency_current_, C(ci).concurrency_maximum_
#define HOOKS_OF(var)                                                                                                  \
  (var)->cnsts_.d[0].enabled_element_set_hook, (var)->cnsts_.d[0].disabled_element_set_hook,                           \
      (var)->cnsts_.d[1].enabled_element_set_hook, (var)->cnsts_.d[1].disabled_element_set_hook
#define SLOT_DATA_KEPT(var, k)                                                                                         \
  ((var)->cnsts_.d[k].constraint == __CPROVER_old((var)->cnsts_.d[k].constraint) &&                                    \
   (var)->cnsts_.d[k].variable == __CPROVER_old((var)->cnsts_.d[k].variable) &&                                        \
   (var)->cnsts_.d[k].consumption_weight == __CPROVER_old((var)->cnsts_.d[k].consumption_weight))
#define ELEM_DATA_KEPT(v, k)                                                                                           \
  (E(v, k).constraint == __CPROVER_old(E(v, k).constraint) && E(v, k).variable == __CPROVER_old(E(v, k).variable) &&   \
   E(v, k).consumption_weight == __CPROVER_old(E(v, k).consumption_weight))
#define WEIGHT_OK(v, k) (!LIVE(v, k) || E(v, k).consumption_weight == E(v, k).consumption_weight) /* not NaN */

/* order clause of enable_var (needed by the traversal in on_disabled_var): the disabled set of every constraint is
 * the old one without the element of var, remaining entries in the same order. Pointers are only compared.          */
#define OLD_DL(ci, j) __CPROVER_old(DL(ci).d[j])
#define OLD_DLN(ci) __CPROVER_old(DL(ci).n)
#define DL_WAS_VAR(ci, j)                                                                                              \
  ((size_t)(j) < OLD_DLN(ci) && (OLD_DL(ci, j) == &var->cnsts_.d[0] || OLD_DL(ci, j) == &var->cnsts_.d[1]))
#define DL_GONE_UPTO0(ci) DL_WAS_VAR(ci, 0)
#define DL_GONE_UPTO1(ci) (DL_WAS_VAR(ci, 0) || DL_WAS_VAR(ci, 1))
#define DL_GONE_UPTO2(ci) (DL_WAS_VAR(ci, 0) || DL_WAS_VAR(ci, 1) || DL_WAS_VAR(ci, 2))
#define DL_GONE_ANY(ci) (DL_GONE_UPTO2(ci) || DL_WAS_VAR(ci, 3))
#define DL_ORDER_AT(ci, k, k1)                                                                                         \
  (!((size_t)(k) < DL(ci).n) ||                                                                                        \
   (DL_GONE_UPTO##k(ci) ? DL(ci).d[k] == OLD_DL(ci, k1) : DL(ci).d[k] == OLD_DL(ci, k)))
#define DL_ORDER_KEPT(ci)                                                                                              \
  (DL(ci).n + (DL_GONE_ANY(ci) ? 1 : 0) == OLD_DLN(ci) && DL_ORDER_AT(ci, 0, 1) && DL_ORDER_AT(ci, 1, 2) &&            \
   DL_ORDER_AT(ci, 2, 3) && (!((size_t)3 < DL(ci).n) || (!DL_GONE_ANY(ci) && DL(ci).d[3] == OLD_DL(ci, 3))))

/* enable_var: a staged variable whose constraints all have room becomes enabled with its staged penalty; every
 * counter stays exact and within its limit */
void System__enable_var(struct System* self, struct Variable* var)
    __CPROVER_requires(self == &g_sys && IS_V(var) && WF_STRUCT && ALLC(INV1) && vf_exc == 0)
    __CPROVER_requires(var->sharing_penalty_ == 0.0 && var->staged_sharing_penalty_ > 0.0 && ALLSLOT1(V_SLOT_POS, var))
    __CPROVER_assigns(vf_exc, g_modset_updates, var->sharing_penalty_, var->staged_sharing_penalty_, g_sys.variable_set,
                      var->variable_set_hook_, HOOKS_OF(var), C_FRAME(0), C_FRAME(1))
    __CPROVER_ensures(vf_exc == 0)                                                 /*@ enable_never_overflows_a_limit */
    __CPROVER_ensures(var->sharing_penalty_ == __CPROVER_old(var->staged_sharing_penalty_) &&
                      var->staged_sharing_penalty_ == 0.0)                          /*@ enable_applies_staged_penalty */
    /*@ enable_keeps_structure */
    __CPROVER_ensures(1 && WF_STRUCT)                                                    /*@ enable_keeps_structure */
    /*@ enable_keeps_counters_exact_and_within_limits */
    __CPROVER_ensures(1 && ALLC(INV1))                                                   /*@ enable_keeps_counters_exact_and_within_limits */
    /*@ enable_keeps_order_of_remaining_disabled_elements */
    __CPROVER_ensures(1 && ALLC(DL_ORDER_KEPT))                                          /*@ enable_keeps_order_of_remaining_disabled_elements */;

/* disable_var: an enabled variable leaves every enabled set, its penalty and rate drop to 0, counters stay exact */
/* precondition: counters exact (C_EXACT), NOT necessarily within their limit: System::expand calls disable_var in the
 * transient state where the constraint just expanded on is one above its limit. Counters never grow, so a caller that
 * had INV1 before has it afterwards (C_EXACT + C_SHRINKS + old C_RANGE => C_RANGE).                                 */
#define C_EXACT(ci) (C(ci).concurrency_current_ == COUNT(ci))
#define C_SHRINKS(ci)                                                                                                  \
  (C(ci).concurrency_current_ >= 0 && C(ci).concurrency_current_ <= __CPROVER_old(C(ci).concurrency_current_))
void System__disable_var(struct System* self, struct Variable* var)
    __CPROVER_requires(self == &g_sys && IS_V(var) && WF_STRUCT && ALLC(C_EXACT) && vf_exc == 0)
    __CPROVER_requires(var->sharing_penalty_ > 0.0)
    __CPROVER_assigns(vf_exc, g_modset_updates, var->sharing_penalty_, var->staged_sharing_penalty_, var->value_,
                      g_sys.variable_set, var->variable_set_hook_, HOOKS_OF(var), C_FRAME(0), C_FRAME(1))
    __CPROVER_ensures(__CPROVER_old(var->staged_sharing_penalty_) == 0.0 || vf_exc == VF_EXC_ABORT)
    /*@ disable_rejects_a_pending_staged_penalty */
    __CPROVER_ensures(vf_exc == 0 || (vf_exc == VF_EXC_ABORT &&
                                      (__CPROVER_old(var->staged_sharing_penalty_) != 0.0 || vf_log_enabled)))
    /*@ disable_aborts_only_for_that */
    __CPROVER_ensures(__CPROVER_old(var->staged_sharing_penalty_) != 0.0 ||
                      (var->sharing_penalty_ == 0.0 && var->staged_sharing_penalty_ == 0.0 && var->value_ == 0.0))
    /*@ disable_zeroes_penalty_and_rate */
    __CPROVER_ensures(__CPROVER_old(var->staged_sharing_penalty_) != 0.0 || WF_STRUCT) /*@ disable_keeps_structure */
    __CPROVER_ensures(__CPROVER_old(var->staged_sharing_penalty_) != 0.0 || (ALLC(C_EXACT) && ALLC(C_SHRINKS)))
    /*@ disable_keeps_counters_exact_and_within_limits */;

/* on_disabled_var(c): wakes staged variables of c while c has room. Called in states where INV2 may be broken (a
 * variable has just left). Afterwards no staged variable that uses c waits while all its constraints have room, and
 * nothing that was fine before is broken: counters only grow (a full constraint stays full) and a variable either
 * keeps its penalties or is woken with its staged penalty.                                                          */
#define V_FRAME(v) V(v).sharing_penalty_, V(v).staged_sharing_penalty_, V(v).variable_set_hook_, HOOKS_OF(&V(v))
#define PEN_SAME(v)                                                                                                    \
  (V(v).sharing_penalty_ == __CPROVER_old(V(v).sharing_penalty_) &&                                                    \
   V(v).staged_sharing_penalty_ == __CPROVER_old(V(v).staged_sharing_penalty_))
#define PEN_STEP(v)                                                                                                    \
  ((V(v).sharing_penalty_ == __CPROVER_old(V(v).sharing_penalty_) &&                                                   \
    V(v).staged_sharing_penalty_ == __CPROVER_old(V(v).staged_sharing_penalty_)) ||                                    \
   (__CPROVER_old(V(v).sharing_penalty_) == 0.0 && __CPROVER_old(V(v).staged_sharing_penalty_) > 0.0 &&                \
    V(v).sharing_penalty_ == __CPROVER_old(V(v).staged_sharing_penalty_) && V(v).staged_sharing_penalty_ == 0.0))
#define STAGED_IS_DISABLED(v) (!(V(v).staged_sharing_penalty_ > 0.0) || V(v).sharing_penalty_ == 0.0)
#define COUNTER_GROWS(ci) (C(ci).concurrency_current_ >= __CPROVER_old(C(ci).concurrency_current_))
#define USES_PTR_AT(v, k) (LIVE(v, k) && E(v, k).constraint == cnstr)
#define INV2_ON_CNSTR(v) (!ANYSLOT1(USES_PTR_AT, v) || INV2(v))
void System__on_disabled_var(struct System* self, struct Constraint* cnstr)
    __CPROVER_requires(self == &g_sys && IS_C(cnstr) && WF_STRUCT && ALLC(INV1) && vf_exc == 0)
    /* the half of INV2 that survives a departure: only disabled variables carry a staged penalty */
    __CPROVER_requires(ALLV(STAGED_IS_DISABLED))
    __CPROVER_assigns(vf_exc, g_modset_updates, g_sys.variable_set, V_FRAME(0), V_FRAME(1), C_FRAME(0), C_FRAME(1))
    __CPROVER_ensures(vf_exc == 0)                /*@ wakeup_never_overflows_a_limit */
    /*@ wakeup_keeps_structure */
    __CPROVER_ensures(1 && WF_STRUCT)                  /*@ wakeup_keeps_structure */
    /*@ wakeup_keeps_counters_exact_and_within_limits */
    __CPROVER_ensures(1 && ALLC(INV1))                 /*@ wakeup_keeps_counters_exact_and_within_limits */
    /*@ wakeup_only_enables_staged_variables_with_their_staged_penalty */
    __CPROVER_ensures(1 && ALLV(PEN_STEP))             /*@ wakeup_only_enables_staged_variables_with_their_staged_penalty */
    /*@ wakeup_never_frees_a_slot */
    __CPROVER_ensures(1 && ALLC(COUNTER_GROWS))        /*@ wakeup_never_frees_a_slot */
    __CPROVER_ensures(cnstr->concurrency_limit_ >= 0 || ALLV(PEN_SAME))
    /*@ wakeup_on_an_unlimited_constraint_changes_nothing */
    __CPROVER_ensures(cnstr->concurrency_limit_ < 0 || ALLV(INV2_ON_CNSTR))
    /*@ wakeup_leaves_no_staged_variable_of_this_limited_constraint_with_room */;

/* update_variable_penalty: the public operation (suspend = 0, resume / change = positive penalty). Top-level
 * postconditions = the property statement: counters exact and within limits, no staged variable waits with room.
 * Ghost g_room: "every constraint used by var has a free slot" at entry.                                           */
_Bool g_room;
#define OTHER_STEP(v)                                                                                                  \
  (&V(v) == var || PEN_SAME(v) || (penalty == 0.0 && __CPROVER_old(var->sharing_penalty_) > 0.0 && PEN_STEP(v)))
void System__update_variable_penalty(struct System* self, struct Variable* var, double penalty)
    __CPROVER_requires(self == &g_sys && IS_V(var) && WF_STRUCT && ALLC(INV1) && ALLV(INV2) && vf_exc == 0)
    __CPROVER_requires(g_room == ALLSLOT1(V_SLOT_POS, var))
    __CPROVER_assigns(vf_exc, g_modset_updates, g_sys.modified_, var->value_, g_sys.variable_set, V_FRAME(0), V_FRAME(1),
                      C_FRAME(0), C_FRAME(1))
    __CPROVER_ensures(penalty >= 0.0 || vf_exc == VF_EXC_ABORT)        /*@ penalty_must_not_be_negative */
    /*@ only_a_suspend_touches_other_variables_and_only_to_wake_them */
    __CPROVER_ensures(1 && ALLV(OTHER_STEP))  /*@ only_a_suspend_touches_other_variables_and_only_to_wake_them */
    __CPROVER_ensures(vf_exc == 0 || (vf_exc == VF_EXC_ABORT && (!(penalty >= 0.0) || vf_log_enabled)))
    /*@ penalty_change_aborts_only_for_that */
    /*@ penalty_change_keeps_variables_well_formed */
    __CPROVER_ensures(1 && WF_VARSET && ALLV(WF_VAR))                  /*@ penalty_change_keeps_variables_well_formed */
    /*@ penalty_change_keeps_elements_in_the_set_matching_their_variable */
    __CPROVER_ensures(1 && ALLE(WF_ELEM))                              /*@ penalty_change_keeps_elements_in_the_set_matching_their_variable */
    /*@ penalty_change_keeps_element_sets_consistent */
    __CPROVER_ensures(1 && ALLC(WF_LISTS))                             /*@ penalty_change_keeps_element_sets_consistent */
    /*@ penalty_change_keeps_counters_exact_and_within_limits */
    __CPROVER_ensures(1 && ALLC(INV1))                                 /*@ penalty_change_keeps_counters_exact_and_within_limits */
    __CPROVER_ensures((penalty == 0.0 && __CPROVER_old(var->sharing_penalty_) > 0.0) || ALLV(INV2))
    /*@ penalty_change_leaves_no_staged_variable_with_room */
    /* vf_exc != 0: only when the lmm log category is at debug level, where the checker called at the end of disable_var
     * (transient state) aborts the simulation before the wake-up */
    __CPROVER_ensures(vf_exc != 0 || !(penalty == 0.0 && __CPROVER_old(var->sharing_penalty_) > 0.0) || ALLV(INV2))
    /*@ suspend_leaves_no_staged_variable_with_room */
    __CPROVER_ensures(!(penalty > 0.0 && __CPROVER_old(var->sharing_penalty_) == 0.0 && g_room) ||
                      (var->sharing_penalty_ == penalty && var->staged_sharing_penalty_ == 0.0))
    /*@ resume_with_room_enables_at_once */
    __CPROVER_ensures(!(penalty > 0.0 && __CPROVER_old(var->sharing_penalty_) == 0.0 && !g_room) ||
                      (var->sharing_penalty_ == 0.0 && var->staged_sharing_penalty_ == penalty))
    /*@ resume_without_room_stages */
    __CPROVER_ensures(!(penalty == 0.0 && __CPROVER_old(var->sharing_penalty_) > 0.0) ||
                      (var->sharing_penalty_ == 0.0 && var->staged_sharing_penalty_ == 0.0))
    /*@ suspend_disables */
    __CPROVER_ensures(!(penalty > 0.0 && __CPROVER_old(var->sharing_penalty_) > 0.0) ||
                      var->sharing_penalty_ == penalty) /*@ change_of_an_enabled_variable_applies */;

/* ---------- expand ------------------------------------------------------------------------------------------------ */
/* callees outside the concurrency story: frame only */
int g_active_updates;
void System__make_constraint_active(struct System* self, struct Constraint* cnst)
    __CPROVER_requires(IS_C(cnst)) __CPROVER_assigns(g_active_updates) __CPROVER_ensures(1);
void System__update_modified_cnst_set(struct System* self, struct Constraint* cnst)
    __CPROVER_requires(IS_C(cnst)) __CPROVER_assigns(g_modset_updates) __CPROVER_ensures(1);

/* expand(cnst, var, w, force): var starts using cnst (new element) or uses it more (weight cumulated in the existing
 * element). Top-level postconditions = the property statement: every counter equals the number of enabled counting
 * elements and stays within its limit; when the limit of cnst would be passed, var is staged with its old penalty (and
 * only then); no staged variable is left waiting while all its constraints have room - in particular the slots var
 * released on its OTHER constraints when it got staged were offered to the variables staged there.
 * Ghosts pinned in requires: g_reuse (the element of var on cnst is reused), g_slot (position of the element used).  */
_Bool g_reuse;
size_t g_slot;
#define P_USES(var, c, k) ((size_t)(k) < (var)->cnsts_.n && (var)->cnsts_.d[k].constraint == (c))
#define P_USES_ANY(var, c) (P_USES(var, c, 0) || P_USES(var, c, 1))
#define OLD_SLOT(f) (g_slot == 0 ? __CPROVER_old(var->cnsts_.d[0].f) : __CPROVER_old(var->cnsts_.d[1].f))
#define NEW_SLOT(f) (g_slot == 0 ? var->cnsts_.d[0].f : var->cnsts_.d[1].f)
#define X_WAS_ENABLED (__CPROVER_old(var->sharing_penalty_) > 0.0)
#define X_STAGED_NOW                                                                                                   \
  (var->sharing_penalty_ == 0.0 && var->staged_sharing_penalty_ == __CPROVER_old(var->sharing_penalty_))
#define X_STILL_ENABLED                                                                                                \
  (var->sharing_penalty_ == __CPROVER_old(var->sharing_penalty_) && var->staged_sharing_penalty_ == 0.0)
#define X_OTHER_STEP(v) (&V(v) == var || PEN_SAME(v) || (X_WAS_ENABLED && var->sharing_penalty_ == 0.0 && PEN_STEP(v)))
#define X_COUNTER_SAME(ci) (C(ci).concurrency_current_ == __CPROVER_old(C(ci).concurrency_current_))
/* weights are compared as values: a NaN weight (never produced by the models, not excluded here) stays a NaN */
#define SAME_DBL(a, b) ((a) == (b) || ((a) != (a) && (b) != (b)))
#define X_ELEM_KEPT(v, k)                                                                                              \
  (E(v, k).constraint == __CPROVER_old(E(v, k).constraint) && E(v, k).variable == __CPROVER_old(E(v, k).variable) &&   \
   SAME_DBL(E(v, k).consumption_weight, __CPROVER_old(E(v, k).consumption_weight)))
#define X_OTHER_ELEMS_KEPT(v)                                                                                          \
  (&V(v) == var || (X_ELEM_KEPT(v, 0) && X_ELEM_KEPT(v, 1) && V(v).cnsts_.n == __CPROVER_old(V(v).cnsts_.n)))
void System__expand(struct System* self, struct Constraint* cnst, struct Variable* var, double consumption_weight,
                    _Bool force_creation)
    __CPROVER_requires(self == &g_sys && IS_C(cnst) && IS_V(var) && WF_STRUCT && ALLC(INV1) && ALLV(INV2) && vf_exc == 0)
    /* state restrictions (check.json trusted): weights are not negative (a negative weight could take a counting
     * element below 1 and free a slot without any wake-up); force_creation only on a constraint not used yet */
    __CPROVER_requires(consumption_weight >= 0.0 && (!force_creation || !P_USES_ANY(var, cnst)))
    __CPROVER_requires(g_reuse == (!force_creation && P_USES_ANY(var, cnst)))
    __CPROVER_requires(g_slot == (g_reuse ? (P_USES(var, cnst, 0) ? 0 : 1) : var->cnsts_.n))
    __CPROVER_assigns(vf_exc, g_modset_updates, g_active_updates, g_sys.modified_, var->value_, var->cnsts_.n,
                      __CPROVER_object_whole(var->cnsts_.d), g_sys.variable_set, V_FRAME(0), V_FRAME(1), C_FRAME(0),
                      C_FRAME(1))
    __CPROVER_ensures(vf_exc == 0 || (vf_exc == VF_EXC_ABORT && ((!g_reuse && g_slot >= NE) || vf_log_enabled)))
    /*@ expand_aborts_only_when_the_variable_is_full */
    __CPROVER_ensures(!(!g_reuse && g_slot >= NE) || vf_exc == VF_EXC_ABORT) /*@ expand_rejects_one_constraint_too_many */
    /*@ expand_keeps_structure */
    __CPROVER_ensures(1 && WF_STRUCT)                                      /*@ expand_keeps_structure */
    /*@ expand_keeps_counters_exact_and_within_limits */
    __CPROVER_ensures(1 && ALLC(INV1))                                     /*@ expand_keeps_counters_exact_and_within_limits */
    /*@ expand_leaves_no_staged_variable_with_room */
    __CPROVER_ensures(vf_exc != 0 || ALLV(INV2))                           /*@ expand_leaves_no_staged_variable_with_room */
    __CPROVER_ensures(vf_exc != 0 || (P_USES(var, cnst, g_slot) && NEW_SLOT(variable) == var &&
                                      var->cnsts_.n == __CPROVER_old(var->cnsts_.n) + (g_reuse ? 0 : 1)))
    /*@ expand_records_the_use_in_one_element */
    __CPROVER_ensures(vf_exc != 0 || g_reuse || NEW_SLOT(consumption_weight) == consumption_weight)
    /*@ expand_new_element_gets_the_weight */
#ifdef VF_C18_WEIGHT_CLAUSE
    /* proved for a disabled variable only (thorough-tier harness expand_disabled_weight defines VF_C18_WEIGHT_CLAUSE). UNDECIDED with an
     * enabled variable (expand_reuse): the solver has to prove the floating-point adder of the body equal to the one of
     * this clause through differently muxed inputs together with the counting clauses (no answer after 17 CPU minutes);
     * the concurrency clauses below do not need it (they read the new weight from the post-state on both sides) */
    __CPROVER_ensures(vf_exc != 0 || !g_reuse ||
                      SAME_DBL(NEW_SLOT(consumption_weight),
                               (cnst->sharing_policy_ != SharingPolicy__FATPIPE
                                    ? OLD_SLOT(consumption_weight) + consumption_weight
                                    : (OLD_SLOT(consumption_weight) < consumption_weight
                                           ? consumption_weight
                                           : OLD_SLOT(consumption_weight)))))
    /*@ expand_reused_element_cumulates_the_weight */
#endif
    __CPROVER_ensures(vf_exc != 0 || !X_WAS_ENABLED || X_STILL_ENABLED || X_STAGED_NOW)
    /*@ expand_keeps_an_enabled_variable_enabled_or_stages_it_with_its_penalty */
    __CPROVER_ensures(vf_exc != 0 || !X_WAS_ENABLED || !X_STAGED_NOW || SLACK(cnst) == 0)
    /*@ expand_stages_only_when_the_constraint_has_no_room */
    __CPROVER_ensures(X_WAS_ENABLED || (var->sharing_penalty_ == __CPROVER_old(var->sharing_penalty_) &&
                                        var->staged_sharing_penalty_ == __CPROVER_old(var->staged_sharing_penalty_) &&
                                        ALLC(X_COUNTER_SAME)))
    /*@ expand_of_a_disabled_variable_moves_no_counter */
    /*@ expand_touches_other_variables_only_to_wake_them_when_it_stages */
    __CPROVER_ensures(1 && ALLV(X_OTHER_STEP)) /*@ expand_touches_other_variables_only_to_wake_them_when_it_stages */
    /*@ expand_keeps_the_elements_of_other_variables */
    __CPROVER_ensures(1 && ALLV(X_OTHER_ELEMS_KEPT)) /*@ expand_keeps_the_elements_of_other_variables */;

#include "gen.c"

/* ---------- harnesses ---------------------------------------------------------------------------------------- */
size_t nondet_size(void);
int nondet_int(void);
_Bool nondet_bool(void);
double nondet_double(void);

struct System nondet_System(void);
struct Constraint nondet_Constraint(void);
struct Variable nondet_Variable(void);
struct Element nondet_Element(void);
/* pointers are chosen among constant addresses (no symbolic offsets: keeps dereferences cheap for the back end) */
static struct Element* pick_elem(void)
{
  if (nondet_bool())
    return nondet_bool() ? &g_e0[0] : &g_e0[1];
  return nondet_bool() ? &g_e1[0] : &g_e1[1];
}
static struct Variable* pick_var(void)
{
  return nondet_bool() ? &g_v0 : &g_v1;
}
static struct Constraint* pick_cnst(void)
{
  return nondet_bool() ? &g_c0 : &g_c1;
}
/* every scalar is unconstrained; every pointer is one of the objects of the universe (CBMC resolves dereferences
 * through points-to sets, so pointers are wired here and only compared in the representation invariant) */
static void setup_cnst(struct Constraint* c)
{
  *c = nondet_Constraint();
  for (int k = 0; k < VF_ICAP; k++) {
    c->enabled_element_set_.d[k]  = pick_elem();
    c->disabled_element_set_.d[k] = pick_elem();
    c->active_element_set_.d[k]   = pick_elem();
  }
}
static void setup_var(struct Variable* v, struct Element* row)
{
  *v           = nondet_Variable();
  v->cnsts_.d   = row;
  v->cnsts_.h   = 0;
  v->cnsts_.cap = NE;
  for (int k = 0; k < NE; k++) {
    row[k]            = nondet_Element();
    row[k].constraint = pick_cnst();
    row[k].variable   = pick_var();
  }
}
static void setup(void)
{
  g_sys = nondet_System();
  for (int k = 0; k < VF_ICAP; k++)
    g_sys.variable_set.d[k] = pick_var();
  setup_cnst(&g_c0);
  setup_cnst(&g_c1);
  setup_var(&g_v0, g_e0);
  setup_var(&g_v1, g_e1);
  vf_exc         = 0;
  vf_log_enabled = nondet_bool();
}

#ifdef H_get_concurrency
void harness(void)
{
  setup();
  Element__get_concurrency(pick_elem());
  VF_CANARY_POINT;
}
#endif
#ifdef H_get_concurrency_slack
void harness(void)
{
  setup();
  Constraint__get_concurrency_slack(pick_cnst());
  VF_CANARY_POINT;
}
#endif
#ifdef H_decrease_concurrency
void harness(void)
{
  setup();
  Element__decrease_concurrency(pick_elem());
  VF_CANARY_POINT;
}
#endif
#ifdef H_increase_concurrency
void harness(void)
{
  setup();
  Element__increase_concurrency(pick_elem(), nondet_bool());
  VF_CANARY_POINT;
}
#endif
#ifdef H_get_min_concurrency_slack
void harness(void)
{
  setup();
  Variable__get_min_concurrency_slack(pick_var());
  VF_CANARY_POINT;
}
#endif
#ifdef H_can_enable
void harness(void)
{
  setup();
  Variable__can_enable(pick_var());
  VF_CANARY_POINT;
}
#endif
#ifdef H_enable_var
void harness(void)
{
  setup();
  System__enable_var(&g_sys, pick_var());
  VF_CANARY_POINT;
}
#endif
#ifdef H_disable_var
void harness(void)
{
  setup();
  System__disable_var(&g_sys, pick_var());
  VF_CANARY_POINT;
}
#endif
#ifdef H_on_disabled_var
void harness(void)
{
  setup();
  System__on_disabled_var(&g_sys, pick_cnst());
  VF_CANARY_POINT;
}
#endif
#ifdef H_update_variable_penalty
void harness(void)
{
  setup();
  g_room = nondet_bool();
  System__update_variable_penalty(&g_sys, pick_var(), nondet_double());
  VF_CANARY_POINT;
}
#endif
/* expand: one harness per (variable XV, number of elements it already has XN, path family XCASE): with the variable and
 * its length constant, the element that expand creates / reuses sits at a constant address (a write through
 * &var->cnsts_.d[n] with var and n symbolic is a byte-update at a symbolic offset: cbmc spends > 20 min converting it).
 * XCASE 0: var disabled (no counter moves); 1: var enabled, new element; 2: var enabled, element reused.
 * The contract is the same for all; the cases cover XV in {0,1} x XN in {0,1,2} x every path.                       */
#ifdef H_expand
#ifndef XCASE
#error "H_expand needs -DXCASE= (and optionally -DXV= -DXN=)"
#endif
void harness(void)
{
  setup();
  struct Constraint* c = pick_cnst();
#define VX_(x) V(x)
#ifdef XV
  struct Variable* v = &VX_(XV);
#else
  struct Variable* v = pick_var();
#endif
#ifdef XN
  v->cnsts_.n = XN;
#endif
  g_slot               = nondet_size();
#if XCASE == 0
  g_reuse = nondet_bool();
  __CPROVER_assume(!(v->sharing_penalty_ > 0.0));
#elif XCASE == 1
  g_reuse = 0;
  __CPROVER_assume(v->sharing_penalty_ > 0.0);
#else
  g_reuse = 1;
  __CPROVER_assume(v->sharing_penalty_ > 0.0);
#endif
  System__expand(&g_sys, c, v, nondet_double(), nondet_bool());
  VF_CANARY_POINT;
}
#endif
