/* C18 — Concurrency limits are enforced without starvation (src/kernel/lmm/System.cpp, System.hpp).
 *
 * Abstract view, written from the property statement:
 *   COUNT(c)  = number of elements (v,k) that use constraint c, belong to an ENABLED variable (sharing_penalty_ > 0)
 *               and count towards the limit (Element::get_concurrency() == 1)
 *   INV1(c)   : c.concurrency_current_ == COUNT(c)  and  (c.concurrency_limit_ < 0  or  COUNT(c) <= c.concurrency_limit_)
 *   INV2(v)   : v.staged_sharing_penalty_ > 0  ==>  v is disabled and uses at least one constraint with slack 0
 *               ("no staged activity waits while all its resources have room")
 * The state is a system of NC constraints, NV variables with at most NE elements each, built by the harness; the
 * boost::intrusive lists are the cxx2c array model (capacity VF_ICAP >= NV*NE).                                     */
#include "gen.h"

#define NC 2
#define NV 2
#define NE 2
#if VF_ICAP < NV * NE
#error "VF_ICAP must hold every element"
#endif

struct System g_sys;
struct Constraint g_c[NC];
struct Variable g_v[NV];
struct Element g_e[NV][NE];

/* ---------- quantifiers over the (small, fixed) universe, written out --------------------------------------- */
#define ALLC(P) (P(0) && P(1))
#define ALLV(P) (P(0) && P(1))
#define ANYV(P) (P(0) || P(1))
#define ALLE(P) (P(0, 0) && P(0, 1) && P(1, 0) && P(1, 1))
#define ALLE1(P, a) (P(a, 0, 0) && P(a, 0, 1) && P(a, 1, 0) && P(a, 1, 1))
#define ANYE1(P, a) (P(a, 0, 0) || P(a, 0, 1) || P(a, 1, 0) || P(a, 1, 1))
#define SUME1(F, a) (F(a, 0, 0) + F(a, 0, 1) + F(a, 1, 0) + F(a, 1, 1))
#define ALLK1(P, a) (P(a, 0) && P(a, 1) && P(a, 2) && P(a, 3))             /* list positions 0..VF_ICAP-1 */
#define ANYK2(P, a, b) (P(a, b, 0) || P(a, b, 1) || P(a, b, 2) || P(a, b, 3))
#define ALLKPAIRS1(P, a) (P(a, 0, 1) && P(a, 0, 2) && P(a, 0, 3) && P(a, 1, 2) && P(a, 1, 3) && P(a, 2, 3))
#define ALLSLOT1(P, a) (P(a, 0) && P(a, 1))                                  /* element slots of one variable */
#define ANYSLOT1(P, a) (P(a, 0) || P(a, 1))
#if VF_ICAP != 4
#error "the written-out quantifiers are for VF_ICAP == 4"
#endif

#define IS_C(p) ((p) == &g_c[0] || (p) == &g_c[1])
#define IS_V(p) ((p) == &g_v[0] || (p) == &g_v[1])
#define IS_E(p) ((p) == &g_e[0][0] || (p) == &g_e[0][1] || (p) == &g_e[1][0] || (p) == &g_e[1][1])

/* ---------- abstract view ------------------------------------------------------------------------------------ */
#define E(v, k) (g_e[v][k])
#define LIVE(v, k) ((size_t)(k) < g_v[v].cnsts_.n)
#define ENA(v) (g_v[v].sharing_penalty_ > 0.0)
#define CONC_OF(e) ((((e).constraint->sharing_policy_ == SharingPolicy__WIFI) || (e).consumption_weight >= 1.0) ? 1 : 0)
#define USES(ci, v, k) (LIVE(v, k) && E(v, k).constraint == &g_c[ci])
#define CNT1(ci, v, k) ((USES(ci, v, k) && ENA(v)) ? CONC_OF(E(v, k)) : 0)
#define COUNT(ci) SUME1(CNT1, ci)
#define SLACK(c) ((c)->concurrency_limit_ < 0 ? INT_MAX : (c)->concurrency_limit_ - (c)->concurrency_current_)

/* ---------- representation invariant ------------------------------------------------------------------------- */
#define EL(ci) (g_c[ci].enabled_element_set_)
#define DL(ci) (g_c[ci].disabled_element_set_)
#define PTR_USES(p, ci, v, k) ((p) == &E(v, k) && USES(ci, v, k))
/* position k of the enabled/disabled list of constraint ci holds a live element that uses ci and is linked there */
#define EL_POS_OK(ci, k)                                                                                               \
  (!((size_t)(k) < EL(ci).n) ||                                                                                        \
   ((PTR_USES(EL(ci).d[k], ci, 0, 0) || PTR_USES(EL(ci).d[k], ci, 0, 1) || PTR_USES(EL(ci).d[k], ci, 1, 0) ||          \
     PTR_USES(EL(ci).d[k], ci, 1, 1)) &&                                                                               \
    EL(ci).d[k]->enabled_element_set_hook.linked))
#define DL_POS_OK(ci, k)                                                                                               \
  (!((size_t)(k) < DL(ci).n) ||                                                                                        \
   ((PTR_USES(DL(ci).d[k], ci, 0, 0) || PTR_USES(DL(ci).d[k], ci, 0, 1) || PTR_USES(DL(ci).d[k], ci, 1, 0) ||          \
     PTR_USES(DL(ci).d[k], ci, 1, 1)) &&                                                                               \
    DL(ci).d[k]->disabled_element_set_hook.linked))
#define EL_DISTINCT(ci, i, j) (!((size_t)(j) < EL(ci).n) || EL(ci).d[i] != EL(ci).d[j])
#define DL_DISTINCT(ci, i, j) (!((size_t)(j) < DL(ci).n) || DL(ci).d[i] != DL(ci).d[j])
#define EL_AT(ci, p, k) ((size_t)(k) < EL(ci).n && EL(ci).d[k] == (p))
#define DL_AT(ci, p, k) ((size_t)(k) < DL(ci).n && DL(ci).d[k] == (p))
#define EL_MEM(ci, p) ANYK2(EL_AT, ci, p)
#define DL_MEM(ci, p) ANYK2(DL_AT, ci, p)
/* every linked element that uses ci is in the corresponding list of ci */
#define EL_COMPLETE(ci, v, k) (!(USES(ci, v, k) && E(v, k).enabled_element_set_hook.linked) || EL_MEM(ci, &E(v, k)))
#define DL_COMPLETE(ci, v, k) (!(USES(ci, v, k) && E(v, k).disabled_element_set_hook.linked) || DL_MEM(ci, &E(v, k)))

#define WF_LISTS(ci)                                                                                                   \
  (EL(ci).n <= VF_ICAP && DL(ci).n <= VF_ICAP && g_c[ci].active_element_set_.n == 0 && ALLK1(EL_POS_OK, ci) &&         \
   ALLK1(DL_POS_OK, ci) && ALLKPAIRS1(EL_DISTINCT, ci) && ALLKPAIRS1(DL_DISTINCT, ci) && ALLE1(EL_COMPLETE, ci) &&     \
   ALLE1(DL_COMPLETE, ci))

/* a live element belongs to its variable, uses a constraint of the system, and sits in the enabled set iff its
 * variable is enabled, else in the disabled set (solver state "active" is not modelled: never linked)            */
#define WF_ELEM(v, k)                                                                                                  \
  (!LIVE(v, k) || (E(v, k).variable == &g_v[v] && IS_C(E(v, k).constraint) &&                                          \
                   E(v, k).enabled_element_set_hook.linked == ENA(v) &&                                                \
                   E(v, k).disabled_element_set_hook.linked == !ENA(v) && !E(v, k).active_element_set_hook.linked))
/* assumption (stated in check.json): a variable uses a constraint through at most one element */
#define WF_VAR(v)                                                                                                      \
  (g_v[v].cnsts_.d == g_e[v] && g_v[v].cnsts_.h == 0 && g_v[v].cnsts_.n <= NE && g_v[v].cnsts_.cap == NE &&            \
   g_v[v].sharing_penalty_ >= 0.0 && g_v[v].staged_sharing_penalty_ >= 0.0 && g_v[v].variable_set_hook_.linked &&      \
   (g_v[v].cnsts_.n < 2 || E(v, 0).constraint != E(v, 1).constraint))
#define WF_VARSET                                                                                                      \
  (g_sys.variable_set.n == NV && IS_V(g_sys.variable_set.d[0]) && IS_V(g_sys.variable_set.d[1]) &&                     \
   g_sys.variable_set.d[0] != g_sys.variable_set.d[1])
#define WF_STRUCT (WF_VARSET && ALLV(WF_VAR) && ALLE(WF_ELEM) && ALLC(WF_LISTS))

/* the two halves of the property */
#define C_RANGE(ci)                                                                                                    \
  (g_c[ci].concurrency_current_ >= 0 && g_c[ci].concurrency_current_ <= NV * NE &&                                     \
   (g_c[ci].concurrency_limit_ < 0 || g_c[ci].concurrency_current_ <= g_c[ci].concurrency_limit_))
#define INV1(ci) (g_c[ci].concurrency_current_ == COUNT(ci) && C_RANGE(ci))
#define FULL_AT(v, k) (LIVE(v, k) && SLACK(E(v, k).constraint) == 0)
#define INV2(v) (!(g_v[v].staged_sharing_penalty_ > 0.0) || (g_v[v].sharing_penalty_ == 0.0 && ANYSLOT1(FULL_AT, v)))

/* ---------- leaf functions ----------------------------------------------------------------------------------- */
int Element__get_concurrency(struct Element* self)
    __CPROVER_requires(IS_E(self) && IS_C(self->constraint))
    __CPROVER_assigns()
    __CPROVER_ensures(__CPROVER_return_value == CONC_OF(*self)) /*@ counts_one_iff_wifi_or_weight_at_least_one */;

int Constraint__get_concurrency_slack(struct Constraint* self)
    __CPROVER_requires(IS_C(self) && (self->concurrency_limit_ < 0 || self->concurrency_current_ >= 0))
    __CPROVER_assigns()
    __CPROVER_ensures(__CPROVER_return_value == SLACK(self)) /*@ slack_is_free_slots_or_intmax_when_unlimited */;

void Element__decrease_concurrency(struct Element* self)
    __CPROVER_requires(IS_E(self) && IS_C(self->constraint) && vf_exc == 0)
    __CPROVER_assigns(vf_exc, self->constraint->concurrency_current_)
    __CPROVER_ensures((vf_exc == VF_EXC_ABORT) == (__CPROVER_old(self->constraint->concurrency_current_) < CONC_OF(*self)))
    /*@ decrease_rejects_underflow */
    __CPROVER_ensures(vf_exc == 0 || vf_exc == VF_EXC_ABORT)
    __CPROVER_ensures(self->constraint->concurrency_current_ ==
                      __CPROVER_old(self->constraint->concurrency_current_) - (vf_exc ? 0 : CONC_OF(*self)))
    /*@ decrease_subtracts_own_count */;

void Element__increase_concurrency(struct Element* self, _Bool check_limit)
    __CPROVER_requires(IS_E(self) && IS_C(self->constraint) && vf_exc == 0 &&
                       self->constraint->concurrency_current_ < 1000000)
    __CPROVER_assigns(vf_exc, self->constraint->concurrency_current_, self->constraint->concurrency_maximum_)
    __CPROVER_ensures(self->constraint->concurrency_current_ ==
                      __CPROVER_old(self->constraint->concurrency_current_) + CONC_OF(*self))
    /*@ increase_adds_own_count */
    __CPROVER_ensures(self->constraint->concurrency_maximum_ ==
                      (__CPROVER_old(self->constraint->concurrency_maximum_) < self->constraint->concurrency_current_
                           ? self->constraint->concurrency_current_
                           : __CPROVER_old(self->constraint->concurrency_maximum_))) /*@ increase_tracks_maximum */
    __CPROVER_ensures((vf_exc == VF_EXC_ABORT) ==
                      (check_limit && self->constraint->concurrency_limit_ >= 0 &&
                       self->constraint->concurrency_current_ > self->constraint->concurrency_limit_))
    /*@ increase_checked_never_passes_limit */
    __CPROVER_ensures(vf_exc == 0 || vf_exc == VF_EXC_ABORT);

/* slack of the constraint used by slot k of variable *self */
#define VSLACK(self, k) SLACK((self)->cnsts_.d[k].constraint)
#define V_SLOT_LE(self, k) (!((size_t)(k) < (self)->cnsts_.n) || __CPROVER_return_value <= VSLACK(self, k))
#define V_SLOT_EQ(self, k) ((size_t)(k) < (self)->cnsts_.n && __CPROVER_return_value == VSLACK(self, k))
#define V_SLOT_POS(self, k) (!((size_t)(k) < (self)->cnsts_.n) || VSLACK(self, k) > 0)

int Variable__get_min_concurrency_slack(struct Variable* self)
    __CPROVER_requires(IS_V(self) && ALLV(WF_VAR) && ALLE(WF_ELEM) && ALLC(C_RANGE) && vf_exc == 0)
    __CPROVER_assigns()
    __CPROVER_ensures(ALLSLOT1(V_SLOT_LE, self)) /*@ min_slack_is_a_lower_bound_of_every_used_constraint */
    __CPROVER_ensures(ANYSLOT1(V_SLOT_EQ, self) ||
                      (__CPROVER_return_value == INT_MAX)) /*@ min_slack_is_attained_or_intmax */
    __CPROVER_ensures(__CPROVER_return_value >= 0 && vf_exc == 0);

#define L_LE(k) (!((size_t)(k) < __i0) || minslack <= VSLACK(self, k))
#define L_EQ(k) ((size_t)(k) < __i0 && minslack == VSLACK(self, k))
#define VF_LOOP_Variable__get_min_concurrency_slack_0                                                                  \
  __CPROVER_assigns(__i0, minslack)                                                                                    \
      __CPROVER_loop_invariant(__i0 <= __r0->n && L_LE(0) && L_LE(1) && (minslack == INT_MAX || L_EQ(0) || L_EQ(1)) && \
                               minslack > 0) __CPROVER_decreases(__r0->n - __i0)

_Bool Variable__can_enable(struct Variable* self)
    __CPROVER_requires(IS_V(self) && ALLV(WF_VAR) && ALLE(WF_ELEM) && ALLC(C_RANGE) && vf_exc == 0)
    __CPROVER_assigns()
    __CPROVER_ensures(__CPROVER_return_value ==
                      (self->staged_sharing_penalty_ > 0.0 && ALLSLOT1(V_SLOT_POS, self)))
    /*@ can_enable_iff_staged_and_every_used_constraint_has_room */
    __CPROVER_ensures(vf_exc == 0);

/* ---------- assumed callees (outside C18) -------------------------------------------------------------------- */
/* selective-update bookkeeping (C17): touches only modified_constraint_set / visited_ stamps, none of which is part of
 * the C18 view */
int g_modset_updates;
void System__update_modified_cnst_set_from_variable(struct System* self, struct Variable* var)
    __CPROVER_requires(IS_V(var)) __CPROVER_assigns(g_modset_updates) __CPROVER_ensures(1);
/* debug-only consistency checker (returns at once unless the lmm log category is at debug level; then it aborts when
 * the very invariants proved here are broken) */
void System__check_concurrency(struct System* self)
    __CPROVER_requires(1) __CPROVER_assigns(vf_exc)
    __CPROVER_ensures(vf_exc == __CPROVER_old(vf_exc) || (vf_log_enabled && vf_exc == VF_EXC_ABORT));

/* ---------- mutators ------------------------------------------------------------------------------------------ */
#define C_FRAME(ci) g_c[ci].enabled_element_set_, g_c[ci].disabled_element_set_, g_c[ci].concurrency_current_, g_c[ci].concurrency_maximum_
#define ROW_OF(var) __CPROVER_object_upto((var)->cnsts_.d, NE * sizeof(struct Element))
#define SLOT_DATA_KEPT(var, k)                                                                                         \
  ((var)->cnsts_.d[k].constraint == __CPROVER_old((var)->cnsts_.d[k].constraint) &&                                    \
   (var)->cnsts_.d[k].variable == __CPROVER_old((var)->cnsts_.d[k].variable) &&                                        \
   (var)->cnsts_.d[k].consumption_weight == __CPROVER_old((var)->cnsts_.d[k].consumption_weight))
#define ELEM_DATA_KEPT(v, k)                                                                                           \
  (E(v, k).constraint == __CPROVER_old(E(v, k).constraint) && E(v, k).variable == __CPROVER_old(E(v, k).variable) &&   \
   E(v, k).consumption_weight == __CPROVER_old(E(v, k).consumption_weight))
#define WEIGHT_OK(v, k) (!LIVE(v, k) || E(v, k).consumption_weight == E(v, k).consumption_weight) /* not NaN */

/* enable_var: a staged variable whose constraints all have room becomes enabled with its staged penalty; every
 * counter stays exact and within its limit */
void System__enable_var(struct System* self, struct Variable* var)
    __CPROVER_requires(self == &g_sys && IS_V(var) && WF_STRUCT && ALLC(INV1) && vf_exc == 0)
    __CPROVER_requires(var->sharing_penalty_ == 0.0 && var->staged_sharing_penalty_ > 0.0 && ALLSLOT1(V_SLOT_POS, var))
    __CPROVER_assigns(vf_exc, g_modset_updates, var->sharing_penalty_, var->staged_sharing_penalty_, g_sys.variable_set,
                      ROW_OF(var), C_FRAME(0), C_FRAME(1))
    __CPROVER_ensures(vf_exc == 0)                                                 /*@ enable_never_overflows_a_limit */
    __CPROVER_ensures(var->sharing_penalty_ == __CPROVER_old(var->staged_sharing_penalty_) &&
                      var->staged_sharing_penalty_ == 0.0)                          /*@ enable_applies_staged_penalty */
    __CPROVER_ensures(SLOT_DATA_KEPT(var, 0) && SLOT_DATA_KEPT(var, 1))
    __CPROVER_ensures(WF_STRUCT)                                                    /*@ enable_keeps_structure */
    __CPROVER_ensures(ALLC(INV1))                                                   /*@ enable_keeps_counters_exact_and_within_limits */;

#include "gen.c"

/* ---------- harnesses ---------------------------------------------------------------------------------------- */
size_t nondet_size(void);
int nondet_int(void);
_Bool nondet_bool(void);
double nondet_double(void);

static void setup(void)
{
  struct System s;
  g_sys = s;
  for (int i = 0; i < NC; i++) {
    struct Constraint c;
    g_c[i] = c;
  }
  for (int v = 0; v < NV; v++) {
    struct Variable x;
    g_v[v]           = x;
    g_v[v].cnsts_.d  = g_e[v];
    for (int k = 0; k < NE; k++) {
      struct Element e;
      g_e[v][k] = e;
    }
  }
  vf_exc         = 0;
  vf_log_enabled = nondet_bool();
}
static struct Element* pick_elem(void)
{
  size_t v = nondet_size(), k = nondet_size();
  __CPROVER_assume(v < NV && k < NE);
  return &g_e[v][k];
}
static struct Variable* pick_var(void)
{
  size_t v = nondet_size();
  __CPROVER_assume(v < NV);
  return &g_v[v];
}
static struct Constraint* pick_cnst(void)
{
  size_t c = nondet_size();
  __CPROVER_assume(c < NC);
  return &g_c[c];
}

#ifdef H_get_concurrency
void harness(void)
{
  setup();
  Element__get_concurrency(pick_elem());
  VF_CANARY_POINT;
}
#endif
#ifdef H_get_concurrency_slack
void harness(void)
{
  setup();
  Constraint__get_concurrency_slack(pick_cnst());
  VF_CANARY_POINT;
}
#endif
#ifdef H_decrease_concurrency
void harness(void)
{
  setup();
  Element__decrease_concurrency(pick_elem());
  VF_CANARY_POINT;
}
#endif
#ifdef H_increase_concurrency
void harness(void)
{
  setup();
  Element__increase_concurrency(pick_elem(), nondet_bool());
  VF_CANARY_POINT;
}
#endif
#ifdef H_get_min_concurrency_slack
void harness(void)
{
  setup();
  Variable__get_min_concurrency_slack(pick_var());
  VF_CANARY_POINT;
}
#endif
#ifdef H_can_enable
void harness(void)
{
  setup();
  Variable__can_enable(pick_var());
  VF_CANARY_POINT;
}
#endif
#ifdef H_enable_var
void harness(void)
{
  setup();
  System__enable_var(&g_sys, pick_var());
  VF_CANARY_POINT;
}
#endif
