/* C48 — Configuration flags parse and validate values (src/xbt/config.cpp).
 * Property: setting an item stores exactly the parsed value of the item's type, rejects unparsable values, and runs
 * the item's validation callback. Units: parse_long, parse_double, parse_bool, ConfigType<int|double|bool>::parse,
 * TypedConfigurationElement<int|double|bool>::set_string_value / set_value / update, ConfigurationElement::unset_default.
 * The C library conversions are assumed callees with the C standard's contract, driven by ghost ORACLES that the
 * harness chooses arbitrarily before the call: what strtol/strtod return, where they stop, and which errno they set. */
#include "gen.h"

#define VLEN 8 /* the value string: at most VLEN-1 characters */
char g_val[VLEN];
size_t g_len;        /* ghost: strlen(g_val) */
int g_errno;         /* errno */
long g_ret_long;     /* oracle: result of strtol */
double g_ret_double; /* oracle: result of strtod */
size_t g_endoff;     /* oracle: conversion stops at g_val + g_endoff */
int g_errno_after;   /* oracle: errno left by the conversion: 0 (untouched) or ERANGE */
#define VF_ERANGE 34

struct TypedConfigurationElement_int g_int;
struct TypedConfigurationElement_double g_dbl;
struct TypedConfigurationElement_bool g_bool;
/* ghost observers of the validation callback */
int g_cb_calls;
_Bool g_cb_default_seen; /* isdefault of the element when the callback ran */
int g_cb_seen_int;
double g_cb_seen_dbl;
_Bool g_cb_seen_bool;

#define NOT_NUL_BEFORE(k) (!((k) < g_len) || g_val[k] != 0)
#define STR_OK                                                                                                         \
  (g_len < VLEN && g_val[g_len] == 0 && NOT_NUL_BEFORE(0) && NOT_NUL_BEFORE(1) && NOT_NUL_BEFORE(2) &&                \
   NOT_NUL_BEFORE(3) && NOT_NUL_BEFORE(4) && NOT_NUL_BEFORE(5) && NOT_NUL_BEFORE(6))
#define ORACLE_OK (g_endoff <= g_len && (g_errno_after == 0 || g_errno_after == VF_ERANGE))

/* ---------------- assumed callees: C library --------------------------------------------------------------------- */
int* __errno_location(void) __CPROVER_requires(1) __CPROVER_assigns()
    __CPROVER_ensures(__CPROVER_return_value == &g_errno);

long strtol(const char* s, char** end, int base)
    __CPROVER_requires(s == g_val && STR_OK && ORACLE_OK && __CPROVER_w_ok(end, sizeof(*end)) && g_errno == 0)
    __CPROVER_assigns(*end, g_errno)
    /* pointer_in_range_dfcc gives the returned end pointer a proper points-to set (a merely equated havocked pointer
       cannot be dereferenced by CBMC); the equality then pins it to the oracle position */
    __CPROVER_ensures(__CPROVER_pointer_in_range_dfcc(&g_val[0], *end, &g_val[VLEN - 1]) && *end == g_val + g_endoff)
    __CPROVER_ensures(__CPROVER_return_value == g_ret_long && g_errno == g_errno_after);

double strtod(const char* s, char** end)
    __CPROVER_requires(s == g_val && STR_OK && ORACLE_OK && __CPROVER_w_ok(end, sizeof(*end)) && g_errno == 0)
    __CPROVER_assigns(*end, g_errno)
    __CPROVER_ensures((__CPROVER_return_value == g_ret_double ||
                       (__CPROVER_isnand(__CPROVER_return_value) && __CPROVER_isnand(g_ret_double))) &&
                      g_errno == g_errno_after)
    __CPROVER_ensures(__CPROVER_pointer_in_range_dfcc(&g_val[0], *end, &g_val[VLEN - 1]) && *end == g_val + g_endoff);

/* ---------------- spec functions, from the property statement ---------------------------------------------------- */
/* a numeric text is rejected iff the conversion overflowed, found no digits, or left trailing characters */
#define REJECTED_NUMBER (g_errno_after == VF_ERANGE || g_endoff == 0 || g_val[g_endoff] != 0)
#define REJECTED_INT (REJECTED_NUMBER || g_ret_long < INT_MIN || g_ret_long > INT_MAX)
/* case-insensitive equality of the value with a documented spelling */
#define LOW(c) (((c) >= 'A' && (c) <= 'Z') ? (char)((c) - 'A' + 'a') : (c))
#define IS1(a) (g_len == 1 && LOW(g_val[0]) == (a))
#define IS2(a, b) (g_len == 2 && LOW(g_val[0]) == (a) && LOW(g_val[1]) == (b))
#define IS3(a, b, c) (g_len == 3 && LOW(g_val[0]) == (a) && LOW(g_val[1]) == (b) && LOW(g_val[2]) == (c))
#define IS4(a, b, c, d)                                                                                                \
  (g_len == 4 && LOW(g_val[0]) == (a) && LOW(g_val[1]) == (b) && LOW(g_val[2]) == (c) && LOW(g_val[3]) == (d))
#define IS5(a, b, c, d, e)                                                                                             \
  (g_len == 5 && LOW(g_val[0]) == (a) && LOW(g_val[1]) == (b) && LOW(g_val[2]) == (c) && LOW(g_val[3]) == (d) &&      \
   LOW(g_val[4]) == (e))
#define TRUE_WORD (IS3('y', 'e', 's') || IS2('o', 'n') || IS4('t', 'r', 'u', 'e') || IS1('1'))
#define FALSE_WORD (IS2('n', 'o') || IS3('o', 'f', 'f') || IS5('f', 'a', 'l', 's', 'e') || IS1('0'))
#define SAME_DBL(a, b) ((a) == (b) || (__CPROVER_isnand(a) && __CPROVER_isnand(b)))

#define EXC_IS_REJECT_OR_NONE (vf_exc == 0 || vf_exc == VF_EXC_range_error)

/* ---------------- contracts: parsers ------------------------------------------------------------------------------ */
long parse_long(char* value)
    __CPROVER_requires(value == g_val && STR_OK && ORACLE_OK && vf_exc == 0) __CPROVER_assigns(vf_exc, g_errno)
    __CPROVER_ensures((vf_exc == VF_EXC_range_error) == REJECTED_NUMBER) /*@ parse_long_rejects_iff_unparsable */
    __CPROVER_ensures(EXC_IS_REJECT_OR_NONE)                              /*@ parse_long_never_aborts */
    __CPROVER_ensures(vf_exc != 0 || __CPROVER_return_value == g_ret_long) /*@ parse_long_returns_converted_value */;

double parse_double(char* value)
    __CPROVER_requires(value == g_val && STR_OK && ORACLE_OK && vf_exc == 0) __CPROVER_assigns(vf_exc, g_errno)
    __CPROVER_ensures((vf_exc == VF_EXC_range_error) == REJECTED_NUMBER) /*@ parse_double_rejects_iff_unparsable */
    __CPROVER_ensures(EXC_IS_REJECT_OR_NONE)                              /*@ parse_double_never_aborts */
    __CPROVER_ensures(vf_exc != 0 || SAME_DBL(__CPROVER_return_value, g_ret_double))
    /*@ parse_double_returns_converted_value */;

_Bool parse_bool(char* value)
    __CPROVER_requires(value == g_val && STR_OK && vf_exc == 0) __CPROVER_assigns(vf_exc)
    __CPROVER_ensures((vf_exc == VF_EXC_range_error) == (!TRUE_WORD && !FALSE_WORD)) /*@ parse_bool_rejects_other_words */
    __CPROVER_ensures(EXC_IS_REJECT_OR_NONE)
    __CPROVER_ensures(vf_exc != 0 || __CPROVER_return_value == (TRUE_WORD ? 1 : 0)) /*@ parse_bool_true_and_false_words */;

int ConfigType_int__parse(char* value)
    __CPROVER_requires(value == g_val && STR_OK && ORACLE_OK && vf_exc == 0) __CPROVER_assigns(vf_exc, g_errno)
    __CPROVER_ensures((vf_exc == VF_EXC_range_error) == REJECTED_INT) /*@ int_rejects_unparsable_or_out_of_int_range */
    __CPROVER_ensures(EXC_IS_REJECT_OR_NONE)
    __CPROVER_ensures(vf_exc != 0 || (long)__CPROVER_return_value == g_ret_long) /*@ int_value_is_the_converted_value */;

double ConfigType_double__parse(char* value)
    __CPROVER_requires(value == g_val && STR_OK && ORACLE_OK && vf_exc == 0) __CPROVER_assigns(vf_exc, g_errno)
    __CPROVER_ensures((vf_exc == VF_EXC_range_error) == REJECTED_NUMBER) /*@ double_rejects_unparsable */
    __CPROVER_ensures(EXC_IS_REJECT_OR_NONE)
    __CPROVER_ensures(vf_exc != 0 || SAME_DBL(__CPROVER_return_value, g_ret_double)) /*@ double_value_is_converted_value */;

_Bool ConfigType_bool__parse(char* value)
    __CPROVER_requires(value == g_val && STR_OK && vf_exc == 0) __CPROVER_assigns(vf_exc)
    __CPROVER_ensures((vf_exc == VF_EXC_range_error) == (!TRUE_WORD && !FALSE_WORD)) /*@ bool_rejects_other_words */
    __CPROVER_ensures(EXC_IS_REJECT_OR_NONE)
    __CPROVER_ensures(vf_exc != 0 || __CPROVER_return_value == (TRUE_WORD ? 1 : 0)) /*@ bool_value_is_the_word */;

/* ---------------- contracts: configuration elements --------------------------------------------------------------- */
void ConfigurationElement__unset_default(struct ConfigurationElement* self)
    __CPROVER_requires(__CPROVER_w_ok(self, sizeof(*self))) __CPROVER_assigns(self->isdefault)
    __CPROVER_ensures(self->isdefault == 0) /*@ unset_default_clears_flag */;

/* the validation callbacks installed by the harnesses (assumption: a callback neither throws nor rewrites the value) */
void cb_int(void* env, int* content)
{
  g_cb_calls++;
  g_cb_seen_int     = *content;
  g_cb_default_seen = g_int.__b_ConfigurationElement.isdefault;
}
void cb_dbl(void* env, double* content)
{
  g_cb_calls++;
  g_cb_seen_dbl     = *content;
  g_cb_default_seen = g_dbl.__b_ConfigurationElement.isdefault;
}
void cb_bool(void* env, _Bool* content)
{
  g_cb_calls++;
  g_cb_seen_bool    = *content;
  g_cb_default_seen = g_bool.__b_ConfigurationElement.isdefault;
}

#define ELEMENT_CONTRACTS(T, CT, OBJ, CB, SEEN, SAME)                                                                  \
  void TypedConfigurationElement_##T##__update(struct TypedConfigurationElement_##T* self)                             \
      __CPROVER_requires(self == &OBJ && (OBJ.callback.fn == 0 || OBJ.callback.fn == (vf_fnptr)CB) && vf_exc == 0 &&    \
                         g_cb_calls < 1000) __CPROVER_assigns(g_cb_calls, g_cb_default_seen, SEEN)                     \
      __CPROVER_ensures(vf_exc == 0 && g_cb_calls == __CPROVER_old(g_cb_calls) + (OBJ.callback.fn != 0 ? 1 : 0))       \
      __CPROVER_ensures(OBJ.callback.fn == 0 ||                                                                        \
                        (SAME(SEEN, OBJ.content) && g_cb_default_seen == OBJ.__b_ConfigurationElement.isdefault));    \
                                                                                                                       \
  void TypedConfigurationElement_##T##__set_value(struct TypedConfigurationElement_##T* self, CT value)                \
      __CPROVER_requires(self == &OBJ && (OBJ.callback.fn == 0 || OBJ.callback.fn == (vf_fnptr)CB) && vf_exc == 0 &&    \
                         g_cb_calls == 0)                                                                              \
      __CPROVER_assigns(OBJ.content, OBJ.__b_ConfigurationElement.isdefault, g_cb_calls, g_cb_default_seen, SEEN)      \
      __CPROVER_ensures(vf_exc == 0 && SAME(OBJ.content, value) && !OBJ.__b_ConfigurationElement.isdefault)            \
      __CPROVER_ensures(g_cb_calls == (OBJ.callback.fn != 0 ? 1 : 0) && (OBJ.callback.fn == 0 || SAME(SEEN, value)))


#define SAME_EQ(a, b) ((a) == (b))
ELEMENT_CONTRACTS(int, int, g_int, cb_int, g_cb_seen_int, SAME_EQ); /*@ int_update_and_set_value */
ELEMENT_CONTRACTS(double, double, g_dbl, cb_dbl, g_cb_seen_dbl, SAME_DBL); /*@ double_update_and_set_value */
ELEMENT_CONTRACTS(bool, _Bool, g_bool, cb_bool, g_cb_seen_bool, SAME_EQ); /*@ bool_update_and_set_value */

/* set_string_value<int>: the top-level operation of the property for items of type int */
void TypedConfigurationElement_int__set_string_value(struct TypedConfigurationElement_int* self, char* value)
    __CPROVER_requires(self == &g_int && (g_int.callback.fn == 0 || g_int.callback.fn == (vf_fnptr)cb_int) && vf_exc == 0 &&
                       g_cb_calls == 0 && value == g_val && STR_OK && ORACLE_OK)
    __CPROVER_assigns(vf_exc, g_errno, g_int.content, g_int.__b_ConfigurationElement.isdefault, g_cb_calls, g_cb_default_seen, g_cb_seen_int)
    __CPROVER_ensures((vf_exc == VF_EXC_range_error) == (REJECTED_INT)) /*@ int_item_rejects_exactly_unparsable_values */
    __CPROVER_ensures(EXC_IS_REJECT_OR_NONE)                     /*@ int_item_never_aborts */
    __CPROVER_ensures(vf_exc != 0 || SAME_EQ(g_int.content, (int)g_ret_long)) /*@ int_item_stores_exactly_the_parsed_value */
    __CPROVER_ensures(vf_exc != 0 || !g_int.__b_ConfigurationElement.isdefault) /*@ int_item_no_longer_default */
    __CPROVER_ensures(vf_exc != 0 || g_cb_calls == (g_int.callback.fn != 0 ? 1 : 0)) /*@ int_item_callback_runs_exactly_once */
    __CPROVER_ensures(vf_exc != 0 || g_int.callback.fn == 0 || (SAME_EQ(g_cb_seen_int, (int)g_ret_long) && g_cb_default_seen == 0))
    /*@ int_item_callback_sees_the_stored_value */
    __CPROVER_ensures(vf_exc == 0 || (SAME_EQ(g_int.content, __CPROVER_old(g_int.content)) && g_cb_calls == 0 &&
                                      g_int.__b_ConfigurationElement.isdefault == __CPROVER_old(g_int.__b_ConfigurationElement.isdefault))) /*@ int_item_rejected_value_changes_nothing */;

/* set_string_value<double>: the top-level operation of the property for items of type double */
void TypedConfigurationElement_double__set_string_value(struct TypedConfigurationElement_double* self, char* value)
    __CPROVER_requires(self == &g_dbl && (g_dbl.callback.fn == 0 || g_dbl.callback.fn == (vf_fnptr)cb_dbl) && vf_exc == 0 &&
                       g_cb_calls == 0 && value == g_val && STR_OK && ORACLE_OK)
    __CPROVER_assigns(vf_exc, g_errno, g_dbl.content, g_dbl.__b_ConfigurationElement.isdefault, g_cb_calls, g_cb_default_seen, g_cb_seen_dbl)
    __CPROVER_ensures((vf_exc == VF_EXC_range_error) == (REJECTED_NUMBER)) /*@ double_item_rejects_exactly_unparsable_values */
    __CPROVER_ensures(EXC_IS_REJECT_OR_NONE)                     /*@ double_item_never_aborts */
    __CPROVER_ensures(vf_exc != 0 || SAME_DBL(g_dbl.content, g_ret_double)) /*@ double_item_stores_exactly_the_parsed_value */
    __CPROVER_ensures(vf_exc != 0 || !g_dbl.__b_ConfigurationElement.isdefault) /*@ double_item_no_longer_default */
    __CPROVER_ensures(vf_exc != 0 || g_cb_calls == (g_dbl.callback.fn != 0 ? 1 : 0)) /*@ double_item_callback_runs_exactly_once */
    __CPROVER_ensures(vf_exc != 0 || g_dbl.callback.fn == 0 || (SAME_DBL(g_cb_seen_dbl, g_ret_double) && g_cb_default_seen == 0))
    /*@ double_item_callback_sees_the_stored_value */
    __CPROVER_ensures(vf_exc == 0 || (SAME_DBL(g_dbl.content, __CPROVER_old(g_dbl.content)) && g_cb_calls == 0 &&
                                      g_dbl.__b_ConfigurationElement.isdefault == __CPROVER_old(g_dbl.__b_ConfigurationElement.isdefault))) /*@ double_item_rejected_value_changes_nothing */;

/* set_string_value<bool>: the top-level operation of the property for items of type bool */
void TypedConfigurationElement_bool__set_string_value(struct TypedConfigurationElement_bool* self, char* value)
    __CPROVER_requires(self == &g_bool && (g_bool.callback.fn == 0 || g_bool.callback.fn == (vf_fnptr)cb_bool) && vf_exc == 0 &&
                       g_cb_calls == 0 && value == g_val && STR_OK && 1)
    __CPROVER_assigns(vf_exc, g_bool.content, g_bool.__b_ConfigurationElement.isdefault, g_cb_calls, g_cb_default_seen, g_cb_seen_bool)
    __CPROVER_ensures((vf_exc == VF_EXC_range_error) == (!TRUE_WORD && !FALSE_WORD)) /*@ bool_item_rejects_exactly_unparsable_values */
    __CPROVER_ensures(EXC_IS_REJECT_OR_NONE)                     /*@ bool_item_never_aborts */
    __CPROVER_ensures(vf_exc != 0 || SAME_EQ(g_bool.content, (TRUE_WORD ? 1 : 0))) /*@ bool_item_stores_exactly_the_parsed_value */
    __CPROVER_ensures(vf_exc != 0 || !g_bool.__b_ConfigurationElement.isdefault) /*@ bool_item_no_longer_default */
    __CPROVER_ensures(vf_exc != 0 || g_cb_calls == (g_bool.callback.fn != 0 ? 1 : 0)) /*@ bool_item_callback_runs_exactly_once */
    __CPROVER_ensures(vf_exc != 0 || g_bool.callback.fn == 0 || (SAME_EQ(g_cb_seen_bool, (TRUE_WORD ? 1 : 0)) && g_cb_default_seen == 0))
    /*@ bool_item_callback_sees_the_stored_value */
    __CPROVER_ensures(vf_exc == 0 || (SAME_EQ(g_bool.content, __CPROVER_old(g_bool.content)) && g_cb_calls == 0 &&
                                      g_bool.__b_ConfigurationElement.isdefault == __CPROVER_old(g_bool.__b_ConfigurationElement.isdefault))) /*@ bool_item_rejected_value_changes_nothing */;

#include "gen.c"

/* ---------------- harnesses -------------------------------------------------------------------------------------- */
char nondet_char(void);
size_t nondet_size(void);
long nondet_long(void);
int nondet_int(void);
double nondet_double(void);
_Bool nondet_bool(void);

static void setup(void)
{
  for (int k = 0; k < VLEN; k++)
    g_val[k] = nondet_char();
  g_len          = nondet_size();
  g_ret_long     = nondet_long();
  g_ret_double   = nondet_double();
  g_endoff       = nondet_size();
  g_errno_after  = nondet_int();
  g_errno        = 0;
  g_cb_calls     = 0;
  vf_exc         = 0;
  g_int.content  = nondet_int();
  g_dbl.content  = nondet_double();
  g_bool.content = nondet_bool();
  g_int.__b_ConfigurationElement.isdefault  = nondet_bool();
  g_dbl.__b_ConfigurationElement.isdefault  = nondet_bool();
  g_bool.__b_ConfigurationElement.isdefault = nondet_bool();
  g_int.callback.fn  = nondet_bool() ? (vf_fnptr)cb_int : (vf_fnptr)0;
  g_dbl.callback.fn  = nondet_bool() ? (vf_fnptr)cb_dbl : (vf_fnptr)0;
  g_bool.callback.fn = nondet_bool() ? (vf_fnptr)cb_bool : (vf_fnptr)0;
}

#define HARNESS(call)                                                                                                  \
  void harness(void)                                                                                                   \
  {                                                                                                                    \
    setup();                                                                                                           \
    call;                                                                                                              \
    VF_CANARY_POINT;                                                                                                   \
  }
#ifdef H_parse_long
HARNESS(parse_long(g_val))
#endif
#ifdef H_parse_double
HARNESS(parse_double(g_val))
#endif
#ifdef H_parse_bool
HARNESS(parse_bool(g_val))
#endif
#ifdef H_int_parse
HARNESS(ConfigType_int__parse(g_val))
#endif
#ifdef H_double_parse
HARNESS(ConfigType_double__parse(g_val))
#endif
#ifdef H_bool_parse
HARNESS(ConfigType_bool__parse(g_val))
#endif
#ifdef H_unset_default
HARNESS(ConfigurationElement__unset_default(&g_int.__b_ConfigurationElement))
#endif
#ifdef H_int_update
HARNESS(TypedConfigurationElement_int__update(&g_int))
#endif
#ifdef H_int_set_value
HARNESS(TypedConfigurationElement_int__set_value(&g_int, nondet_int()))
#endif
#ifdef H_int_set_string_value
HARNESS(TypedConfigurationElement_int__set_string_value(&g_int, g_val))
#endif
#ifdef H_double_update
HARNESS(TypedConfigurationElement_double__update(&g_dbl))
#endif
#ifdef H_double_set_value
HARNESS(TypedConfigurationElement_double__set_value(&g_dbl, nondet_double()))
#endif
#ifdef H_double_set_string_value
HARNESS(TypedConfigurationElement_double__set_string_value(&g_dbl, g_val))
#endif
#ifdef H_bool_update
HARNESS(TypedConfigurationElement_bool__update(&g_bool))
#endif
#ifdef H_bool_set_value
HARNESS(TypedConfigurationElement_bool__set_value(&g_bool, nondet_bool()))
#endif
#ifdef H_bool_set_string_value
HARNESS(TypedConfigurationElement_bool__set_string_value(&g_bool, g_val))
#endif
