/* C15 — Sharing solvers never exceed capacities: the arithmetic helpers of the max-min solver
 * (src/simgrid/math_utils.h, src/kernel/lmm/System.cpp Constraint::get_load).
 *
 * The solver keeps, per constraint, remaining_ (capacity left) and usage_ (weighted demand left) and updates both with
 * double_update(), tests them with double_positive() and compares bounds with double_equals(). What C15 needs of them:
 *   double_update   : the remaining capacity never becomes negative, never grows when a non-negative amount is
 *                     consumed, and anything below the precision is clamped to exactly 0 ("up to the configured precision")
 *   double_positive : "still has capacity" means strictly above the precision
 *   double_equals   : symmetric, reflexive on finite values, and implies |a-b| < precision
 *   get_load        : the observed load of a constraint: sum of weight*rate for SHARED, max for FATPIPE
 * All doubles are IEEE-754 bit-precise; NaN / infinities are excluded by the preconditions that say so.            */
#include "gen.h"

#define FINITE(x) (!__CPROVER_isnand(x) && !__CPROVER_isinfd(x))

void double_update(double* variable, double value, double precision)
    __CPROVER_requires(__CPROVER_is_fresh(variable, sizeof(double)) && FINITE(*variable) && FINITE(value) &&
                       !__CPROVER_isnand(precision))
    __CPROVER_assigns(*variable)
    __CPROVER_ensures(*variable == ((__CPROVER_old(*variable) - value < precision) ? 0.0 : __CPROVER_old(*variable) - value))
    /*@ subtracts_and_clamps_below_precision_to_zero */
    __CPROVER_ensures(!(precision >= 0.0) || *variable >= 0.0) /*@ never_negative */
    __CPROVER_ensures(*variable == 0.0 || *variable >= precision) /*@ zero_or_at_least_the_precision */
    __CPROVER_ensures(!(value >= 0.0 && __CPROVER_old(*variable) >= 0.0) || *variable <= __CPROVER_old(*variable))
    /*@ never_grows_when_consuming */
    __CPROVER_ensures(!__CPROVER_isnand(*variable));

int double_positive(double value, double precision)
    __CPROVER_requires(1)
    __CPROVER_assigns()
    __CPROVER_ensures(__CPROVER_return_value == (value > precision ? 1 : 0)) /*@ positive_iff_strictly_above_precision */
    __CPROVER_ensures(!(__CPROVER_return_value && precision >= 0.0) || value > 0.0) /*@ positive_implies_greater_than_zero */;

#define DIFF (value1 - value2)
int double_equals(double value1, double value2, double precision)
    __CPROVER_requires(1)
    __CPROVER_assigns()
    __CPROVER_ensures(__CPROVER_return_value == 0 || __CPROVER_return_value == 1)
    __CPROVER_ensures(!__CPROVER_return_value || (DIFF < precision && -precision < DIFF)) /*@ equal_means_closer_than_precision */
    __CPROVER_ensures(__CPROVER_return_value || !FINITE(value1) || !FINITE(value2) || __CPROVER_isnand(precision) ||
                      DIFF >= precision || DIFF <= -precision) /*@ different_means_at_least_precision_apart */
    __CPROVER_ensures(!(value1 == value2 && FINITE(value1) && precision > 0.0) || __CPROVER_return_value)
    /*@ identical_finite_values_are_equal */;

/* ---------- Constraint::get_load --------------------------------------------------------------------------------- */
#if VF_ICAP != 3
#error "the written-out quantifiers are for VF_ICAP == 3"
#endif
struct Constraint g_c;
struct Element g_e0, g_e1, g_e2;
struct Variable g_v0, g_v1, g_v2;
#define EL (g_c.enabled_element_set_)
/* position k of the enabled list holds element k (the order is the list order; which variable each element belongs to
 * is free) */
#define WF_LOAD (EL.n <= VF_ICAP && EL.d[0] == &g_e0 && EL.d[1] == &g_e1 && EL.d[2] == &g_e2)
#define W(k) (g_e##k.consumption_weight)
#define RATE(k) (g_e##k.variable->value_)
#define TERM(k) (W(k) * RATE(k))
#define COUNTS(k) ((size_t)(k) < EL.n && W(k) > 0.0)
#define NUM_OK(k) (FINITE(W(k)) && FINITE(RATE(k)) && RATE(k) >= 0.0)
#define LE_RES(k) (!COUNTS(k) || TERM(k) <= __CPROVER_return_value)
#define EQ_RES(k) (COUNTS(k) && TERM(k) == __CPROVER_return_value)
#define ADD(acc, k) (COUNTS(k) ? (acc) + TERM(k) : (acc))
double Constraint__get_load(struct Constraint* self)
    __CPROVER_requires(self == &g_c && WF_LOAD && NUM_OK(0) && NUM_OK(1) && NUM_OK(2))
    __CPROVER_assigns()
#ifdef C15_SUM_CLAUSE /* thorough tier only, on cvc5: "equals the same sum of products" is a floating-point equivalence that
                         SAT does not finish; cvc5 needs about 1 min on a quiet machine and was seen to stall under load */
    __CPROVER_ensures(self->sharing_policy_ == SharingPolicy__FATPIPE ||
                      __CPROVER_return_value == ADD(ADD(ADD(0.0, 0), 1), 2)) /*@ shared_load_is_the_sum_in_list_order */
#endif
    __CPROVER_ensures(self->sharing_policy_ != SharingPolicy__FATPIPE || (LE_RES(0) && LE_RES(1) && LE_RES(2)))
    /*@ fatpipe_load_dominates_every_consumer */
    __CPROVER_ensures(self->sharing_policy_ != SharingPolicy__FATPIPE || __CPROVER_return_value == 0.0 || EQ_RES(0) ||
                      EQ_RES(1) || EQ_RES(2)) /*@ fatpipe_load_is_attained_or_zero */
    __CPROVER_ensures(__CPROVER_return_value >= 0.0) /*@ load_is_never_negative */;

#include "gen.c"

_Bool nondet_bool(void);
double nondet_double(void);
struct Constraint nondet_Constraint(void);
struct Variable nondet_Variable(void);
struct Element nondet_Element(void);

#ifdef H_double_update
void harness(void)
{
  double v = nondet_double();
  double_update(&v, nondet_double(), nondet_double());
  VF_CANARY_POINT;
}
#endif
#ifdef H_double_positive
void harness(void)
{
  double_positive(nondet_double(), nondet_double());
  VF_CANARY_POINT;
}
#endif
#ifdef H_double_equals
void harness(void)
{
  double_equals(nondet_double(), nondet_double(), nondet_double());
  VF_CANARY_POINT;
}
#endif
/* lemmas over the BODY of double_equals (inlined): symmetry, and reflexivity on finite values for a positive precision */
#ifdef H_lemma_equals
void harness(void)
{
  double a = nondet_double(), b = nondet_double(), p = nondet_double();
  __CPROVER_assert(double_equals(a, b, p) == double_equals(b, a, p), "double_equals is symmetric");
  __CPROVER_assert(!(FINITE(a) && p > 0.0) || double_equals(a, a, p), "double_equals is reflexive on finite values");
  VF_CANARY_POINT;
}
#endif
#ifdef H_get_load
static struct Variable* pick_var(void)
{
  return nondet_bool() ? &g_v0 : (nondet_bool() ? &g_v1 : &g_v2);
}
void harness(void)
{
  g_c  = nondet_Constraint();
  g_e0 = nondet_Element();
  g_e1 = nondet_Element();
  g_e2 = nondet_Element();
  g_v0 = nondet_Variable();
  g_v1 = nondet_Variable();
  g_v2 = nondet_Variable();
  g_e0.variable = pick_var();
  g_e1.variable = pick_var();
  g_e2.variable = pick_var();
  g_c.enabled_element_set_.d[0] = &g_e0;
  g_c.enabled_element_set_.d[1] = &g_e1;
  g_c.enabled_element_set_.d[2] = &g_e2;
  Constraint__get_load(&g_c);
  VF_CANARY_POINT;
}
#endif
