/* Bounded check of the REAL MaxMin::maxmin_solve (src/kernel/lmm/maxmin.cpp, extracted whole with all its helpers) on
 * tiny systems. NOT RUN by any check (see check.json level_note): the propositional reduction did not finish. Kept for
 * whoever continues (units: units_maxmin_attempt.json; cbmc --unwind 4 --unwinding-assertions, -DMM_N0=.. -DMM_N1=..).
 *
 * System: 2 constraints c0,c1; 2 enabled variables v0,v1. v0 uses c0 and (if n0 == 2) c1; v1 uses c1 and (if n1 == 2) c0:
 * covers two independent resources, a shared bottleneck, a chain and the full 2x2 mesh. Every numeric input is chosen
 * nondeterministically from a small set (MM_WIDE: larger sets), policies SHARED / FATPIPE per constraint. The solver
 * state it must overwrite (value_, remaining_, usage_, dynamic_bound_) starts unconstrained. All loops (solver and list
 * models) are unwound with unwinding assertions: the result is BOUNDED by this universe, not a proof for all systems. */
#ifndef MAXMIN_BOUNDED_H
#define MAXMIN_BOUNDED_H

#define SharingPolicy__SHARED_ (1) /* enum class SharingPolicy { WIFI = 3, NONLINEAR = 2, SHARED = 1, FATPIPE = 0 } */

struct MaxMin g_mm;
struct Constraint g_c0, g_c1;
struct Variable g_v0, g_v1;
struct Element g_e0[2], g_e1[2];
struct ConstraintLight g_light[2];
int g_satbuf[VF_CAP];
struct vf_ilist_Constraint__modified_constraint_set_hook_ g_list;
size_t g_n0, g_n1;

_Bool nondet_bool(void);
double nondet_double(void);
struct Constraint nondet_Constraint(void);
struct Variable nondet_Variable(void);
struct Element nondet_Element(void);
struct MaxMin nondet_MaxMin(void);

static double pick_capacity(void)
{
#ifdef MM_WIDE
  return nondet_bool() ? (nondet_bool() ? 1.0 : 3.0) : (nondet_bool() ? 4.0 : 0.75);
#else
  return nondet_bool() ? 1.0 : 3.0;
#endif
}
static double pick_weight(void)
{
#ifdef MM_WIDE
  return nondet_bool() ? 1.0 : (nondet_bool() ? 2.0 : 0.5);
#else
  return nondet_bool() ? 1.0 : 2.0;
#endif
}
static double pick_penalty(void)
{
  return nondet_bool() ? 1.0 : 2.0;
}
static double pick_bound(void) /* -1: no bound */
{
#ifdef MM_WIDE
  return nondet_bool() ? -1.0 : (nondet_bool() ? 0.25 : 1.0);
#else
  return nondet_bool() ? -1.0 : 0.25;
#endif
}

static void mm_cnst(struct Constraint* c)
{
  *c                               = nondet_Constraint();
  c->bound_                        = pick_capacity();
  c->sharing_policy_               = nondet_bool() ? SharingPolicy__SHARED_ : SharingPolicy__FATPIPE;
  c->dyn_constraint_cb_.fn         = 0;
  c->dyn_constraint_cb_.env        = 0;
  c->cnst_light_                   = 0;
  c->enabled_element_set_.n        = 0;
  c->active_element_set_.n         = 0;
  c->modified_constraint_set_hook_.linked = 1;
  for (int k = 0; k < VF_ICAP; k++) {
    c->enabled_element_set_.d[k] = 0;
    c->active_element_set_.d[k]  = 0;
  }
}
static void mm_elem(struct Element* e, struct Variable* v, struct Constraint* c, _Bool live)
{
  *e                              = nondet_Element();
  e->variable                     = v;
  e->constraint                   = c;
  e->consumption_weight           = pick_weight();
  e->active_element_set_hook.linked  = 0;
  e->enabled_element_set_hook.linked = live;
  if (live) {
    c->enabled_element_set_.d[c->enabled_element_set_.n] = e;
    c->enabled_element_set_.n++;
  }
}
static void mm_var(struct Variable* v, struct Element* row, size_t n)
{
  *v                                   = nondet_Variable();
  v->sharing_penalty_                  = pick_penalty();
  v->bound_                            = pick_bound();
  v->cnsts_.d                          = row;
  v->cnsts_.h                          = 0;
  v->cnsts_.n                          = n;
  v->cnsts_.cap                        = 2;
  v->saturated_variable_set_hook_.linked = 0;
}
static void mm_setup(void)
{
  sg_precision_workamount = 1e-5; /* default of precision/work-amount */
  vf_exc                  = 0;
#ifdef MM_N0 /* concrete topology (one harness per topology): list lengths are constants for the symbolic execution */
  g_n0 = MM_N0;
  g_n1 = MM_N1;
#else
  g_n0 = nondet_bool() ? 1 : 2;
  g_n1 = nondet_bool() ? 1 : 2;
#endif
  g_mm                    = nondet_MaxMin();
  g_mm.__b_System.saturated_variable_set.n = 0;
  for (int k = 0; k < VF_ICAP; k++)
    g_mm.__b_System.saturated_variable_set.d[k] = 0;
  g_mm.cnst_light_vec.d        = g_light;
  g_mm.cnst_light_vec.h        = 0;
  g_mm.cnst_light_vec.n        = 0;
  g_mm.cnst_light_vec.cap      = 2;
  g_mm.saturated_constraints.d   = g_satbuf;
  g_mm.saturated_constraints.h   = 0;
  g_mm.saturated_constraints.n   = 0;
  g_mm.saturated_constraints.cap = VF_CAP;
  mm_cnst(&g_c0);
  mm_cnst(&g_c1);
  mm_var(&g_v0, g_e0, g_n0);
  mm_var(&g_v1, g_e1, g_n1);
  mm_elem(&g_e0[0], &g_v0, &g_c0, 1);
  mm_elem(&g_e1[0], &g_v1, &g_c1, 1);
  mm_elem(&g_e0[1], &g_v0, &g_c1, g_n0 == 2);
  mm_elem(&g_e1[1], &g_v1, &g_c0, g_n1 == 2);
  /* the list of constraints to solve: both (full solve), in either order */
  g_list.n = 2;
  _Bool sw = nondet_bool();
  g_list.d[0] = sw ? &g_c1 : &g_c0;
  g_list.d[1] = sw ? &g_c0 : &g_c1;
  for (int k = 2; k < VF_ICAP; k++)
    g_list.d[k] = 0;
}

/* ---- the property clauses, written from the statements of C15 / C16 ------------------------------------------- */
#define MM_TOL 1e-3 /* "up to the configured precision" (1e-5 relative to capacities <= 4), generously */
/* consumption of v0 / v1 on c0 / c1 */
#define T00 (g_e0[0].consumption_weight * g_v0.value_)
#define T10 (g_n1 == 2 ? g_e1[1].consumption_weight * g_v1.value_ : 0.0)
#define T11 (g_e1[0].consumption_weight * g_v1.value_)
#define T01 (g_n0 == 2 ? g_e0[1].consumption_weight * g_v0.value_ : 0.0)
#define MAX2(a, b) ((a) < (b) ? (b) : (a))
#define LOAD0 (g_c0.sharing_policy_ == SharingPolicy__FATPIPE ? MAX2(T00, T10) : T00 + T10)
#define LOAD1 (g_c1.sharing_policy_ == SharingPolicy__FATPIPE ? MAX2(T11, T01) : T11 + T01)
#define CAPACITY_OK (LOAD0 <= g_c0.bound_ + MM_TOL && LOAD1 <= g_c1.bound_ + MM_TOL)
#define RATE_OK(v) ((v).value_ >= 0.0 && ((v).bound_ <= 0.0 || (v).value_ <= (v).bound_ + MM_TOL))
#define SATURATED0 (LOAD0 >= g_c0.bound_ - MM_TOL)
#define SATURATED1 (LOAD1 >= g_c1.bound_ - MM_TOL)
#define LEVEL(v) ((v).value_ * (v).sharing_penalty_)
#define BELOW_BOUND(v) ((v).bound_ <= 0.0 || (v).value_ < (v).bound_ - MM_TOL)
/* v0 is the (a) largest on c0 / on c1 among the variables that use it; same for v1 */
#define V0_TOP_ON_C0 (SATURATED0 && (g_n1 != 2 || LEVEL(g_v1) <= LEVEL(g_v0) + MM_TOL))
#define V0_TOP_ON_C1 (g_n0 == 2 && SATURATED1 && LEVEL(g_v1) <= LEVEL(g_v0) + MM_TOL)
#define V1_TOP_ON_C1 (SATURATED1 && (g_n0 != 2 || LEVEL(g_v0) <= LEVEL(g_v1) + MM_TOL))
#define V1_TOP_ON_C0 (g_n1 == 2 && SATURATED0 && LEVEL(g_v0) <= LEVEL(g_v1) + MM_TOL)
#define FAIR0 (!BELOW_BOUND(g_v0) || V0_TOP_ON_C0 || V0_TOP_ON_C1)
#define FAIR1 (!BELOW_BOUND(g_v1) || V1_TOP_ON_C1 || V1_TOP_ON_C0)

#endif
