// Native replay for C33: runs the REAL Topo_Cart::Dims_create / shift of the working tree (the TU is compiled into
// this driver) over the property's whole domain (nnodes <= 64, ndims <= 4, given entries in [-2,64]) and checks
// the same postconditions as specs/C33/spec.c. Exit 1 when a postcondition fails (the first failing input is printed).
#include "src/smpi/mpi/smpi_topo.cpp"
#include <cstdio>
#include <cstring>
using simgrid::smpi::Topo_Cart;

int main(int argc, char** argv)
{
  const char* label = argc > 1 ? argv[1] : "";
  long failures = 0, calls = 0;
  static const int cand[] = {-1, 0, 1, 2, 3, 4, 5, 6, 7, 8, 9, 10, 12, 16, 32, 64};
  const int nc = sizeof(cand) / sizeof(cand[0]);
  for (int nnodes = 1; nnodes <= 64; nnodes++)
    for (int ndims = 1; ndims <= 4; ndims++) {
      int total = 1;
      for (int i = 0; i < ndims; i++)
        total *= nc;
      for (int code = 0; code < total; code++) {
        int in[4], out[4], x = code;
        for (int i = 0; i < ndims; i++) {
          in[i] = out[i] = cand[x % nc];
          x /= nc;
        }
        int rc = Topo_Cart::Dims_create(nnodes, ndims, out);
        calls++;
        bool nonneg = true, anyfree = false;
        long given = 1, prod = 1;
        for (int i = 0; i < ndims; i++) {
          nonneg = nonneg && in[i] >= 0;
          anyfree = anyfree || in[i] == 0;
          if (in[i] != 0)
            given *= in[i];
          prod *= out[i];
        }
        bool feasible = nonneg && nnodes % given == 0 && (anyfree || given == nnodes);
        const char* bad = nullptr;
        if (rc == MPI_SUCCESS && prod != nnodes)
          bad = "dims_create_product_is_nnodes";
        else if ((rc == MPI_SUCCESS) != feasible)
          bad = "dims_create_succeeds_iff_feasible";
        else if (rc == MPI_SUCCESS)
          for (int i = 0; i < ndims; i++)
            if (in[i] != 0 && out[i] != in[i])
              bad = "dims_create_respects_given_entries";
        if (bad != nullptr && (label[0] == 0 || strstr(label, bad) != nullptr)) {
          if (failures == 0) {
            printf("REPRODUCED %s: Dims_create(nnodes=%d, ndims=%d, dims=[", bad, nnodes, ndims);
            for (int i = 0; i < ndims; i++)
              printf("%d%s", in[i], i + 1 < ndims ? "," : "");
            printf("]) returned %d with dims=[", rc);
            for (int i = 0; i < ndims; i++)
              printf("%d%s", out[i], i + 1 < ndims ? "," : "");
            printf("] (product %ld, feasible=%d)\n", prod, (int)feasible);
          }
          failures++;
        }
      }
    }
  printf("%ld calls, %ld failing inputs\n", calls, failures);
  return failures ? 1 : 0;
}
