/* C33 — Cartesian topologies follow MPI rules.
 * Units (src/smpi/mpi/smpi_topo.cpp, extracted by cxx2c): Topo_Cart::coords, rank, shift, Dims_create, getfactors,
 * assignnodes, Topo::getComm.
 * Domain = the property's: at most ND=4 dimensions, at most MAXN=64 nodes, every periodicity pattern, symbolic.
 * Spec functions are written from the MPI standard (row-major ranks: the LAST coordinate varies fastest):
 *     rank(c) = c0*d1*d2*d3 + c1*d2*d3 + c2*d3 + c3   wrapped(c_i) = c_i mod d_i  (mathematical, in [0,d_i))         */
#include "gen.h"

#define ND 4
#define MAXN 64
#define MPI_PROC_NULL_ (-666) /* include/smpi/smpi.h: #define MPI_PROC_NULL -666 */
#define OK_ ERROR_ENUM__MPI_SUCCESS

/* ---------------- state built by the harnesses ---------------- */
struct Topo_Cart g_t;
struct Comm g_comm;
int g_dims[ND], g_per[ND], g_pos[ND];
int g_myrank; /* rank of the calling process in the topology's communicator (answer of Comm::rank, assumed callee) */
int g_c[ND];  /* coordinate / dims argument of the call under check */
size_t gk, gj; /* ghost indices */

#define NDIMS (g_t.ndims_)
#define D(i) ((i) < NDIMS ? g_dims[i] : 1)
#define ALL4(P) (P(0) && P(1) && P(2) && P(3))
/* row-major rank of coordinates c (MPI: the last coordinate varies fastest): sum of c_i * stride_i, stride_i = prod_{j>i} d_j */
/* strides: P_k = prod_{j>=k} d_j;  R_k(c) = sum over the dimensions j >= k of stride_j * c_j, stride_j = P_{j+1} */
#define P4 1
#define P3 D(3)
#define P2 (D(3) * D(2))
#define P1 (D(3) * D(2) * D(1))
#define P0 (D(3) * D(2) * D(1) * D(0))
#define R3(c3) (c3)
#define R2(c2, c3) (R3(c3) + P3 * (c2))
#define R1(c1, c2, c3) (R2(c2, c3) + P2 * (c1))
#define R0(c0, c1, c2, c3) (R1(c1, c2, c3) + P1 * (c0))
#define HORNER(c0, c1, c2, c3) R0(c0, c1, c2, c3)
/* mathematical remainder in [0,m) for m > 0, from C's truncating % */
#define MOD(a, m) ((a) % (m) < 0 ? (a) % (m) + (m) : (a) % (m))

#define WF_SEQ(s, arr) ((s).d == (arr) && (s).h == 0 && (s).n == (size_t)NDIMS && (s).cap == ND)
#define WF_DIM(i) (!((i) < NDIMS) || (1 <= g_dims[i] && g_dims[i] <= MAXN))
#define WF_TOPO                                                                                                        \
  (0 <= NDIMS && NDIMS <= ND && WF_SEQ(g_t.dims_, g_dims) && WF_SEQ(g_t.periodic_, g_per) &&                          \
   WF_SEQ(g_t.position_, g_pos) && ALL4(WF_DIM) && D(0) * D(1) * D(2) * D(3) <= MAXN &&                                \
   g_t.nnodes_ == D(0) * D(1) * D(2) * D(3) && g_t.__b_Topo.comm_ == &g_comm)
/* link established by the constructor (not a unit, see check.json): position_ = coordinates of the caller's rank */
#define POS(i) ((i) < NDIMS ? g_pos[i] : 0)
#define WF_POS_AT(i) (!((i) < NDIMS) || (0 <= g_pos[i] && g_pos[i] < g_dims[i]))
#define WF_POS (0 <= g_myrank && g_myrank < g_t.nnodes_ && ALL4(WF_POS_AT) && HORNER(POS(0), POS(1), POS(2), POS(3)) == g_myrank)

/* ---------------- assumed callee ---------------- */
int Comm__rank(struct Comm* self) __CPROVER_requires(self == &g_comm) __CPROVER_assigns()
    __CPROVER_ensures(__CPROVER_return_value == g_myrank);

/* ---------------- units ---------------- */
struct Comm* Topo__getComm(struct Topo* self) __CPROVER_requires(__CPROVER_r_ok(self, sizeof(*self)))
    __CPROVER_assigns() __CPROVER_ensures(__CPROVER_return_value == self->comm_) /*@ getcomm_returns_comm */;

/* coords: the coordinates are in range and their row-major rank is the argument (this pins them uniquely) */
#define CO(i) ((i) < NDIMS ? coords[i] : 0)
#define CO_IN_RANGE(i) (!((i) < NDIMS) || (0 <= coords[i] && coords[i] < g_dims[i]))
int Topo_Cart__coords(struct Topo_Cart* self, int rank, int maxdims, int* coords)
    __CPROVER_requires(self == &g_t && WF_TOPO && 0 <= rank && rank < g_t.nnodes_)
    __CPROVER_requires(__CPROVER_rw_ok(coords, ND * sizeof(int)))
    __CPROVER_assigns(__CPROVER_object_upto(coords, ND * sizeof(int)))
    __CPROVER_ensures(__CPROVER_return_value == OK_ && vf_exc == 0)
    __CPROVER_ensures(ALL4(CO_IN_RANGE))                            /*@ coords_in_range */
    __CPROVER_ensures(HORNER(CO(0), CO(1), CO(2), CO(3)) == rank)   /*@ coords_inverts_row_major_rank */;

/* rank: MPI_SUCCESS iff every coordinate is in range or its dimension periodic; then the row-major rank of the wrapped
 * coordinates; otherwise MPI_ERR_ARG and -1 */
#define CO_ACCEPTABLE(i) (!((i) < NDIMS) || g_per[i] != 0 || (0 <= coords[i] && coords[i] < g_dims[i]))
#define CO_WRAPPED(i) ((i) < NDIMS ? MOD(coords[i], g_dims[i]) : 0)
int Topo_Cart__rank(struct Topo_Cart* self, int* coords, int* rank)
    __CPROVER_requires(self == &g_t && WF_TOPO && __CPROVER_r_ok(coords, ND * sizeof(int)) &&
                       __CPROVER_w_ok(rank, sizeof(int)) && !__CPROVER_same_object(coords, rank))
    __CPROVER_assigns(*rank)
    __CPROVER_ensures((__CPROVER_return_value == OK_) == ALL4(CO_ACCEPTABLE)) /*@ rank_rejects_exactly_off_grid_coords */
    __CPROVER_ensures(__CPROVER_return_value == OK_ || (__CPROVER_return_value == ERROR_ENUM__MPI_ERR_ARG && *rank == -1))
    /*@ rank_error_is_err_arg_and_minus_one */
    __CPROVER_ensures(!ALL4(CO_IN_RANGE) || *rank == HORNER(CO(0), CO(1), CO(2), CO(3)))
    /*@ rank_is_row_major_rank_of_on_grid_coords */
#ifdef C33_WRAPPED_VALUE
    /* UNDECIDED (not claimed): no back end (minisat, kissat, z3, cvc5, bitwuzla; unwound or with the loop invariant
     * below) decided this clause within 5 minutes: it needs facts about the 32-bit remainder circuit for 4 dimensions */
    __CPROVER_ensures(__CPROVER_return_value != OK_ ||
                      *rank == HORNER(CO_WRAPPED(0), CO_WRAPPED(1), CO_WRAPPED(2), CO_WRAPPED(3)))
    /*@ rank_is_row_major_rank_of_wrapped_coords */
#endif
    __CPROVER_ensures(vf_exc == 0);
/* loop 0 of rank (i = ndims-1 .. 0): the dimensions j > i are done: all acceptable, *rank is their partial sum */
#define ACC_AFTER(i)                                                                                                   \
  (((i) >= 0 || CO_ACCEPTABLE(0)) && ((i) >= 1 || CO_ACCEPTABLE(1)) && ((i) >= 2 || CO_ACCEPTABLE(2)) &&               \
   ((i) >= 3 || CO_ACCEPTABLE(3)))
#ifdef C33_WRAPPED_VALUE
#define VF_LOOP_Topo_Cart__rank_0                                                                                      \
  __CPROVER_assigns(i, multiplier, *rank)                                                                              \
  __CPROVER_loop_invariant(-1 <= i && i < ndims && ndims == NDIMS && ACC_AFTER(i) &&                                   \
                           ((i == 3 && multiplier == P4 && *rank == 0) ||                                              \
                            (i == 2 && multiplier == P3 && *rank == R3(CO_WRAPPED(3))) ||                              \
                            (i == 1 && multiplier == P2 && *rank == R2(CO_WRAPPED(2), CO_WRAPPED(3))) ||               \
                            (i == 0 && multiplier == P1 && *rank == R1(CO_WRAPPED(1), CO_WRAPPED(2), CO_WRAPPED(3))) || \
                            (i == -1 && multiplier == P0 &&                                                            \
                             *rank == R0(CO_WRAPPED(0), CO_WRAPPED(1), CO_WRAPPED(2), CO_WRAPPED(3)))))                \
  __CPROVER_decreases(i + 1)
#endif

/* shift: neighbours along `direction` at distance disp; MPI_PROC_NULL off a non-periodic edge; direction must be a
 * dimension of the topology (the binding PMPI_Cart_shift rejects direction < 0 before calling)                        */
#define TGT(sign) (POS(direction) + (sign) * disp)
#define INSIDE(sign) (0 <= TGT(sign) && TGT(sign) < g_dims[direction])
#define SH(i, sign) ((i) == direction ? TGT(sign) : POS(i))
#define NEIGHBOUR(sign) HORNER(SH(0, sign), SH(1, sign), SH(2, sign), SH(3, sign))
#define SHW(i, sign) ((i) == direction ? MOD(TGT(sign), g_dims[direction]) : POS(i))
#define NEIGHBOUR_WRAPPED(sign) HORNER(SHW(0, sign), SHW(1, sign), SHW(2, sign), SHW(3, sign))
int Topo_Cart__shift(struct Topo_Cart* self, int direction, int disp, int* rank_source, int* rank_dest)
    __CPROVER_requires(self == &g_t && WF_TOPO && WF_POS && vf_exc == 0 && direction >= 0)
    __CPROVER_requires(-1000000 <= disp && disp <= 1000000) /* excludes signed overflow of position + disp only */
    __CPROVER_requires(__CPROVER_is_fresh(rank_source, sizeof(int)) && __CPROVER_is_fresh(rank_dest, sizeof(int)))
    __CPROVER_assigns(*rank_source, *rank_dest)
    __CPROVER_ensures(vf_exc == 0)
    __CPROVER_ensures(NDIMS != 0 || __CPROVER_return_value == ERROR_ENUM__MPI_ERR_ARG) /*@ shift_zero_dim_topology_is_error */
    __CPROVER_ensures(NDIMS == 0 || ((__CPROVER_return_value == ERROR_ENUM__MPI_ERR_DIMS) == (direction >= NDIMS)))
    /*@ shift_rejects_direction_that_is_not_a_dimension */
    __CPROVER_ensures(NDIMS == 0 || direction >= NDIMS || __CPROVER_return_value == OK_)
    __CPROVER_ensures(__CPROVER_return_value != OK_ || direction >= NDIMS || INSIDE(-1) || g_per[direction] != 0 ||
                      *rank_source == MPI_PROC_NULL_) /*@ shift_source_proc_null_off_non_periodic_edge */
#ifdef C33_SHIFT_VALUES
    /* UNDECIDED (not claimed): these need "coordinates in range with the same row-major rank are equal" (shift takes
     * the destination from coords(my rank) and the source from position_), a nonlinear fact no back end decided within
     * 5 minutes; the wrapped variants also depend on the undecided clause of rank */
    __CPROVER_ensures(__CPROVER_return_value != OK_ || direction >= NDIMS || !INSIDE(1) || *rank_dest == NEIGHBOUR(1))
    /*@ shift_dest_is_neighbour_inside_grid */
    __CPROVER_ensures(__CPROVER_return_value != OK_ || direction >= NDIMS || !INSIDE(-1) || *rank_source == NEIGHBOUR(-1))
    /*@ shift_source_is_neighbour_inside_grid */
    __CPROVER_ensures(__CPROVER_return_value != OK_ || direction >= NDIMS || INSIDE(1) || g_per[direction] != 0 ||
                      *rank_dest == MPI_PROC_NULL_) /*@ shift_dest_proc_null_off_non_periodic_edge */
    __CPROVER_ensures(__CPROVER_return_value != OK_ || direction >= NDIMS || INSIDE(1) || g_per[direction] == 0 ||
                      *rank_dest == NEIGHBOUR_WRAPPED(1)) /*@ shift_dest_wraps_on_periodic_dimension */
    __CPROVER_ensures(__CPROVER_return_value != OK_ || direction >= NDIMS || INSIDE(-1) || g_per[direction] == 0 ||
                      *rank_source == NEIGHBOUR_WRAPPED(-1)) /*@ shift_source_wraps_on_periodic_dimension */
#endif
    ;

/* ---- Dims_create and its helpers ---- */
#define SEQ_OK(s) ((s)->h == 0 && (s)->cap == VF_CAP && (s)->n <= VF_CAP)
#define SEQ_FRESH(s) (__CPROVER_is_fresh((s), sizeof(*(s))) && __CPROVER_is_fresh((s)->d, VF_CAP * sizeof(int)) && SEQ_OK(s))
#define EL(s, k) ((k) < (s)->n ? (long)(s)->d[k] : 1L) /* products in 64 bits: at most 6 factors <= 64 */
#define PROD6(s) (EL(s, 0) * EL(s, 1) * EL(s, 2) * EL(s, 3) * EL(s, 4) * EL(s, 5))
#define PROD4(s) (EL(s, 0) * EL(s, 1) * EL(s, 2) * EL(s, 3))
#define FACT_OK(k) (!((k) < factors->n) || (2 <= factors->d[k] && factors->d[k] <= MAXN))
#define ALL6(P) (P(0) && P(1) && P(2) && P(3) && P(4) && P(5))

int getfactors(int num, struct vf_seq_int* factors)
    __CPROVER_requires(SEQ_FRESH(factors) && num <= MAXN && vf_exc == 0)
    __CPROVER_assigns(factors->n, __CPROVER_object_whole(factors->d))
    __CPROVER_ensures(__CPROVER_return_value == OK_ && vf_exc == 0 && SEQ_OK(factors))
    __CPROVER_ensures(num >= 2 || factors->n == 0)                               /*@ getfactors_nothing_below_two */
    __CPROVER_ensures(num < 2 || (factors->n <= 6 && ALL6(FACT_OK)))             /*@ getfactors_factors_at_least_two */
    __CPROVER_ensures(num < 2 || (factors->n <= 6 && ALL6(FACT_OK) && PROD6(factors) == num))
    /*@ getfactors_product_is_num */;

#define BIN_OK(k) (!((k) < dims->n) || (1 <= dims->d[k] && dims->d[k] <= MAXN))
#define BIN_ORDER(k) (!((k) + 1 < dims->n) || dims->d[k] >= dims->d[(k) + 1])
int assignnodes(int ndim, struct vf_seq_int* factors, struct vf_seq_int* dims)
    __CPROVER_requires(SEQ_FRESH(factors) && SEQ_FRESH(dims) && vf_exc == 0)
    __CPROVER_requires(ndim <= ND && factors->n <= 6 && ALL6(FACT_OK) && PROD6(factors) <= MAXN)
    __CPROVER_assigns(dims->n, __CPROVER_object_whole(dims->d))
    __CPROVER_ensures(vf_exc == 0 && SEQ_OK(dims))
    __CPROVER_ensures((__CPROVER_return_value == OK_) == (ndim > 0) &&
                      (__CPROVER_return_value == OK_ || __CPROVER_return_value == ERROR_ENUM__MPI_ERR_DIMS))
    /*@ assignnodes_needs_a_dimension */
    __CPROVER_ensures(ndim <= 0 || (dims->n == (size_t)ndim && ALL4(BIN_OK)))    /*@ assignnodes_bins_positive */
    __CPROVER_ensures(ndim <= 0 || (dims->n == (size_t)ndim && ALL4(BIN_OK) && PROD4(dims) == PROD6(factors)))
    /*@ assignnodes_product_preserved */
    __CPROVER_ensures(ndim <= 0 || ALL4(BIN_ORDER))                              /*@ assignnodes_non_increasing */;

/* Dims_create (MPI 7.5.2): on success the product is nnodes, given (non-zero) entries are untouched, free entries are
 * positive and in non-increasing order; it succeeds iff no entry is negative and nnodes is a multiple of the product
 * of the given entries (equal to it when nothing is free); on error dims is untouched.                              */
#define ODIM(i) __CPROVER_old(g_c[i])
#define NEWC(i) ((i) < ndims ? g_c[i] : 1)
#define NEWC_IN(i) (1 <= NEWC(i) && NEWC(i) <= MAXN)
#define GIVEN(i) ((i) < ndims && ODIM(i) != 0 ? ODIM(i) : 1)
#define GIVEN_PROD (GIVEN(0) * GIVEN(1) * GIVEN(2) * GIVEN(3))
#define NONNEG(i) (!((i) < ndims) || ODIM(i) >= 0)
#define ISFREE(i) ((i) < ndims && ODIM(i) == 0)
#define ANYFREE (ISFREE(0) || ISFREE(1) || ISFREE(2) || ISFREE(3))
#define DIM_DOMAIN(i) (-MAXN <= g_c[i] && g_c[i] <= MAXN)
int Topo_Cart__Dims_create(int nnodes, int ndims, int* dims) /* static member: no self */
    __CPROVER_requires(dims == g_c && 1 <= nnodes && nnodes <= MAXN && 1 <= ndims && ndims <= ND && ALL4(DIM_DOMAIN) &&
                       vf_exc == 0)
    __CPROVER_assigns(__CPROVER_object_whole(g_c))
    __CPROVER_ensures(vf_exc == 0)
    __CPROVER_ensures(__CPROVER_return_value != OK_ ||
                      (ALL4(NEWC_IN) && NEWC(0) * NEWC(1) * NEWC(2) * NEWC(3) == nnodes))
    /*@ dims_create_product_is_nnodes */
    __CPROVER_ensures(__CPROVER_return_value != OK_ || !(gk < (size_t)ndims) || ODIM(gk) == 0 || g_c[gk] == ODIM(gk))
    /*@ dims_create_respects_given_entries */
    __CPROVER_ensures(__CPROVER_return_value != OK_ || !(gk < (size_t)ndims) || ODIM(gk) != 0 || g_c[gk] >= 1)
    /*@ dims_create_free_entries_positive */
    __CPROVER_ensures(__CPROVER_return_value != OK_ || !(gk < gj && gj < (size_t)ndims) || ODIM(gk) != 0 || ODIM(gj) != 0 ||
                      g_c[gk] >= g_c[gj]) /*@ dims_create_free_entries_non_increasing */
    __CPROVER_ensures((__CPROVER_return_value == OK_) ==
                      (ALL4(NONNEG) && nnodes % GIVEN_PROD == 0 && (ANYFREE || GIVEN_PROD == nnodes)))
    /*@ dims_create_succeeds_iff_feasible */
    __CPROVER_ensures(__CPROVER_return_value == OK_ || !(gk < ND) || g_c[gk] == ODIM(gk))
    /*@ dims_create_error_leaves_dims */;

#include "gen.c"

/* ---------------- harnesses ---------------- */
int nondet_int(void);
size_t nondet_size(void);

static void setup(void)
{
  g_t.dims_.d = g_dims;
  g_t.periodic_.d = g_per;
  g_t.position_.d = g_pos;
  g_t.dims_.h = g_t.periodic_.h = g_t.position_.h = 0;
  g_t.dims_.cap = g_t.periodic_.cap = g_t.position_.cap = ND;
  g_t.__b_Topo.comm_ = &g_comm;
  vf_exc = 0;
  __CPROVER_assume(gk < ND && gj < ND);
}
static void set_ndims(int nd)
{
  g_t.ndims_ = nd;
  g_t.dims_.n = g_t.periodic_.n = g_t.position_.n = (size_t)nd;
}
static int any_ndims(void)
{
  int nd = nondet_int();
  __CPROVER_assume(0 <= nd && nd <= ND);
  return nd;
}
/* case split over the number of dimensions 0..ND (all cases, one call each): with a constant ndims the unwound loops
 * index the arrays at constant positions, which keeps the arithmetic obligations within reach of the SAT back end */
#define FOR_EACH_NDIMS(stmt)                                                                                           \
  {                                                                                                                    \
    int nd_ = nondet_int();                                                                                            \
    if (nd_ == 0) { set_ndims(0); stmt; }                                                                              \
    else if (nd_ == 1) { set_ndims(1); stmt; }                                                                         \
    else if (nd_ == 2) { set_ndims(2); stmt; }                                                                         \
    else if (nd_ == 3) { set_ndims(3); stmt; }                                                                         \
    else { set_ndims(4); stmt; }                                                                                       \
  }

#ifdef H_getcomm
void harness(void)
{
  setup();
  set_ndims(0);
  Topo__getComm(&g_t.__b_Topo);
  VF_CANARY_POINT;
}
#endif
#ifdef H_coords
void harness(void)
{
  setup();
  FOR_EACH_NDIMS(Topo_Cart__coords(&g_t, nondet_int(), nondet_int(), g_c));
  VF_CANARY_POINT;
}
#endif
#ifdef H_rank
void harness(void)
{
  setup();
  int r;
  FOR_EACH_NDIMS(Topo_Cart__rank(&g_t, g_c, &r));
  VF_CANARY_POINT;
}
#endif
#ifdef H_shift
void harness(void)
{
  setup();
  int *src, *dst;
  FOR_EACH_NDIMS(Topo_Cart__shift(&g_t, nondet_int(), nondet_int(), src, dst));
  VF_CANARY_POINT;
}
#endif
#ifdef H_getfactors
void harness(void)
{
  setup();
  set_ndims(0);
  struct vf_seq_int* f;
  getfactors(nondet_int(), f);
  VF_CANARY_POINT;
}
#endif
#ifdef H_assignnodes
void harness(void)
{
  setup();
  set_ndims(0);
  struct vf_seq_int *f, *d;
  assignnodes(nondet_int(), f, d);
  VF_CANARY_POINT;
}
#endif
#ifdef H_dims_create
void harness(void)
{
  setup();
  set_ndims(0);
  Topo_Cart__Dims_create(nondet_int(), nondet_int(), g_c);
  VF_CANARY_POINT;
}
#endif

/* ---- lemmas: Cart_rank and Cart_coords are inverse bijections (both calls through their contracts) ---- */
#ifdef H_lemma_rank_of_coords
static void lemma(void)
{
  __CPROVER_assume(WF_TOPO);
  int r = nondet_int(), r2;
  __CPROVER_assume(0 <= r && r < g_t.nnodes_);
  Topo_Cart__coords(&g_t, r, NDIMS, g_c);
  int rc = Topo_Cart__rank(&g_t, g_c, &r2);
  __CPROVER_assert(rc == OK_ && r2 == r, "lemma rank(coords(r)) == r");
}
void harness(void)
{
  setup();
  FOR_EACH_NDIMS(lemma());
  VF_CANARY_POINT;
}
#endif
#ifdef H_lemma_coords_of_rank
static void lemma(void)
{
  __CPROVER_assume(WF_TOPO);
  int c[ND], c2[ND], r;
  for (int i = 0; i < ND; i++) {
    c[i] = nondet_int();
    /* the property's domain: coordinates reachable by a displacement in [-2*dim, 2*dim] from a grid position */
    __CPROVER_assume(-2 * MAXN <= c[i] && c[i] <= 3 * MAXN);
  }
  int rc = Topo_Cart__rank(&g_t, c, &r);
  if (rc == OK_) {
    Topo_Cart__coords(&g_t, r, NDIMS, c2);
    __CPROVER_assert(!(gk < (size_t)NDIMS) || c2[gk] == MOD(c[gk], g_dims[gk]), "lemma coords(rank(c)) == c wrapped");
  }
}
void harness(void)
{
  setup();
  FOR_EACH_NDIMS(lemma());
  VF_CANARY_POINT;
}
#endif
