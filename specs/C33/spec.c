/* C33 — Cartesian topologies follow MPI rules.
 * Units (src/smpi/mpi/smpi_topo.cpp, extracted by cxx2c): Topo_Cart::coords, rank, shift, Dims_create, getfactors,
 * assignnodes, Topo::getComm.
 * Domain = the property's: at most ND=4 dimensions, at most MAXN=64 nodes, every periodicity pattern, symbolic.
 * Spec functions are written from the MPI standard (row-major ranks: the LAST coordinate varies fastest):
 *     rank(c) = ((c0*d1 + c1)*d2 + c2)*d3 + c3       wrapped(c_i) = c_i mod d_i  (mathematical, in [0,d_i))          */
#include "gen.h"

#define ND 4
#define MAXN 64
#define MPI_PROC_NULL_ (-666) /* include/smpi/smpi.h: #define MPI_PROC_NULL -666 */
#define OK_ ERROR_ENUM__MPI_SUCCESS

/* ---------------- state built by the harnesses ---------------- */
struct Topo_Cart g_t;
struct Comm g_comm;
int g_dims[ND], g_per[ND], g_pos[ND];
int g_myrank; /* rank of the calling process in the topology's communicator (answer of Comm::rank, assumed callee) */
int g_c[ND];  /* coordinate / dims argument of the call under check */
size_t gk, gj; /* ghost indices */

#define NDIMS (g_t.ndims_)
#define D(i) ((i) < NDIMS ? g_dims[i] : 1)
#define ALL4(P) (P(0) && P(1) && P(2) && P(3))
#define HORNER(c0, c1, c2, c3) (((((c0)) * D(1) + (c1)) * D(2) + (c2)) * D(3) + (c3))
#define MOD(a, m) ((((a) % (m)) + (m)) % (m)) /* mathematical remainder, m > 0 */

#define WF_SEQ(s, arr) ((s).d == (arr) && (s).h == 0 && (s).n == (size_t)NDIMS && (s).cap == ND)
#define WF_DIM(i) (!((i) < NDIMS) || (1 <= g_dims[i] && g_dims[i] <= MAXN))
#define WF_TOPO                                                                                                        \
  (0 <= NDIMS && NDIMS <= ND && WF_SEQ(g_t.dims_, g_dims) && WF_SEQ(g_t.periodic_, g_per) &&                          \
   WF_SEQ(g_t.position_, g_pos) && ALL4(WF_DIM) && D(0) * D(1) * D(2) * D(3) <= MAXN &&                                \
   g_t.nnodes_ == D(0) * D(1) * D(2) * D(3) && g_t.__b_Topo.comm_ == &g_comm)
/* link established by the constructor (not a unit, see check.json): position_ = coordinates of the caller's rank */
#define POS(i) ((i) < NDIMS ? g_pos[i] : 0)
#define WF_POS_AT(i) (!((i) < NDIMS) || (0 <= g_pos[i] && g_pos[i] < g_dims[i]))
#define WF_POS (0 <= g_myrank && g_myrank < g_t.nnodes_ && ALL4(WF_POS_AT) && HORNER(POS(0), POS(1), POS(2), POS(3)) == g_myrank)

/* ---------------- assumed callee ---------------- */
int Comm__rank(struct Comm* self) __CPROVER_requires(self == &g_comm) __CPROVER_assigns()
    __CPROVER_ensures(__CPROVER_return_value == g_myrank);

/* ---------------- units ---------------- */
struct Comm* Topo__getComm(struct Topo* self) __CPROVER_requires(__CPROVER_r_ok(self, sizeof(*self)))
    __CPROVER_assigns() __CPROVER_ensures(__CPROVER_return_value == self->comm_) /*@ getcomm_returns_comm */;

/* coords: the coordinates are in range and their row-major rank is the argument (this pins them uniquely) */
#define CO(i) ((i) < NDIMS ? coords[i] : 0)
#define CO_IN_RANGE(i) (!((i) < NDIMS) || (0 <= coords[i] && coords[i] < g_dims[i]))
int Topo_Cart__coords(struct Topo_Cart* self, int rank, int maxdims, int* coords)
    __CPROVER_requires(self == &g_t && WF_TOPO && 0 <= rank && rank < g_t.nnodes_)
    __CPROVER_requires(__CPROVER_rw_ok(coords, ND * sizeof(int)))
    __CPROVER_assigns(__CPROVER_object_upto(coords, ND * sizeof(int)))
    __CPROVER_ensures(__CPROVER_return_value == OK_ && vf_exc == 0)
    __CPROVER_ensures(ALL4(CO_IN_RANGE))                            /*@ coords_in_range */
    __CPROVER_ensures(HORNER(CO(0), CO(1), CO(2), CO(3)) == rank)   /*@ coords_inverts_row_major_rank */;

/* rank: MPI_SUCCESS iff every coordinate is in range or its dimension periodic; then the row-major rank of the wrapped
 * coordinates; otherwise MPI_ERR_ARG and -1 */
#define CO_ACCEPTABLE(i) (!((i) < NDIMS) || g_per[i] != 0 || (0 <= coords[i] && coords[i] < g_dims[i]))
#define CO_WRAPPED(i) ((i) < NDIMS ? MOD(coords[i], g_dims[i]) : 0)
int Topo_Cart__rank(struct Topo_Cart* self, int* coords, int* rank)
    __CPROVER_requires(self == &g_t && WF_TOPO && __CPROVER_r_ok(coords, ND * sizeof(int)) &&
                       __CPROVER_w_ok(rank, sizeof(int)) && !__CPROVER_same_object(coords, rank))
    __CPROVER_assigns(*rank)
    __CPROVER_ensures((__CPROVER_return_value == OK_) == ALL4(CO_ACCEPTABLE)) /*@ rank_rejects_exactly_off_grid_coords */
    __CPROVER_ensures(__CPROVER_return_value == OK_ || (__CPROVER_return_value == ERROR_ENUM__MPI_ERR_ARG && *rank == -1))
    /*@ rank_error_is_err_arg_and_minus_one */
    __CPROVER_ensures(__CPROVER_return_value != OK_ ||
                      *rank == HORNER(CO_WRAPPED(0), CO_WRAPPED(1), CO_WRAPPED(2), CO_WRAPPED(3)))
    /*@ rank_is_row_major_rank_of_wrapped_coords */
    __CPROVER_ensures(vf_exc == 0);

/* shift: neighbours along `direction` at distance disp; MPI_PROC_NULL off a non-periodic edge; direction must be a
 * dimension of the topology (the binding PMPI_Cart_shift rejects direction < 0 before calling)                        */
#define TGT(sign) (POS(direction) + (sign) * disp)
#define ON_GRID(sign) (g_per[direction] != 0 || (0 <= TGT(sign) && TGT(sign) < g_dims[direction]))
#define SH(i, sign) ((i) == direction ? MOD(TGT(sign), g_dims[direction]) : POS(i))
#define NEIGHBOUR(sign) HORNER(SH(0, sign), SH(1, sign), SH(2, sign), SH(3, sign))
int Topo_Cart__shift(struct Topo_Cart* self, int direction, int disp, int* rank_source, int* rank_dest)
    __CPROVER_requires(self == &g_t && WF_TOPO && WF_POS && vf_exc == 0 && direction >= 0)
    __CPROVER_requires(-1000000 <= disp && disp <= 1000000) /* excludes signed overflow of position + disp only */
    __CPROVER_requires(__CPROVER_is_fresh(rank_source, sizeof(int)) && __CPROVER_is_fresh(rank_dest, sizeof(int)))
    __CPROVER_assigns(*rank_source, *rank_dest)
    __CPROVER_ensures(vf_exc == 0)
    __CPROVER_ensures(NDIMS != 0 || __CPROVER_return_value == ERROR_ENUM__MPI_ERR_ARG) /*@ shift_zero_dim_topology_is_error */
    __CPROVER_ensures(NDIMS == 0 || ((__CPROVER_return_value == ERROR_ENUM__MPI_ERR_DIMS) == (direction >= NDIMS)))
    /*@ shift_rejects_direction_that_is_not_a_dimension */
    __CPROVER_ensures(NDIMS == 0 || direction >= NDIMS || __CPROVER_return_value == OK_)
    __CPROVER_ensures(__CPROVER_return_value != OK_ || direction >= NDIMS ||
                      *rank_dest == (ON_GRID(1) ? NEIGHBOUR(1) : MPI_PROC_NULL_)) /*@ shift_dest_is_mpi_neighbour */
    __CPROVER_ensures(__CPROVER_return_value != OK_ || direction >= NDIMS ||
                      *rank_source == (ON_GRID(-1) ? NEIGHBOUR(-1) : MPI_PROC_NULL_)) /*@ shift_source_is_mpi_neighbour */;

/* ---- Dims_create and its helpers ---- */
#define SEQ_OK(s) (__CPROVER_rw_ok((s), sizeof(*(s))) && (s)->h == 0 && (s)->cap == VF_CAP && (s)->n <= VF_CAP &&    \
                   __CPROVER_rw_ok((s)->d, VF_CAP * sizeof(int)))
#define EL(s, k) ((k) < (s)->n ? (s)->d[k] : 1)
#define PROD6(s) (EL(s, 0) * EL(s, 1) * EL(s, 2) * EL(s, 3) * EL(s, 4) * EL(s, 5))
#define PROD4(s) (EL(s, 0) * EL(s, 1) * EL(s, 2) * EL(s, 3))
#define FACT_OK(k) (!((k) < factors->n) || (2 <= factors->d[k] && factors->d[k] <= MAXN))
#define ALL6(P) (P(0) && P(1) && P(2) && P(3) && P(4) && P(5))

int getfactors(int num, struct vf_seq_int* factors)
    __CPROVER_requires(SEQ_OK(factors) && num <= MAXN && vf_exc == 0)
    __CPROVER_assigns(factors->n, __CPROVER_object_whole(factors->d))
    __CPROVER_ensures(__CPROVER_return_value == OK_ && vf_exc == 0 && SEQ_OK(factors))
    __CPROVER_ensures(num >= 2 || factors->n == 0)                               /*@ getfactors_nothing_below_two */
    __CPROVER_ensures(num < 2 || (factors->n <= 6 && ALL6(FACT_OK)))             /*@ getfactors_factors_at_least_two */
    __CPROVER_ensures(num < 2 || PROD6(factors) == num)                          /*@ getfactors_product_is_num */;

#define BIN_OK(k) (!((k) < dims->n) || dims->d[k] >= 1)
#define BIN_ORDER(k) (!((k) + 1 < dims->n) || dims->d[k] >= dims->d[(k) + 1])
int assignnodes(int ndim, struct vf_seq_int* factors, struct vf_seq_int* dims)
    __CPROVER_requires(SEQ_OK(factors) && SEQ_OK(dims) && !__CPROVER_same_object(factors->d, dims->d) &&
                       !__CPROVER_same_object(factors, dims) && vf_exc == 0)
    __CPROVER_requires(ndim <= ND && factors->n <= 6 && ALL6(FACT_OK) && PROD6(factors) <= MAXN)
    __CPROVER_assigns(dims->n, __CPROVER_object_whole(dims->d))
    __CPROVER_ensures(vf_exc == 0 && SEQ_OK(dims))
    __CPROVER_ensures((__CPROVER_return_value == OK_) == (ndim > 0) &&
                      (__CPROVER_return_value == OK_ || __CPROVER_return_value == ERROR_ENUM__MPI_ERR_DIMS))
    /*@ assignnodes_needs_a_dimension */
    __CPROVER_ensures(ndim <= 0 || (dims->n == (size_t)ndim && ALL4(BIN_OK)))    /*@ assignnodes_bins_positive */
    __CPROVER_ensures(ndim <= 0 || PROD4(dims) == PROD6(factors))                /*@ assignnodes_product_preserved */
    __CPROVER_ensures(ndim <= 0 || ALL4(BIN_ORDER))                              /*@ assignnodes_non_increasing */;

/* Dims_create (MPI 7.5.2): on success the product is nnodes, given (non-zero) entries are untouched, free entries are
 * positive and in non-increasing order; it succeeds iff no entry is negative and nnodes is a multiple of the product
 * of the given entries (equal to it when nothing is free); on error dims is untouched.                              */
#define ODIM(i) __CPROVER_old(g_c[i])
#define NEWC(i) ((i) < ndims ? g_c[i] : 1)
#define GIVEN(i) ((i) < ndims && ODIM(i) != 0 ? ODIM(i) : 1)
#define GIVEN_PROD (GIVEN(0) * GIVEN(1) * GIVEN(2) * GIVEN(3))
#define NONNEG(i) (!((i) < ndims) || ODIM(i) >= 0)
#define ISFREE(i) ((i) < ndims && ODIM(i) == 0)
#define ANYFREE (ISFREE(0) || ISFREE(1) || ISFREE(2) || ISFREE(3))
#define DIM_DOMAIN(i) (-MAXN <= g_c[i] && g_c[i] <= MAXN)
int Topo_Cart__Dims_create(struct Topo_Cart* self, int nnodes, int ndims, int* dims)
    __CPROVER_requires(dims == g_c && 1 <= nnodes && nnodes <= MAXN && 1 <= ndims && ndims <= ND && ALL4(DIM_DOMAIN) &&
                       vf_exc == 0)
    __CPROVER_assigns(__CPROVER_object_whole(g_c))
    __CPROVER_ensures(vf_exc == 0)
    __CPROVER_ensures(__CPROVER_return_value != OK_ || NEWC(0) * NEWC(1) * NEWC(2) * NEWC(3) == nnodes)
    /*@ dims_create_product_is_nnodes */
    __CPROVER_ensures(__CPROVER_return_value != OK_ || !(gk < (size_t)ndims) || ODIM(gk) == 0 || g_c[gk] == ODIM(gk))
    /*@ dims_create_respects_given_entries */
    __CPROVER_ensures(__CPROVER_return_value != OK_ || !(gk < (size_t)ndims) || ODIM(gk) != 0 || g_c[gk] >= 1)
    /*@ dims_create_free_entries_positive */
    __CPROVER_ensures(__CPROVER_return_value != OK_ || !(gk < gj && gj < (size_t)ndims) || ODIM(gk) != 0 || ODIM(gj) != 0 ||
                      g_c[gk] >= g_c[gj]) /*@ dims_create_free_entries_non_increasing */
    __CPROVER_ensures((__CPROVER_return_value == OK_) ==
                      (ALL4(NONNEG) && nnodes % GIVEN_PROD == 0 && (ANYFREE || GIVEN_PROD == nnodes)))
    /*@ dims_create_succeeds_iff_feasible */
    __CPROVER_ensures(__CPROVER_return_value == OK_ || !(gk < ND) || g_c[gk] == ODIM(gk))
    /*@ dims_create_error_leaves_dims */;

#include "gen.c"

/* ---------------- harnesses ---------------- */
int nondet_int(void);
size_t nondet_size(void);

static void setup(void)
{
  g_t.dims_.d = g_dims;
  g_t.periodic_.d = g_per;
  g_t.position_.d = g_pos;
  g_t.dims_.h = g_t.periodic_.h = g_t.position_.h = 0;
  g_t.dims_.cap = g_t.periodic_.cap = g_t.position_.cap = ND;
  int nd = nondet_int();
  __CPROVER_assume(0 <= nd && nd <= ND);
  g_t.ndims_ = nd;
  g_t.dims_.n = g_t.periodic_.n = g_t.position_.n = (size_t)nd;
  g_t.__b_Topo.comm_ = &g_comm;
  vf_exc = 0;
  __CPROVER_assume(gk < ND && gj < ND);
}

#ifdef H_getcomm
void harness(void)
{
  setup();
  Topo__getComm(&g_t.__b_Topo);
  VF_CANARY_POINT;
}
#endif
#ifdef H_coords
void harness(void)
{
  setup();
  Topo_Cart__coords(&g_t, nondet_int(), nondet_int(), g_c);
  VF_CANARY_POINT;
}
#endif
#ifdef H_rank
void harness(void)
{
  setup();
  int r;
  Topo_Cart__rank(&g_t, g_c, &r);
  VF_CANARY_POINT;
}
#endif
#ifdef H_shift
void harness(void)
{
  setup();
  int *src, *dst;
  Topo_Cart__shift(&g_t, nondet_int(), nondet_int(), src, dst);
  VF_CANARY_POINT;
}
#endif
#ifdef H_getfactors
void harness(void)
{
  setup();
  struct vf_seq_int* f;
  getfactors(nondet_int(), f);
  VF_CANARY_POINT;
}
#endif
#ifdef H_assignnodes
void harness(void)
{
  setup();
  struct vf_seq_int *f, *d;
  assignnodes(nondet_int(), f, d);
  VF_CANARY_POINT;
}
#endif
#ifdef H_dims_create
void harness(void)
{
  setup();
  Topo_Cart__Dims_create(&g_t, nondet_int(), nondet_int(), g_c);
  VF_CANARY_POINT;
}
#endif

/* ---- lemmas: Cart_rank and Cart_coords are inverse bijections (both calls through their contracts) ---- */
#ifdef H_lemma_rank_of_coords
void harness(void)
{
  setup();
  __CPROVER_assume(WF_TOPO);
  int r = nondet_int(), r2;
  __CPROVER_assume(0 <= r && r < g_t.nnodes_);
  Topo_Cart__coords(&g_t, r, NDIMS, g_c);
  int rc = Topo_Cart__rank(&g_t, g_c, &r2);
  __CPROVER_assert(rc == OK_ && r2 == r, "lemma rank(coords(r)) == r");
  VF_CANARY_POINT;
}
#endif
#ifdef H_lemma_coords_of_rank
void harness(void)
{
  setup();
  __CPROVER_assume(WF_TOPO);
  int c[ND], c2[ND], r;
  for (int i = 0; i < ND; i++) {
    c[i] = nondet_int();
    /* the property's domain: coordinates reachable by a displacement in [-2*dim, 2*dim] from a grid position */
    __CPROVER_assume(-2 * MAXN <= c[i] && c[i] <= 3 * MAXN);
  }
  int rc = Topo_Cart__rank(&g_t, c, &r);
  if (rc == OK_) {
    Topo_Cart__coords(&g_t, r, NDIMS, c2);
    __CPROVER_assert(!(gk < (size_t)NDIMS) || c2[gk] == MOD(c[gk], g_dims[gk]), "lemma coords(rank(c)) == c wrapped");
  }
  VF_CANARY_POINT;
}
#endif
