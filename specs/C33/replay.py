import os, sys
sys.path.insert(0, os.path.join(os.path.dirname(os.path.abspath(__file__)), "..", "..", "replay"))
import native


def replay(violation, inputs, workdir, repo):
    """real Topo_Cart::Dims_create on the whole property domain; the label selects the checked postcondition"""
    here = os.path.dirname(os.path.abspath(__file__))
    return native.build_and_run(os.path.join(here, "replay.cpp"), workdir, repo, [violation["label"]])
