/* C16 — Max-min allocations are fair: the selection steps of the progressive filling (src/kernel/lmm/maxmin.cpp).
 *
 * Max-min fairness = at every round, the constraints whose remaining/usage ratio is MINIMAL are the ones saturated, and
 * every variable that consumes on one of them is fixed at that level. The two helpers that implement the selection:
 *   saturated_constraints_update(usage, k, S, &min)  — arg-min accumulator: after feeding ratios r_0..r_k in turn,
 *        min = min_i r_i and S = { i : r_i == min } in feeding order. One step: see the contract.
 *   saturated_variable_set_update(tab, S, sys)       — every variable with an active, consuming element on a constraint
 *        of S is put into sys->saturated_variable_set (once), nothing else is.
 * The solver loop itself (MaxMin::maxmin_solve) is NOT under contract (see check.json level_note).                   */
#include "gen.h"

#if VF_CAP != 4 || VF_ICAP != 4
#error "the written-out quantifiers are for VF_CAP == 4 and VF_ICAP == 4"
#endif

/* ================= saturated_constraints_update ================================================================= */
int g_buf[VF_CAP];                 /* storage of the saturated_constraints vector */
struct vf_seq_int g_sat;
size_t gk;                         /* ghost index into g_buf (unconstrained, < VF_CAP) */
#define WF_SAT (g_sat.d == g_buf && g_sat.cap == VF_CAP && g_sat.h <= VF_CAP && g_sat.n <= VF_CAP && g_sat.h + g_sat.n <= VF_CAP)
#define OLD_MIN __CPROVER_old(*min_usage)
#define OLD_N __CPROVER_old(g_sat.n)
#define OLD_H __CPROVER_old(g_sat.h)
#define NEW_MIN (OLD_MIN < 0.0 || OLD_MIN > usage) /* no minimum yet (negative marker) or a strictly smaller ratio */
#define TIE (!NEW_MIN && OLD_MIN == usage)
/* room for one more entry: the vector model's push_back assumes it (std::vector grows), stated here as precondition */
void saturated_constraints_update(double usage, int cnst_light_num, struct vf_seq_int* saturated_constraints,
                                  double* min_usage)
    __CPROVER_requires(saturated_constraints == &g_sat && WF_SAT && g_sat.h + g_sat.n < VF_CAP && gk < VF_CAP)
    __CPROVER_requires(__CPROVER_is_fresh(min_usage, sizeof(double)) && *min_usage == *min_usage && vf_exc == 0)
    __CPROVER_assigns(vf_exc, *min_usage, g_sat.h, g_sat.n, __CPROVER_object_whole(g_buf))
    __CPROVER_ensures(1 && WF_SAT)
    __CPROVER_ensures((vf_exc == VF_EXC_ABORT) == !(usage > 0.0)) /*@ rejects_a_non_positive_ratio */
    __CPROVER_ensures(vf_exc == 0 || vf_exc == VF_EXC_ABORT)
    __CPROVER_ensures(vf_exc == 0 || (*min_usage == OLD_MIN && g_sat.n == OLD_N && g_sat.h == OLD_H &&
                                      g_buf[gk] == __CPROVER_old(g_buf[gk]))) /*@ rejection_changes_nothing */
    __CPROVER_ensures(vf_exc != 0 || *min_usage == (NEW_MIN ? usage : OLD_MIN)) /*@ min_usage_is_the_minimum_so_far */
    __CPROVER_ensures(vf_exc != 0 || (*min_usage <= usage && (OLD_MIN < 0.0 || *min_usage <= OLD_MIN) &&
                                      (OLD_MIN == 0.0 || *min_usage > 0.0))) /*@ min_usage_is_a_positive_lower_bound */
    __CPROVER_ensures(vf_exc != 0 || !NEW_MIN || (g_sat.n == 1 && g_sat.h == 0 && g_buf[0] == cnst_light_num))
    /*@ strictly_smaller_ratio_restarts_the_saturated_set */
    __CPROVER_ensures(vf_exc != 0 || !TIE ||
                      (g_sat.n == OLD_N + 1 && g_sat.h == OLD_H && g_buf[g_sat.h + OLD_N] == cnst_light_num &&
                       (!(gk >= g_sat.h && gk < g_sat.h + OLD_N) || g_buf[gk] == __CPROVER_old(g_buf[gk]))))
    /*@ equal_ratio_is_appended_to_the_saturated_set */
    __CPROVER_ensures(vf_exc != 0 || NEW_MIN || TIE ||
                      (g_sat.n == OLD_N && g_sat.h == OLD_H && g_buf[gk] == __CPROVER_old(g_buf[gk])))
    /*@ larger_ratio_leaves_the_saturated_set_alone */;

/* ================= saturated_variable_set_update ================================================================ */
/* universe: a table of 2 light constraints, 2 constraints, 4 elements, 2 variables (every pointer any object)         */
struct System g_sys;
struct ConstraintLight g_tab[2];
struct Constraint g_c0, g_c1;
struct Element g_e0, g_e1, g_e2, g_e3;
struct Variable g_v0, g_v1;
#define C(ci) (g_c##ci)
#define E(e) (g_e##e)
#define V(v) (g_v##v)
#define IS_C(p) ((p) == &g_c0 || (p) == &g_c1)
#define IS_E(p) ((p) == &g_e0 || (p) == &g_e1 || (p) == &g_e2 || (p) == &g_e3)
#define IS_V(p) ((p) == &g_v0 || (p) == &g_v1)
#define ALLV(P) (P(0) && P(1))
#define ALLC(P) (P(0) && P(1))
#define ANYC(P) (P(0) || P(1))
#define ALLEL(P) (P(0) && P(1) && P(2) && P(3))
#define ALLK(P) (P(0) && P(1) && P(2) && P(3))
#define ALLK1(P, a) (P(a, 0) && P(a, 1) && P(a, 2) && P(a, 3))
#define ANYK1(P, a) (P(a, 0) || P(a, 1) || P(a, 2) || P(a, 3))
#define ANYK2(P, a, b) (P(a, b, 0) || P(a, b, 1) || P(a, b, 2) || P(a, b, 3))
#define ALLKPAIRS(P) (P(0, 1) && P(0, 2) && P(0, 3) && P(1, 2) && P(1, 3) && P(2, 3))
#define ALLKPAIRS1(P, a) (P(a, 0, 1) && P(a, 0, 2) && P(a, 0, 3) && P(a, 1, 2) && P(a, 1, 3) && P(a, 2, 3))

#define AL(ci) (C(ci).active_element_set_)
#define SL (g_sys.saturated_variable_set)
#define LINKED(v) (V(v).saturated_variable_set_hook_.linked)
#define OLD_LINKED(v) (__CPROVER_old(V(v).saturated_variable_set_hook_.linked))
/* representation invariant */
#define SAT_ENTRY_OK(j) (!((size_t)(j) < g_sat.n) || (g_buf[g_sat.h + (j)] >= 0 && g_buf[g_sat.h + (j)] < 2))
#define AL_POS_OK(ci, k) (!((size_t)(k) < AL(ci).n) || IS_E(AL(ci).d[k]))
#define AL_DISTINCT(ci, i, j) (!((size_t)(j) < AL(ci).n) || AL(ci).d[i] != AL(ci).d[j])
#define WF_AL(ci) (AL(ci).n <= VF_ICAP && ALLK1(AL_POS_OK, ci) && ALLKPAIRS1(AL_DISTINCT, ci))
#define WF_E(e) (IS_V(E(e).variable) && E(e).consumption_weight == E(e).consumption_weight)
#define SL_IS(p, v) ((p) == &V(v) && LINKED(v))
#define SL_POS_OK(k) (!((size_t)(k) < SL.n) || SL_IS(SL.d[k], 0) || SL_IS(SL.d[k], 1))
#define SL_DISTINCT(i, j) (!((size_t)(j) < SL.n) || SL.d[i] != SL.d[j])
#define SL_AT(v, k) ((size_t)(k) < SL.n && SL.d[k] == &V(v))
#define SL_COMPLETE(v) (!LINKED(v) || ANYK1(SL_AT, v))
#define WF_SL (SL.n <= 2 && ALLK(SL_POS_OK) && ALLKPAIRS(SL_DISTINCT) && ALLV(SL_COMPLETE))
#define WF2 (WF_SAT && ALLK(SAT_ENTRY_OK) && IS_C(g_tab[0].cnst) && IS_C(g_tab[1].cnst) && ALLC(WF_AL) && ALLEL(WF_E) && WF_SL)
/* abstract view: constraint ci is saturated (named by some entry of the vector through the table) */
#define SAT_VIA(ci, j) ((size_t)(j) < g_sat.n && g_tab[g_buf[g_sat.h + (j)] == 0 ? 0 : 1].cnst == &C(ci))
#define SATURATED(ci) ANYK1(SAT_VIA, ci)
/* variable v has an active element with a positive weight on constraint ci */
#define EL_ON(ci, v, k, e) (AL(ci).d[k] == &E(e) && E(e).variable == &V(v) && E(e).consumption_weight > 0.0)
#define ON_AT(ci, v, k) ((size_t)(k) < AL(ci).n && (EL_ON(ci, v, k, 0) || EL_ON(ci, v, k, 1) || EL_ON(ci, v, k, 2) || EL_ON(ci, v, k, 3)))
#define CONSUMES_ON(ci, v) ANYK2(ON_AT, ci, v)
#define SEL_VIA(v, ci) (SATURATED(ci) && CONSUMES_ON(ci, v))
#define SELECTED(v) (SEL_VIA(v, 0) || SEL_VIA(v, 1))
/* an active element of a disabled variable (the code rejects it: "All elements of active_element_set should be active") */
#define PEN_OK_E(e) (E(e).variable == &g_v0 ? g_v0.sharing_penalty_ > 0.0 : g_v1.sharing_penalty_ > 0.0)
#define BAD_IS(ci, k, e) (AL(ci).d[k] == &E(e) && !PEN_OK_E(e))
#define BAD_AT(ci, k) ((size_t)(k) < AL(ci).n && (BAD_IS(ci, k, 0) || BAD_IS(ci, k, 1) || BAD_IS(ci, k, 2) || BAD_IS(ci, k, 3)))
#define HAS_BAD(ci) (SATURATED(ci) && ANYK1(BAD_AT, ci))
#define SEL_EXACT(v) ((LINKED(v) ? 1 : 0) == ((OLD_LINKED(v) || SELECTED(v)) ? 1 : 0))
#define SL_PREFIX_KEPT(k) (!((size_t)(k) < __CPROVER_old(g_sys.saturated_variable_set.n)) || SL.d[k] == __CPROVER_old(g_sys.saturated_variable_set.d[k]))
void saturated_variable_set_update(struct ConstraintLight* cnst_light_tab, struct vf_seq_int* saturated_constraints,
                                   struct System* sys)
    __CPROVER_requires(cnst_light_tab == g_tab && saturated_constraints == &g_sat && sys == &g_sys && WF2 && vf_exc == 0)
    __CPROVER_assigns(vf_exc, g_sys.saturated_variable_set, g_v0.saturated_variable_set_hook_, g_v1.saturated_variable_set_hook_)
    /*@ rejects_exactly_an_active_element_of_a_disabled_variable */
    __CPROVER_ensures((vf_exc == VF_EXC_ABORT) == ANYC(HAS_BAD)) /*@ rejects_exactly_an_active_element_of_a_disabled_variable */
    __CPROVER_ensures(vf_exc == 0 || vf_exc == VF_EXC_ABORT)
    /*@ exactly_the_variables_consuming_on_a_saturated_constraint_are_selected */
    __CPROVER_ensures(vf_exc != 0 || ALLV(SEL_EXACT)) /*@ exactly_the_variables_consuming_on_a_saturated_constraint_are_selected */
    /*@ selected_set_stays_a_duplicate_free_list */
    __CPROVER_ensures(vf_exc != 0 || WF_SL) /*@ selected_set_stays_a_duplicate_free_list */
    /*@ already_selected_variables_keep_their_place */
    __CPROVER_ensures(vf_exc != 0 || ALLK(SL_PREFIX_KEPT)) /*@ already_selected_variables_keep_their_place */;

#include "gen.c"

/* ---------- harnesses ------------------------------------------------------------------------------------------ */
_Bool nondet_bool(void);
int nondet_int(void);
size_t nondet_size(void);
double nondet_double(void);
struct System nondet_System(void);
struct Constraint nondet_Constraint(void);
struct Variable nondet_Variable(void);
struct Element nondet_Element(void);

static void setup_sat(void)
{
  for (int k = 0; k < VF_CAP; k++)
    g_buf[k] = nondet_int();
  g_sat.d   = g_buf;
  g_sat.cap = VF_CAP;
  g_sat.h   = nondet_size();
  g_sat.n   = nondet_size();
  vf_exc    = 0;
}

#ifdef H_saturated_constraints_update
void harness(void)
{
  setup_sat();
  gk = nondet_size();
  double m;
  m = nondet_double();
  saturated_constraints_update(nondet_double(), nondet_int(), &g_sat, &m);
  VF_CANARY_POINT;
}
#endif

/* lemma: feeding two ratios in turn from the empty state leaves the minimum of both and exactly the arg-min indices */
#ifdef H_lemma_two_steps
void harness(void)
{
  setup_sat();
  g_sat.h   = 0;
  g_sat.n   = 0;
  gk        = 0; /* the contract speaks about one (any) old position: follow position 0 */
  double r0 = nondet_double(), r1 = nondet_double(), m = -1.0;
  __CPROVER_assume(r0 > 0.0 && r1 > 0.0);
  saturated_constraints_update(r0, 0, &g_sat, &m);
  saturated_constraints_update(r1, 1, &g_sat, &m);
  __CPROVER_assert(vf_exc == 0, "no rejection");
  __CPROVER_assert(m == (r0 < r1 ? r0 : r1), "two steps: min_usage is the smaller ratio");
  __CPROVER_assert(r0 < r1 ? (g_sat.n == 1 && g_buf[g_sat.h] == 0) : 1, "two steps: only the first is saturated");
  __CPROVER_assert(r1 < r0 ? (g_sat.n == 1 && g_buf[g_sat.h] == 1) : 1, "two steps: only the second is saturated");
  __CPROVER_assert(r0 == r1 ? (g_sat.n == 2 && g_buf[g_sat.h] == 0 && g_buf[g_sat.h + 1] == 1) : 1,
                   "two steps: both saturated on a tie");
  VF_CANARY_POINT;
}
#endif

static struct Element* pick_elem(void)
{
  if (nondet_bool())
    return nondet_bool() ? &g_e0 : &g_e1;
  return nondet_bool() ? &g_e2 : &g_e3;
}
static struct Variable* pick_var(void)
{
  return nondet_bool() ? &g_v0 : &g_v1;
}
static struct Constraint* pick_cnst(void)
{
  return nondet_bool() ? &g_c0 : &g_c1;
}
static void setup_elem(struct Element* e)
{
  *e          = nondet_Element();
  e->variable = pick_var();
}
static void setup_cnst(struct Constraint* c)
{
  *c = nondet_Constraint();
  for (int k = 0; k < VF_ICAP; k++)
    c->active_element_set_.d[k] = pick_elem();
}
#ifdef H_saturated_variable_set_update
void harness(void)
{
  setup_sat();
  g_sys = nondet_System();
  for (int k = 0; k < VF_ICAP; k++)
    g_sys.saturated_variable_set.d[k] = pick_var();
  g_tab[0].cnst = pick_cnst();
  g_tab[1].cnst = pick_cnst();
  setup_cnst(&g_c0);
  setup_cnst(&g_c1);
  setup_elem(&g_e0);
  setup_elem(&g_e1);
  setup_elem(&g_e2);
  setup_elem(&g_e3);
  g_v0 = nondet_Variable();
  g_v1 = nondet_Variable();
  saturated_variable_set_update(g_tab, &g_sat, &g_sys);
  VF_CANARY_POINT;
}
#endif
