/* C17 — Selective (lazy) solving equals full recomputation: the bookkeeping half (src/kernel/lmm/System.cpp).
 *
 * With selective update the solver only re-solves the constraints of System::modified_constraint_set. That equals a
 * full recomputation only if the set (a) contains every constraint touched by a change and (b) is closed under
 * "shares an ENABLED variable" (a variable with sharing_penalty_ > 0 couples the rates of all its constraints).
 * Abstract view, written from the property statement:
 *   MOD(c)    = c is in modified_constraint_set                      (hook linked)
 *   VIS(v)    = v.visited_ == sys.visited_counter_                   (v is stamped "already propagated" in this epoch)
 *   ALLMOD(v) = every constraint used by v is MOD,  ANYMOD(v) = some constraint used by v is MOD
 *   INV(v)    = v enabled  ==>  ((ANYMOD(v) or VIS(v)) ==> ALLMOD(v))
 *               closedness of the set through v, and soundness of the stamp that lets the propagation skip v
 * Every change operation must re-establish  "for all v: INV(v)"  and put the touched constraint(s) into the set;
 * remove_all_modified_cnst_set() (end of a solve) must start a fresh epoch: empty set, NO variable stamped — also when
 * visited_counter_ wraps around.
 * Universe: NC constraints, NV variables with at most NE elements each, built by the harness (every scalar symbolic,
 * every pointer any object of the universe); boost::intrusive lists are the cxx2c array model (capacity VF_ICAP).   */
#include "gen.h"

#define NC 3
#define NV 2
#define NE 2
#if VF_ICAP != 4
#error "the written-out quantifiers are for VF_ICAP == 4 (>= NV*NE elements per constraint, >= NC, >= NV)"
#endif

struct System g_sys;
struct Constraint g_c0, g_c1, g_c2;
struct Variable g_v0, g_v1;
struct Element g_e0[NE], g_e1[NE];
#define C(ci) (g_c##ci)
#define V(v) (g_v##v)
#define E(v, k) (g_e##v[k])

/* ---------- quantifiers over the fixed universe, written out -------------------------------------------------- */
#define ALLC(P) (P(0) && P(1) && P(2))
#define ALLV(P) (P(0) && P(1))
#define ALLE(P) (P(0, 0) && P(0, 1) && P(1, 0) && P(1, 1))
#define ALLE1(P, a) (P(a, 0, 0) && P(a, 0, 1) && P(a, 1, 0) && P(a, 1, 1))
#define ALLK(P) (P(0) && P(1) && P(2) && P(3))                                 /* list positions 0..VF_ICAP-1 */
#define ALLK1(P, a) (P(a, 0) && P(a, 1) && P(a, 2) && P(a, 3))
#define ANYK2(P, a, b) (P(a, b, 0) || P(a, b, 1) || P(a, b, 2) || P(a, b, 3))
#define ALLKPAIRS(P) (P(0, 1) && P(0, 2) && P(0, 3) && P(1, 2) && P(1, 3) && P(2, 3))
#define ALLKPAIRS1(P, a) (P(a, 0, 1) && P(a, 0, 2) && P(a, 0, 3) && P(a, 1, 2) && P(a, 1, 3) && P(a, 2, 3))
#define ALLSLOT1(P, a) (P(a, 0) && P(a, 1))
#define ANYSLOT1(P, a) (P(a, 0) || P(a, 1))

#define IS_C(p) ((p) == &g_c0 || (p) == &g_c1 || (p) == &g_c2)
#define IS_V(p) ((p) == &g_v0 || (p) == &g_v1)

/* ---------- abstract view -------------------------------------------------------------------------------------- */
#define LIVE(v, k) ((size_t)(k) < V(v).cnsts_.n)
#define ENA(v) (V(v).sharing_penalty_ > 0.0)
#define USES(ci, v, k) (LIVE(v, k) && E(v, k).constraint == &C(ci))
#define MOD(ci) (C(ci).modified_constraint_set_hook_.linked)
#define OM(ci) (__CPROVER_old(C(ci).modified_constraint_set_hook_.linked))      /* MOD at entry (ensures only) */
/* "the constraint p points to is MOD" without dereferencing p (p is one of the three objects) */
#define MODP(p) ((p) == &g_c0 ? MOD(0) : ((p) == &g_c1 ? MOD(1) : MOD(2)))
#define OMP(p) ((p) == &g_c0 ? OM(0) : ((p) == &g_c1 ? OM(1) : OM(2)))
#define VIS(v) (V(v).visited_ == g_sys.visited_counter_)
#define OVIS(v) (__CPROVER_old(V(v).visited_) == g_sys.visited_counter_) /* stamped at entry (counter is not assigned) */
#define SLOT_MOD(v, k) (!LIVE(v, k) || MODP(E(v, k).constraint))
#define SLOT_OMOD(v, k) (!LIVE(v, k) || OMP(E(v, k).constraint))
#define SLOT_ISMOD(v, k) (LIVE(v, k) && MODP(E(v, k).constraint))
#define SLOT_ISOMOD(v, k) (LIVE(v, k) && OMP(E(v, k).constraint))
#define ALLMOD(v) ALLSLOT1(SLOT_MOD, v)
#define ANYMOD(v) ANYSLOT1(SLOT_ISMOD, v)
#define O_ALLMOD(v) ALLSLOT1(SLOT_OMOD, v)
#define O_ANYMOD(v) ANYSLOT1(SLOT_ISOMOD, v)
#define INV(v) (!ENA(v) || !(ANYMOD(v) || VIS(v)) || ALLMOD(v))
#define O_INV(v) (!ENA(v) || !(O_ANYMOD(v) || OVIS(v)) || O_ALLMOD(v)) /* INV at entry (penalties are not assigned) */

/* ---------- representation invariant (structure the four functions rely on, none of it is assigned by them) ---- */
#define EL(ci) (C(ci).enabled_element_set_)
/* position k of the enabled list of constraint ci holds a live element of an enabled variable that uses ci. List
 * entries are only COMPARED with element addresses, never dereferenced (docs/HOWTO.md, pointer-rich state).        */
#define EL_IS(p, ci, v, k) ((p) == &E(v, k) && USES(ci, v, k) && E(v, k).enabled_element_set_hook.linked)
#define EL_POS_OK(ci, k)                                                                                               \
  (!((size_t)(k) < EL(ci).n) || EL_IS(EL(ci).d[k], ci, 0, 0) || EL_IS(EL(ci).d[k], ci, 0, 1) ||                        \
   EL_IS(EL(ci).d[k], ci, 1, 0) || EL_IS(EL(ci).d[k], ci, 1, 1))
#define EL_DISTINCT(ci, i, j) (!((size_t)(j) < EL(ci).n) || EL(ci).d[i] != EL(ci).d[j])
#define EL_AT(ci, p, k) ((size_t)(k) < EL(ci).n && EL(ci).d[k] == (p))
#define EL_MEM(ci, p) ANYK2(EL_AT, ci, p)
#define EL_COMPLETE(ci, v, k) (!(USES(ci, v, k) && E(v, k).enabled_element_set_hook.linked) || EL_MEM(ci, &E(v, k)))
#define WF_EL(ci) (EL(ci).n <= VF_ICAP && ALLK1(EL_POS_OK, ci) && ALLKPAIRS1(EL_DISTINCT, ci) && ALLE1(EL_COMPLETE, ci))
/* every slot points into the universe; a live element belongs to its variable and sits in the enabled set of its
 * constraint iff its variable is enabled */
#define WF_ELEM(v, k)                                                                                                  \
  (IS_C(E(v, k).constraint) && (!LIVE(v, k) || (E(v, k).variable == &V(v) &&                                          \
                                                E(v, k).enabled_element_set_hook.linked == ENA(v))))
#define WF_VAR(v) (V(v).cnsts_.d == g_e##v && V(v).cnsts_.h == 0 && V(v).cnsts_.n <= NE && V(v).cnsts_.cap == NE)
/* the modified set: its entries are exactly the constraints whose hook is linked, each once */
#define ML (g_sys.modified_constraint_set)
#define ML_IS(p, ci) ((p) == &C(ci) && MOD(ci))
#define ML_POS_OK(k) (!((size_t)(k) < ML.n) || ML_IS(ML.d[k], 0) || ML_IS(ML.d[k], 1) || ML_IS(ML.d[k], 2))
#define ML_DISTINCT(i, j) (!((size_t)(j) < ML.n) || ML.d[i] != ML.d[j])
#define ML_AT(ci, k) ((size_t)(k) < ML.n && ML.d[k] == &C(ci))
#define ML_COMPLETE(ci) (!MOD(ci) || ML_AT(ci, 0) || ML_AT(ci, 1) || ML_AT(ci, 2) || ML_AT(ci, 3))
#define WF_ML (ML.n <= NC && ALLK(ML_POS_OK) && ALLKPAIRS(ML_DISTINCT) && ALLC(ML_COMPLETE))
/* every variable of the universe is in variable_set (remove_all_modified_cnst_set resets the stamps through it) */
#define WF_VARSET                                                                                                      \
  (g_sys.variable_set.n == NV && IS_V(g_sys.variable_set.d[0]) && IS_V(g_sys.variable_set.d[1]) &&                     \
   g_sys.variable_set.d[0] != g_sys.variable_set.d[1])
#define WF_STRUCT (ALLV(WF_VAR) && ALLE(WF_ELEM) && ALLC(WF_EL))
#define WF (WF_STRUCT && WF_ML)

#define SYS_FRAME                                                                                                      \
  g_sys.modified_constraint_set, g_c0.modified_constraint_set_hook_, g_c1.modified_constraint_set_hook_,              \
      g_c2.modified_constraint_set_hook_, g_v0.visited_, g_v1.visited_

/* facts about one propagation step, shared by the contracts below (all from the code) */
#define MOD_MONOTONE(ci) (!OM(ci) || MOD(ci))
#define STAMP_STEP(v) (V(v).visited_ == __CPROVER_old(V(v).visited_) || VIS(v))
/* a variable stamped by this call is enabled and has all its constraints in the set */
#define NEW_STAMP_OK(v) (!(VIS(v) && !OVIS(v)) || (ENA(v) && ALLMOD(v)))
/* "propagated through constraint ci": every enabled variable on ci has all its constraints in the set — except a
 * variable that already carried the stamp at entry (the propagation skips it: sound only if INV held for it)       */
#define PROP1(ci, v, k) (!(USES(ci, v, k) && ENA(v)) || ALLMOD(v) || OVIS(v))
#define PROPAGATED(ci) ALLE1(PROP1, ci)
#define PROP1P(p, v, k) (!(LIVE(v, k) && E(v, k).constraint == (p) && ENA(v)) || ((ALLMOD(v) || OVIS(v)) && VIS(v)))
#define PROPAGATEDP(p) ALLE1(PROP1P, p)
#define NEWMOD_PROPAGATED(ci) (!(MOD(ci) && !OM(ci)) || PROPAGATED(ci))
#define KEEPS_INV(v) (!O_INV(v) || INV(v))

/* ---------- update_modified_cnst_set_rec: the recursive propagation (helper contract, from the code) ----------- */
void System__update_modified_cnst_set_rec(struct System* self, struct Constraint* cnst)
    __CPROVER_requires(self == &g_sys && IS_C(cnst) && WF && MODP(cnst) && vf_exc == 0)
    __CPROVER_assigns(SYS_FRAME)
    __CPROVER_ensures(vf_exc == 0)
    /*@ rec_keeps_the_modified_list_consistent */
    __CPROVER_ensures(1 && WF_ML)                               /*@ rec_keeps_the_modified_list_consistent */
    /*@ rec_only_adds_to_the_modified_set */
    __CPROVER_ensures(1 && ALLC(MOD_MONOTONE))                  /*@ rec_only_adds_to_the_modified_set */
    /*@ rec_only_stamps_with_the_current_counter */
    __CPROVER_ensures(1 && ALLV(STAMP_STEP))                    /*@ rec_only_stamps_with_the_current_counter */
    /*@ rec_stamps_only_enabled_variables_whose_constraints_are_all_in_the_set */
    __CPROVER_ensures(1 && ALLV(NEW_STAMP_OK))                  /*@ rec_stamps_only_enabled_variables_whose_constraints_are_all_in_the_set */
    /*@ rec_propagates_through_its_constraint */
    __CPROVER_ensures(1 && PROPAGATEDP(cnst))                   /*@ rec_propagates_through_its_constraint */
    /*@ rec_propagates_through_every_constraint_it_adds */
    __CPROVER_ensures(1 && ALLC(NEWMOD_PROPAGATED))             /*@ rec_propagates_through_every_constraint_it_adds */;

/* ---------- update_modified_cnst_set(c): "c changed" (top-level: from the property statement) ------------------ */
void System__update_modified_cnst_set(struct System* self, struct Constraint* cnst)
    __CPROVER_requires(self == &g_sys && IS_C(cnst) && WF && vf_exc == 0)
    __CPROVER_assigns(self->selective_update_active : SYS_FRAME)
    __CPROVER_ensures(vf_exc == 0)
    __CPROVER_ensures(!self->selective_update_active || MODP(cnst)) /*@ touched_constraint_is_in_the_modified_set */
    /*@ modified_set_stays_closed_under_shares_an_enabled_variable */
    __CPROVER_ensures(!self->selective_update_active || !ALLV(O_INV) || ALLV(INV))
    /*@ modified_set_stays_closed_under_shares_an_enabled_variable */
    /*@ update_keeps_the_modified_list_consistent */
    __CPROVER_ensures(1 && WF_ML)                               /*@ update_keeps_the_modified_list_consistent */
    /*@ update_only_adds_to_the_modified_set */
    __CPROVER_ensures(1 && ALLC(MOD_MONOTONE) && ALLV(STAMP_STEP)) /*@ update_only_adds_to_the_modified_set */
    /* helper facts for callers that run it on a state where one variable is not consistent yet (from the code) */
    /*@ update_keeps_every_consistent_variable_consistent */
    __CPROVER_ensures(1 && ALLV(KEEPS_INV))                     /*@ update_keeps_every_consistent_variable_consistent */
    /*@ update_stamps_only_enabled_variables_whose_constraints_are_all_in_the_set */
    __CPROVER_ensures(1 && ALLV(NEW_STAMP_OK))                  /*@ update_stamps_only_enabled_variables_whose_constraints_are_all_in_the_set */
    /*@ update_propagates_through_every_constraint_it_adds */
    __CPROVER_ensures(1 && ALLC(NEWMOD_PROPAGATED))             /*@ update_propagates_through_every_constraint_it_adds */;

/* ---------- update_modified_cnst_set_from_variable(var): "var changed" (top-level) ----------------------------- */
/* Called by enable_var (AFTER var became enabled), disable_var (BEFORE it is disabled), update_variable_penalty and
 * var_free. Property: afterwards the set is closed again and, if var is enabled, contains every constraint var uses —
 * whatever var's own state was (it may just have been enabled: the set was closed without it).
 * Finding class F: var enabled, not all its constraints in the set, and (its FIRST constraint already in the set, or var
 * carries the stamp): the real code only looks at cnsts_[0] and returns / is skipped. Proved outside F; inside F the
 * clause is a known finding (specs/C17/replay.cpp).                                                                 */
#define VAR_IS(v) (var == &V(v))
#define OTHERS_O_INV(v) (VAR_IS(v) || O_INV(v))
#define VAR_ALLMOD(v) (!VAR_IS(v) || !ENA(v) || ALLMOD(v))
#define IN_F(v) (VAR_IS(v) && ENA(v) && !O_ALLMOD(v) && (OVIS(v) || SLOT_ISOMOD(v, 0)))
#define FINDING_F (IN_F(0) || IN_F(1))
void System__update_modified_cnst_set_from_variable(struct System* self, struct Variable* var)
    __CPROVER_requires(self == &g_sys && IS_V(var) && WF && vf_exc == 0)
    __CPROVER_assigns(self->selective_update_active : SYS_FRAME)
    __CPROVER_ensures(vf_exc == 0)
    /*@ variable_change_puts_all_its_constraints_in_the_set_and_keeps_it_closed */
    __CPROVER_ensures(!self->selective_update_active || !ALLV(OTHERS_O_INV) || FINDING_F ||
                      (ALLV(INV) && ALLV(VAR_ALLMOD)))
    /*@ variable_change_puts_all_its_constraints_in_the_set_and_keeps_it_closed */
    /*@ variable_change_when_first_constraint_already_modified_or_variable_stamped */
    __CPROVER_ensures(!self->selective_update_active || !ALLV(OTHERS_O_INV) || !FINDING_F ||
                      (ALLV(INV) && ALLV(VAR_ALLMOD)))
    /*@ variable_change_when_first_constraint_already_modified_or_variable_stamped */
    /*@ from_variable_keeps_the_modified_list_consistent */
    __CPROVER_ensures(1 && WF_ML && ALLC(MOD_MONOTONE) && ALLV(STAMP_STEP)) /*@ from_variable_keeps_the_modified_list_consistent */;

/* ---------- remove_all_modified_cnst_set: end of a solve, new epoch (top-level) -------------------------------- */
/* epoch invariant: the counter is never 0 (variable_new stamps a new variable with visited_counter_ - 1 to mean "not
 * visited") and no stamp comes from the future (the propagation stamps with the counter itself)                    */
#define STAMP_SANE(v) (V(v).visited_ <= g_sys.visited_counter_)
#define EPOCH_OK (g_sys.visited_counter_ >= 1u && ALLV(STAMP_SANE))
#define NOT_MOD(ci) (!MOD(ci))
#define NOT_VIS(v) (!VIS(v))
void System__remove_all_modified_cnst_set(struct System* self)
    __CPROVER_requires(self == &g_sys && WF && WF_VARSET && EPOCH_OK && vf_exc == 0)
    __CPROVER_assigns(g_sys.visited_counter_, SYS_FRAME)
    __CPROVER_ensures(vf_exc == 0)
    /*@ clear_empties_the_modified_set */
    __CPROVER_ensures(ML.n == 0 && ALLC(NOT_MOD))               /*@ clear_empties_the_modified_set */
    /*@ clear_starts_a_fresh_epoch_with_no_variable_stamped */
    __CPROVER_ensures(__CPROVER_old(g_sys.visited_counter_) == 0xffffffffu || (ALLV(NOT_VIS) && EPOCH_OK))
    /*@ clear_starts_a_fresh_epoch_with_no_variable_stamped */
    /* finding class: the call on which the 32-bit counter wraps */
    /*@ clear_starts_a_fresh_epoch_when_the_counter_wraps */
    __CPROVER_ensures(__CPROVER_old(g_sys.visited_counter_) != 0xffffffffu || (ALLV(NOT_VIS) && EPOCH_OK))
    /*@ clear_starts_a_fresh_epoch_when_the_counter_wraps */;

/* ---------- public change operations built on them -------------------------------------------------------------- */
void System__update_constraint_bound(struct System* self, struct Constraint* cnst, double bound)
    __CPROVER_requires(self == &g_sys && IS_C(cnst) && WF && vf_exc == 0)
    __CPROVER_assigns(g_sys.modified_, cnst->bound_; self->selective_update_active : SYS_FRAME)
    __CPROVER_ensures(vf_exc == 0 && g_sys.modified_ && (cnst->bound_ == bound || bound != bound)) /*@ bound_change_is_applied_and_flags_the_system */
    __CPROVER_ensures(!self->selective_update_active || MODP(cnst)) /*@ bound_change_puts_the_constraint_in_the_set */
    /*@ bound_change_keeps_the_set_closed */
    __CPROVER_ensures(!self->selective_update_active || !ALLV(O_INV) || ALLV(INV)) /*@ bound_change_keeps_the_set_closed */
    /*@ bound_change_keeps_the_modified_list_consistent */
    __CPROVER_ensures(1 && WF_ML)                               /*@ bound_change_keeps_the_modified_list_consistent */;

#define VAR_ALLMOD_ANY(v) (!VAR_IS(v) || ALLMOD(v))
void System__update_variable_bound(struct System* self, struct Variable* var, double bound)
    __CPROVER_requires(self == &g_sys && IS_V(var) && WF && vf_exc == 0)
    __CPROVER_assigns(g_sys.modified_, var->bound_; self->selective_update_active : SYS_FRAME)
    __CPROVER_ensures(vf_exc == 0 && g_sys.modified_ && (var->bound_ == bound || bound != bound)) /*@ variable_bound_change_is_applied_and_flags_the_system */
    /*@ variable_bound_change_puts_all_its_constraints_in_the_set */
    __CPROVER_ensures(!self->selective_update_active || ALLV(VAR_ALLMOD_ANY)) /*@ variable_bound_change_puts_all_its_constraints_in_the_set */
    /*@ variable_bound_change_keeps_the_set_closed */
    __CPROVER_ensures(!self->selective_update_active || !ALLV(O_INV) || ALLV(INV)) /*@ variable_bound_change_keeps_the_set_closed */
    /*@ variable_bound_change_keeps_the_modified_list_consistent */
    __CPROVER_ensures(1 && WF_ML)                               /*@ variable_bound_change_keeps_the_modified_list_consistent */;

#include "gen.c"

/* ---------- harnesses ------------------------------------------------------------------------------------------ */
_Bool nondet_bool(void);
double nondet_double(void);
struct System nondet_System(void);
struct Constraint nondet_Constraint(void);
struct Variable nondet_Variable(void);
struct Element nondet_Element(void);
/* pointers are chosen among constant addresses (no symbolic offsets) */
static struct Element* pick_elem(void)
{
  if (nondet_bool())
    return nondet_bool() ? &g_e0[0] : &g_e0[1];
  return nondet_bool() ? &g_e1[0] : &g_e1[1];
}
static struct Variable* pick_var(void)
{
  return nondet_bool() ? &g_v0 : &g_v1;
}
static struct Constraint* pick_cnst(void)
{
  return nondet_bool() ? &g_c0 : (nondet_bool() ? &g_c1 : &g_c2);
}
static void setup_cnst(struct Constraint* c)
{
  *c = nondet_Constraint();
  for (int k = 0; k < VF_ICAP; k++)
    c->enabled_element_set_.d[k] = pick_elem();
}
static void setup_var(struct Variable* v, struct Element* row)
{
  *v            = nondet_Variable();
  v->cnsts_.d   = row;
  v->cnsts_.h   = 0;
  v->cnsts_.cap = NE;
  for (int k = 0; k < NE; k++) {
    row[k]            = nondet_Element();
    row[k].constraint = pick_cnst();
    row[k].variable   = pick_var();
  }
}
static void setup(void)
{
  g_sys = nondet_System();
  for (int k = 0; k < VF_ICAP; k++) {
    g_sys.variable_set.d[k]            = pick_var();
    g_sys.modified_constraint_set.d[k] = pick_cnst();
  }
  setup_cnst(&g_c0);
  setup_cnst(&g_c1);
  setup_cnst(&g_c2);
  setup_var(&g_v0, g_e0);
  setup_var(&g_v1, g_e1);
  vf_exc = 0;
}

#ifdef H_rec
void harness(void)
{
  setup();
  System__update_modified_cnst_set_rec(&g_sys, pick_cnst());
  VF_CANARY_POINT;
}
#endif
#ifdef H_update_modified_cnst_set
void harness(void)
{
  setup();
  System__update_modified_cnst_set(&g_sys, pick_cnst());
  VF_CANARY_POINT;
}
#endif
#ifdef H_from_variable
void harness(void)
{
  setup();
  System__update_modified_cnst_set_from_variable(&g_sys, pick_var());
  VF_CANARY_POINT;
}
#endif
#ifdef H_remove_all
void harness(void)
{
  setup();
  System__remove_all_modified_cnst_set(&g_sys);
  VF_CANARY_POINT;
}
#endif
#ifdef H_update_constraint_bound
void harness(void)
{
  setup();
  System__update_constraint_bound(&g_sys, pick_cnst(), nondet_double());
  VF_CANARY_POINT;
}
#endif
#ifdef H_update_variable_bound
void harness(void)
{
  setup();
  System__update_variable_bound(&g_sys, pick_var(), nondet_double());
  VF_CANARY_POINT;
}
#endif
