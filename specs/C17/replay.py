import os, sys
sys.path.insert(0, os.path.join(os.path.dirname(os.path.abspath(__file__)), "..", "..", "replay"))
import native


def replay(violation, inputs, workdir, repo):
    """real lmm::System (working tree's System.cpp compiled into the driver) + MaxMin from libsimgrid: two histories
    (first constraint already modified / counter wrap), selective vs full"""
    here = os.path.dirname(os.path.abspath(__file__))
    os.makedirs(workdir, exist_ok=True)
    tu = open(os.path.join(repo, "src/kernel/lmm/System.cpp")).read()
    tu = tu.replace('"debug/lmm-leaks"', '"debug/lmm-leaks-c17-replay"')  # the library registers the original name
    with open(os.path.join(workdir, "System_tree.cpp"), "w") as f:
        f.write(tu)
    drv = os.path.join(workdir, "replay_tree.cpp")
    with open(drv, "w") as f:
        f.write('#include "%s"\n#define C17_TREE_TU_INCLUDED\n#include "%s"\n'
                % (os.path.join(workdir, "System_tree.cpp"), os.path.join(here, "replay.cpp")))
    return native.build_and_run(drv, workdir, repo, [violation["label"]])


if __name__ == "__main__":
    r = replay({"label": sys.argv[1] if len(sys.argv) > 1 else ""}, None, sys.argv[2] if len(sys.argv) > 2 else "/tmp/c17_replay",
               os.environ.get("VF_REPO", "/repo"))
    print(r.get("output") or r.get("error"))
    print("reproduced:", r["reproduced"])
