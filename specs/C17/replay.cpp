// Native replay for C17 against the REAL lmm code of the working tree (headers of the tree + libsimgrid of the build).
// Two findings, selected by a substring of the obligation label given as argv[1] (no argument: both):
//  A "variable_change_when_first_constraint_already_modified_or_variable_stamped"
//     System::update_modified_cnst_set_from_variable(var) only looks at var->cnsts_[0]: when that constraint is already in
//     modified_constraint_set the other constraints of a just-enabled variable are never added.
//     History: v uses c0,c1; u uses c1.  solve; suspend v; solve; change bound of c0; resume v; solve.
//  B "clear_leaves_no_variable_stamped_when_the_counter_wraps"
//     System::remove_all_modified_cnst_set() resets the stamps when ++visited_counter_ == 1, but the counter wraps to 0
//     first: during that epoch every variable whose stamp is 0 (created in the first epoch, or reset by the previous
//     wrap) counts as already visited, so the propagation skips it.
//     History: v (suspended, uses c0,c1), u uses c1; 2^32-1 solves; resume v; solve.   The driver performs the 2^32-2 further
//     real calls of remove_all_modified_cnst_set() (about 7 s); argv[2]=="fast" sets visited_counter_ to UINT_MAX instead.
// Each history is run on a selective-update system and on a full-update system; property C17: same rates.
// exit 1 = reproduced (rates differ), 0 = not reproduced.
// replay.py compiles the WORKING TREE's System.cpp into the driver (a copy whose config-flag name is changed, because the
// library registers "debug/lmm-leaks" already): the driver's definitions take precedence over libsimgrid.so, so the replay
// follows the source even when the library has not been rebuilt. Compiled alone, this file shows the library's behaviour.
#ifndef C17_TREE_TU_INCLUDED
#include "src/kernel/lmm/System.hpp"
#endif
#include "src/kernel/lmm/maxmin.hpp"
#include <cstdio>
#include <cstring>
using namespace simgrid::kernel::lmm;
struct S {
  System* sys;
  Constraint *c0, *c1;
  Variable *v, *u;
};
// System::solve() minus the Action bookkeeping (variables have no Action here): same calls in the same order
static void solve(S& s)
{
  if (not s.sys->modified_)
    return;
  s.sys->do_solve();
  s.sys->modified_ = false;
  if (s.sys->selective_update_active)
    s.sys->remove_all_modified_cnst_set();
}
static S mk(bool selective, double v_penalty)
{
  S s;
  s.sys = System::build("maxmin", selective);
  s.c0  = s.sys->constraint_new(nullptr, 10.0);
  s.c1  = s.sys->constraint_new(nullptr, 10.0);
  s.v   = s.sys->variable_new(nullptr, v_penalty, -1.0, 2);
  s.u   = s.sys->variable_new(nullptr, 1.0, -1.0, 1);
  s.sys->expand(s.c0, s.v, 1.0);
  s.sys->expand(s.c1, s.v, 1.0);
  s.sys->expand(s.c1, s.u, 1.0);
  return s;
}
static int verdict(const char* what, S& sel, S& full)
{
  printf("%s: selective v=%g u=%g | full v=%g u=%g | load on c1 (capacity 10) with selective update: %g\n", what,
         sel.v->get_value(), sel.u->get_value(), full.v->get_value(), full.u->get_value(),
         sel.v->get_value() + sel.u->get_value());
  bool differ = sel.v->get_value() != full.v->get_value() || sel.u->get_value() != full.u->get_value();
  printf(differ ? "  REPRODUCED: selective update differs from full recomputation\n" : "  ok\n");
  return differ;
}
static void hist_a(S& s)
{
  solve(s);
  s.sys->update_variable_penalty(s.v, 0.0); // suspend v
  solve(s);
  s.sys->update_constraint_bound(s.c0, 20.0); // c0 enters the modified set (v is disabled: nothing propagates)
  s.sys->update_variable_penalty(s.v, 1.0);   // resume v: cnsts_[0] == c0 is already in the set, c1 is never added
  solve(s);
}
static void hist_b(S& s, bool full_loop)
{
  solve(s); // epoch 1 -> 2; v was created with stamp visited_counter_-1 == 0 and is disabled: never visited
  if (s.sys->selective_update_active) {
    if (full_loop) {
      for (unsigned long long i = 0; i < (1ull << 32) - 2; i++)
        s.sys->remove_all_modified_cnst_set(); // what 2^32-2 further solves do to the counter (2 -> wrap)
    } else {
      s.sys->visited_counter_ = 0xffffffffu;
      s.sys->remove_all_modified_cnst_set(); // the wrapping call
    }
    printf("  visited_counter_=%u v.visited_=%u\n", s.sys->visited_counter_, s.v->visited_);
  }
  s.sys->update_variable_penalty(s.v, 1.0); // resume v: c0 is pushed, the propagation skips v (stamp 0 == counter 0)
  solve(s);
}
int main(int argc, char** argv)
{
  const char* lab = argc > 1 ? argv[1] : "";
  bool full_loop  = not(argc > 2 && strcmp(argv[2], "fast") == 0);
  int rep         = 0;
  if (*lab == 0 || strstr(lab, "variable_change") || strstr(lab, "closed")) {
    S a = mk(true, 1.0), b = mk(false, 1.0);
    hist_a(a);
    hist_a(b);
    rep |= verdict("A (suspend v, change c0, resume v)", a, b);
  }
  if (*lab == 0 || strstr(lab, "clear_") || strstr(lab, "wrap")) {
    S a = mk(true, 0.0), b = mk(false, 0.0);
    hist_b(a, full_loop);
    hist_b(b, full_loop);
    rep |= verdict("B (resume v in the epoch where visited_counter_ wrapped to 0)", a, b);
  }
  return rep ? 1 : 0;
}
