/* C39 — Declared-independent transitions commute; the dependency relation is symmetric.
 * Units: Transition::dispatch_depends (src/mc/transition/Transition.cpp) with every getter it reads,
 * BarrierTransition::depends, TestAny/WaitAnyTransition::get_current_transition — all extracted from the real code.
 * dependency_table is the consteval table of the working tree, evaluated by g++ (gen_table.py -> table.h).
 *
 * (a) symmetry lemma over the FULL domain of pairs of transitions (this file, harness `symmetry`):
 *     two symbolic transition objects of any Transition::Type, every field symbolic, TESTANY/WAITANY wrapping
 *     up to NINNER inner transitions.
 * (b) commutation of the pairs declared independent inside the mutex group, on the real MutexImpl code: harness
 *     family `commute_*` (see below).                                                                             */
#include "gen.h"
#include "table.h"
#include "gen.c"

#ifndef NINNER
#define NINNER 3
#endif

int nondet_int(void);
size_t nondet_size(void);

/* Transition::Type values come from the real enum through cxx2c only for the constants the units mention; the full
 * list is needed here to allocate an object of the right dynamic class per type (mapping: deserialize_transition). */
enum {
  T_RANDOM, T_ACTOR_JOIN, T_ACTOR_SLEEP, T_ACTOR_CREATE, T_ACTOR_EXIT, T_TESTANY, T_WAITANY, T_BARRIER_ASYNC_LOCK,
  T_BARRIER_WAIT, T_COMM_ASYNC_RECV, T_COMM_ASYNC_SEND, T_COMM_IPROBE, T_COMM_TEST, T_COMM_WAIT, T_MUTEX_ASYNC_LOCK,
  T_MUTEX_TEST, T_MUTEX_TRYLOCK, T_MUTEX_UNLOCK, T_MUTEX_WAIT, T_MUTEX_LOCK_NOMC, T_SEM_ASYNC_LOCK, T_SEM_UNLOCK,
  T_SEM_WAIT, T_SEM_LOCK_NOMC, T_CONDVAR_ASYNC_LOCK, T_CONDVAR_BROADCAST, T_CONDVAR_SIGNAL, T_CONDVAR_WAIT,
  T_CONDVAR_NOMC, T_UNKNOWN
};
/* the hand-written list above must agree with the real enum: checked against the constants cxx2c extracted */
_Static_assert(T_TESTANY == Type__TESTANY && T_WAITANY == Type__WAITANY && T_BARRIER_ASYNC_LOCK == Type__BARRIER_ASYNC_LOCK &&
                   T_BARRIER_WAIT == Type__BARRIER_WAIT && T_UNKNOWN + 1 == VF_NUM_TYPES,
               "Transition::Type changed: update the enum of specs/C39/spec.c");
#define IS_NOMC(t) ((t) == T_MUTEX_LOCK_NOMC || (t) == T_SEM_LOCK_NOMC || (t) == T_CONDVAR_NOMC)
#define IS_ANY(t) ((t) == T_TESTANY || (t) == T_WAITANY)

/* object of the dynamic class the checker builds for this type (exact size: a cast to a wrong class is an
 * out-of-bounds read and fails a pointer check) */
static struct Transition* alloc_plain(int type)
{
  size_t sz = sizeof(struct Transition);
  switch (type) {
    case T_ACTOR_JOIN: sz = sizeof(struct ActorJoinTransition); break;
    case T_ACTOR_CREATE: sz = sizeof(struct ActorCreateTransition); break;
    case T_BARRIER_ASYNC_LOCK:
    case T_BARRIER_WAIT: sz = sizeof(struct BarrierTransition); break;
    case T_COMM_ASYNC_RECV: sz = sizeof(struct CommRecvTransition); break;
    case T_COMM_ASYNC_SEND: sz = sizeof(struct CommSendTransition); break;
    case T_COMM_IPROBE: sz = sizeof(struct CommIprobeTransition); break;
    case T_COMM_TEST: sz = sizeof(struct CommTestTransition); break;
    case T_COMM_WAIT: sz = sizeof(struct CommWaitTransition); break;
    case T_MUTEX_ASYNC_LOCK:
    case T_MUTEX_TEST:
    case T_MUTEX_TRYLOCK:
    case T_MUTEX_UNLOCK:
    case T_MUTEX_WAIT:
    case T_MUTEX_LOCK_NOMC: sz = sizeof(struct MutexTransition); break;
    case T_SEM_ASYNC_LOCK:
    case T_SEM_UNLOCK:
    case T_SEM_WAIT:
    case T_SEM_LOCK_NOMC: sz = sizeof(struct SemaphoreTransition); break;
    case T_CONDVAR_ASYNC_LOCK:
    case T_CONDVAR_BROADCAST:
    case T_CONDVAR_SIGNAL:
    case T_CONDVAR_WAIT:
    case T_CONDVAR_NOMC: sz = sizeof(struct CondvarTransition); break;
    default: break;
  }
  struct Transition* t = (struct Transition*)malloc(sz); /* contents nondeterministic: every field symbolic */
  __CPROVER_assume(t != NULL);
  t->type_ = type;
  return t;
}

static struct Transition* alloc_any(int type)
{
  /* TestAnyTransition / WaitAnyTransition: a vector of inner CommTest / CommWait transitions (their constructors
   * deserialize exactly those) and times_considered_ selecting one */
  struct Transition* t;
  struct vf_seq_TransitionP* seq;
  if (type == T_TESTANY) {
    struct TestAnyTransition* x = (struct TestAnyTransition*)malloc(sizeof(struct TestAnyTransition));
    __CPROVER_assume(x != NULL);
    t   = &x->__b_Transition;
    seq = &x->transitions_;
  } else {
    struct WaitAnyTransition* x = (struct WaitAnyTransition*)malloc(sizeof(struct WaitAnyTransition));
    __CPROVER_assume(x != NULL);
    t   = &x->__b_Transition;
    seq = &x->transitions_;
  }
  t->type_ = type;
  seq->d   = (struct Transition**)malloc(sizeof(struct Transition*) * NINNER);
  __CPROVER_assume(seq->d != NULL);
  seq->h   = 0;
  seq->cap = NINNER;
  size_t n = nondet_size();
  __CPROVER_assume(n <= NINNER);
  seq->n = n;
  if (type == T_TESTANY) /* invariant of TestAnyTransition: times_considered_ designates one of its tests */
    __CPROVER_assume(t->times_considered_ < n);
  for (int k = 0; k < NINNER; k++)
    seq->d[k] = alloc_plain(type == T_TESTANY ? T_COMM_TEST : T_COMM_WAIT);
  return t;
}

static struct Transition* any_transition(void)
{
  int type = nondet_int();
  __CPROVER_assume(0 <= type && type <= T_UNKNOWN);
  return IS_ANY(type) ? alloc_any(type) : alloc_plain(type);
}

#ifdef H_symmetry
void harness(void)
{
  struct Transition* a = any_transition();
  struct Transition* b = any_transition();
  vf_exc               = 0;
  _Bool r1             = Transition__dispatch_depends(a, b);
  int e1               = vf_exc;
  vf_exc               = 0;
  _Bool r2             = Transition__dispatch_depends(b, a);
  int e2               = vf_exc;
  __CPROVER_assert(e1 == e2, "a.depends(b) is rejected iff b.depends(a) is"); /*@ depends_rejection_symmetric */
  __CPROVER_assert(e1 != 0 || r1 == r2, "dependency relation is symmetric"); /*@ depends_symmetric */
  __CPROVER_assert(e1 == 0 || e1 == VF_EXC_ABORT, "only aborts"); /*@ depends_only_aborts */
  __CPROVER_assert(a->aid_.value_ != b->aid_.value_ || (e1 == 0 && r1),
                   "transitions of the same actor are dependent"); /*@ same_actor_dependent */
  __CPROVER_assert(a->aid_.value_ == b->aid_.value_ || IS_ANY(a->type_) || IS_ANY(b->type_) ||
                       !(IS_NOMC(a->type_) || IS_NOMC(b->type_)) || e1 == VF_EXC_ABORT,
                   "NOMC transitions are never evaluated"); /*@ nomc_rejected */
  VF_CANARY_POINT;
}
#endif

#ifdef H_table
/* the compile-time table as evaluated by the real compiler: symmetric, every action a known enumerator */
void harness(void)
{
  for (int i = 0; i < VF_NUM_TYPES; i++)
    for (int j = 0; j < VF_NUM_TYPES; j++) {
      __CPROVER_assert(dependency_table.a[i].a[j] == dependency_table.a[j].a[i], "table symmetric"); /*@ table_symmetric */
      __CPROVER_assert(dependency_table.a[i].a[j] >= 0 &&
                           dependency_table.a[i].a[j] <= DependencyAction__EVAL_COMM_TEST_WAIT,
                       "table cell initialised with a known action"); /*@ table_cells_valid */
    }
  VF_CANARY_POINT;
}
#endif

/* =====================================================================================================================
 * (b) Commutation of declared-independent pairs, mutex group, on the REAL MutexImpl code.
 * Two copies W[0], W[1] of one symbolic well-formed mutex state; actors A != B; op1 by A, op2 by B on that mutex.
 * If the real dispatch_depends says the two transitions are independent and both are enabled, then
 *   op1;op2 on W[0]  and  op2;op1 on W[1]  end in the same abstract state with the same results,
 * and neither disables the other. Transition kind -> kernel call mapping (from MutexObserver / s4u::Mutex):
 *   MUTEX_ASYNC_LOCK -> MutexImpl::lock_async, MUTEX_TRYLOCK -> try_lock, MUTEX_UNLOCK -> unlock,
 *   MUTEX_TEST -> MutexAcquisitionImpl::test, MUTEX_WAIT -> MutexAcquisitionImpl::wait_for (enabled iff is_granted).
 * ===================================================================================================================== */
#if defined(H_commute)
#ifndef QCAP
#define QCAP 2
#endif
#define QSZ (QCAP + 4)
#define NACT 3
struct ActorImpl c_act[NACT];
struct ActivityImpl* c_ws[NACT][2];
/* two worlds; every acquisition is an object of its own (pointer dereferences then split over objects at constant
 * offsets instead of symbolic offsets into one big aggregate, which CBMC's bit-blasting does not survive) */
struct MutexImpl c_m[2];
struct MutexAcquisitionImpl* c_acq[2][QSZ];
struct MutexAcquisitionImpl* c_qd[2][QSZ];
int c_answered[2]; /* ghost: simcall_answer calls per world */
int cur_world;

/* assumed callees of C04 get deterministic stub bodies here (plain lemma harness: no contract replacement) */
void ActivityImpl__register_simcall(struct ActivityImpl* self, struct Simcall* sc) { self->simcalls_.n++; }
struct ActorImpl* ActivityImpl__unregister_first_simcall(struct ActivityImpl* self)
{
  self->simcalls_.n--;
  return &c_act[0]; /* identity of the answered actor is irrelevant to the mutex view */
}
void ActorImpl__simcall_answer(struct ActorImpl* self) { c_answered[cur_world]++; }
void ActivityImpl_T_MutexAcquisitionImpl__ctor(struct ActivityImpl_T_MutexAcquisitionImpl* self)
{
  self->__b_ActivityImpl.simcalls_.n = 0;
}

struct sym { /* the symbolic description shared by both worlds */
  _Bool recursive;
  int owner; /* -1 free, else actor index */
  int depth;
  size_t h, n;
  int issuer[QSZ];
  int depth_[QSZ];
  _Bool granted[QSZ];
  size_t simcalls[QSZ];
};

static void build(int wi, const struct sym* s)
{
  c_m[wi].is_recursive_             = s->recursive;
  c_m[wi].owner_                    = s->owner < 0 ? NULL : &c_act[s->owner];
  c_m[wi].recursive_depth           = s->depth;
  c_m[wi].ongoing_acquisitions_.d   = c_qd[wi];
  c_m[wi].ongoing_acquisitions_.h   = s->h;
  c_m[wi].ongoing_acquisitions_.n   = s->n;
  c_m[wi].ongoing_acquisitions_.cap = QSZ;
  c_answered[wi]                    = 0;
  for (int k = 0; k < QSZ; k++) {
    struct MutexAcquisitionImpl* q = (struct MutexAcquisitionImpl*)malloc(sizeof(struct MutexAcquisitionImpl));
    __CPROVER_assume(q != NULL);
    c_acq[wi][k]        = q;
    c_qd[wi][k]         = q;
    q->issuer_          = &c_act[s->issuer[k]];
    q->mutex_           = &c_m[wi];
    q->recursive_depth_ = s->depth_[k];
    q->granted_         = s->granted[k];
    q->__b_ActivityImpl_T_MutexAcquisitionImpl.__b_ActivityImpl.simcalls_.n = s->simcalls[k];
    q->__b_ActivityImpl_T_MutexAcquisitionImpl.__b_ActivityImpl.simcalls_.d = NULL;
  }
}

struct res { _Bool b; _Bool aborted; };
static struct res apply(int kind, int wi, int x, size_t handle)
{
  struct res r = {0, 0};
  cur_world    = wi;
  vf_exc       = 0;
  switch (kind) {
    case T_MUTEX_ASYNC_LOCK: MutexImpl__lock_async(&c_m[wi], &c_act[x]); break;
    case T_MUTEX_TRYLOCK: r.b = MutexImpl__try_lock(&c_m[wi], &c_act[x]); break;
    case T_MUTEX_UNLOCK: MutexImpl__unlock(&c_m[wi], &c_act[x]); break;
    case T_MUTEX_TEST:
      for (size_t k = 0; k < QSZ; k++)
        if (k == handle)
          r.b = MutexAcquisitionImpl__test(c_acq[wi][k], &c_act[x]);
      break;
    default:
      for (size_t k = 0; k < QSZ; k++)
        if (k == handle)
          MutexAcquisitionImpl__wait_for(c_acq[wi][k], &c_act[x], -1.0);
      break;
  }
  r.aborted = vf_exc != 0;
  return r;
}
/* enabledness as the application side defines it (MutexObserver / MutexAcquisitionObserver::is_enabled);
 * UNLOCK by a non-owner is not a transition of a valid program (it aborts) */
static _Bool enabled(int kind, int wi, int x, size_t handle)
{
  if (kind == T_MUTEX_WAIT) {
    _Bool g = 0;
    for (size_t k = 0; k < QSZ; k++)
      if (k == handle)
        g = MutexAcquisitionImpl__is_granted(c_acq[wi][k]);
    return g && c_m[wi].owner_ == &c_act[x];
  }
  if (kind == T_MUTEX_UNLOCK)
    return c_m[wi].owner_ == &c_act[x];
  return 1;
}
static _Bool granted_of(int wi, size_t handle)
{
  _Bool g = 0;
  for (size_t k = 0; k < QSZ; k++)
    if (k == handle)
      g = c_acq[wi][k]->granted_;
  return g;
}
#define WQ(wi, k) (c_m[wi].ongoing_acquisitions_.d[c_m[wi].ongoing_acquisitions_.h + (k)])

void harness(void)
{
  struct sym s;
  size_t gk = nondet_size(); /* ghost index over queue positions */
  /* well-formed mutex state (WF_MUTEX of specs/C04) */
  __CPROVER_assume(s.h <= 1 && s.n <= QCAP && -1 <= s.owner && s.owner < NACT);
  __CPROVER_assume(s.owner >= 0 || s.n == 0);
  __CPROVER_assume(!s.recursive || (s.depth >= 0 && s.depth < 1000 && ((s.owner < 0) == (s.depth == 0))));
  for (int k = 0; k < QSZ; k++) {
    __CPROVER_assume(0 <= s.issuer[k] && s.issuer[k] < NACT && 1 <= s.depth_[k] && s.depth_[k] < 1000 &&
                     s.simcalls[k] == 0); /* nobody waits on these acquisitions yet */
    if (s.h <= k && k < s.h + s.n) { /* queued: not granted, (recursive) not the owner, issuers distinct */
      __CPROVER_assume(!s.granted[k] && (!s.recursive || s.issuer[k] != s.owner));
      for (int j = 0; j < k; j++)
        if (s.h <= j)
          __CPROVER_assume(!s.recursive || s.issuer[j] != s.issuer[k]);
    } else /* a handle outside the queue is granted only if its issuer owns the mutex */
      __CPROVER_assume(!s.granted[k] || s.issuer[k] == s.owner);
  }
  for (int a = 0; a < NACT; a++) { /* waiting_synchros_ hold no mutex acquisition: finish() only through wait_for */
    c_act[a].waiting_synchros_.d   = c_ws[a];
    c_act[a].waiting_synchros_.h   = 0;
    c_act[a].waiting_synchros_.cap = 2;
    c_act[a].waiting_synchros_.n   = 0;
  }
  build(0, &s);
  build(1, &s);
  int op1 = OP1, op2 = OP2; /* one harness instance per pair of mutex transition kinds (-DOP1= -DOP2=) */
  int A = 0, B = 1;
  size_t hA = nondet_size(), hB = nondet_size(); /* acquisition handles used by TEST / WAIT */
  __CPROVER_assume(hA < QSZ && hB < QSZ && hA != hB && s.issuer[hA] == A && s.issuer[hB] == B);
  /* the two MC transitions and the checker's verdict, by the real code */
  struct MutexTransition ta, tb;
  ta.__b_Transition.type_ = op1; ta.__b_Transition.aid_.value_ = 1; ta.mutex_ = 7;
  tb.__b_Transition.type_ = op2; tb.__b_Transition.aid_.value_ = 2; tb.mutex_ = 7;
  vf_exc          = 0;
  _Bool dependent = Transition__dispatch_depends(&ta.__b_Transition, &tb.__b_Transition);
  __CPROVER_assert(vf_exc == 0, "dispatch_depends accepts mutex transitions"); /*@ mutex_pair_evaluated */
  if (dependent)
    return; /* nothing to prove for pairs the checker treats as dependent */
  __CPROVER_assume(enabled(op1, 0, A, hA) && enabled(op2, 0, B, hB)); /* both enabled */
  /* order 1 in world 0, order 2 in world 1 */
  struct res r1a = apply(op1, 0, A, hA);
  _Bool b_still  = enabled(op2, 0, B, hB);
  struct res r1b = apply(op2, 0, B, hB);
  struct res r2b = apply(op2, 1, B, hB);
  _Bool a_still  = enabled(op1, 1, A, hA);
  struct res r2a = apply(op1, 1, A, hA);
  __CPROVER_assert(b_still && a_still, "independent transitions do not disable each other"); /*@ indep_no_disabling */
  __CPROVER_assert(!r1a.aborted && !r1b.aborted && !r2a.aborted && !r2b.aborted, "no abort"); /*@ indep_no_abort */
  __CPROVER_assert(r1a.b == r2a.b && r1b.b == r2b.b, "same results in both orders"); /*@ indep_same_results */
  __CPROVER_assert((c_m[0].owner_ == c_m[1].owner_) &&
                       c_m[0].ongoing_acquisitions_.n == c_m[1].ongoing_acquisitions_.n &&
                       (!s.recursive || c_m[0].recursive_depth == c_m[1].recursive_depth),
                   "same owner, count and queue length in both orders"); /*@ indep_same_owner_and_count */
  __CPROVER_assert(!(gk < c_m[0].ongoing_acquisitions_.n) ||
                       (WQ(0, gk)->issuer_ == WQ(1, gk)->issuer_ &&
                        WQ(0, gk)->recursive_depth_ == WQ(1, gk)->recursive_depth_ &&
                        WQ(0, gk)->granted_ == WQ(1, gk)->granted_),
                   "same queue contents in both orders"); /*@ indep_same_queue */
  __CPROVER_assert(granted_of(0, hA) == granted_of(1, hA) && granted_of(0, hB) == granted_of(1, hB) &&
                       c_answered[0] == c_answered[1],
                   "same acquisition states and wake-ups in both orders"); /*@ indep_same_handles */
  VF_CANARY_POINT;
}
#endif

/* =====================================================================================================================
 * (b') Commutation inside the semaphore group, on the REAL SemaphoreImpl code: SEM_ASYNC_LOCK -> acquire_async,
 * SEM_UNLOCK -> release. The capacity field of the MC transition is what the application side packs
 * (SemaphoreObserver::serialize): get_capacity() - |ongoing_acquisitions_|, evaluated in the state where the
 * transition is pending. SEM_WAIT pairs are not covered here (wait_for only touches the acquisition and the actor).
 * ===================================================================================================================== */
#if defined(H_commute_sem)
#ifndef QCAP
#define QCAP 2
#endif
#define SSZ (QCAP + 4)
struct ActorImpl s_act[3];
struct ActivityImpl* s_ws[3][2];
struct SemaphoreImpl s_sem[2];
struct SemAcquisitionImpl* s_qd[2][SSZ];
struct SemAcquisitionImpl* s_new[2][2]; /* acquisitions created by the (at most two) LOCKs of each world */
int s_newcnt[2];
int s_world;

/* constructor of SemAcquisitionImpl: modelled (it sets issuer_/semaphore_, granted_ = false and a name string) */
struct SemAcquisitionImpl* SemAcquisitionImpl__new(struct ActorImpl* issuer, struct SemaphoreImpl* sem)
{
  struct SemAcquisitionImpl* q = (struct SemAcquisitionImpl*)malloc(sizeof(struct SemAcquisitionImpl));
  __CPROVER_assume(q != NULL);
  q->issuer_  = issuer;
  q->granted_ = 0;
  if (s_newcnt[s_world] < 2)
    s_new[s_world][s_newcnt[s_world]] = q;
  s_newcnt[s_world]++;
  return q;
}
void SemAcquisitionImpl__finish(struct SemAcquisitionImpl* self) {} /* unreachable: waiting_synchros_ are empty */
void ActivityImpl__register_simcall(struct ActivityImpl* self, struct Simcall* sc) {}
struct ActorImpl* ActivityImpl__unregister_first_simcall(struct ActivityImpl* self) { return NULL; }
void ActorImpl__simcall_answer(struct ActorImpl* self) {}
void ActivityImpl_T_MutexAcquisitionImpl__ctor(struct ActivityImpl_T_MutexAcquisitionImpl* self) {}

struct ssym { unsigned value; size_t n; int issuer[SSZ]; };
static void sbuild(int wi, const struct ssym* s)
{
  s_sem[wi].value_                    = s->value;
  s_sem[wi].ongoing_acquisitions_.d   = s_qd[wi];
  s_sem[wi].ongoing_acquisitions_.h   = 0;
  s_sem[wi].ongoing_acquisitions_.n   = s->n;
  s_sem[wi].ongoing_acquisitions_.cap = SSZ;
  s_newcnt[wi]                        = 0;
  for (int k = 0; k < SSZ; k++) {
    struct SemAcquisitionImpl* q = (struct SemAcquisitionImpl*)malloc(sizeof(struct SemAcquisitionImpl));
    __CPROVER_assume(q != NULL);
    s_qd[wi][k] = q;
    q->issuer_  = &s_act[s->issuer[k]];
    q->granted_ = 0;
  }
}
static void sapply(int kind, int wi, int x)
{
  s_world = wi;
  vf_exc  = 0;
  if (kind == T_SEM_ASYNC_LOCK)
    SemaphoreImpl__acquire_async(&s_sem[wi], &s_act[x]);
  else
    SemaphoreImpl__release(&s_sem[wi]);
}
static int pending_capacity(int wi) /* what SemaphoreObserver::serialize packs for a pending LOCK/UNLOCK */
{
  return (int)SemaphoreImpl__get_capacity(&s_sem[wi]) - (int)s_sem[wi].ongoing_acquisitions_.n;
}
#define SQ(wi, k) (s_sem[wi].ongoing_acquisitions_.d[s_sem[wi].ongoing_acquisitions_.h + (k)])

void harness(void)
{
  struct ssym s;
  size_t gk = nondet_size();
  /* well-formed semaphore: free tokens and waiters never coexist (WF of specs/C05) */
  __CPROVER_assume(s.value <= 1000 && s.n <= QCAP && (s.value == 0 || s.n == 0));
  for (int k = 0; k < SSZ; k++)
    __CPROVER_assume(0 <= s.issuer[k] && s.issuer[k] < 3);
  for (int a = 0; a < 3; a++) {
    s_act[a].waiting_synchros_.d   = s_ws[a];
    s_act[a].waiting_synchros_.h   = 0;
    s_act[a].waiting_synchros_.cap = 2;
    s_act[a].waiting_synchros_.n   = 0;
  }
  sbuild(0, &s);
  sbuild(1, &s);
  int op1 = OP1, op2 = OP2, A = 0, B = 1;
  struct SemaphoreTransition ta, tb; /* both pending in the same state: same capacity field */
  ta.__b_Transition.type_ = op1; ta.__b_Transition.aid_.value_ = 1; ta.sem_ = 7; ta.capacity_ = pending_capacity(0);
  tb.__b_Transition.type_ = op2; tb.__b_Transition.aid_.value_ = 2; tb.sem_ = 7; tb.capacity_ = pending_capacity(0);
  vf_exc          = 0;
  _Bool dependent = Transition__dispatch_depends(&ta.__b_Transition, &tb.__b_Transition);
  __CPROVER_assert(vf_exc == 0, "dispatch_depends accepts semaphore transitions"); /*@ sem_pair_evaluated */
  if (dependent)
    return;
  sapply(op1, 0, A);
  sapply(op2, 0, B);
  sapply(op2, 1, B);
  sapply(op1, 1, A);
  __CPROVER_assert(s_sem[0].value_ == s_sem[1].value_ &&
                       s_sem[0].ongoing_acquisitions_.n == s_sem[1].ongoing_acquisitions_.n,
                   "same number of tokens and waiters in both orders"); /*@ sem_indep_same_tokens_and_waiters */
  __CPROVER_assert(!(gk < s_sem[0].ongoing_acquisitions_.n) ||
                       (SQ(0, gk)->issuer_ == SQ(1, gk)->issuer_ && SQ(0, gk)->granted_ == SQ(1, gk)->granted_),
                   "same waiting queue in both orders"); /*@ sem_indep_same_queue */
  /* the acquisitions created by A's and B's LOCKs end up granted in both orders or in neither */
  __CPROVER_assert(s_newcnt[0] == s_newcnt[1], "same number of acquisitions created"); /*@ sem_indep_same_creations */
  if (op1 == T_SEM_ASYNC_LOCK && op2 == T_SEM_ASYNC_LOCK) /* world 0 creates A's then B's, world 1 B's then A's */
    __CPROVER_assert(s_new[0][0]->granted_ == s_new[1][1]->granted_ && s_new[0][1]->granted_ == s_new[1][0]->granted_,
                     "each locker is granted in both orders or in neither"); /*@ sem_indep_same_grants */
  if (op1 == T_SEM_ASYNC_LOCK && op2 == T_SEM_UNLOCK)
    __CPROVER_assert(s_new[0][0]->granted_ == s_new[1][0]->granted_,
                     "the locker is granted in both orders or in neither"); /*@ sem_indep_same_grant_vs_unlock */
  VF_CANARY_POINT;
}
#endif
