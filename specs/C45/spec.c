/* C45 — Random draws are in range, unbiased and portable.
 * Units: XbtRandom::uniform_int, XbtRandom::uniform_real (src/xbt/random.cpp), extracted by cxx2c.
 * The Mersenne twister itself is an assumed callee: std::mt19937::operator() returns a value in [0, 2^32-1]
 * (that is the C++ standard's contract for it). Ghost: number of draws, first and last drawn value.            */
#include "gen.h"

#define MT_MAX 4294967295UL
unsigned long g_draws;       /* number of calls to the generator */
unsigned long g_first_value; /* value of the first draw */
unsigned long g_last_value;  /* value of the latest draw */

unsigned long vf_mt19937_next(struct vf_mt19937* g)
    __CPROVER_requires(1)
    __CPROVER_assigns(g_draws, g_first_value, g_last_value)
    __CPROVER_ensures(__CPROVER_return_value <= MT_MAX && g_last_value == __CPROVER_return_value &&
                      g_draws == (__CPROVER_old(g_draws) == ULONG_MAX ? ULONG_MAX : __CPROVER_old(g_draws) + 1) &&
                      (__CPROVER_old(g_draws) != 0 || g_first_value == __CPROVER_return_value) &&
                      (__CPROVER_old(g_draws) == 0 || g_first_value == __CPROVER_old(g_first_value)));

/* spec functions, written from the property statement */
#define RANGE(min, max) ((unsigned long)((unsigned)(max) - (unsigned)(min)) + 1UL) /* number of values in [min,max] */
#define LIMIT(min, max) (MT_MAX - MT_MAX % RANGE(min, max)) /* largest multiple of RANGE not above 2^32-1 */

int XbtRandom__uniform_int(struct XbtRandom* self, int min, int max)
    __CPROVER_requires(__CPROVER_is_fresh(self, sizeof(*self)) && vf_exc == 0 && g_draws == 0)
    __CPROVER_assigns(vf_exc, g_draws, g_first_value, g_last_value)
    __CPROVER_ensures((vf_exc == VF_EXC_ABORT) == (min > max))                        /*@ uniform_int_rejects_empty_range */
    __CPROVER_ensures(vf_exc == 0 || vf_exc == VF_EXC_ABORT)
    __CPROVER_ensures(vf_exc != 0 || (min <= __CPROVER_return_value && __CPROVER_return_value <= max))
    /*@ uniform_int_in_range */
    __CPROVER_ensures(vf_exc != 0 || g_draws >= 1)                                    /*@ uniform_int_uses_the_generator */
    __CPROVER_ensures(vf_exc != 0 || RANGE(min, max) == MT_MAX + 1UL ||
                      g_last_value < LIMIT(min, max))                                  /*@ uniform_int_accepts_only_below_limit */
    __CPROVER_ensures(vf_exc != 0 || RANGE(min, max) == MT_MAX + 1UL || !(g_first_value < LIMIT(min, max)) ||
                      g_draws == 1)                                                    /*@ uniform_int_accepts_everything_below_limit */
#ifdef RESIDUE /* undecided on every back end (two 64-bit remainder circuits to be proved equal): not claimed */
    __CPROVER_ensures(vf_exc != 0 || RANGE(min, max) == MT_MAX + 1UL ||
                      (unsigned)__CPROVER_return_value - (unsigned)min ==
                          (unsigned)(g_last_value % RANGE(min, max)))                 /*@ uniform_int_is_residue_of_accepted_draw */
#endif
    __CPROVER_ensures(vf_exc != 0 || RANGE(min, max) != MT_MAX + 1UL ||
                      ((unsigned)__CPROVER_return_value - (unsigned)min == (unsigned)g_last_value && g_draws == 1))
    /*@ uniform_int_full_range_is_identity */;

/* rejection loop: no variant (termination is probabilistic, not proved) */
#define VF_LOOP_XbtRandom__uniform_int_0                                                                               \
  __CPROVER_assigns(value, g_draws, g_first_value, g_last_value)                                                       \
      __CPROVER_loop_invariant((g_draws == 0 || g_first_value >= limit) && limit == LIMIT(min, max) &&                 \
                               range == RANGE(min, max))

double XbtRandom__uniform_real(struct XbtRandom* self, double min, double max)
    __CPROVER_requires(__CPROVER_is_fresh(self, sizeof(*self)) && vf_exc == 0 && g_draws == 0)
    __CPROVER_assigns(g_draws, g_first_value, g_last_value)
    __CPROVER_ensures(g_last_value < MT_MAX && g_draws >= 1)                           /*@ uniform_real_numerator_below_divisor */
    __CPROVER_ensures(__CPROVER_isnand(__CPROVER_return_value) ||
                      __CPROVER_return_value == min + (max - min) * (double)g_last_value / 4294967295.0)
    /*@ uniform_real_formula */
#ifdef REAL_RANGE
    __CPROVER_ensures(!(__CPROVER_isfinited(min) && __CPROVER_isfinited(max) && min <= max &&
                        __CPROVER_isfinited(max - min)) ||
                      (min <= __CPROVER_return_value && __CPROVER_return_value <= max)) /*@ uniform_real_in_range */
#endif
    ;
#define VF_LOOP_XbtRandom__uniform_real_0                                                                              \
  __CPROVER_assigns(numerator, g_draws, g_first_value, g_last_value) __CPROVER_loop_invariant(divisor == MT_MAX)

#include "gen.c"

int nondet_int(void);
double nondet_double(void);
#ifdef H_uniform_int
void harness(void)
{
  struct XbtRandom* r;
  int min = nondet_int(), max = nondet_int();
  XbtRandom__uniform_int(r, min, max);
  VF_CANARY_POINT;
}
#endif
#if defined(H_uniform_real) || defined(H_uniform_real_range)
void harness(void)
{
  struct XbtRandom* r;
  XbtRandom__uniform_real(r, nondet_double(), nondet_double());
  VF_CANARY_POINT;
}
#endif
