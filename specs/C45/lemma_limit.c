/* Arithmetic lemma of C45, checked by exhaustive native enumeration (CBMC's back ends do not decide 64-bit
 * remainder facts): for every range size R in [1, 2^32-1], LIMIT(R) = M - M % R (M = 2^32-1, the spec function of
 * specs/C45/spec.c) is a positive multiple of R, at most M, and the largest such. Together with the proved
 * contract "a draw v is accepted iff v < LIMIT(R), the result is v % R + min" this gives: every value of [min,max]
 * has exactly LIMIT(R)/R accepted pre-images, i.e. uniform_int is unbiased.
 * usage: lemma_limit quick|thorough ; prints the number of R checked; exit 1 with a counterexample otherwise. */
#include <stdio.h>
#include <stdlib.h>
#include <string.h>

#define M 4294967295UL

static int bad(unsigned long r)
{
  unsigned long l = M - M % r;
  return !(l > 0 && l <= M && l % r == 0 && M - l < r);
}

int main(int argc, char** argv)
{
  int thorough           = argc > 1 && strcmp(argv[1], "thorough") == 0;
  unsigned long checked  = 0;
  unsigned long failures = 0;
  unsigned long first    = 0;
  if (thorough) {
#pragma omp parallel for reduction(+ : checked, failures) schedule(static)
    for (unsigned long r = 1; r <= M; r++) {
      checked++;
      if (bad(r)) {
        failures++;
#pragma omp critical
        if (!first)
          first = r;
      }
    }
  } else {
    for (unsigned long r = 1; r < 65536; r++, checked++)
      if (bad(r) && !failures++)
        first = r;
    for (unsigned long r = 65536; r <= M; r += 251, checked++) /* 2^24 samples, stride coprime with powers of two */
      if (bad(r) && !failures++)
        first = r;
    for (int k = 1; k < 33; k++)
      for (long d = -2; d <= 2; d++) {
        unsigned long r = (1UL << k) + d;
        if (r >= 1 && r <= M) {
          checked++;
          if (bad(r) && !failures++)
            first = r;
        }
      }
  }
  printf("{\"checked\": %lu, \"failures\": %lu, \"exhaustive\": %s, \"first_failing_range\": %lu}\n", checked, failures,
         thorough ? "true" : "false", first);
  return failures ? 1 : 0;
}
