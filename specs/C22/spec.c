/* C22 — Availability profiles are applied exactly (the part carried by Profile): each firing of a profile event
 * returns the (date,value) entry at the event's index, advances the index by one, and re-arms the event at
 * (date of the firing = current head date of the future event set) + (delta of the next entry) iff a next entry
 * exists; otherwise the event is marked to be freed. schedule() arms a new event at the first entry's date.
 * Units (real code via cxx2c): Profile::next, Profile::schedule, Profile::get_enough_events (Profile.hpp),
 * tmgr_trace_event_unref (Profile.cpp). FutureEvtSet (std::priority_queue + a lambda) is outside cxx2c's subset:
 * its next_date / add_event are assumed callees that expose the head date and record the insertion.              */
#include "gen.h"

#ifndef LCAP
#define LCAP 4 /* capacity of the profile's entry list in the harness state; its length is symbolic */
#endif

struct Profile g_p;
struct FutureEvtSet g_fes;
struct DatedValue g_list[LCAP + 1];
struct Event g_ev;
struct Resource g_res;

double g_top;              /* FutureEvtSet::next_date(): date of the head of the future event set (= firing date) */
int g_add_calls;           /* FutureEvtSet::add_event calls */
double g_add_date;
struct Event* g_add_evt;
struct Event* g_new_evt;   /* the object `new Event()` returned */

#define FIN(x) __CPROVER_isfinited(x)
#define EQ(a, b) __CPROVER_equal(a, b)

double FutureEvtSet__next_date(struct FutureEvtSet* self) __CPROVER_requires(self == &g_fes) __CPROVER_assigns()
    __CPROVER_ensures(EQ(__CPROVER_return_value, g_top));
void FutureEvtSet__add_event(struct FutureEvtSet* self, double date, struct Event* evt)
    __CPROVER_requires(self == &g_fes) __CPROVER_assigns(g_add_calls, g_add_date, g_add_evt)
    __CPROVER_ensures(g_add_calls == __CPROVER_old(g_add_calls) + 1 && EQ(g_add_date, date) && g_add_evt == evt);
struct Event* Event__new(void) __CPROVER_requires(1) __CPROVER_assigns(g_new_evt)
    __CPROVER_ensures(__CPROVER_is_fresh(__CPROVER_return_value, sizeof(struct Event)) &&
                      g_new_evt == __CPROVER_return_value);

#define N (g_p.event_list.n)
#define WF_P                                                                                                           \
  (g_p.event_list.d == g_list && g_p.event_list.h == 0 && g_p.event_list.cap == LCAP + 1 && N <= LCAP &&               \
   g_p.cb.fn == 0 /* no generator callback installed: the list is complete (see check.json) */)
#define OLD_IDX __CPROVER_old(g_ev.idx)
#define HAS_NEXT ((unsigned long)OLD_IDX + 1 < N)
#define NEXT_OK (g_list[OLD_IDX + 1].date_ >= 0.0 && g_list[OLD_IDX + 1].value_ >= 0.0)

_Bool Profile__get_enough_events(struct Profile* self, unsigned long index)
    __CPROVER_requires(self == &g_p && WF_P) __CPROVER_assigns()
    __CPROVER_ensures(__CPROVER_return_value == (index < N)) /*@ enough_iff_index_below_length */;

void tmgr_trace_event_unref(struct Event** event)
    __CPROVER_requires(__CPROVER_is_fresh(event, sizeof(*event)) && __CPROVER_is_fresh(*event, sizeof(struct Event)))
    __CPROVER_assigns(*event)
    __CPROVER_ensures((*event == NULL) == (__CPROVER_old((*event)->free_me) != 0)) /*@ unref_drops_iff_free_me */;

struct DatedValue Profile__next(struct Profile* self, struct Event* event)
    __CPROVER_requires(self == &g_p && event == &g_ev && WF_P && g_p.fes_ == &g_fes && g_ev.idx < N && vf_exc == 0 &&
                       g_add_calls == 0 && FIN(g_top) && FIN(g_list[0].date_) && FIN(g_list[1].date_) &&
                       FIN(g_list[2].date_) && FIN(g_list[3].date_) && FIN(g_list[4].date_))
    __CPROVER_assigns(vf_exc, g_ev.idx, g_ev.free_me, g_add_calls, g_add_date, g_add_evt)
    __CPROVER_ensures(vf_exc == 0 || vf_exc == VF_EXC_ABORT)
    __CPROVER_ensures((vf_exc == VF_EXC_ABORT) == (HAS_NEXT && !NEXT_OK)) /*@ next_rejects_negative_entries */
    __CPROVER_ensures(g_ev.idx == OLD_IDX + 1) /*@ next_advances_the_index_by_one */
    __CPROVER_ensures(vf_exc != 0 || (EQ(__CPROVER_return_value.date_, g_list[OLD_IDX].date_) &&
                                      EQ(__CPROVER_return_value.value_, g_list[OLD_IDX].value_)))
    /*@ next_returns_the_entry_at_the_old_index */
    __CPROVER_ensures(vf_exc != 0 || g_add_calls == (HAS_NEXT ? 1 : 0)) /*@ rearmed_iff_another_entry_exists */
    __CPROVER_ensures(vf_exc != 0 || !HAS_NEXT ||
                      (g_add_evt == &g_ev && g_add_date == g_top + g_list[OLD_IDX + 1].date_))
    /*@ rearmed_at_firing_date_plus_next_delta */
    __CPROVER_ensures(vf_exc != 0 || g_ev.free_me == (HAS_NEXT ? __CPROVER_old(g_ev.free_me) : 1))
    /*@ last_entry_marks_the_event_to_be_freed */;

struct Event* Profile__schedule(struct Profile* self, struct FutureEvtSet* fes, struct Resource* resource)
    __CPROVER_requires(self == &g_p && fes == &g_fes && WF_P && vf_exc == 0 && g_add_calls == 0)
    __CPROVER_assigns(g_p.fes_, g_add_calls, g_add_date, g_add_evt, g_new_evt)
    __CPROVER_ensures(vf_exc == 0 && g_p.fes_ == &g_fes)
    __CPROVER_ensures((__CPROVER_return_value != NULL) == (N > 0)) /*@ schedule_returns_an_event_iff_profile_not_empty */
    __CPROVER_ensures(g_add_calls == (N > 0 ? 1 : 0)) /*@ schedule_arms_iff_profile_not_empty */
    __CPROVER_ensures(N == 0 || (g_add_evt == __CPROVER_return_value && __CPROVER_return_value == g_new_evt &&
                                 (EQ(g_add_date, g_list[0].date_)) && g_new_evt->idx == 0 && !g_new_evt->free_me &&
                                 g_new_evt->profile == &g_p && g_new_evt->resource == resource))
    /*@ schedule_arms_at_the_first_entry_date */;

#include "gen.c"

double nondet_double(void);
unsigned nondet_uint(void);
unsigned long nondet_ulong(void);
_Bool nondet_bool(void);

static void setup(void)
{
  for (int k = 0; k <= LCAP; k++) {
    g_list[k].date_  = nondet_double();
    g_list[k].value_ = nondet_double();
  }
  g_p.event_list.d   = g_list;
  g_p.event_list.h   = 0;
  g_p.event_list.cap = LCAP + 1;
  g_p.event_list.n   = nondet_ulong();
  g_p.cb.fn          = 0;
  g_p.fes_           = nondet_bool() ? &g_fes : 0;
  g_ev.idx           = nondet_uint();
  g_ev.free_me       = nondet_bool();
  g_ev.profile       = &g_p;
  g_ev.resource      = &g_res;
  g_top              = nondet_double();
  g_add_calls        = 0;
  vf_exc             = 0;
}

#ifdef H_get_enough_events
void harness(void)
{
  setup();
  Profile__get_enough_events(&g_p, nondet_ulong());
  VF_CANARY_POINT;
}
#endif
#ifdef H_unref
void harness(void)
{
  struct Event** e;
  tmgr_trace_event_unref(e);
  VF_CANARY_POINT;
}
#endif
#ifdef H_next
void harness(void)
{
  setup();
  Profile__next(&g_p, &g_ev);
  VF_CANARY_POINT;
}
#endif
#ifdef H_schedule
void harness(void)
{
  setup();
  Profile__schedule(&g_p, &g_fes, &g_res);
  VF_CANARY_POINT;
}
#endif
