import os, sys
sys.path.insert(0, os.path.join(os.path.dirname(os.path.abspath(__file__)), "..", "..", "replay"))
import native


def replay(violation, inputs, workdir, repo):
    """deadline overshoot of EngineImpl::solve: two tiny s4u simulations against the real code (replay.cpp, which
    compiles the working tree's EngineImpl.cpp into the driver); exit 1 = reproduced. Other obligations have no driver."""
    if "requested_date" not in violation["label"] and "fires_once_with_the_clock_at_t" not in violation["label"]:
        return {"reproduced": False, "note": "no native driver for this obligation"}
    here = os.path.dirname(os.path.abspath(__file__))
    plat = os.path.join(repo, "examples", "platforms", "small_platform.xml")
    if not os.path.exists(plat):
        plat = "/repo/examples/platforms/small_platform.xml"
    libdir = os.path.join(repo if os.path.isdir(os.path.join(repo, "_build", "lib")) else "/repo", "_build", "lib")
    lib, src = os.path.join(libdir, "libsimgrid.so"), os.path.join(repo, "src", "kernel", "EngineImpl.cpp")
    stale = (not os.path.exists(lib)) or os.path.getmtime(os.path.realpath(lib)) < os.path.getmtime(src)
    r = native.build_and_run(os.path.join(here, "replay.cpp"), workdir, repo, [plat])
    if not (r.get("reproduced") or "error" in r):
        r2 = native.build_and_run(os.path.join(here, "replay.cpp"), workdir, repo, [plat, "timer"])
        r2["output"] = (r.get("output", "") + r2.get("output", ""))[-4000:]
        r = r2
    if stale:
        r["note"] = "libsimgrid.so is OLDER than %s: the driver ran the last build, not the source under check" % src
    return r
