/* C03 — Simulated time is monotone and events happen exactly at their date.
 *
 * Units (real code through cxx2c):
 *  - kernel::timer::Timer::execute_all / set / remove / next (src/kernel/timer/Timer.cpp, Timer.hpp):
 *      every callback runs with date <= clock, exactly the due timers run, each once, and leave the queue; what stays
 *      queued is strictly in the future; set queues the timer at the requested date; next is the earliest date.
 *  - kernel::EngineImpl::solve (src/kernel/EngineImpl.cpp): returns -1 => clock untouched; returns d => d >= 0 and
 *      clock' == clock + d >= clock; profile events are applied with the clock at their own date and the clock is
 *      restored afterwards; every model and the time-advance signal get the new date / the step.
 *
 * The boost fibonacci heap of (date, Timer*) pairs is NOT translated: its operations (empty/top/pop/emplace/erase) are
 * model bodies below: an exact min-priority queue over a universe of TCAP timer objects (each timer is queued at most
 * once, so "queued?" + "key" per timer is an exact representation); ties are broken nondeterministically.            */
#include "gen.h"
#ifdef H_solve_exact_step
/* second view of solve, for the one clause the general harness cannot decide: NO profile event is pending
   (next_date() == -1), the two profile-event loops are unwound (they run once / not at all, unwinding assertions
   checked) instead of being cut by loop contracts, so the clock is never havocked and `now_ + time_delta` of the code
   and `g_now0 + RET` of the contract are ONE adder for the solver */
#define NO_PROFILE_EVENTS 1
#define C03_EXACT_STEP 1
#endif

#define FIN(x) __CPROVER_isfinited(x)
#define ISNAN(x) __CPROVER_isnand(x)
#define EQ(a, b) __CPROVER_equal(a, b) /* identity of doubles */
int nondet_int(void);
double nondet_double(void);
_Bool nondet_bool(void);
unsigned long nondet_ulong(void);

/* =================================================================================================================
 *  Part 1: timers
 * ================================================================================================================= */
#define TCAP 3
struct Timer g_t0, g_t1, g_t2; /* the universe of timer objects */
struct TimerHeap g_heap;
_Bool g_inq[TCAP];    /* timer j is in the heap */
double g_qdate[TCAP]; /* its key (meaningful while queued) */
int g_qtop;           /* the entry top() designates: a queued timer of minimal date (ties: any) */
struct vf_pair_double__TimerP g_toppair;
double g_clock;           /* what s4u::Engine::get_clock() returns */
int g_fired[TCAP];        /* how many times the callback of timer j ran */
double g_fire_clock[TCAP]; /* the clock when it ran */
int g_new_j;              /* which object `new Timer` handed out */
int gj;                   /* ghost index: an arbitrary timer */

#if TCAP != 3
#error "TCAP must be 3 (the macros below are written out)"
#endif
#define TIMER_AT(j) ((j) == 0 ? &g_t0 : (j) == 1 ? &g_t1 : &g_t2)
#define IDX_OF_TIMER(p) ((p) == &g_t0 ? 0 : (p) == &g_t1 ? 1 : (p) == &g_t2 ? 2 : -1)
#define IDX_OF_CB(p) ((p) == &g_t0.callback ? 0 : (p) == &g_t1.callback ? 1 : (p) == &g_t2.callback ? 2 : -1)
#define QEMPTY (!(g_inq[0] || g_inq[1] || g_inq[2]))
#define QFULL (g_inq[0] && g_inq[1] && g_inq[2])
#define LE_ALL(d) ((!g_inq[0] || (d) <= g_qdate[0]) && (!g_inq[1] || (d) <= g_qdate[1]) && (!g_inq[2] || (d) <= g_qdate[2]))
#define IS_MIN(i) (0 <= (i) && (i) < TCAP && g_inq[i] && LE_ALL(g_qdate[i]))
#define DATES_OK ((!g_inq[0] || !ISNAN(g_qdate[0])) && (!g_inq[1] || !ISNAN(g_qdate[1])) && (!g_inq[2] || !ISNAN(g_qdate[2])))
#define WF_Q (DATES_OK && (QEMPTY || IS_MIN(g_qtop)))
#define GJ_OK (0 <= gj && gj < TCAP)

/* ---- model bodies: the heap, the clock, the allocator, the callback ---- */
struct TimerHeap* kernel_timers(void) { return &g_heap; }
double Engine__get_clock(void) { return g_clock; }
static void q_pick(void)
{
  int i = nondet_int();
  __CPROVER_assume(QEMPTY ? i == 0 : IS_MIN(i)); /* a minimum exists: the keys are not NaN */
  g_qtop = i;
}
_Bool TimerHeap__empty(struct TimerHeap* h) { return QEMPTY; }
struct vf_pair_double__TimerP* TimerHeap__top(struct TimerHeap* h)
{
  __CPROVER_assert(!QEMPTY, "top() of a non-empty heap");
  g_toppair.first  = g_qdate[g_qtop];
  g_toppair.second = TIMER_AT(g_qtop);
  return &g_toppair;
}
void TimerHeap__pop(struct TimerHeap* h)
{
  __CPROVER_assert(!QEMPTY, "pop() of a non-empty heap");
  g_inq[g_qtop] = 0;
  q_pick();
}
struct TimerHandle TimerHeap__emplace(struct TimerHeap* h, struct vf_pair_double__TimerP* e)
{
  int j = IDX_OF_TIMER(e->second);
  __CPROVER_assert(j >= 0 && !g_inq[j], "emplace of a timer that is not queued yet");
  __CPROVER_assert(!ISNAN(e->first), "timer date is a number");
  g_inq[j]   = 1;
  g_qdate[j] = e->first;
  q_pick();
  struct TimerHandle r;
  r.vf_j = j;
  return r;
}
void TimerHeap__erase(struct TimerHeap* h, struct TimerHandle* hd)
{
  int j = hd->vf_j;
  __CPROVER_assert(0 <= j && j < TCAP && g_inq[j], "erase through a valid handle");
  g_inq[j] = 0;
  q_pick();
}
struct TimerHandle* TimerHandle__operator_assign(struct TimerHandle* a, struct TimerHandle* b)
{
  *a = *b;
  return a;
}
struct Timer* Timer__new(double date, struct Task_void__* cb)
{
  int j = nondet_int();
  __CPROVER_assume(0 <= j && j < TCAP && !g_inq[j]);
  g_new_j = j;
  return TIMER_AT(j);
}
/* the user callback: logs who ran and when; it does not touch the timer queue (trusted) */
void Task_void____operator_call(struct Task_void__* cb)
{
  int j = IDX_OF_CB(cb);
  __CPROVER_assert(j >= 0, "callback of a known timer");
  if (j >= 0) {
    g_fired[j]      = g_fired[j] + 1;
    g_fire_clock[j] = g_clock;
  }
}

/* ---- Timer::execute_all ---- */
#define LE_IN(j) __CPROVER_loop_entry(g_inq[j])
#define EX_INV(j)                                                                                                      \
  (g_inq[j] ? (LE_IN(j) && g_fired[j] == 0)                                                                            \
            : (LE_IN(j) ? (g_fired[j] == 1 && EQ(g_fire_clock[j], g_clock) && g_qdate[j] <= g_clock) : g_fired[j] == 0))
#define Q_FRAME                                                                                                        \
  __CPROVER_object_whole(g_inq), g_qtop, g_toppair, __CPROVER_object_whole(g_fired), __CPROVER_object_whole(g_fire_clock)
#define VF_LOOP_Timer__execute_all_0                                                                                   \
  __CPROVER_assigns(result, Q_FRAME)                                                                                   \
  __CPROVER_loop_invariant(vf_exc == 0 && WF_Q && EX_INV(0) && EX_INV(1) && EX_INV(2) &&                               \
                           result == (g_fired[0] + g_fired[1] + g_fired[2] > 0))                                       \
  __CPROVER_decreases((int)g_inq[0] + (int)g_inq[1] + (int)g_inq[2])

_Bool Timer__execute_all(void)
    __CPROVER_requires(WF_Q && !ISNAN(g_clock) && vf_exc == 0 && GJ_OK && g_fired[0] == 0 && g_fired[1] == 0 && g_fired[2] == 0)
    __CPROVER_assigns(Q_FRAME)
    __CPROVER_ensures(vf_exc == 0 && WF_Q)
    __CPROVER_ensures(g_fired[gj] == ((__CPROVER_old(g_inq[gj]) && __CPROVER_old(g_qdate[gj]) <= g_clock) ? 1 : 0))
    /*@ exactly_the_due_timers_run_each_once */
    __CPROVER_ensures(g_fired[gj] == 0 || (g_fire_clock[gj] == g_clock && g_qdate[gj] <= g_fire_clock[gj]))
    /*@ no_callback_runs_before_its_date */
    __CPROVER_ensures(!g_inq[gj] == !(__CPROVER_old(g_inq[gj]) && !(__CPROVER_old(g_qdate[gj]) <= g_clock)))
    /*@ fired_timers_leave_the_queue_and_the_others_stay */
    __CPROVER_ensures(!g_inq[gj] || g_qdate[gj] > g_clock) /*@ nothing_due_stays_queued */
    __CPROVER_ensures(QEMPTY || g_qdate[g_qtop] > g_clock) /*@ heap_is_empty_or_its_top_is_in_the_future */
    __CPROVER_ensures(EQ(g_qdate[gj], __CPROVER_old(g_qdate[gj]))) /*@ dates_of_timers_are_not_changed */
    __CPROVER_ensures(__CPROVER_return_value == (g_fired[0] > 0 || g_fired[1] > 0 || g_fired[2] > 0))
    /*@ reports_whether_a_timer_ran */;

/* ---- Timer::set ---- */
#define OLD_INQ_AT(j) ((j) == 0 ? __CPROVER_old(g_inq[0]) : (j) == 1 ? __CPROVER_old(g_inq[1]) : __CPROVER_old(g_inq[2]))
struct Timer* Timer__set(double date, struct Task_void__* callback)
    __CPROVER_requires(WF_Q && !ISNAN(date) && vf_exc == 0 && GJ_OK && !QFULL)
    __CPROVER_assigns(__CPROVER_object_whole(g_inq), __CPROVER_object_whole(g_qdate), g_qtop, g_new_j, g_t0.handle_,
                      g_t1.handle_, g_t2.handle_)
    __CPROVER_ensures(vf_exc == 0 && WF_Q && 0 <= g_new_j && g_new_j < TCAP)
    __CPROVER_ensures(__CPROVER_return_value == TIMER_AT(g_new_j) && !OLD_INQ_AT(g_new_j))
    __CPROVER_ensures(g_inq[g_new_j] && EQ(g_qdate[g_new_j], date)) /*@ set_queues_the_new_timer_at_the_requested_date */
    __CPROVER_ensures(TIMER_AT(g_new_j)->handle_.vf_j == g_new_j) /*@ the_timer_keeps_the_handle_of_its_own_entry */
    __CPROVER_ensures(gj == g_new_j || (!g_inq[gj] == !__CPROVER_old(g_inq[gj]) &&
                                        (!g_inq[gj] || EQ(g_qdate[gj], __CPROVER_old(g_qdate[gj])))))
    /*@ set_leaves_the_other_timers_alone */;

/* ---- Timer::remove ---- */
#define SELF_J IDX_OF_TIMER(self)
void Timer__remove(struct Timer* self)
    __CPROVER_requires((self == &g_t0 || self == &g_t1 || self == &g_t2) && WF_Q && vf_exc == 0 && GJ_OK &&
                       self->handle_.vf_j == SELF_J && g_inq[SELF_J])
    __CPROVER_assigns(__CPROVER_object_whole(g_inq), g_qtop)
    __CPROVER_ensures(vf_exc == 0 && WF_Q)
    __CPROVER_ensures(!g_inq[SELF_J]) /*@ a_removed_timer_is_no_longer_queued */
    __CPROVER_ensures(gj == SELF_J || !g_inq[gj] == !__CPROVER_old(g_inq[gj])) /*@ remove_leaves_the_other_timers_alone */;

/* ---- Timer::next ---- */
double Timer__next(void)
    __CPROVER_requires(WF_Q && GJ_OK && vf_exc == 0)
    __CPROVER_assigns(g_toppair)
    __CPROVER_ensures(vf_exc == 0)
    __CPROVER_ensures(!QEMPTY || __CPROVER_return_value == -1.0) /*@ next_is_minus_one_without_timers */
    __CPROVER_ensures(QEMPTY || !g_inq[gj] || __CPROVER_return_value <= g_qdate[gj]) /*@ next_is_the_earliest_queued_date */
    __CPROVER_ensures(QEMPTY || (g_inq[0] && EQ(__CPROVER_return_value, g_qdate[0])) ||
                      (g_inq[1] && EQ(__CPROVER_return_value, g_qdate[1])) ||
                      (g_inq[2] && EQ(__CPROVER_return_value, g_qdate[2]))) /*@ next_is_the_date_of_a_queued_timer */;

/* =================================================================================================================
 *  Part 2: EngineImpl::solve
 * ================================================================================================================= */
#define MCAP 3
struct EngineImpl g_eng;
struct Model g_m0, g_m1, g_m2;
struct Model* g_mods[MCAP];
_Bool g_idem[MCAP]; /* next_occurring_event_is_idempotent() of each model (virtual; false for ns-3) */
struct Resource g_res;
struct Event g_ev;
double g_now0;          /* ghost: the clock at entry */
unsigned g_pending;     /* ghost: profile events still to pop at the current date */
double g_pop_date;      /* ghost: date given to the last pop_leq */
_Bool g_applied, g_apply_ok; /* some event was applied / every application saw now_ == the date it was popped for */
size_t g_upd_calls;
_Bool g_upd_ok;
double g_upd_delta;
int g_sig_calls;
double g_sig_delta;

#if MCAP != 3
#error "MCAP must be 3"
#endif
#define IS_MODEL(p) ((p) == &g_m0 || (p) == &g_m1 || (p) == &g_m2)
#define IDEM_OF(p) ((p) == &g_m0 ? g_idem[0] : (p) == &g_m1 ? g_idem[1] : g_idem[2])
#define MN (g_eng.models_.n)
#define WF_ENG                                                                                                         \
  (g_eng.models_.d == g_mods && g_eng.models_.h == 0 && g_eng.models_.cap == MCAP && MN <= MCAP && g_mods[0] == &g_m0 && \
   g_mods[1] == &g_m1 && g_mods[2] == &g_m2)

/* assumed callees (virtual calls into the resource models and the profile event set) */
_Bool Model__next_occurring_event_is_idempotent(struct Model* self) __CPROVER_requires(IS_MODEL(self)) __CPROVER_assigns()
    __CPROVER_ensures(__CPROVER_return_value == IDEM_OF(self));
/* any double at all (NaN, infinities, negative = "nothing to do") */
double Model__next_occurring_event(struct Model* self, double now) __CPROVER_requires(IS_MODEL(self)) __CPROVER_assigns()
    __CPROVER_ensures(1);
/* -1 when there is no event, else the date of the first one: assumed not NaN */
double FutureEvtSet__next_date(struct FutureEvtSet* self) __CPROVER_requires(self == &future_evt_set)
    __CPROVER_assigns(g_pending)
#ifdef NO_PROFILE_EVENTS
    __CPROVER_ensures(__CPROVER_return_value == -1.0);
#else
    __CPROVER_ensures(!ISNAN(__CPROVER_return_value));
#endif
struct Event* FutureEvtSet__pop_leq(struct FutureEvtSet* self, double date, double* value, struct Resource** resource)
    __CPROVER_requires(self == &future_evt_set && __CPROVER_w_ok(value, sizeof(double)) &&
                       __CPROVER_w_ok(resource, sizeof(struct Resource*)))
    __CPROVER_assigns(*value, VF_PT(*resource) /* pointer target: HOWTO, dfcc pointer havoc */, g_pending, g_pop_date)
    __CPROVER_ensures(__CPROVER_return_value == NULL || __CPROVER_return_value == &g_ev)
    __CPROVER_ensures((__CPROVER_return_value == NULL) == (__CPROVER_old(g_pending) == 0))
    __CPROVER_ensures(__CPROVER_return_value == NULL ? g_pending == __CPROVER_old(g_pending)
                                                     : g_pending == __CPROVER_old(g_pending) - 1)
    __CPROVER_ensures(*resource == &g_res && EQ(g_pop_date, date));
_Bool Resource__is_used(struct Resource* self) __CPROVER_requires(self == &g_res) __CPROVER_assigns() __CPROVER_ensures(1);
/* apply_event may do anything to the resources but does not write the clock; it OBSERVES the clock */
void Resource__apply_event(struct Resource* self, struct Event* e, double value)
    __CPROVER_requires(self == &g_res && e == &g_ev) __CPROVER_assigns(g_applied, g_apply_ok)
    __CPROVER_ensures(g_applied && g_apply_ok == (__CPROVER_old(g_apply_ok) && EQ(now_, g_pop_date)));
void Model__update_actions_state(struct Model* self, double now, double delta) __CPROVER_requires(IS_MODEL(self))
    __CPROVER_assigns(g_upd_calls, g_upd_ok, g_upd_delta)
    __CPROVER_ensures(g_upd_calls == __CPROVER_old(g_upd_calls) + 1 && EQ(g_upd_delta, delta) &&
                      g_upd_ok == (__CPROVER_old(g_upd_ok) && EQ(now, now_) &&
                                   (__CPROVER_old(g_upd_calls) == 0 || EQ(__CPROVER_old(g_upd_delta), delta))));
void signal_void_double___operator_call(struct signal_void_double_* self, double delta)
    __CPROVER_requires(self == &on_time_advance) __CPROVER_assigns(g_sig_calls, g_sig_delta)
    __CPROVER_ensures(g_sig_calls == __CPROVER_old(g_sig_calls) + 1 && EQ(g_sig_delta, delta));

/* loop contracts of solve */
#define SOLVE_COMMON (vf_exc == 0 && EQ(now_, g_now0) && !ISNAN(time_delta))
#define EVT_FRAME time_delta, value, resource, now_, g_pending, g_pop_date, g_applied, g_apply_ok
#define VF_LOOP_EngineImpl__solve_0                                                                                    \
  __CPROVER_assigns(__i0, time_delta)                                                                                  \
  __CPROVER_loop_invariant(__r0 == &g_eng.models_ && __i0 <= MN && SOLVE_COMMON)                            \
  __CPROVER_decreases(MN - __i0)
#ifdef NO_PROFILE_EVENTS
#define VF_LOOP_EngineImpl__solve_1
#else
/* no decreases clause: the source itself warns that this loop may not terminate (periodicity-0 profiles) */
#define VF_LOOP_EngineImpl__solve_1                                                                                    \
  __CPROVER_assigns(EVT_FRAME)                                                                                         \
  __CPROVER_loop_invariant(SOLVE_COMMON && g_apply_ok && (resource == NULL || resource == &g_res))
#endif
#define VF_LOOP_EngineImpl__solve_2                                                                                    \
  __CPROVER_assigns(__i2, time_delta)                                                                                  \
  __CPROVER_loop_invariant(__r2 == &g_eng.models_ && __i2 <= MN && SOLVE_COMMON)                             \
  __CPROVER_decreases(MN - __i2)
#ifdef NO_PROFILE_EVENTS
#define VF_LOOP_EngineImpl__solve_3
#else
#define VF_LOOP_EngineImpl__solve_3                                                                                    \
  __CPROVER_assigns(EVT_FRAME)                                                                                         \
  __CPROVER_loop_invariant(SOLVE_COMMON && g_apply_ok && (resource == NULL || resource == &g_res))           \
  __CPROVER_decreases(g_pending)
#endif
#define VF_LOOP_EngineImpl__solve_4                                                                                    \
  __CPROVER_assigns(__i4, g_upd_calls, g_upd_ok, g_upd_delta)                                                          \
  __CPROVER_loop_invariant(__r4 == &g_eng.models_ && __i4 <= MN && vf_exc == 0 && g_upd_calls == __i4 && g_upd_ok &&   \
                           (__i4 == 0 || EQ(g_upd_delta, time_delta)))                                                 \
  __CPROVER_decreases(MN - __i4)

#define RET __CPROVER_return_value
double EngineImpl__solve(struct EngineImpl* self, double max_date)
    __CPROVER_requires(self == &g_eng && WF_ENG && FIN(now_) && EQ(g_now0, now_) && !ISNAN(max_date) && vf_exc == 0 &&
                       g_upd_calls == 0 && g_upd_ok && g_sig_calls == 0 && g_apply_ok && !g_applied)
    __CPROVER_assigns(vf_exc, now_, g_pending, g_pop_date, g_applied, g_apply_ok, g_upd_calls, g_upd_ok, g_upd_delta,
                      g_sig_calls, g_sig_delta)
    __CPROVER_ensures(vf_exc == 0 || vf_exc == VF_EXC_ABORT)
    __CPROVER_ensures((vf_exc == VF_EXC_ABORT) == (max_date != -1.0 && !(max_date >= g_now0)))
    /*@ a_deadline_in_the_past_is_rejected */
    __CPROVER_ensures(vf_exc == 0 || (EQ(now_, g_now0) && g_upd_calls == 0 && g_sig_calls == 0))
    __CPROVER_ensures(vf_exc != 0 || RET != -1.0 || (EQ(now_, g_now0) && g_upd_calls == 0 && g_sig_calls == 0))
    /*@ no_next_event_leaves_the_clock_alone */
    __CPROVER_ensures(vf_exc != 0 || RET == -1.0 || RET >= 0.0) /*@ the_step_is_never_negative */
#ifdef C03_EXACT_STEP
    /* only in harness solve_exact_step (no pending profile event): in the general harness no back end decides this
       clause within 10 minutes (cvc5 > 12 min CPU, SAT > 10 min) because the clock is havocked by the loop contracts
       of the profile-event loops and equals g_now0 only through the invariant: two separate double adders. */
    __CPROVER_ensures(vf_exc != 0 || RET == -1.0 ||
                      EQ(now_, (max_date != -1.0 && g_now0 + RET > max_date) ? max_date : g_now0 + RET))
    /*@ clock_advances_by_the_returned_step_but_stops_at_the_requested_date */
#endif
    __CPROVER_ensures(now_ >= g_now0) /*@ clock_never_decreases */
    __CPROVER_ensures(g_apply_ok) /*@ profile_events_are_applied_with_the_clock_at_their_date */
    __CPROVER_ensures(vf_exc != 0 || RET == -1.0 ||
                      (g_upd_calls == MN && g_upd_ok && (MN == 0 || EQ(g_upd_delta, RET))))
    /*@ every_model_is_told_the_new_date_and_the_step */
    __CPROVER_ensures(vf_exc != 0 || RET == -1.0 || (g_sig_calls == 1 && EQ(g_sig_delta, RET)))
    /*@ time_advance_signal_carries_the_step */
    __CPROVER_ensures(vf_exc != 0 || max_date == -1.0 || now_ <= max_date) /*@ clock_does_not_pass_the_requested_date */
    ;

#include "gen.c"

/* ---------------- harnesses ---------------------------------------------------------------------------------- */
#ifdef H_execute_all
void harness(void)
{
  Timer__execute_all();
  VF_CANARY_POINT;
}
#endif
#ifdef H_set
void harness(void)
{
  struct Task_void__ cb;
  Timer__set(nondet_double(), &cb);
  VF_CANARY_POINT;
}
#endif
#ifdef H_remove
void harness(void)
{
  int j = nondet_int();
  __CPROVER_assume(0 <= j && j < TCAP);
  Timer__remove(TIMER_AT(j));
  VF_CANARY_POINT;
}
#endif
#ifdef H_next
void harness(void)
{
  Timer__next();
  VF_CANARY_POINT;
}
#endif
#if defined(H_solve) || defined(H_solve_exact_step)
void harness(void)
{
  g_eng.models_.d = g_mods;
  g_mods[0]       = &g_m0;
  g_mods[1]       = &g_m1;
  g_mods[2]       = &g_m2;
  g_now0 = now_;
  EngineImpl__solve(&g_eng, nondet_double());
  VF_CANARY_POINT;
}
#endif
#ifdef H_lemma_timer_fires_at_its_date
/* composition, through the contracts of Timer::set and Timer::execute_all: a timer set for a future date t is not run
   while the clock is before t and is run, once, with the clock at t, when execute_all is called at clock == t
   (whatever else is queued, whatever ran in between) */
void harness(void)
{
  __CPROVER_assume(WF_Q && !QFULL && vf_exc == 0 && !ISNAN(g_clock) && g_fired[0] == 0 && g_fired[1] == 0 && g_fired[2] == 0);
  double t = nondet_double();
  __CPROVER_assume(!ISNAN(t) && t > g_clock);
  gj = 0;
  struct Task_void__ cb;
  Timer__set(t, &cb);
  int j = g_new_j;
  gj    = j;
  double c1 = nondet_double();
  __CPROVER_assume(c1 >= g_clock && c1 < t);
  g_clock = c1; /* time passes, but not up to t */
  Timer__execute_all();
  __CPROVER_assert(g_fired[j] == 0 && g_inq[j], "not run before its date"); /*@ a_timer_does_not_fire_before_its_date */
  g_fired[0] = 0;
  g_fired[1] = 0;
  g_fired[2] = 0;
  g_clock    = t; /* the clock reaches the date (EngineImpl::run hands Timer::next() to solve as max_date) */
  Timer__execute_all();
  _Bool at_t = g_fired[j] == 1 && g_fire_clock[j] == t && !g_inq[j];
  __CPROVER_assert(at_t, "run once at its date"); /*@ a_timer_set_for_t_fires_once_with_the_clock_at_t */
  VF_CANARY_POINT;
}
#endif
