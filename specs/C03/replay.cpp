// native reproduction for C03 (clock_does_not_pass_the_requested_date): EngineImpl::solve(max_date) computes
// time_delta = max_date - now_ and then now_ += time_delta; in IEEE-754 double, now_ + (max_date - now_) can be the
// double ABOVE max_date (two round-to-even ties), so run_until(t) overshoots t and a timer / kill time set for date t
// fires with the clock at t + 1ulp. Exit 1 = reproduced.
// Links the BUILT libsimgrid.so of the tree (EngineImpl.cpp cannot be compiled into a driver: it needs hidden symbols
// of the library), so it speaks about the last build: rebuild after editing EngineImpl.cpp (replay.py flags a stale library).
#include <simgrid/s4u.hpp>
#include <cstdio>
#include <cstring>
int main(int argc, char** argv)
{
  simgrid::s4u::Engine e(&argc, argv);
  e.load_platform(argv[1]);
  bool timer_mode = argc > 2 && strcmp(argv[2], "timer") == 0;
  const double a = 0.5000000000000003; // clock at which the deadline is computed
  const double b = 1.9999999999999998; // the deadline / timer date
  double fired   = -1;
  simgrid::s4u::Actor::create("sleeper", e.get_all_hosts()[0], [&]() {
    simgrid::s4u::this_actor::sleep_until(a);
    if (timer_mode) {
      simgrid::s4u::this_actor::on_exit([&](bool) { fired = simgrid::s4u::Engine::get_clock(); });
      simgrid::s4u::Actor::self()->set_kill_time(b);
    }
    simgrid::s4u::this_actor::sleep_for(1000);
  });
  if (timer_mode) {
    e.run();
    printf("kill time set at clock %.17g for date %.17g: actor killed at clock %.17g %s\n", a, b, fired,
           fired != b ? "NOT AT ITS DATE" : "ok");
    return fired != b ? 1 : 0;
  }
  e.run_until(a);
  printf("clock after run_until(%.17g) = %.17g\n", a, e.get_clock());
  e.run_until(b);
  double c = e.get_clock();
  printf("clock after run_until(%.17g) = %.17g %s\n", b, c, c > b ? "PASSED THE DEADLINE" : "ok");
  return c > b ? 1 : 0;
}
