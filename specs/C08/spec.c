/* C08 — Mailbox communications: matching is first-accepted-first-served, a matched comm leaves the queue, the payload
 * and its size reach the receiver unchanged and are copied once.
 * Contracts on the real MailboxImpl::{push,remove,find_matching_comm} and CommImpl::copy_data (extracted by cxx2c; the
 * 4-capture lambda of find_matching_comm is lifted, std::find_if is a per-call-site model loop, the user filters are
 * std::function values called through struct vf_fn).
 * Filters are assumed to be pure predicates: the harness supplies them as ghost boolean tables indexed by comm.   */
#ifndef QCAP
#define QCAP 4
#endif
#define VF_SEQ_EXACT (QCAP + 1)
#define VF_SET_EXACT 2 /* the receiver's activities_ set holds at most 2 activities before irecv (ACAP) */
#include "gen.h"

#define QSZ (QCAP + 2)
#define NCOMM (QCAP + 1)

struct CommImpl g_comm[NCOMM];
struct CommImpl* g_qd[QSZ]; /* storage of comm_queue_ */
struct CommImpl* g_dd[QSZ]; /* storage of done_comm_queue_ */
struct MailboxImpl g_mb;
struct MailboxImpl g_mb_other;
struct CommImpl g_me; /* the synchro describing the caller (my_synchro) */
struct vf_fn g_my_filter;

/* ghost: verdicts of the two filters about each comm of the universe (pure predicates: assumption) */
_Bool g_i_accept[NCOMM];    /* caller's match_fun(this_data, other_data, comm)        */
_Bool g_it_accepts[NCOMM];  /* comm->match_fun(other_data, this_data, my_synchro)     */
/* ghost: what the copy callback received */
int g_copy_calls;
struct CommImpl* g_copy_comm;
void* g_copy_buff;
size_t g_copy_size;
size_t g_dst_size; /* the receiver's capacity / received size (*dst_buff_size_) */

size_t gk, gj;

/* ---- receive side (CommImpl::irecv) ---- */
#define ACAP 4
struct CommIrecvSimcall g_obs;       /* the receive request: mailbox g_mb, issuer g_actor, filter absent or filter_of_caller */
struct ActorImpl g_actor;
struct ActivityImpl* g_actd[ACAP];   /* storage of g_actor.activities_ */
struct CommImpl* g_new;              /* allocation model: the object `new CommImpl()` returns next, an object of the universe
                                        that no queue holds */
_Bool g_acc[NCOMM];                  /* ghost, pinned at the entry of irecv: comm i is a send that both filters accept */
size_t gc;                           /* ghost index of an arbitrary comm of the universe */
int g_mc_active, g_mc_replay;        /* what MC_is_active() / MC_record_replay_is_active() return */
double g_remaining;                  /* what ActivityImpl::get_remaining() returns */
int g_starts;                        /* ghost log of CommImpl::start(): calls, last comm, its state at that moment */
struct CommImpl* g_started;
int g_started_state;

/* the two filters (models of user code, with bodies so that the calls through struct vf_fn have a target) */
_Bool filter_of_caller(void* env, void* mine, void* theirs, struct CommImpl* comm)
{
  (void)env; (void)mine; (void)theirs;
  return g_i_accept[comm - g_comm];
}
_Bool filter_of_queued(void* env, void* theirs, void* mine, struct CommImpl* my_synchro)
{
  (void)theirs; (void)mine; (void)my_synchro;
  return g_it_accepts[(struct CommImpl*)env - g_comm]; /* env identifies the queued comm that owns the filter */
}
void copy_callback(void* env, struct CommImpl* comm, void* buff, unsigned long size)
{
  (void)env;
  g_copy_calls++;
  g_copy_comm = comm;
  g_copy_buff = buff;
  g_copy_size = size;
}

#define SEND CommImplType__SEND
#ifndef CommImplType__RECEIVE
#define CommImplType__RECEIVE 1 /* enum class CommImplType { SEND, RECEIVE } (CommImpl.hpp); only SEND is named in the units */
#endif
_Static_assert(CommImplType__SEND == 0, "CommImplType layout");
#define RECV CommImplType__RECEIVE
#define SELQ(done) (*((done) ? &g_mb.done_comm_queue_ : &g_mb.comm_queue_))
#define SELD(done) ((done) ? g_dd : g_qd)
#define IDX(p) ((p)-g_comm)

#if QCAP == 4
#define ALLQ(P) (P(0) && P(1) && P(2) && P(3))
#define ANYQ(P) (P(0) || P(1) || P(2) || P(3))
#define ALLPAIRS(P) (P(0, 1) && P(0, 2) && P(0, 3) && P(1, 2) && P(1, 3) && P(2, 3))
#define IS_COMM(p) ((p) == &g_comm[0] || (p) == &g_comm[1] || (p) == &g_comm[2] || (p) == &g_comm[3] || (p) == &g_comm[4])
#define ALLCOMM_MBOX g_comm[0].mbox_, g_comm[1].mbox_, g_comm[2].mbox_, g_comm[3].mbox_, g_comm[4].mbox_
#define ALLCOMM(P) (P(0) && P(1) && P(2) && P(3) && P(4))
#elif QCAP == 6
#define ALLQ(P) (P(0) && P(1) && P(2) && P(3) && P(4) && P(5))
#define ANYQ(P) (P(0) || P(1) || P(2) || P(3) || P(4) || P(5))
#define ALLPAIRS(P)                                                                                                    \
  (P(0, 1) && P(0, 2) && P(0, 3) && P(0, 4) && P(0, 5) && P(1, 2) && P(1, 3) && P(1, 4) && P(1, 5) && P(2, 3) &&       \
   P(2, 4) && P(2, 5) && P(3, 4) && P(3, 5) && P(4, 5))
#define IS_COMM(p)                                                                                                     \
  ((p) == &g_comm[0] || (p) == &g_comm[1] || (p) == &g_comm[2] || (p) == &g_comm[3] || (p) == &g_comm[4] ||            \
   (p) == &g_comm[5] || (p) == &g_comm[6])
#define ALLCOMM_MBOX                                                                                                   \
  g_comm[0].mbox_, g_comm[1].mbox_, g_comm[2].mbox_, g_comm[3].mbox_, g_comm[4].mbox_, g_comm[5].mbox_, g_comm[6].mbox_
#define ALLCOMM(P) (P(0) && P(1) && P(2) && P(3) && P(4) && P(5) && P(6))
#else
#error "QCAP must be 4 or 6"
#endif

/* a queued comm: one of the universe, with a filter that is absent or the ghost-table filter bound to itself */
#define WF_COMM(c)                                                                                                     \
  (IS_COMM(c) && ((c)->type_ == SEND || (c)->type_ == RECV) &&                                                         \
   ((c)->match_fun.fn == 0 || ((c)->match_fun.fn == (vf_fnptr)filter_of_queued && (c)->match_fun.env == (void*)(c))))
#define WF_SEQ(s, D)                                                                                                   \
  ((s).d == (D) && (s).cap == QSZ && (s).h == 0 && (s).n <= QCAP)
#define WF_ELEM_Q(k) (!((k) < g_mb.comm_queue_.n) || WF_COMM(g_qd[k]))
#define WF_ELEM_D(k) (!((k) < g_mb.done_comm_queue_.n) || WF_COMM(g_dd[k]))
#define WF_PAIR_Q(i, j) (!((j) < g_mb.comm_queue_.n) || g_qd[i] != g_qd[j])
#define WF_PAIR_D(i, j) (!((j) < g_mb.done_comm_queue_.n) || g_dd[i] != g_dd[j])
#define WF_MB                                                                                                          \
  (WF_SEQ(g_mb.comm_queue_, g_qd) && WF_SEQ(g_mb.done_comm_queue_, g_dd) && ALLQ(WF_ELEM_Q) && ALLQ(WF_ELEM_D) &&      \
   ALLPAIRS(WF_PAIR_Q) && ALLPAIRS(WF_PAIR_D))
/* queued in comm_queue_ => points back to the mailbox (what remove() insists on); iprobe breaks this on purpose?
 * see the note in check.json: find_matching_comm(remove_matching=false) resets mbox_ of a comm it leaves queued */
#define BACKPTR_Q(k) (!((k) < g_mb.comm_queue_.n) || g_qd[k]->mbox_ == &g_mb)

/* ---------------- push / remove (comm_queue_) ---------------------------------------------------------------- */
#define Qn (g_mb.comm_queue_.n)
#define oldQn __CPROVER_old(g_mb.comm_queue_.n)
#define OLDQ(k) __CPROVER_old(g_qd[(k)])
#define NOT_AT(k, c) (!((k) < Qn) || g_qd[k] != (c))
#define NOT_IN_Q(c) ALLQ_NOT(c)
#define ALLQ_NOT(c) (NOT_AT(0, c) && NOT_AT(1, c) && NOT_AT(2, c) && NOT_AT(3, c) && (QCAP == 4 || (NOT_AT(4, c) && NOT_AT(5, c))))

void MailboxImpl__push(struct MailboxImpl* self, struct CommImpl* comm)
    __CPROVER_requires(self == &g_mb && WF_MB && IS_COMM(comm) && NOT_IN_Q(comm) && vf_exc == 0)
    __CPROVER_assigns(VF_PT(comm->mbox_) /* pointer target: HOWTO, dfcc pointer havoc */, comm->mbox_id_, g_mb.comm_queue_.n, __CPROVER_object_whole(g_qd))
    __CPROVER_ensures(vf_exc == 0 && Qn == oldQn + 1 && g_qd[oldQn] == comm && comm->mbox_ == &g_mb)
    /*@ push_appends_at_tail */
    __CPROVER_ensures(!(gk < oldQn) || g_qd[gk] == OLDQ(gk)) /*@ push_keeps_the_others_in_place */;

#define IN_OLDQ_AT(k) ((k) < oldQn && OLDQ(k) == comm)
void MailboxImpl__remove(struct MailboxImpl* self, struct CommImpl* comm)
    __CPROVER_requires(self == &g_mb && WF_MB && IS_COMM(comm) && vf_exc == 0)
    __CPROVER_assigns(vf_exc, VF_PT(comm->mbox_), g_mb.comm_queue_.n, __CPROVER_object_whole(g_qd))
    __CPROVER_ensures((vf_exc == VF_EXC_ABORT) == (__CPROVER_old(comm->mbox_) != &g_mb || !ANYQ(IN_OLDQ_AT)))
    /*@ remove_rejects_a_comm_that_is_not_queued_here */
    __CPROVER_ensures(vf_exc == 0 || vf_exc == VF_EXC_ABORT)
    __CPROVER_ensures(vf_exc == 0 || (Qn == oldQn && (!(gk < Qn) || g_qd[gk] == OLDQ(gk)))) /*@ remove_rejected_keeps_queue */
    __CPROVER_ensures(vf_exc != 0 || (Qn == oldQn - 1 && comm->mbox_ == NULL && NOT_IN_Q(comm))) /*@ remove_takes_it_out */
    __CPROVER_ensures(vf_exc != 0 || !IN_OLDQ_AT(gk) ||
                      ((!(gj < gk) || g_qd[gj] == OLDQ(gj)) && (!(gk <= gj && gj < Qn) || g_qd[gj] == OLDQ(gj + 1))))
    /*@ remove_keeps_order_of_the_rest */
    __CPROVER_ensures(vf_exc != 0 || WF_MB) /*@ remove_keeps_wf */;

/* ---------------- find_matching_comm ---------------------------------------------------------------------------- */
/* position k of the selected queue is acceptable to both sides (evaluated on the state at entry) */
#define SN(done) ((done) ? g_mb.done_comm_queue_.n : g_mb.comm_queue_.n)
/* D selects the queue (done_comm_queue_ / comm_queue_); the unsuffixed forms are those of find_matching_comm(.., done, ..) */
#define OLDSN_(D) ((D) ? __CPROVER_old(g_mb.done_comm_queue_.n) : __CPROVER_old(g_mb.comm_queue_.n))
#define OLDS_(D, k) ((D) ? __CPROVER_old(g_dd[(k)]) : __CPROVER_old(g_qd[(k)]))
#define CUR_(D, k) ((D) ? g_dd[(k)] : g_qd[(k)])
#define OLDSN OLDSN_(done)
#define OLDS(k) OLDS_(done, k)
#define CUR(k) CUR_(done, k)
#define ACCEPT_C(c)                                                                                                    \
  ((c)->type_ == type && (match_fun->fn == 0 || g_i_accept[IDX(c)]) && ((c)->match_fun.fn == 0 || g_it_accepts[IDX(c)]))
#define ACCEPT_OLD(k) ((k) < OLDSN && ACCEPT_C(OLDS(k)))
#define NOACC_BELOW(j, k) (!((j) < (k)) || !ACCEPT_OLD(j))
#if QCAP == 4
#define ANY_ACCEPT (ACCEPT_OLD(0) || ACCEPT_OLD(1) || ACCEPT_OLD(2) || ACCEPT_OLD(3))
#define NONE_BEFORE(k) (NOACC_BELOW(0, k) && NOACC_BELOW(1, k) && NOACC_BELOW(2, k) && NOACC_BELOW(3, k))
#else
#define ANY_ACCEPT (ACCEPT_OLD(0) || ACCEPT_OLD(1) || ACCEPT_OLD(2) || ACCEPT_OLD(3) || ACCEPT_OLD(4) || ACCEPT_OLD(5))
#define NONE_BEFORE(k)                                                                                                 \
  (NOACC_BELOW(0, k) && NOACC_BELOW(1, k) && NOACC_BELOW(2, k) && NOACC_BELOW(3, k) && NOACC_BELOW(4, k) && NOACC_BELOW(5, k))
#endif
#define FIRST_AT(k) (ACCEPT_OLD(k) && NONE_BEFORE(k))

/* Among the queued comms of the requested type that BOTH filters accept, the OLDEST (lowest position) is returned;
 * with remove_matching it leaves the queue (nobody can match it again) and the order of the others is kept; NULL and
 * no change when there is none; the other queue is never touched (frame). */
struct CommImpl* MailboxImpl__find_matching_comm(struct MailboxImpl* self, int type, struct vf_fn* match_fun,
                                                 void* this_match_data, struct CommImpl* my_synchro, _Bool done,
                                                 _Bool remove_matching)
    __CPROVER_requires(self == &g_mb && WF_MB && vf_exc == 0 && match_fun == &g_my_filter && my_synchro == &g_me)
    __CPROVER_requires(g_my_filter.fn == 0 || g_my_filter.fn == (vf_fnptr)filter_of_caller)
    __CPROVER_assigns(ALLCOMM_MBOX; done: g_mb.done_comm_queue_.n, __CPROVER_object_whole(g_dd);
                      !done: g_mb.comm_queue_.n, __CPROVER_object_whole(g_qd))
    __CPROVER_ensures(vf_exc == 0)
    __CPROVER_ensures((__CPROVER_return_value == NULL) == !ANY_ACCEPT) /*@ find_null_iff_nothing_acceptable */
    __CPROVER_ensures(!FIRST_AT(gk) || __CPROVER_return_value == OLDS(gk)) /*@ find_returns_the_oldest_acceptable */
    __CPROVER_ensures((__CPROVER_return_value != NULL && remove_matching) ||
                      (SN(done) == OLDSN && (!(gk < OLDSN) || CUR(gk) == OLDS(gk)))) /*@ find_without_removal_keeps_queue */
    __CPROVER_ensures(__CPROVER_return_value == NULL || !remove_matching ||
                      (SN(done) == OLDSN - 1 && (!(gk < SN(done)) || CUR(gk) != __CPROVER_return_value)))
    /*@ find_removes_the_match */
    __CPROVER_ensures(!FIRST_AT(gk) || !remove_matching ||
                      ((!(gj < gk) || CUR(gj) == OLDS(gj)) && (!(gk <= gj && gj < SN(done)) || CUR(gj) == OLDS(gj + 1))))
    /*@ find_keeps_order_of_the_rest */
    __CPROVER_ensures(__CPROVER_return_value == NULL || (IS_COMM(__CPROVER_return_value) &&
                                                         __CPROVER_return_value->type_ == type &&
                                                         __CPROVER_return_value->mbox_ == NULL))
    /*@ find_result_is_of_requested_type_and_detached_from_mailbox */
    __CPROVER_ensures(WF_MB) /*@ find_keeps_wf */;

/* loop of the std::find_if model: nothing acceptable before i */
#define FC_ENV ((struct MailboxImpl__find_matching_comm__lambda0_env*)f.env)
#define ACCEPT_NOW(c)                                                                                                  \
  ((c)->type_ == *FC_ENV->type && (FC_ENV->match_fun->fn == 0 || g_i_accept[IDX(c)]) &&                                \
   ((c)->match_fun.fn == 0 || g_it_accepts[IDX(c)]))
#define NOACC_BEFORE(k) (!((k) < i) || !ACCEPT_NOW(b[k]))
#define VF_LOOP_MailboxImpl__find_matching_comm__find_if0_0                                                            \
  __CPROVER_assigns(i) __CPROVER_loop_invariant(i <= cnt && ALLQ(NOACC_BEFORE)) __CPROVER_decreases(cnt - i)

/* ---------------- copy_data ---------------------------------------------------------------------------------------- */
/* the data are handed over at most once, with the sender's buffer and min(sent size, receiver capacity); the
 * receiver's size is updated to that amount; payload_ is the sender's buffer */
#define WILL_COPY (__CPROVER_old(self->src_buff_) != NULL && __CPROVER_old(self->dst_buff_size_) != NULL && !__CPROVER_old(self->copied_))
void CommImpl__copy_data(struct CommImpl* self)
    __CPROVER_requires(self == &g_me && vf_exc == 0 && g_copy_calls == 0)
    __CPROVER_requires(self->dst_buff_size_ == NULL || self->dst_buff_size_ == &g_dst_size)
    __CPROVER_requires(self->copy_data_fun.fn == 0 || self->copy_data_fun.fn == (vf_fnptr)copy_callback)
    __CPROVER_requires(copy_data_callback_.fn == (vf_fnptr)copy_callback)
    __CPROVER_assigns(vf_exc, self->payload_, self->copied_, g_dst_size, g_copy_calls, g_copy_comm, g_copy_buff, g_copy_size)
    __CPROVER_ensures(vf_exc == 0)
    __CPROVER_ensures(WILL_COPY || (g_copy_calls == 0 && self->copied_ == __CPROVER_old(self->copied_) &&
                                    self->payload_ == __CPROVER_old(self->payload_) &&
                                    g_dst_size == __CPROVER_old(g_dst_size))) /*@ copy_at_most_once */
    __CPROVER_ensures(!WILL_COPY || (self->copied_ && self->payload_ == (void*)self->src_buff_ &&
                                     g_dst_size == (self->src_buff_size_ < __CPROVER_old(g_dst_size)
                                                        ? self->src_buff_size_
                                                        : __CPROVER_old(g_dst_size))))
    /*@ copy_size_is_min_of_sent_and_capacity */
    __CPROVER_ensures(!WILL_COPY || g_dst_size == 0 ||
                      (g_copy_calls == 1 && g_copy_comm == self && g_copy_buff == (void*)self->src_buff_ &&
                       g_copy_size == g_dst_size)) /*@ copy_callback_gets_the_senders_buffer_and_that_size */
    __CPROVER_ensures(!WILL_COPY || g_dst_size != 0 || g_copy_calls == 0) /*@ copy_nothing_for_empty_payload */;

/* ---------------- irecv (receive side) ------------------------------------------------------------------------------- */
/* models of what irecv calls outside C08 (assumed): allocation, the network start, the MC switches, the remaining work */
struct CommImpl* CommImpl__new(void)
{
  struct CommImpl* c = g_new; /* allocation model: see g_new; default member initialisers of CommImpl.hpp / ActivityImpl.hpp */
  c->__b_ActivityImpl_T_CommImpl.__b_ActivityImpl.state_        = State__WAITING;
  c->__b_ActivityImpl_T_CommImpl.__b_ActivityImpl.model_action_ = NULL;
  c->type_                                                      = CommImplType__SEND;
  c->mbox_                                                      = NULL;
  c->rate_                                                      = -1.0;
  c->copied_                                                    = 0;
  c->match_fun.fn                                               = 0;
  c->match_fun.env                                              = 0;
  c->copy_data_fun.fn                                           = 0;
  c->copy_data_fun.env                                          = 0;
  c->src_buff_                                                  = NULL;
  c->dst_buff_size_                                             = NULL;
  c->dst_actor_                                                 = NULL;
  return c;
}
#define STATE_OF(c) ((c)->__b_ActivityImpl_T_CommImpl.__b_ActivityImpl.state_)
struct CommImpl* CommImpl__start(struct CommImpl* self)
{
  if (g_starts < 2)
    g_starts++;
  g_started       = self;
  g_started_state = STATE_OF(self); /* what start() looks at: only a READY comm (both sides known) begins its transfer */
  return self;
}
int MC_is_active(void)
{
  return g_mc_active;
}
int MC_record_replay_is_active(void)
{
  return g_mc_replay;
}
double ActivityImpl__get_remaining(struct ActivityImpl* self)
{
  return g_remaining;
}

/* D: the branch irecv takes - mailbox with a permanent receiver that already holds eagerly received sends */
#define IRD (__CPROVER_old(g_mb.permanent_receiver_) != NULL && __CPROVER_old(g_mb.done_comm_queue_.n) != 0)
#define IR_OLDSN OLDSN_(IRD)
#define IR_OLDS(k) OLDS_(IRD, k)
#define IR_CUR(k) CUR_(IRD, k)
#define IR_SN SN(IRD)
#define Dn (g_mb.done_comm_queue_.n)
#define oldDn __CPROVER_old(g_mb.done_comm_queue_.n)
/* ghost table pinned on entry: comm i is a pending SEND that the receiver's filter and its own filter accept */
#define ACC_PIN(i)                                                                                                     \
  (g_acc[i] == (g_comm[i].type_ == SEND && (g_obs.match_fun_.fn == 0 || g_i_accept[i]) &&                              \
                (g_comm[i].match_fun.fn == 0 || g_it_accepts[i])))
/* table lookup by pointer comparison (a pointer difference would put a 64-bit divider into every clause) */
#if QCAP == 4
#define ACC_OF(p)                                                                                                      \
  ((p) == &g_comm[0] ? g_acc[0] : (p) == &g_comm[1] ? g_acc[1] : (p) == &g_comm[2] ? g_acc[2] : (p) == &g_comm[3] ? g_acc[3] : g_acc[4])
#else
#define ACC_OF(p)                                                                                                      \
  ((p) == &g_comm[0] ? g_acc[0] : (p) == &g_comm[1] ? g_acc[1] : (p) == &g_comm[2] ? g_acc[2] : (p) == &g_comm[3] ? g_acc[3] : \
   (p) == &g_comm[4] ? g_acc[4] : (p) == &g_comm[5] ? g_acc[5] : g_acc[6])
#endif
#define IR_ACC_OLD(k) ((k) < IR_OLDSN && ACC_OF(IR_OLDS(k)))
#define IR_NOACC_BELOW(j, k) (!((j) < (k)) || !IR_ACC_OLD(j))
#if QCAP == 4
#define IR_ANY (IR_ACC_OLD(0) || IR_ACC_OLD(1) || IR_ACC_OLD(2) || IR_ACC_OLD(3))
#define IR_NONE_BEFORE(k) (IR_NOACC_BELOW(0, k) && IR_NOACC_BELOW(1, k) && IR_NOACC_BELOW(2, k) && IR_NOACC_BELOW(3, k))
#else
#define IR_ANY (IR_ACC_OLD(0) || IR_ACC_OLD(1) || IR_ACC_OLD(2) || IR_ACC_OLD(3) || IR_ACC_OLD(4) || IR_ACC_OLD(5))
#define IR_NONE_BEFORE(k)                                                                                              \
  (IR_NOACC_BELOW(0, k) && IR_NOACC_BELOW(1, k) && IR_NOACC_BELOW(2, k) && IR_NOACC_BELOW(3, k) &&                     \
   IR_NOACC_BELOW(4, k) && IR_NOACC_BELOW(5, k))
#endif
#define IR_FIRST_AT(k) (IR_ACC_OLD(k) && IR_NONE_BEFORE(k))
#define NOT_AT_D(k, c) (!((k) < Dn) || g_dd[k] != (c))
#define NOT_IN_D(c) (NOT_AT_D(0, c) && NOT_AT_D(1, c) && NOT_AT_D(2, c) && NOT_AT_D(3, c) && (QCAP == 4 || (NOT_AT_D(4, c) && NOT_AT_D(5, c))))
#define RET ((struct CommImpl*)__CPROVER_return_value)
#define ISSUER (g_obs.__b_DelayedSimcallObserver.__b_SimcallObserver.issuer_)
#define ACTS (g_actor.activities_)
#define ACTS_HAS(c)                                                                                                    \
  ((ACTS.n > 0 && g_actd[0] == (struct ActivityImpl*)(c)) || (ACTS.n > 1 && g_actd[1] == (struct ActivityImpl*)(c)) || \
   (ACTS.n > 2 && g_actd[2] == (struct ActivityImpl*)(c)))
#define MC_RUN (g_mc_active != 0 || g_mc_replay != 0)
/* the sub-case "eagerly received and already finished": the comm is completed at once and never registered */
#define IR_FINISHED                                                                                                    \
  (IRD && RET != g_new && RET->__b_ActivityImpl_T_CommImpl.__b_ActivityImpl.model_action_ != NULL && g_remaining < 1e-12)

/* A receive is matched with the OLDEST pending send that both filters accept (in comm_queue_, or among the eagerly
 * received sends of a mailbox with a permanent receiver); that send leaves its queue and the others keep their order;
 * when there is none the receive is queued at the tail of comm_queue_.  Payload and size of every send are untouched.
 * (the state after irecv does not satisfy WF_MB as written: the queued receive now carries the CALLER's filter, which
 * the model keeps apart from the filters of queued comms)                                                             */
struct ActivityImpl* CommImpl__irecv(struct CommIrecvSimcall* observer)
    __CPROVER_requires(observer == &g_obs && g_obs.mbox_ == &g_mb && WF_MB && vf_exc == 0 && gc < NCOMM)
    __CPROVER_requires(g_obs.match_fun_.fn == 0 || g_obs.match_fun_.fn == (vf_fnptr)filter_of_caller)
    __CPROVER_requires(ISSUER == &g_actor && ACTS.k == g_actd && ACTS.cap == ACAP && ACTS.n <= 2)
    __CPROVER_requires(IS_COMM(g_new) && NOT_IN_Q(g_new) && NOT_IN_D(g_new)) /* allocation model */
    __CPROVER_requires(ALLCOMM(ACC_PIN) && g_starts == 0)
    __CPROVER_assigns(vf_exc, __CPROVER_object_whole(g_comm), g_mb.comm_queue_.n, g_mb.done_comm_queue_.n,
                      __CPROVER_object_whole(g_qd), __CPROVER_object_whole(g_dd), g_obs.comm_, g_actor.activities_.n,
                      __CPROVER_object_whole(g_actd), g_starts, g_started, g_started_state)
    __CPROVER_ensures(vf_exc == 0 && RET != NULL && IS_COMM(RET) && g_obs.comm_ == RET) /*@ irecv_returns_the_comm_it_hands_to_the_observer */
    __CPROVER_ensures((RET == g_new) == !IR_ANY) /*@ irecv_matches_iff_an_acceptable_send_is_pending */
    __CPROVER_ensures(!IR_FIRST_AT(gk) || RET == IR_OLDS(gk)) /*@ irecv_matches_the_oldest_acceptable_send */
    __CPROVER_ensures(!IR_FIRST_AT(gk) ||
                      (IR_SN == IR_OLDSN - 1 && (!(gj < gk) || IR_CUR(gj) == IR_OLDS(gj)) &&
                       (!(gk <= gj && gj < IR_SN) || IR_CUR(gj) == IR_OLDS(gj + 1))))
    /*@ irecv_matched_send_leaves_its_queue_and_the_rest_keeps_its_order */
    __CPROVER_ensures(IR_ANY || (Qn == oldQn + 1 && g_qd[oldQn] == g_new && g_new->type_ == RECV && g_new->mbox_ == &g_mb))
    /*@ irecv_without_match_is_queued_at_the_tail */
    __CPROVER_ensures((IR_ANY && !IRD) || !(gk < oldQn) || g_qd[gk] == OLDQ(gk)) /*@ irecv_keeps_the_pending_comms_in_place */
    __CPROVER_ensures(!(IR_ANY && IRD) || Qn == oldQn)
    __CPROVER_ensures((IR_ANY && IRD) || (Dn == oldDn && (!(gk < oldDn) || g_dd[gk] == __CPROVER_old(g_dd[gk]))))
    /*@ irecv_touches_only_the_queue_it_matched_in */
    __CPROVER_ensures(RET->dst_actor_ == &g_actor && RET->match_fun.fn == g_obs.match_fun_.fn &&
                      RET->dst_buff_ == g_obs.dst_buff_ && RET->dst_buff_size_ == g_obs.dst_buff_size_ &&
                      RET->dst_match_data_ == g_obs.match_data_)
    /*@ irecv_records_receiver_buffer_and_filter_on_the_comm */
    __CPROVER_ensures(&g_comm[gc] == g_new ||
                      (g_comm[gc].src_buff_ == __CPROVER_old(g_comm[gc].src_buff_) &&
                       g_comm[gc].src_buff_size_ == __CPROVER_old(g_comm[gc].src_buff_size_) &&
                       g_comm[gc].payload_ == __CPROVER_old(g_comm[gc].payload_) &&
                       g_comm[gc].type_ == __CPROVER_old(g_comm[gc].type_)))
    /*@ irecv_keeps_payload_and_size_of_every_send */
    __CPROVER_ensures(IR_FINISHED || ACTS_HAS(RET)) /*@ irecv_registers_the_comm_with_the_receiver */
    __CPROVER_ensures(IRD || MC_RUN ||
                      (g_starts == 1 && g_started == RET && g_started_state == (IR_ANY ? State__READY : State__WAITING)))
    /*@ irecv_starts_a_matched_pair_as_ready_and_a_lone_receive_as_waiting */
    __CPROVER_ensures(!MC_RUN || (g_starts == 0 && STATE_OF(RET) == State__RUNNING)) /*@ irecv_under_mc_only_marks_running */;

#include "gen.c"

/* ---------------- harnesses ---------------------------------------------------------------------------------------- */
size_t nondet_size(void);
int nondet_int(void);
_Bool nondet_bool(void);

static struct CommImpl* pick_comm(void)
{
  int i = nondet_int();
  __CPROVER_assume(0 <= i && i < NCOMM);
  return &g_comm[i];
}

static void setup(void)
{
  for (int k = 0; k < QSZ; k++) {
    g_qd[k] = pick_comm();
    g_dd[k] = pick_comm();
  }
  for (int c = 0; c < NCOMM; c++) {
    if (nondet_bool()) {
      g_comm[c].match_fun.fn  = 0;
      g_comm[c].match_fun.env = 0;
    } else {
      g_comm[c].match_fun.fn  = (vf_fnptr)filter_of_queued;
      g_comm[c].match_fun.env = &g_comm[c];
    }
    g_comm[c].mbox_ = nondet_bool() ? NULL : (nondet_bool() ? &g_mb : &g_mb_other);
  }
  g_my_filter.fn              = nondet_bool() ? 0 : (vf_fnptr)filter_of_caller;
  g_obs.match_fun_.fn         = nondet_bool() ? 0 : (vf_fnptr)filter_of_caller;
  g_obs.mbox_                 = &g_mb;
  g_obs.dst_buff_size_        = nondet_bool() ? NULL : &g_dst_size;
  g_obs.__b_DelayedSimcallObserver.__b_SimcallObserver.issuer_ = &g_actor;
  g_actor.activities_.k       = g_actd;
  g_actor.activities_.cap     = ACAP;
  g_mb.permanent_receiver_    = nondet_bool() ? NULL : &g_actor;
  g_new                       = pick_comm();
  g_starts                    = 0;
  g_mb.comm_queue_.d          = g_qd;
  g_mb.comm_queue_.cap        = QSZ;
  g_mb.done_comm_queue_.d     = g_dd;
  g_mb.done_comm_queue_.cap   = QSZ;
  vf_exc                      = 0;
  __CPROVER_assume(gk < QCAP && gj < QCAP);
}

#ifdef H_push
void harness(void)
{
  setup();
  MailboxImpl__push(&g_mb, pick_comm());
  VF_CANARY_POINT;
}
#endif
#ifdef H_remove
void harness(void)
{
  setup();
  MailboxImpl__remove(&g_mb, pick_comm());
  VF_CANARY_POINT;
}
#endif
#ifdef H_find
void harness(void)
{
  setup();
  /* one harness per queue (DONE is 0 or 1): together they cover every value of `done` */
  MailboxImpl__find_matching_comm(&g_mb, nondet_bool() ? SEND : RECV, &g_my_filter, (void*)0, &g_me, DONE,
                                  nondet_bool());
  VF_CANARY_POINT;
}
#endif
#ifdef H_copy_data
void harness(void)
{
  g_me.dst_buff_size_   = nondet_bool() ? NULL : &g_dst_size;
  g_me.copy_data_fun.fn = nondet_bool() ? 0 : (vf_fnptr)copy_callback;
  copy_data_callback_.fn = (vf_fnptr)copy_callback;
  vf_exc                = 0;
  g_copy_calls          = 0;
  CommImpl__copy_data(&g_me);
  VF_CANARY_POINT;
}
#endif
#if defined(H_irecv) || defined(H_irecv_perm) || defined(H_irecv_done)
void harness(void)
{
  setup();
  __CPROVER_assume(gc < NCOMM);
  /* three harnesses cover every mailbox: no permanent receiver / permanent receiver without eagerly received sends (both
   * take the rendez-vous branch; the constants let symbolic execution drop the other branch) / with some */
#if defined(H_irecv)
  g_mb.permanent_receiver_ = NULL;
#elif defined(H_irecv_perm)
  g_mb.permanent_receiver_ = &g_actor;
  g_mb.done_comm_queue_.n  = 0;
#else
  g_mb.permanent_receiver_ = &g_actor;
  __CPROVER_assume(g_mb.done_comm_queue_.n != 0);
#endif
  CommImpl__irecv(&g_obs);
  VF_CANARY_POINT;
}
#endif
