/* C44 — Unfolding set algebra (PARTIAL: the EventSet layer only).
 * Units (real code, src/mc/explo/udpor/EventSet.cpp): EventSet::subtracting(const EventSet&), make_union(const EventSet&),
 * make_intersection, contains(const UnfoldingEvent*), is_subset_of, empty, EventSet(std::unordered_set&&).
 * Universe: NU events; every pair of subsets A, B of it (membership bits symbolic). The abstract view of a set is its
 * membership vector over the universe; "no duplicates" is part of every obligation (size == number of members).
 * Causal layer (second half of this file): EventSet::get_topological_ordering, History::Iterator (constructor,
 * increment, dereference) over a universe of NC events with a SYMBOLIC acyclic immediate-cause relation, the sets
 * built in EVERY insertion order (= every iteration order the set model can show).
 * NOT covered here (see check.json): Configuration, maximal_subsets_iterator, conflicts.                            */
#ifndef NU
#define NU 4
#endif
#if defined(H_topo_order) || defined(H_history_increment) || defined(H_history_full)
#ifndef NC
#define NC 3 /* events of the causal universe */
#endif
#define VF_SET_EXACT NC /* set model find/erase exact and loop-free; an assertion checks that no set outgrows the universe */
#undef VF_CAP
#define VF_CAP (NC + 1) /* capacity of the containers the units create: one more than any of them can hold here */
#endif
#include "gen.h"
#include "gen.c"
_Bool nondet_bool(void);
#ifdef H_set_algebra
_Static_assert(NU <= VF_CAP, "universe must fit the set model capacity");
struct UnfoldingEvent g_ev[NU];
struct UnfoldingEvent* g_ka[NU];
struct UnfoldingEvent* g_kb[NU];
struct EventSet A, B;
_Bool inA[NU], inB[NU];

static void build(struct EventSet* s, struct UnfoldingEvent** store, _Bool* in)
{
  size_t n = 0;
  for (int i = 0; i < NU; i++) {
    in[i] = nondet_bool();
    if (in[i])
      store[n++] = &g_ev[i];
  }
  s->events_.k   = store;
  s->events_.n   = n;
  s->events_.cap = NU;
}
static unsigned occurrences(const struct EventSet* s, int i)
{
  unsigned c = 0;
  for (size_t p = 0; p < NU; p++)
    if (p < s->events_.n && s->events_.k[p] == &g_ev[i])
      c++;
  return c;
}
/* set S has exactly the members given by the predicate, each once, and nothing else */
#define CHECK_SET(S, MEMBER, LABEL_TEXT)                                                                               \
  do {                                                                                                                 \
    size_t cnt = 0;                                                                                                    \
    for (int i = 0; i < NU; i++) {                                                                                     \
      _Bool m = (MEMBER);                                                                                              \
      __CPROVER_assert(occurrences(&(S), i) == (m ? 1u : 0u), LABEL_TEXT);                                             \
      cnt += m;                                                                                                        \
    }                                                                                                                  \
    __CPROVER_assert((S).events_.n == cnt, LABEL_TEXT ": no foreign element");                                        \
  } while (0)

void harness(void)
{
  vf_exc = 0;
  build(&A, g_ka, inA);
  build(&B, g_kb, inB);
  struct EventSet D = EventSet__subtracting(&A, &B);
  CHECK_SET(D, inA[i] && !inB[i], "subtracting == set difference"); /*@ subtracting_is_set_difference */
  struct EventSet U = EventSet__make_union(&A, &B);
  CHECK_SET(U, inA[i] || inB[i], "make_union == set union"); /*@ make_union_is_set_union */
  struct EventSet I = EventSet__make_intersection(&A, &B);
  CHECK_SET(I, inA[i] && inB[i], "make_intersection == set intersection"); /*@ make_intersection_is_set_intersection */
  _Bool sub = 1, emptyA = 1;
  for (int i = 0; i < NU; i++) {
    if (inA[i] && !inB[i])
      sub = 0;
    if (inA[i])
      emptyA = 0;
    __CPROVER_assert(EventSet__contains(&A, &g_ev[i]) == inA[i], "contains == membership"); /*@ contains_is_membership */
  }
  __CPROVER_assert(EventSet__is_subset_of(&A, &B) == sub, "is_subset_of == inclusion"); /*@ is_subset_of_is_inclusion */
  __CPROVER_assert(EventSet__empty(&A) == emptyA, "empty == no member"); /*@ empty_is_no_member */
  CHECK_SET(A, inA[i], "operands unchanged"); /*@ operands_unchanged */
  CHECK_SET(B, inB[i], "operands unchanged"); /*@ operands_unchanged */
  __CPROVER_assert(vf_exc == 0, "nothing raised"); /*@ never_fails */
  VF_CANARY_POINT;
}
#endif

/* ==================================================================================================================
 * Causal layer. Universe: NC events e0 < ... (index order is a linear extension of causality, w.l.o.g.); IC[i][j]: e_j is
 * an immediate cause of e_i (only j < i, otherwise symbolic); LT[j][i]: e_j < e_i (transitive closure of IC).
 * Input invariant (UnfoldingEvent.hpp, definition of "immediate cause": e < e' and no e'' with e < e'' < e'):
 * the immediate causes of one event are pairwise causally unrelated.
 * Every object is a global of its own (no symbolic offsets into an array of structs).
 * ================================================================================================================== */
#if defined(H_topo_order) || defined(H_history_increment) || defined(H_history_full)
_Static_assert(NC >= 2 && NC <= 6, "universe of 2..6 events");
unsigned char nondet_uchar(void);
struct UnfoldingEvent g_e0, g_e1, g_e2, g_e3, g_e4, g_e5;
static struct UnfoldingEvent* evp(unsigned i)
{
  return i == 0 ? &g_e0 : i == 1 ? &g_e1 : i == 2 ? &g_e2 : i == 3 ? &g_e3 : i == 4 ? &g_e4 : &g_e5;
}
_Bool IC[NC][NC], LT[NC][NC];
struct UnfoldingEvent* g_ics0[NC];
struct UnfoldingEvent* g_ics1[NC];
struct UnfoldingEvent* g_ics2[NC];
struct UnfoldingEvent* g_ics3[NC];
struct UnfoldingEvent* g_ics4[NC];
struct UnfoldingEvent* g_ics5[NC];
static struct UnfoldingEvent** ic_store(unsigned i)
{
  return i == 0 ? g_ics0 : i == 1 ? g_ics1 : i == 2 ? g_ics2 : i == 3 ? g_ics3 : i == 4 ? g_ics4 : g_ics5;
}

/* the set with membership vector `in`, its members inserted in ANY order (order drawn nondeterministically) */
static void build_any_order(struct EventSet* s, struct UnfoldingEvent** store, const _Bool* in)
{
  size_t n = 0;
  _Bool done[NC];
  for (int i = 0; i < NC; i++)
    done[i] = 0;
  for (int p = 0; p < NC; p++) {
    unsigned char c = nondet_uchar();
    __CPROVER_assume(c < NC);
    if (in[c] && !done[c]) {
      store[n++] = evp(c);
      done[c]    = 1;
    }
  }
  for (int i = 0; i < NC; i++)
    __CPROVER_assume(!in[i] || done[i]);
  s->events_.k   = store;
  s->events_.n   = n;
  s->events_.cap = NC;
}
static unsigned occ(const struct EventSet* s, int i)
{
  unsigned c = 0;
  struct UnfoldingEvent* e = evp(i);
  for (size_t p = 0; p < NC; p++)
    if (p < s->events_.n && s->events_.k[p] == e)
      c++;
  return c;
}
/* S has exactly the members given by the vector M (each once, nothing else) */
static _Bool set_is(const struct EventSet* s, const _Bool* m)
{
  size_t cnt = 0;
  _Bool ok   = 1;
  for (int i = 0; i < NC; i++) {
    if (occ(s, i) != (m[i] ? 1u : 0u))
      ok = 0;
    cnt += m[i];
  }
  return ok && s->events_.n == cnt;
}
static void setup_universe(void)
{
  vf_exc = 0;
  for (int i = 0; i < NC; i++)
    for (int j = 0; j < NC; j++) {
      IC[i][j] = j < i ? nondet_bool() : 0;
      LT[i][j] = 0;
    }
  for (int i = 0; i < NC; i++)
    for (int j = 0; j < NC; j++)
      LT[j][i] = IC[i][j];
  for (int k = 0; k < NC; k++)
    for (int i = 0; i < NC; i++)
      for (int j = 0; j < NC; j++)
        if (LT[i][k] && LT[k][j])
          LT[i][j] = 1;
  for (int i = 0; i < NC; i++)
    for (int j = 0; j < NC; j++)
      for (int k = 0; k < NC; k++)
        __CPROVER_assume(!(IC[i][j] && IC[i][k] && LT[j][k])); /* immediate causes are pairwise unrelated */
  for (int i = 0; i < NC; i++) {
    /* CBMC 6.11 reads garbage through a pointer to a ROW of a 2-D array indexed symbolically: hand over a 1-D copy */
    _Bool row[NC];
    for (int j = 0; j < NC; j++)
      row[j] = IC[i][j];
    build_any_order(&evp(i)->immediate_causes, ic_store(i), row);
  }
}
#endif

#ifdef H_topo_order
/* EventSet::get_topological_ordering (EventSet.hpp): "a vector V such that for every pair of events e, e' in C, if e < e'
 * then i(e) < i(e')" - for ANY set C (causally closed or not; `<` is full causality, also through events outside of C)
 * - and V holds every event of C exactly once. */
struct UnfoldingEvent* g_ks[NC];
struct EventSet S;
_Bool inS[NC];
void harness(void)
{
  setup_universe();
  for (int i = 0; i < NC; i++)
    inS[i] = nondet_bool();
  build_any_order(&S, g_ks, inS);
  struct vf_seq_UnfoldingEventP R = EventSet__get_topological_ordering(&S);
  __CPROVER_assert(vf_exc == 0, "no cycle reported on an acyclic event structure"); /*@ topo_accepts_acyclic_structure */
  __CPROVER_assert(R.n <= NC && R.h == 0, "ordering no longer than the universe"); /*@ topo_is_permutation_of_the_set */
  size_t pos[NC];
  size_t members = 0;
  for (int i = 0; i < NC; i++) {
    unsigned c = 0;
    pos[i]     = NC;
    for (size_t p = 0; p < NC; p++)
      if (p < R.n && R.d[p] == evp(i)) {
        c++;
        pos[i] = p;
      }
    __CPROVER_assert(c == (inS[i] ? 1u : 0u), "every event of the set exactly once, no other event");
    /*@ topo_is_permutation_of_the_set */
    members += inS[i];
  }
  __CPROVER_assert(R.n == members, "ordering has the size of the set"); /*@ topo_is_permutation_of_the_set */
  for (int i = 0; i < NC; i++)
    for (int j = 0; j < NC; j++)
      __CPROVER_assert(!(inS[i] && inS[j] && LT[j][i]) || pos[j] < pos[i], "e < e' implies index(e) < index(e')");
  /*@ topo_every_cause_in_the_set_comes_first */
  __CPROVER_assert(set_is(&S, inS), "the set itself is unchanged"); /*@ topo_leaves_the_set_unchanged */
  VF_CANARY_POINT;
}
#endif

#if defined(H_history_increment) || defined(H_history_full)
struct UnfoldingEvent* g_kf[NC];
struct UnfoldingEvent* g_kv[NC];
struct UnfoldingEvent* g_km[NC];
struct UnfoldingEvent* g_kc[NC];
struct UnfoldingEvent* g_ks[NC];
struct History__Iterator g_it;
struct Configuration g_cfg;
struct EventSet S;
_Bool inS[NC], inF[NC], inV[NC], inM[NC], inC[NC], CL[NC];
static void closure_of_S(void)
{
  for (int i = 0; i < NC; i++) {
    CL[i] = inS[i];
    for (int j = 0; j < NC; j++)
      if (inS[j] && LT[i][j])
        CL[i] = 1;
  }
}
/* Invariant of the traversal (History.hpp: frontier = "points from where to continue the search", current_history =
 * what has been expanded, maximal_events = candidates; S = the initial events, C = the optional configuration):
 *  I1 frontier and expanded events are disjoint; no expanded event lies in C
 *  I2 every immediate cause of an expanded event is expanded, waiting in the frontier, or in C
 *  I3 only events of the causal closure of S are met; every event of S is expanded, waiting, or in C
 *  I4 maximal_events = the events of S that are not an immediate cause of an expanded event                          */
static _Bool inv(const _Bool* F, const _Bool* V, const _Bool* M, _Bool has_cfg)
{
  _Bool ok = 1;
  for (int i = 0; i < NC; i++) {
    if (F[i] && V[i])
      ok = 0;
    if (V[i] && has_cfg && inC[i])
      ok = 0;
    for (int j = 0; j < NC; j++)
      if (V[i] && IC[i][j] && !(V[j] || F[j] || (has_cfg && inC[j])))
        ok = 0;
    if ((F[i] || V[i]) && !CL[i])
      ok = 0;
    if (inS[i] && !(V[i] || F[i] || (has_cfg && inC[i])))
      ok = 0;
    _Bool struck = 0;
    for (int v = 0; v < NC; v++)
      if (V[v] && IC[v][i])
        struck = 1;
    if (M[i] != (inS[i] && !struck))
      ok = 0;
  }
  return ok;
}
static void read_back(const struct EventSet* s, _Bool* out)
{
  for (int i = 0; i < NC; i++)
    out[i] = occ(s, i) != 0;
}
#endif

#ifdef H_history_increment
/* One step of History::Iterator from ANY state satisfying the invariant: the invariant is kept, and a step taken on a
 * non-empty frontier consumes the event the iterator designates (dereference) and expands it unless C holds it. */
void harness(void)
{
  setup_universe();
  _Bool has_cfg = nondet_bool();
  for (int i = 0; i < NC; i++) {
    inS[i] = nondet_bool();
    inF[i] = nondet_bool();
    inV[i] = nondet_bool();
    inM[i] = nondet_bool();
    inC[i] = nondet_bool();
  }
  closure_of_S();
  __CPROVER_assume(inv(inF, inV, inM, has_cfg));
  build_any_order(&g_it.frontier, g_kf, inF);
  build_any_order(&g_it.current_history, g_kv, inV);
  build_any_order(&g_it.maximal_events, g_km, inM);
  build_any_order(&g_cfg.events_, g_kc, inC);
  g_it.configuration.has   = has_cfg;
  g_it.configuration.value = &g_cfg;
  _Bool was_empty = g_it.frontier.events_.n == 0;
  int cur         = -1;
  if (!was_empty) {
    struct UnfoldingEvent* e = *History__Iterator__dereference(&g_it);
    for (int i = 0; i < NC; i++)
      if (e == evp(i))
        cur = i;
    __CPROVER_assert(cur >= 0 && inF[cur], "the iterator designates an event of the frontier"); /*@ history_yields_frontier_event */
  }
  History__Iterator__increment(&g_it);
  __CPROVER_assert(vf_exc == 0, "nothing raised"); /*@ history_step_never_fails */
  _Bool F2[NC], V2[NC], M2[NC], want[NC];
  read_back(&g_it.frontier, F2);
  read_back(&g_it.current_history, V2);
  read_back(&g_it.maximal_events, M2);
  __CPROVER_assert(set_is(&g_it.frontier, F2) && set_is(&g_it.current_history, V2) && set_is(&g_it.maximal_events, M2),
                   "the three sets hold universe events, each once"); /*@ history_step_keeps_sets_wellformed */
  __CPROVER_assert(inv(F2, V2, M2, has_cfg), "traversal invariant kept"); /*@ history_step_keeps_traversal_invariant */
  /* exactly-once: the designated event leaves the frontier; it is expanded now unless the configuration holds it;
   * nothing else becomes expanded, nothing expanded is forgotten */
  for (int i = 0; i < NC; i++)
    want[i] = inV[i] || (i == cur && !(has_cfg && inC[cur]));
  __CPROVER_assert(was_empty || !F2[cur], "the designated event left the frontier"); /*@ history_step_consumes_designated_event */
  __CPROVER_assert(set_is(&g_it.current_history, want), "expanded events = old ones plus the designated event");
  /*@ history_step_expands_exactly_the_designated_event */
  __CPROVER_assert(set_is(&g_cfg.events_, inC), "configuration untouched"); /*@ history_step_leaves_configuration */
  VF_CANARY_POINT;
}
#endif

#ifdef H_history_full
/* A whole traversal (no configuration), as History::get_all_events / get_all_maximal_events run it: construct the iterator
 * on S, step until the frontier is empty. Every event of the causal closure of S is yielded exactly once, within
 * |closure| steps; at the end current_history is the closure and maximal_events its maximal events by definition. */
void harness(void)
{
  setup_universe();
  for (int i = 0; i < NC; i++)
    inS[i] = nondet_bool();
  closure_of_S();
  build_any_order(&S, g_ks, inS);
  struct vf_opt_ConfigurationP none = {0, 0};
  History__Iterator__ctor(&g_it, &S, none);
  __CPROVER_assert(vf_exc == 0, "constructor raises nothing"); /*@ history_ctor_never_fails */
  unsigned yielded[NC];
  for (int i = 0; i < NC; i++)
    yielded[i] = 0;
  for (int step = 0; step < NC; step++) {
    if (g_it.frontier.events_.n != 0) {
      struct UnfoldingEvent* e = *History__Iterator__dereference(&g_it);
      for (int i = 0; i < NC; i++)
        if (e == evp(i))
          yielded[i]++;
      History__Iterator__increment(&g_it);
    }
  }
  __CPROVER_assert(vf_exc == 0, "nothing raised"); /*@ history_step_never_fails */
  __CPROVER_assert(g_it.frontier.events_.n == 0, "traversal over after at most |universe| steps"); /*@ history_terminates_within_closure_size */
  for (int i = 0; i < NC; i++)
    __CPROVER_assert(yielded[i] == (CL[i] ? 1u : 0u), "every event of the causal closure yielded exactly once, no other");
  /*@ history_yields_each_closure_event_exactly_once */
  __CPROVER_assert(set_is(&g_it.current_history, CL), "all events = causal closure of the initial events");
  /*@ history_all_events_is_causal_closure */
  _Bool mx[NC];
  for (int i = 0; i < NC; i++) {
    mx[i] = CL[i];
    for (int j = 0; j < NC; j++)
      if (CL[j] && LT[i][j])
        mx[i] = 0;
  }
  __CPROVER_assert(set_is(&g_it.maximal_events, mx), "maximal events = closure events with no successor in the closure");
  /*@ history_maximal_events_are_those_without_successor */
  __CPROVER_assert(set_is(&S, inS), "initial set unchanged"); /*@ history_leaves_initial_set_unchanged */
  VF_CANARY_POINT;
}
#endif
