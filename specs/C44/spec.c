/* C44 — Unfolding set algebra (PARTIAL: the EventSet layer only).
 * Units (real code, src/mc/explo/udpor/EventSet.cpp): EventSet::subtracting(const EventSet&), make_union(const EventSet&),
 * make_intersection, contains(const UnfoldingEvent*), is_subset_of, empty, EventSet(std::unordered_set&&).
 * Universe: NU events; every pair of subsets A, B of it (membership bits symbolic). The abstract view of a set is its
 * membership vector over the universe; "no duplicates" is part of every obligation (size == number of members).
 * NOT covered here (see check.json): History, Configuration, maximal_subsets_iterator, conflicts.                  */
#include "gen.h"
#include "gen.c"

#ifndef NU
#define NU 4
#endif
_Static_assert(NU <= VF_CAP, "universe must fit the set model capacity");

_Bool nondet_bool(void);
struct UnfoldingEvent g_ev[NU];
struct UnfoldingEvent* g_ka[NU];
struct UnfoldingEvent* g_kb[NU];
struct EventSet A, B;
_Bool inA[NU], inB[NU];

static void build(struct EventSet* s, struct UnfoldingEvent** store, _Bool* in)
{
  size_t n = 0;
  for (int i = 0; i < NU; i++) {
    in[i] = nondet_bool();
    if (in[i])
      store[n++] = &g_ev[i];
  }
  s->events_.k   = store;
  s->events_.n   = n;
  s->events_.cap = NU;
}
static unsigned occurrences(const struct EventSet* s, int i)
{
  unsigned c = 0;
  for (size_t p = 0; p < NU; p++)
    if (p < s->events_.n && s->events_.k[p] == &g_ev[i])
      c++;
  return c;
}
/* set S has exactly the members given by the predicate, each once, and nothing else */
#define CHECK_SET(S, MEMBER, LABEL_TEXT)                                                                               \
  do {                                                                                                                 \
    size_t cnt = 0;                                                                                                    \
    for (int i = 0; i < NU; i++) {                                                                                     \
      _Bool m = (MEMBER);                                                                                              \
      __CPROVER_assert(occurrences(&(S), i) == (m ? 1u : 0u), LABEL_TEXT);                                             \
      cnt += m;                                                                                                        \
    }                                                                                                                  \
    __CPROVER_assert((S).events_.n == cnt, LABEL_TEXT ": no foreign element");                                        \
  } while (0)

#ifdef H_set_algebra
void harness(void)
{
  vf_exc = 0;
  build(&A, g_ka, inA);
  build(&B, g_kb, inB);
  struct EventSet D = EventSet__subtracting(&A, &B);
  CHECK_SET(D, inA[i] && !inB[i], "subtracting == set difference"); /*@ subtracting_is_set_difference */
  struct EventSet U = EventSet__make_union(&A, &B);
  CHECK_SET(U, inA[i] || inB[i], "make_union == set union"); /*@ make_union_is_set_union */
  struct EventSet I = EventSet__make_intersection(&A, &B);
  CHECK_SET(I, inA[i] && inB[i], "make_intersection == set intersection"); /*@ make_intersection_is_set_intersection */
  _Bool sub = 1, emptyA = 1;
  for (int i = 0; i < NU; i++) {
    if (inA[i] && !inB[i])
      sub = 0;
    if (inA[i])
      emptyA = 0;
    __CPROVER_assert(EventSet__contains(&A, &g_ev[i]) == inA[i], "contains == membership"); /*@ contains_is_membership */
  }
  __CPROVER_assert(EventSet__is_subset_of(&A, &B) == sub, "is_subset_of == inclusion"); /*@ is_subset_of_is_inclusion */
  __CPROVER_assert(EventSet__empty(&A) == emptyA, "empty == no member"); /*@ empty_is_no_member */
  CHECK_SET(A, inA[i], "operands unchanged"); /*@ operands_unchanged */
  CHECK_SET(B, inB[i], "operands unchanged"); /*@ operands_unchanged */
  __CPROVER_assert(vf_exc == 0, "nothing raised"); /*@ never_fails */
  VF_CANARY_POINT;
}
#endif
