/* C04 — Mutex semantics: exclusion, FIFO hand-off, ownership, recursion.
 * Contracts on the real MutexImpl / MutexAcquisitionImpl methods (extracted by cxx2c into gen.c).
 * Abstract view of a mutex m: owner(m), COUNT(m) = number of acquisitions the owner still has to release,
 * Q(m) = FIFO of pending acquisitions (ongoing_acquisitions_), each (issuer, depth, granted).               */
#include "gen.h"

#ifndef QCAP
#define QCAP 4 /* model capacity of the FIFO (state it in the evidence) */
#endif
#define QSZ (2 * QCAP + 2)
#define NACT 3 /* actors in the universe: enough for owner / issuer / a third party */

/* ---------------- the state the harnesses build (all objects distinct, all pointers valid) ------------- */
struct ActorImpl g_act[NACT];
struct ActivityImpl* g_ws[NACT][QSZ];
struct MutexAcquisitionImpl g_acq[QSZ];
struct MutexAcquisitionImpl* g_qd[QSZ];
struct MutexImpl g_m;

/* ghost observers of the assumed callees */
int g_answered;                 /* number of ActorImpl::simcall_answer calls */
struct ActorImpl* g_answered_actor;
int g_registered;               /* number of register_simcall calls */

#define Qh (g_m.ongoing_acquisitions_.h)
#define Qn (g_m.ongoing_acquisitions_.n)
#define Q(k) (g_qd[Qh + (k)])
#define oldQh __CPROVER_old(g_m.ongoing_acquisitions_.h)
#define oldQn __CPROVER_old(g_m.ongoing_acquisitions_.n)
#define COUNT (g_m.is_recursive_ ? g_m.recursive_depth : (g_m.owner_ != NULL ? 1 : 0))
#define OLD_COUNT (g_m.is_recursive_ ? __CPROVER_old(g_m.recursive_depth) : (__CPROVER_old(g_m.owner_) != NULL ? 1 : 0))

#define IS_ACTOR(p) ((p) == &g_act[0] || (p) == &g_act[1] || (p) == &g_act[2])
#if QCAP == 4
#define ALLQ(P) (P(0) && P(1) && P(2) && P(3))
#define ANYQ(P) (P(0) || P(1) || P(2) || P(3))
#define ALLPAIRS(P) (P(0, 1) && P(0, 2) && P(0, 3) && P(1, 2) && P(1, 3) && P(2, 3))
#elif QCAP == 6
#define ALLQ(P) (P(0) && P(1) && P(2) && P(3) && P(4) && P(5))
#define ANYQ(P) (P(0) || P(1) || P(2) || P(3) || P(4) || P(5))
#define ALLPAIRS(P)                                                                                                    \
  (P(0, 1) && P(0, 2) && P(0, 3) && P(0, 4) && P(0, 5) && P(1, 2) && P(1, 3) && P(1, 4) && P(1, 5) && P(2, 3) &&       \
   P(2, 4) && P(2, 5) && P(3, 4) && P(3, 5) && P(4, 5))
#else
#error "QCAP must be 4 or 6"
#endif

/* representation invariant of the mutex (wf_Mutex of DESIGN.md) */
#define WF_ELEM(k)                                                                                                     \
  (!((k) < Qn) || (Q(k) == &g_acq[Qh + (k)] && IS_ACTOR(Q(k)->issuer_) && Q(k)->mutex_ == &g_m && !Q(k)->granted_ &&  \
                   Q(k)->recursive_depth_ >= 1 &&                                  \
                   (!g_m.is_recursive_ || Q(k)->issuer_ != g_m.owner_)))
#define WF_PAIR(i, j) (!((j) < Qn) || !g_m.is_recursive_ || Q(i)->issuer_ != Q(j)->issuer_)
#define WF_MUTEX                                                                                                       \
  (g_m.ongoing_acquisitions_.d == g_qd && g_m.ongoing_acquisitions_.cap == QSZ && Qh <= QCAP && Qn <= QCAP && Qh + Qn <= QCAP &&              \
   (g_m.owner_ == NULL || IS_ACTOR(g_m.owner_)) && (g_m.owner_ != NULL || Qn == 0) &&                                  \
   (!g_m.is_recursive_ || (g_m.recursive_depth >= 0 &&                                \
                           ((g_m.owner_ == NULL) == (g_m.recursive_depth == 0)))) &&                                   \
   ALLQ(WF_ELEM) && ALLPAIRS(WF_PAIR))
#define WF_ACTORS                                                                                                      \
  (g_act[0].waiting_synchros_.d == g_ws[0] && g_act[1].waiting_synchros_.d == g_ws[1] &&                               \
   g_act[2].waiting_synchros_.d == g_ws[2] && g_act[0].waiting_synchros_.h == 0 &&                                     \
   g_act[1].waiting_synchros_.h == 0 && g_act[2].waiting_synchros_.h == 0 &&                                           \
   g_act[0].waiting_synchros_.n <= QCAP && g_act[1].waiting_synchros_.n <= QCAP &&                                     \
   g_act[2].waiting_synchros_.n <= QCAP)

/* depth counters stay far from INT_MAX (assumption: no actor nests 10^6 recursive locks) */
#define NO_OVF_ELEM(k) (!((k) < Qn) || Q(k)->recursive_depth_ < 1000000)
#define NO_OVF (g_m.recursive_depth < 1000000 && ALLQ(NO_OVF_ELEM))

/* ghost index: an arbitrary queue position; obligations mentioning it hold for every position */
size_t gk;

/* ---------------- assumed contracts of callees outside C04 (listed in the evidence) -------------------- */
void ActivityImpl__register_simcall(struct ActivityImpl* self, struct Simcall* sc)
    __CPROVER_requires(__CPROVER_rw_ok(self, sizeof(*self))) __CPROVER_assigns(g_registered, self->simcalls_.n)
    __CPROVER_ensures(g_registered == __CPROVER_old(g_registered) + 1 &&
                      self->simcalls_.n == __CPROVER_old(self->simcalls_.n) + 1);

struct ActorImpl* ActivityImpl__unregister_first_simcall(struct ActivityImpl* self)
    __CPROVER_requires(1) __CPROVER_assigns()
    __CPROVER_ensures(__CPROVER_return_value == NULL || IS_ACTOR(__CPROVER_return_value));

void ActorImpl__simcall_answer(struct ActorImpl* self)
    __CPROVER_requires(IS_ACTOR(self)) __CPROVER_assigns(g_answered, g_answered_actor)
    __CPROVER_ensures(g_answered == __CPROVER_old(g_answered) + 1 && g_answered_actor == self);

void ActivityImpl_T_MutexAcquisitionImpl__ctor(struct ActivityImpl_T_MutexAcquisitionImpl* self)
    __CPROVER_requires(__CPROVER_rw_ok(self, sizeof(*self))) __CPROVER_assigns(*self)
    __CPROVER_ensures(self->__b_ActivityImpl.simcalls_.n == 0);

/* ---------------- contracts of the units ----------------------------------------------------------------- */

/* try_lock never blocks (no register_simcall in its frame), succeeds iff free or recursively held by caller */
_Bool MutexImpl__try_lock(struct MutexImpl* self, struct ActorImpl* issuer)
    __CPROVER_requires(self == &g_m && WF_MUTEX && NO_OVF && IS_ACTOR(issuer))
    __CPROVER_assigns(g_m.owner_, g_m.recursive_depth)
    __CPROVER_ensures(__CPROVER_return_value ==
                      (__CPROVER_old(g_m.owner_) == NULL ||
                       (__CPROVER_old(g_m.owner_) == issuer && g_m.is_recursive_))) /*@ trylock_iff_free_or_mine */
    __CPROVER_ensures(!__CPROVER_return_value ||
                      (g_m.owner_ == issuer && COUNT == OLD_COUNT + 1)) /*@ trylock_success_counts_one */
    __CPROVER_ensures(__CPROVER_return_value || (g_m.owner_ == __CPROVER_old(g_m.owner_) &&
                                                 g_m.recursive_depth ==
                                                     __CPROVER_old(g_m.recursive_depth))) /*@ trylock_failure_no_change */
    __CPROVER_ensures(WF_MUTEX)                                                           /*@ trylock_keeps_wf */
    __CPROVER_ensures(vf_exc == 0);

/* unlock: only the owner releases; n-th unlock of a recursive mutex releases; FIFO hand-off to head(Q) */
void MutexImpl__unlock(struct MutexImpl* self, struct ActorImpl* issuer)
    __CPROVER_requires(self == &g_m && WF_MUTEX && NO_OVF && WF_ACTORS && IS_ACTOR(issuer) && vf_exc == 0)
    __CPROVER_requires(g_answered == 0)
    /* assumed link with ActivityImpl (register_simcall is an assumed callee): a pending acquisition has one waiter */
    __CPROVER_requires(Qn == 0 || Q(0)->__b_ActivityImpl_T_MutexAcquisitionImpl.__b_ActivityImpl.simcalls_.n == 1)
    __CPROVER_assigns(vf_exc, g_m.owner_, g_m.recursive_depth, g_m.ongoing_acquisitions_.h, g_m.ongoing_acquisitions_.n,
                      __CPROVER_object_whole(g_acq), g_answered, g_answered_actor)
    __CPROVER_ensures((vf_exc == VF_EXC_ABORT) == (__CPROVER_old(g_m.owner_) != issuer)) /*@ unlock_only_owner */
    __CPROVER_ensures(vf_exc == 0 || vf_exc == VF_EXC_ABORT)
    __CPROVER_ensures(vf_exc != 0 || !(g_m.is_recursive_ && __CPROVER_old(g_m.recursive_depth) > 1) ||
                      (g_m.owner_ == issuer && g_m.recursive_depth == __CPROVER_old(g_m.recursive_depth) - 1 &&
                       Qh == oldQh && Qn == oldQn)) /*@ unlock_recursive_keeps_until_nth */
    __CPROVER_ensures(vf_exc != 0 || (g_m.is_recursive_ && __CPROVER_old(g_m.recursive_depth) > 1) || oldQn == 0 ||
                      (g_m.owner_ == __CPROVER_old(g_qd[g_m.ongoing_acquisitions_.h]->issuer_) && Qh == oldQh + 1 &&
                       Qn == oldQn - 1 && g_qd[oldQh]->granted_ &&
                       COUNT == (g_m.is_recursive_ ? __CPROVER_old(g_qd[g_m.ongoing_acquisitions_.h]->recursive_depth_)
                                                   : 1))) /*@ unlock_fifo_handoff_to_head */
    __CPROVER_ensures(vf_exc != 0 || (g_m.is_recursive_ && __CPROVER_old(g_m.recursive_depth) > 1) || oldQn != 0 ||
                      (g_m.owner_ == NULL && Qn == 0 && COUNT == 0)) /*@ unlock_frees_when_nobody_waits */
    __CPROVER_ensures(vf_exc != 0 || !(gk < Qn) || Q(gk) == &g_acq[Qh + gk]) /*@ unlock_queue_order_preserved */
    __CPROVER_ensures(vf_exc != 0 || WF_MUTEX)                                /*@ unlock_keeps_wf */
    __CPROVER_ensures(vf_exc == 0 || (g_m.owner_ == __CPROVER_old(g_m.owner_) && Qn == oldQn && Qh == oldQh &&
                                      g_m.recursive_depth == __CPROVER_old(g_m.recursive_depth)))
    /*@ unlock_rejected_changes_nothing */;

/* lock_async: always returns an acquisition; granted at once iff free or recursively mine; else queued at the TAIL */
#define INQ_AT(k) ((k) < oldQn && __CPROVER_old(g_qd[g_m.ongoing_acquisitions_.h + (k)]->issuer_) == issuer)
#define NOTINQ_AT(k) (!INQ_AT(k))
struct MutexAcquisitionImpl* MutexImpl__lock_async(struct MutexImpl* self, struct ActorImpl* issuer)
    __CPROVER_requires(self == &g_m && WF_MUTEX && NO_OVF && IS_ACTOR(issuer) && vf_exc == 0)
    __CPROVER_assigns(g_m.owner_, g_m.recursive_depth, g_m.ongoing_acquisitions_.n, __CPROVER_object_whole(g_qd),
                      __CPROVER_object_whole(g_acq))
    __CPROVER_ensures(vf_exc == 0 && __CPROVER_return_value != NULL)
    __CPROVER_ensures(__CPROVER_return_value->issuer_ == issuer && __CPROVER_return_value->mutex_ == &g_m)
    /*@ lock_async_acq_is_mine */
    __CPROVER_ensures(!(__CPROVER_old(g_m.owner_) == NULL) ||
                      (g_m.owner_ == issuer && COUNT == 1 && __CPROVER_return_value->granted_ && Qn == 0))
    /*@ lock_async_free_takes_it */
    __CPROVER_ensures(!(g_m.is_recursive_ && __CPROVER_old(g_m.owner_) == issuer) ||
                      (g_m.owner_ == issuer && g_m.recursive_depth == __CPROVER_old(g_m.recursive_depth) + 1 &&
                       __CPROVER_return_value->granted_ && Qn == oldQn)) /*@ lock_async_recursive_relock */
    __CPROVER_ensures(!(__CPROVER_old(g_m.owner_) != NULL && !(g_m.is_recursive_ && __CPROVER_old(g_m.owner_) == issuer) &&
                        !(g_m.is_recursive_ && ANYQ(INQ_AT))) ||
                      (g_m.owner_ == __CPROVER_old(g_m.owner_) && Qn == oldQn + 1 && Qh == oldQh &&
                       Q(oldQn) == __CPROVER_return_value && !__CPROVER_return_value->granted_ &&
                       __CPROVER_return_value->recursive_depth_ == 1)) /*@ lock_async_blocked_goes_to_tail */
    __CPROVER_ensures(!(g_m.is_recursive_ && __CPROVER_old(g_m.owner_) != NULL && __CPROVER_old(g_m.owner_) != issuer &&
                        INQ_AT(gk)) ||
                      (__CPROVER_return_value == Q(gk) && Qn == oldQn &&
                       Q(gk)->recursive_depth_ == __CPROVER_old(g_qd[g_m.ongoing_acquisitions_.h + gk]->recursive_depth_) + 1 &&
                       g_m.owner_ == __CPROVER_old(g_m.owner_))) /*@ lock_async_recursive_requeue_bumps_depth */
    __CPROVER_ensures(!(gk < oldQn) || (Q(gk) == &g_acq[Qh + gk] && !Q(gk)->granted_ &&
                                        Q(gk)->issuer_ == __CPROVER_old(g_qd[g_m.ongoing_acquisitions_.h + gk]->issuer_)))
    /*@ lock_async_existing_queue_untouched */;

/* loop 0 of lock_async: linear search of the issuer in Q (recursive mutex only) */
#define NOT_FOUND_BEFORE(k) (!((k) < __i0) || g_qd[Qh + (k)]->issuer_ != issuer)
#define VF_LOOP_MutexImpl__lock_async_0                                                                                \
  __CPROVER_assigns(__i0) __CPROVER_loop_invariant(__i0 <= __r0->n && ALLQ(NOT_FOUND_BEFORE))                          \
      __CPROVER_decreases(__r0->n - __i0)

/* acquisition side */
_Bool MutexAcquisitionImpl__test(struct MutexAcquisitionImpl* self, struct ActorImpl* a)
    __CPROVER_requires(__CPROVER_r_ok(self, sizeof(*self)) && self->mutex_ == &g_m) __CPROVER_assigns()
    __CPROVER_ensures(__CPROVER_return_value == (g_m.owner_ == self->issuer_)) /*@ test_true_iff_owner */;

void MutexAcquisitionImpl__finish(struct MutexAcquisitionImpl* self)
    __CPROVER_requires(__CPROVER_rw_ok(self, sizeof(*self)) && vf_exc == 0)
    __CPROVER_assigns(vf_exc, g_answered, g_answered_actor)
    __CPROVER_ensures((vf_exc == VF_EXC_ABORT) ==
                      (self->__b_ActivityImpl_T_MutexAcquisitionImpl.__b_ActivityImpl.simcalls_.n != 1))
    /*@ finish_needs_exactly_one_waiter */
    __CPROVER_ensures(vf_exc == 0 || vf_exc == VF_EXC_ABORT)
    __CPROVER_ensures(g_answered == __CPROVER_old(g_answered) ||
                      (vf_exc == 0 && g_answered == __CPROVER_old(g_answered) + 1)) /*@ finish_answers_at_most_once */;

#define SIMCALLS_N(a) ((a)->__b_ActivityImpl_T_MutexAcquisitionImpl.__b_ActivityImpl.simcalls_.n)
/* wait_for: only the creator may wait, no timeouts; blocks (registers, no answer) unless the issuer already owns */
void MutexAcquisitionImpl__wait_for(struct MutexAcquisitionImpl* self, struct ActorImpl* issuer, double timeout)
    __CPROVER_requires(__CPROVER_rw_ok(self, sizeof(*self)) && self->mutex_ == &g_m && IS_ACTOR(self->issuer_) &&
                       __CPROVER_r_ok(self->issuer_, sizeof(struct ActorImpl)) && vf_exc == 0 && g_registered == 0 &&
                       g_answered == 0 && SIMCALLS_N(self) == 0)
    __CPROVER_assigns(vf_exc, g_registered, g_answered, g_answered_actor, SIMCALLS_N(self))
    __CPROVER_ensures((vf_exc == VF_EXC_ABORT) ==
                      (g_m.owner_ == NULL || issuer != self->issuer_ || !(timeout < 0.0))) /*@ wait_for_rejects_misuse */
    __CPROVER_ensures(vf_exc == 0 || vf_exc == VF_EXC_ABORT)
    __CPROVER_ensures(vf_exc != 0 || g_registered == 1)                   /*@ wait_for_registers_the_waiter */
    __CPROVER_ensures(g_m.owner_ == self->issuer_ || g_answered == 0)      /*@ wait_for_blocks_while_not_owner */
    __CPROVER_ensures(g_answered == 0 || g_answered == 1) /*@ wait_for_answers_once */;

#include "gen.c"

/* ---------------- harnesses -------------------------------------------------------------------------------- */
size_t nondet_size(void);
int nondet_int(void);
_Bool nondet_bool(void);

static struct ActorImpl* pick_actor(void)
{
  int i = nondet_int();
  __CPROVER_assume(0 <= i && i < NACT);
  return &g_act[i];
}

static void setup(void)
{
  for (int a = 0; a < NACT; a++) {
    g_act[a].waiting_synchros_.d   = g_ws[a];
    g_act[a].waiting_synchros_.h   = 0;
    g_act[a].waiting_synchros_.cap = QSZ;
    size_t n                       = nondet_size();
    __CPROVER_assume(n <= QCAP);
    g_act[a].waiting_synchros_.n = n;
  }
  for (int k = 0; k < QSZ; k++) {
    g_qd[k]            = &g_acq[k];
    g_acq[k].issuer_   = pick_actor();
    g_acq[k].mutex_    = &g_m;
    g_acq[k].__b_ActivityImpl_T_MutexAcquisitionImpl.__b_ActivityImpl.simcalls_.d = NULL;
  }
  g_m.ongoing_acquisitions_.d   = g_qd;
  g_m.ongoing_acquisitions_.cap = QSZ;
  g_m.owner_                    = nondet_bool() ? NULL : pick_actor();
  vf_exc                        = 0;
  g_answered                    = 0;
  __CPROVER_assume(gk < QCAP);
}

#ifdef H_try_lock
void harness(void)
{
  setup();
  MutexImpl__try_lock(&g_m, pick_actor());
  VF_CANARY_POINT;
}
#endif
#ifdef H_unlock
void harness(void)
{
  setup();
  MutexImpl__unlock(&g_m, pick_actor());
  VF_CANARY_POINT;
}
#endif
#ifdef H_acq_test
void harness(void)
{
  setup();
  size_t k = nondet_size();
  __CPROVER_assume(k < QSZ);
  MutexAcquisitionImpl__test(&g_acq[k], pick_actor());
  VF_CANARY_POINT;
}
#endif
#ifdef H_acq_finish
void harness(void)
{
  setup();
  size_t k = nondet_size();
  __CPROVER_assume(k < QSZ);
  MutexAcquisitionImpl__finish(&g_acq[k]);
  VF_CANARY_POINT;
}
#endif
#ifdef H_acq_wait_for
double nondet_double(void);
void harness(void)
{
  setup();
  size_t k = nondet_size();
  __CPROVER_assume(k < QSZ);
  g_registered = 0;
  MutexAcquisitionImpl__wait_for(&g_acq[k], pick_actor(), nondet_double());
  VF_CANARY_POINT;
}
#endif
#ifdef H_lock_async
void harness(void)
{
  setup();
  MutexImpl__lock_async(&g_m, pick_actor());
  VF_CANARY_POINT;
}
#endif
