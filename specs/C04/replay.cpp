// Native replay for C04: runs the REAL MutexImpl code of the working tree (the TU is compiled into this driver)
// on small reachable states and checks the same postconditions as specs/C04/spec.c.
#include "src/kernel/activity/MutexImpl.cpp"
#include <cstdio>
#include <cstring>
#include <vector>
using namespace simgrid::kernel;
using activity::MutexImpl;

static int count_of(MutexImpl& m) { return m.is_recursive_ ? m.recursive_depth : (m.owner_ != nullptr ? 1 : 0); }
static bool wf(MutexImpl& m)
{
  if (m.owner_ == nullptr && not m.ongoing_acquisitions_.empty())
    return false;
  if (m.is_recursive_ && ((m.owner_ == nullptr) != (m.recursive_depth == 0) || m.recursive_depth < 0))
    return false;
  for (auto const& a : m.ongoing_acquisitions_)
    if (a->granted_ || a->recursive_depth_ < 1 || (m.is_recursive_ && a->issuer_ == m.owner_.get()))
      return false;
  return true;
}

// ops: 0 = lock_async, 1 = try_lock, 2 = unlock ; actor index 0..1
struct Op { int kind; int who; };
static const char* opname[] = {"lock_async", "try_lock", "unlock"};

int main(int argc, char** argv)
{
  const char* label = argc > 1 ? argv[1] : "";
  actor::ActorImpl* act[2] = {new actor::ActorImpl("a0", nullptr, -1), new actor::ActorImpl("a1", nullptr, -1)};
  std::vector<activity::MutexAcquisitionImplPtr> keep;
  int failures = 0;
  // every prefix of length <= 3 over {lock_async,try_lock,unlock(by owner only)} x 2 actors, then the op under test
  for (int rec = 0; rec < 2; rec++)
    for (int len = 0; len <= 3; len++) {
      int total = 1;
      for (int i = 0; i < len; i++)
        total *= 6;
      for (int code = 0; code < total; code++) {
        MutexImpl* m = new MutexImpl(rec);
        std::vector<Op> seq;
        int c = code;
        bool ok = true;
        for (int i = 0; i < len && ok; i++) {
          Op o{c % 3, (c / 3) % 2};
          c /= 6;
          if (o.kind == 2 && m->owner_.get() != act[o.who]) { ok = false; break; } // unlock by non-owner aborts: skip
          seq.push_back(o);
          if (o.kind == 0) keep.push_back(m->lock_async(act[o.who]));
          else if (o.kind == 1) m->try_lock(act[o.who]);
          else {
            // unlock hands over to queued acquisitions and looks at owner_->waiting_synchros_ (empty here)
            m->unlock(act[o.who]);
          }
        }
        if (!ok) continue;
        if (strstr(label, "try_lock")) {
          for (int who = 0; who < 2; who++) {
            // work on the state reached by seq; redo the prefix for each `who`
            MutexImpl* n = new MutexImpl(rec);
            for (auto o : seq) {
              if (o.kind == 0) keep.push_back(n->lock_async(act[o.who]));
              else if (o.kind == 1) n->try_lock(act[o.who]);
              else n->unlock(act[o.who]);
            }
            auto* old_owner = n->owner_.get();
            int old_count   = count_of(*n);
            int old_depth   = n->recursive_depth;
            bool pre_wf     = wf(*n);
            bool r          = n->try_lock(act[who]);
            bool expect     = old_owner == nullptr || (old_owner == act[who] && rec);
            bool bad        = false;
            const char* why = "";
            if (r != expect) { bad = true; why = "trylock_iff_free_or_mine"; }
            else if (r && !(n->owner_.get() == act[who] && count_of(*n) == old_count + 1)) { bad = true; why = "trylock_success_counts_one"; }
            else if (!r && !(n->owner_.get() == old_owner && n->recursive_depth == old_depth)) { bad = true; why = "trylock_failure_no_change"; }
            else if (pre_wf && !wf(*n)) { bad = true; why = "trylock_keeps_wf"; }
            if (bad && pre_wf) {
              failures++;
              if (failures <= 3) {
                printf("FAIL %s: recursive=%d prefix=[", why, rec);
                for (auto o : seq) printf("%s(a%d) ", opname[o.kind], o.who);
                printf("] then try_lock(a%d) -> %d; owner=%s depth=%d count=%d (old count %d)\n", who, r,
                       n->owner_ == nullptr ? "none" : (n->owner_.get() == act[0] ? "a0" : "a1"), n->recursive_depth,
                       count_of(*n), old_count);
              }
            }
          }
        }
      }
    }
  // the end-to-end consequence of a broken count: a recursive mutex acquired twice is freed by one unlock
  if (strstr(label, "try_lock")) {
    MutexImpl* m = new MutexImpl(true);
    m->try_lock(act[0]);
    m->try_lock(act[0]);
    m->unlock(act[0]);
    if (m->owner_ == nullptr) {
      printf("FAIL recursion: try_lock,try_lock,unlock leaves the mutex free (acquired twice, released once)\n");
      failures++;
    }
  }
  printf("native replay: %d failing inputs\n", failures);
  return failures ? 1 : 0;
}
