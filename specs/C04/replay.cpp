// Native replay for C04: runs the REAL MutexImpl code of the working tree (the TU is compiled into this driver)
// on every reachable state of <= 4 operations by 2 actors and checks it, step by step, against the abstract view
// that specs/C04/spec.c states as contracts (owner, acquisition count, FIFO of (issuer, depth)):
//   try_lock succeeds iff free or recursively mine, and counts one acquisition; unlock releases at the n-th unlock and
//   hands over to the head of the FIFO with its depth; lock_async takes a free mutex, relocks recursively, bumps the
//   depth of an already queued recursive request, or queues at the tail.
// argv[1] = label of the failed obligation (only used for reporting). exit 1 = a concrete failing sequence was found.
#include "src/kernel/activity/MutexImpl.cpp"
#include <cstdio>
#include <cstring>
#include <deque>
#include <vector>
using namespace simgrid::kernel;
using activity::MutexImpl;

struct Model {
  bool rec;
  int owner = -1;
  int count = 0; // acquisitions the owner still has to release
  std::deque<std::pair<int, int>> q; // (issuer, depth)
  bool try_lock(int who)
  {
    if (owner == who && rec) { count++; return true; }
    if (owner != -1) return false;
    owner = who; count = 1; return true;
  }
  void lock_async(int who)
  {
    if (owner == -1) { owner = who; count = 1; return; }
    if (rec && owner == who) { count++; return; }
    if (rec)
      for (auto& e : q)
        if (e.first == who) { e.second++; return; }
    q.emplace_back(who, 1);
  }
  void unlock()
  {
    if (rec && count > 1) { count--; return; }
    if (q.empty()) { owner = -1; count = 0; return; }
    owner = q.front().first; count = rec ? q.front().second : 1; q.pop_front();
  }
};

static const char* opname[] = {"lock_async", "try_lock", "unlock"};
struct Op { int kind; int who; };

int main(int argc, char** argv)
{
  const char* label = argc > 1 ? argv[1] : "";
  actor::ActorImpl* act[2] = {new actor::ActorImpl("a0", nullptr, -1), new actor::ActorImpl("a1", nullptr, -1)};
  std::vector<activity::MutexAcquisitionImplPtr> keep;
  int failures = 0;
  for (int rec = 0; rec < 2; rec++)
    for (int len = 1; len <= 4; len++) {
      int total = 1;
      for (int i = 0; i < len; i++) total *= 6;
      for (int code = 0; code < total; code++) {
        MutexImpl* m = new MutexImpl(rec);
        Model mod; mod.rec = rec;
        std::vector<Op> seq;
        int c = code;
        const char* why = nullptr;
        for (int i = 0; i < len && !why; i++) {
          Op o{c % 3, (c / 3) % 2};
          c /= 6;
          if (o.kind == 2 && mod.owner != o.who) break; // unlock by a non-owner aborts: not part of a valid history
          seq.push_back(o);
          bool r = true, er = true;
          if (o.kind == 0) { keep.push_back(m->lock_async(act[o.who])); mod.lock_async(o.who); }
          else if (o.kind == 1) { r = m->try_lock(act[o.who]); er = mod.try_lock(o.who); }
          else { m->unlock(act[o.who]); mod.unlock(); }
          int owner = m->owner_ == nullptr ? -1 : (m->owner_.get() == act[0] ? 0 : 1);
          int count = rec ? m->recursive_depth : (m->owner_ != nullptr ? 1 : 0);
          if (r != er) why = "result of try_lock";
          else if (owner != mod.owner) why = "owner";
          else if (count != mod.count) why = "acquisition count of the owner";
          else if (m->ongoing_acquisitions_.size() != mod.q.size()) why = "length of the FIFO";
          else {
            size_t k = 0;
            for (auto const& a : m->ongoing_acquisitions_) {
              int iss = a->issuer_ == act[0] ? 0 : 1;
              if (iss != mod.q[k].first) why = "FIFO order";
              else if (rec && a->recursive_depth_ != mod.q[k].second) why = "depth of a queued acquisition";
              else if (a->granted_) why = "queued acquisition granted";
              k++;
            }
          }
          if (why) {
            failures++;
            if (failures <= 3) {
              printf("FAIL (%s differs from the abstract view) recursive=%d after [", why, rec);
              for (auto s : seq) printf("%s(a%d) ", opname[s.kind], s.who);
              printf("]: real owner=%d count=%d queue=%zu ; expected owner=%d count=%d queue=%zu\n", owner, count,
                     m->ongoing_acquisitions_.size(), mod.owner, mod.count, mod.q.size());
            }
          }
        }
      }
    }
  printf("native replay (obligation %s): %d failing histories\n", label, failures);
  return failures ? 1 : 0;
}
