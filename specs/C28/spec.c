/* C28 — MPI point-to-point matching and the non-overtaking mechanism.
 * Contracts on the real Request::match_common / match_recv / match_send (extracted by cxx2c into gen.c).
 * A pair (sender request S, receiver request R) matches iff communicator ids are compatible, the source is equal or
 * wildcarded to a member of R's communicator, and the tag is equal or wildcarded to a non-negative tag.          */
#ifndef MQ
#define MQ 4 /* model capacity of Request::message_id_ (ids of the messages a send request may stand for) */
#endif
#define VF_CAP (MQ + 1)
#include "gen.h"
#if MQ != 4
#error "HAS_EXPECTED / IDS_UNCHANGED are written for MQ == 4"
#endif

#define UNDEF (-333)        /* MPI_UNDEFINED  */
#define ANY_SOURCE (-555L)  /* MPI_ANY_SOURCE */
#define ANY_TAG (-444)      /* MPI_ANY_TAG    */
#define MATCHED VFC_MPI_REQ_MATCHED
#define PROBE VFC_MPI_REQ_PROBE

/* ---------------- state built by the harness ------------------------------------------------------------------ */
struct Request g_s, g_r;     /* the send request and the receive request */
struct Comm g_c0, g_c1, g_c2; /* communicator objects (g_c2 plays MPI_COMM_UNINITIALIZED); separate objects, not an array:
                                 cbmc 6.11's simplifier crashes on comparing addresses of array elements with symbolic index */
struct Group g_grp0, g_grp1, g_grp2;
#define COMM_AT(i) ((i) == 0 ? &g_c0 : ((i) == 1 ? &g_c1 : &g_c2))
#define GRP_AT(i) ((i) == 0 ? &g_grp0 : ((i) == 1 ? &g_grp1 : &g_grp2))
unsigned int g_ids[MQ + 1];  /* storage of g_s.message_id_ */
struct Datatype g_ts, g_tr;

/* ghost description of the assumed callees */
int g_comm_id[3];        /* Comm::id() of each communicator */
_Bool g_smp[3];          /* Comm::is_smp_comm() */
long g_pidA, g_pidB;     /* Group::rank is a function: rank(g_pidA) = g_rankA, rank(g_pidB) = g_rankB, else MPI_UNDEFINED */
int g_rankA, g_rankB;
unsigned int g_expected; /* Comm::get_received_messages_count(src rank, dst rank, tag): next message id expected */
int g_incr;              /* number of increment_received_messages_count calls */
_Bool g_types_match;     /* Request::match_types(S.type, R.type) */
int g_is, g_ir;          /* ghost: g_s.comm_ == COMM_AT(g_is), g_r.comm_ == COMM_AT(g_ir) */
_Bool g_req_is_sender;   /* ghost: match_common's req argument is the sender */

#define CIDX(c) ((c) == &g_c0 ? 0 : ((c) == &g_c1 ? 1 : 2))
#define IS_COMM(c) ((c) == &g_c0 || (c) == &g_c1 || (c) == &g_c2)
#define RANK(pid) ((pid) == g_pidA ? g_rankA : ((pid) == g_pidB ? g_rankB : UNDEF))

int Comm__id(struct Comm* self) __CPROVER_requires(IS_COMM(self)) __CPROVER_assigns()
    __CPROVER_ensures(__CPROVER_return_value == g_comm_id[CIDX(self)]);
_Bool Comm__is_smp_comm(struct Comm* self) __CPROVER_requires(IS_COMM(self)) __CPROVER_assigns()
    __CPROVER_ensures(__CPROVER_return_value == g_smp[CIDX(self)]);
struct Group* Comm__group(struct Comm* self) __CPROVER_requires(IS_COMM(self)) __CPROVER_assigns()
    __CPROVER_ensures(__CPROVER_return_value == GRP_AT(CIDX(self)));
int Group__rank(struct Group* self, long pid) __CPROVER_requires(self == GRP_AT(g_ir)) __CPROVER_assigns()
    __CPROVER_ensures(__CPROVER_return_value == RANK(pid));
/* the counters are looked up with the key (rank of the sender, rank of the destination, tag) of the RECEIVER's communicator:
 * the requires clauses below are checked at every call site of the units */
unsigned int Comm__get_received_messages_count(struct Comm* self, int src, int dst, int tag)
    __CPROVER_requires(self == g_r.comm_ && src == RANK(g_s.src_) && dst == RANK(g_s.dst_) && tag == g_s.tag_)
    __CPROVER_assigns() __CPROVER_ensures(__CPROVER_return_value == g_expected);
void Comm__increment_received_messages_count(struct Comm* self, int src, int dst, int tag)
    __CPROVER_requires(self == g_r.comm_ && src == RANK(g_s.src_) && dst == RANK(g_s.dst_) && tag == g_s.tag_)
    __CPROVER_assigns(g_incr) __CPROVER_ensures(g_incr == __CPROVER_old(g_incr) + 1);
_Bool Request__match_types(struct Datatype* stype, struct Datatype* rtype)
    __CPROVER_requires(stype == g_s.type_ && rtype == g_r.type_) __CPROVER_assigns()
    __CPROVER_ensures(__CPROVER_return_value == g_types_match);

/* ---------------- the matching rule, from the property statement ------------------------------------------------ */
#define COMM_OK                                                                                                        \
  (g_comm_id[g_ir] == UNDEF || g_comm_id[g_is] == UNDEF || g_comm_id[g_ir] == g_comm_id[g_is])
#define SRC_OK (g_r.src_ == g_s.src_ || (g_r.src_ == ANY_SOURCE && RANK(g_s.src_) != UNDEF))
#define TAG_OK (g_r.tag_ == g_s.tag_ || (g_r.tag_ == ANY_TAG && g_s.tag_ >= 0))
#define MATCHES (COMM_OK && SRC_OK && TAG_OK) /* src_, tag_, comm_ are never written by the units */

#define OLD(e) __CPROVER_old(e)
/* effects of a successful match on the receiver R (sender S is only read, except for the MATCHED flag) */
#define MATCH_EFFECTS                                                                                                  \
  (g_r.real_src_ == (g_r.src_ == ANY_SOURCE ? g_s.src_ : OLD(g_r.real_src_)) &&                                        \
   g_r.src_host_ == (g_r.src_ == ANY_SOURCE ? g_s.src_host_ : OLD(g_r.src_host_)) &&                                   \
   g_r.real_tag_ == (g_r.tag_ == ANY_TAG ? g_s.tag_ : OLD(g_r.real_tag_)) &&                                           \
   g_r.unmatched_types_ == (OLD(g_r.unmatched_types_) ||                                                               \
                            (g_s.real_size_ != 0 && OLD(g_r.real_size_) != 0 && !g_types_match)))
#define TRUNCATION_EXACT                                                                                               \
  (g_r.truncated_ == (OLD(g_r.truncated_) || ((g_r.flags_ & PROBE) == 0 && OLD(g_r.real_size_) < g_s.real_size_)))
#define R_UNCHANGED                                                                                                    \
  (g_r.real_src_ == OLD(g_r.real_src_) && g_r.src_host_ == OLD(g_r.src_host_) && g_r.real_tag_ == OLD(g_r.real_tag_) && \
   g_r.truncated_ == OLD(g_r.truncated_) && g_r.unmatched_types_ == OLD(g_r.unmatched_types_) &&                       \
   g_r.detached_sender_ == OLD(g_r.detached_sender_) && g_r.real_size_ == OLD(g_r.real_size_))
#define IDS_UNCHANGED                                                                                                  \
  (g_s.message_id_.n == OLD(g_s.message_id_.n) && g_s.message_id_.h == OLD(g_s.message_id_.h) &&                       \
   g_ids[0] == OLD(g_ids[0]) && g_ids[1] == OLD(g_ids[1]) && g_ids[2] == OLD(g_ids[2]) && g_ids[3] == OLD(g_ids[3]))

#define PRE_PAIR                                                                                                       \
  (vf_exc == 0 && 0 <= g_is && g_is < 3 && 0 <= g_ir && g_ir < 3 && g_s.comm_ == COMM_AT(g_is) && g_r.comm_ == COMM_AT(g_ir) && g_s.type_ == &g_ts && g_r.type_ == &g_tr &&              \
   MPI_COMM_UNINITIALIZED == &g_c2 && g_s.message_id_.d == g_ids && g_s.message_id_.h == 0 &&                        \
   g_s.message_id_.n <= MQ && g_s.message_id_.cap == MQ + 1)
#define R_FRAME                                                                                                        \
  g_r.real_src_, g_r.src_host_, g_r.real_tag_, g_r.truncated_, g_r.unmatched_types_, g_r.detached_sender_, g_r.flags_, \
      g_s.flags_

/* match_common(req, sender, receiver): req (one of the two) is the request that gets MPI_REQ_MATCHED */
_Bool Request__match_common(struct Request* req, struct Request* sender, struct Request* receiver)
    __CPROVER_requires(PRE_PAIR && sender == &g_s && receiver == &g_r && req == (g_req_is_sender ? &g_s : &g_r))
    __CPROVER_assigns(R_FRAME)
    __CPROVER_ensures(vf_exc == 0 && __CPROVER_return_value == MATCHES) /*@ matches_iff_comm_source_tag_compatible */
    __CPROVER_ensures(!__CPROVER_return_value || MATCH_EFFECTS) /*@ match_fills_wildcard_source_and_tag_from_sender */
    __CPROVER_ensures(!__CPROVER_return_value || TRUNCATION_EXACT) /*@ match_marks_truncated_iff_message_larger_than_buffer */
    __CPROVER_ensures(!__CPROVER_return_value ||
                      g_r.detached_sender_ == (g_s.detached_ ? &g_s : OLD(g_r.detached_sender_)))
    /*@ match_ties_detached_sender_to_receiver */
    __CPROVER_ensures(!__CPROVER_return_value ||
                      (g_req_is_sender ? (g_s.flags_ == (OLD(g_s.flags_) | MATCHED) && g_r.flags_ == OLD(g_r.flags_))
                                       : (g_r.flags_ == (OLD(g_r.flags_) | MATCHED) && g_s.flags_ == OLD(g_s.flags_))))
    /*@ match_sets_matched_flag_on_req_only */
    __CPROVER_ensures(__CPROVER_return_value ||
                      (R_UNCHANGED && g_r.flags_ == OLD(g_r.flags_) && g_s.flags_ == OLD(g_s.flags_)))
    /*@ no_match_changes_nothing */;

/* match_send(a = my send request, b = the posted receive): plain match, MATCHED on the receive request */
_Bool Request__match_send(void* a, void* b, struct CommImpl* unused)
    __CPROVER_requires(PRE_PAIR && a == &g_s && b == &g_r && !g_req_is_sender)
    __CPROVER_assigns(R_FRAME)
    __CPROVER_ensures(vf_exc == 0 && __CPROVER_return_value == MATCHES) /*@ send_matches_iff_compatible */
    __CPROVER_ensures(!__CPROVER_return_value || (MATCH_EFFECTS && TRUNCATION_EXACT &&
                                                  g_r.flags_ == (OLD(g_r.flags_) | MATCHED) && g_s.flags_ == OLD(g_s.flags_)))
    /*@ send_match_effects */
    __CPROVER_ensures(__CPROVER_return_value ||
                      (R_UNCHANGED && g_r.flags_ == OLD(g_r.flags_) && g_s.flags_ == OLD(g_s.flags_)))
    /*@ send_no_match_changes_nothing */;

/* match_recv(a = my receive request, b = the message's send request): match + non-overtaking:
 * the message is accepted only if it carries the next expected id for (sender, destination, tag) on R's communicator;
 * accepting a non-probe pair consumes that id and bumps the expected count exactly once.                              */
#define HAS_AT(k) ((k) < OLD(g_s.message_id_.n) && OLD(g_ids[k]) == g_expected)
#define HAS_EXPECTED (HAS_AT(0) || HAS_AT(1) || HAS_AT(2) || HAS_AT(3))
#define ORDERED (g_ir != 2 && !g_smp[g_ir]) /* communicators on which the ids are checked */
#define NOPROBE ((OLD(g_r.flags_) & PROBE) == 0 && (OLD(g_s.flags_) & PROBE) == 0)
#define FIRSTPOS (HAS_AT(0) ? 0 : (HAS_AT(1) ? 1 : (HAS_AT(2) ? 2 : 3)))
size_t gk; /* ghost index into message_id_ */
_Bool Request__match_recv(void* a, void* b, struct CommImpl* unused)
    __CPROVER_requires(PRE_PAIR && a == &g_r && b == &g_s && g_req_is_sender && g_incr == 0 && gk < MQ)
    __CPROVER_assigns(R_FRAME, g_r.real_size_, g_incr, g_s.message_id_.n, __CPROVER_object_whole(g_ids))
    __CPROVER_ensures(vf_exc == 0)
    __CPROVER_ensures(__CPROVER_return_value == (MATCHES && (!ORDERED || HAS_EXPECTED)))
    /*@ recv_accepts_iff_compatible_and_next_in_order */
    __CPROVER_ensures(!__CPROVER_return_value || (MATCH_EFFECTS && TRUNCATION_EXACT &&
                                                  g_s.flags_ == (OLD(g_s.flags_) | MATCHED) && g_r.flags_ == OLD(g_r.flags_)))
    /*@ recv_match_effects */
    __CPROVER_ensures(!(__CPROVER_return_value && ORDERED && NOPROBE) ||
                      (g_incr == 1 && g_s.message_id_.n == OLD(g_s.message_id_.n) - 1 &&
                       g_r.real_size_ == (OLD(g_r.real_size_) > g_s.real_size_ ? g_s.real_size_ : OLD(g_r.real_size_))))
    /*@ recv_consumes_one_id_and_bumps_count_once */
    __CPROVER_ensures(!(__CPROVER_return_value && ORDERED && NOPROBE) || !(gk < g_s.message_id_.n) ||
                      g_ids[gk] == (gk < FIRSTPOS ? OLD(g_ids[gk]) : OLD(g_ids[gk + 1])))
    /*@ recv_removes_exactly_the_expected_id_keeping_order */
    __CPROVER_ensures((__CPROVER_return_value && ORDERED && NOPROBE) ||
                      (g_incr == 0 && IDS_UNCHANGED && g_r.real_size_ == OLD(g_r.real_size_)))
    /*@ recv_probe_or_unordered_or_refused_keeps_ids_and_count */
    __CPROVER_ensures(__CPROVER_return_value || !MATCHES ||
                      (g_s.flags_ == (OLD(g_s.flags_) & ~MATCHED) && g_r.flags_ == OLD(g_r.flags_) && g_r.detached_sender_ == NULL))
    /*@ recv_refused_out_of_order_clears_matched */
#ifdef C28_STRICT_REFUSAL
    /* FAILS on the unchanged tree (kept out of the default run, reported in check.json/level_note): a message that matches
     * by communicator/source/tag but is refused because it is not the next expected one has already gone through
     * match_common, which set R.truncated_ (sticky) when the refused message is larger than R's buffer. Stronger than
     * the property needs for MPI-correct programs: there every message that can match a receive fits its buffer. */
    __CPROVER_ensures(__CPROVER_return_value || (g_r.truncated_ == OLD(g_r.truncated_)))
    /*@ recv_refused_message_does_not_mark_truncated */
#endif
    __CPROVER_ensures(__CPROVER_return_value || MATCHES || g_r.truncated_ == OLD(g_r.truncated_))
    /*@ recv_incompatible_message_does_not_mark_truncated */
    __CPROVER_ensures(__CPROVER_return_value || MATCHES ||
                      (R_UNCHANGED && g_r.flags_ == OLD(g_r.flags_) && g_s.flags_ == OLD(g_s.flags_)))
    /*@ recv_no_match_changes_nothing */;

/* ================= mailbox choice of Request::start (eager / rendez-vous threshold) ===================================
 * Every process has a "small" and a "large" mailbox. With threshold T = smpi/async-small-thresh, a message of `size` bytes
 * is an EAGER message iff it is an RMA message or (T != 0 and size < T)  -- the rule of the send side and of the
 * documentation, stated ONCE and used for both the receive and the send. A request that finds no counterpart already
 * posted must post itself in its home mailbox: small for eager messages (large for synchronous sends), large otherwise;
 * it leaves its home mailbox only to join a counterpart it has found there. Hence a receive and a matching send of
 * the same size always meet, whichever is posted first, for every size (including size == T) and every T (including 0).
 * Request::start is translated up to the simcall that hands the request to the kernel (units.json stop_at_call); the
 * mailbox given to the CommIrecvSimcall / CommIsendSimcall observer is what the contract speaks about.               */
struct Mailbox g_mb_small, g_mb_large;
struct MailboxImpl g_mbi_small, g_mbi_large;
struct ActorExt g_proc;
struct Actor g_actor;
struct Host g_host;
struct ActivityImpl g_pending;    /* what iprobe returns when a counterpart is already posted */
int g_T;                          /* smpi/async-small-thresh */
int g_D;                          /* smpi/send-is-detached-thresh */
_Bool g_in_small, g_in_large;     /* a matching counterpart is already posted in the small / large mailbox */
struct MailboxImpl* g_posted;     /* ghost: mailbox handed to the simcall observer */
int g_posts;                      /* ghost: number of observers built */

#define IS_EAGER(size, flags) ((((flags) & VFC_MPI_REQ_RMA) != 0) || (g_T != 0 && (int)(size) < g_T))
#define HOME_IS_SMALL(size, flags, is_send) (IS_EAGER(size, flags) && !((is_send) && (((flags) & VFC_MPI_REQ_SSEND) != 0)))

/* Assumed callees of Request::start, given as small C models (bodies) rather than contracts: there are about thirty call
 * sites and each contract replacement costs the instrumentation a few dozen objects. All of them are listed in check.json. */
double nondet_double(void);
unsigned int nondet_uint(void);
_Bool nondet_bool(void);
int smpi_cfg_async_small_thresh(void) { return g_T; }
int smpi_cfg_detached_send_thresh(void) { return g_D; }
struct Actor* by_pid(long pid) { return &g_actor; }
struct Actor* Actor__self(void) { return &g_actor; }
struct ActorExt* smpi_process_remote(struct Actor* a) { return &g_proc; }
struct Mailbox* ActorExt__mailbox(struct ActorExt* self) { __CPROVER_assert(self == &g_proc, "mailbox of the destination process"); return &g_mb_large; }
struct Mailbox* ActorExt__mailbox_small(struct ActorExt* self) { __CPROVER_assert(self == &g_proc, "small mailbox of the destination process"); return &g_mb_small; }
_Bool ActorExt__replaying(struct ActorExt* self) { return nondet_bool(); }
struct Host* Actor__get_host(struct Actor* self) { return &g_host; }
struct Host* Extendable_Host__extension(struct Extendable_Host* self) { return &g_host; }
double Host__oisend(struct Host* self, unsigned long size, struct Host* a, struct Host* b) { return nondet_double(); }
double Host__osend(struct Host* self, unsigned long size, struct Host* a, struct Host* b) { return nondet_double(); }
void sleep_for(double d) {}
/* iprobe: is a matching counterpart already posted in this mailbox? (the match functions are contracted above) */
struct ActivityImpl* Mailbox__iprobe(struct Mailbox* self, int kind, struct vf_fn* match, void* data)
{
  __CPROVER_assert((self == &g_mb_small || self == &g_mb_large) && data == &g_s, "iprobe on one of the two mailboxes for this request");
  return (self == &g_mb_small ? g_in_small : g_in_large) ? &g_pending : NULL;
}
struct CommIrecvSimcall CommIrecvSimcall__make(struct MailboxImpl* mbox) { struct CommIrecvSimcall o; g_posted = mbox; g_posts++; return o; }
struct CommIsendSimcall CommIsendSimcall__make(struct MailboxImpl* mbox) { struct CommIsendSimcall o; g_posted = mbox; g_posts++; return o; }
void Request__init_buffer(struct Request* self, int count) {}
void Request__print_request(struct Request* self, char* msg) {}
void Request__ref(struct Request* self) {}
void TRACE_smpi_send(long a, long b, long c, int tag, size_t size) {}
_Bool TRACE_smpi_view_internals(void) { return nondet_bool(); }
struct EngineImpl* get_instance(void) { return NULL; }
void EngineImpl__display_all_actor_status(struct EngineImpl* self) {}
unsigned int Comm__get_sent_messages_count(struct Comm* self, int src, int dst, int tag) { return nondet_uint(); }
void Comm__increment_sent_messages_count(struct Comm* self, int src, int dst, int tag) {}
void* xbt_malloc(size_t n) { __CPROVER_assert(0, "not reached: the harness sends from a NULL buffer"); return NULL; }

#define START_PRE                                                                                                      \
  (self == &g_s && vf_exc == 0 && g_s.action_ == NULL && g_s.size_ <= 2147483647UL && g_s.real_size_ <= 2147483647UL && \
   g_ts.flags_ >= 0 && g_T >= 0 && g_posts == 0 &&      \
   g_mb_small.pimpl_ == &g_mbi_small && g_mb_large.pimpl_ == &g_mbi_large && g_s.type_ == &g_ts && g_s.buf_ == NULL && g_s.old_buf_ == NULL && \
   0 <= g_ir && g_ir < 3 && g_r.comm_ == COMM_AT(g_ir) && g_s.comm_ == COMM_AT(g_ir) && g_s.message_id_.d == g_ids &&  \
   g_s.message_id_.h == 0 && g_s.message_id_.n < MQ && g_s.message_id_.cap == MQ + 1 &&                                \
   (g_s.real_size_ == 0 || (g_s.flags_ & VFC_MPI_REQ_FINISHED) == 0 || g_ts.size_ != 0))
#define IS_RECV ((__CPROVER_old(g_s.flags_) & VFC_MPI_REQ_RECV) != 0)
#define SZ0 __CPROVER_old(g_s.size_)
#define FL0 __CPROVER_old(g_s.flags_)
void Request__start(struct Request* self)
    __CPROVER_requires(START_PRE)
    __CPROVER_assigns(g_s.flags_, g_s.real_size_, g_s.buf_, g_s.detached_, g_s.message_id_.n, __CPROVER_object_whole(g_ids),
                      g_posted, g_posts)
    __CPROVER_ensures(vf_exc == 0 && g_posts == 1 && (g_posted == &g_mbi_small || g_posted == &g_mbi_large))
    /*@ start_posts_exactly_once_in_one_of_the_two_mailboxes */
    __CPROVER_ensures(g_in_small || g_in_large ||
                      g_posted == (HOME_IS_SMALL(SZ0, FL0, !IS_RECV) ? &g_mbi_small : &g_mbi_large))
    /*@ start_without_counterpart_posts_in_home_mailbox_of_the_size_class */
    __CPROVER_ensures(g_posted == (HOME_IS_SMALL(SZ0, FL0, !IS_RECV) ? &g_mbi_small : &g_mbi_large) ||
                      (g_posted == &g_mbi_small ? g_in_small : g_in_large))
    /*@ start_leaves_home_mailbox_only_to_join_a_posted_counterpart */
    __CPROVER_ensures((g_s.flags_ & VFC_MPI_REQ_PROBE) == (FL0 & VFC_MPI_REQ_PROBE)) /*@ start_restores_probe_flag */;

#include "gen.c"

/* ---------------- harnesses ------------------------------------------------------------------------------------- */
size_t nondet_size(void);
int nondet_int(void);
_Bool nondet_bool(void);
static void setup(void)
{
  g_is = nondet_int();
  g_ir = nondet_int();
  __CPROVER_assume(0 <= g_is && g_is < 3 && 0 <= g_ir && g_ir < 3);
  g_s.comm_              = COMM_AT(g_is);
  g_r.comm_              = COMM_AT(g_ir);
  g_s.type_              = &g_ts;
  g_r.type_              = &g_tr;
  MPI_COMM_UNINITIALIZED = &g_c2;
  g_s.message_id_.d      = g_ids;
  g_s.message_id_.h      = 0;
  g_s.message_id_.cap    = MQ + 1;
  size_t n               = nondet_size();
  __CPROVER_assume(n <= MQ);
  g_s.message_id_.n = n;
  g_s.detached_sender_ = NULL;
  /* _Bool fields get proper boolean values (a havocked _Bool byte may be neither 0 nor 1) */
  g_s.truncated_ = nondet_bool(); g_r.truncated_ = nondet_bool();
  g_s.unmatched_types_ = nondet_bool(); g_r.unmatched_types_ = nondet_bool();
  g_s.detached_ = nondet_bool(); g_r.detached_ = nondet_bool();
  g_types_match = nondet_bool(); g_smp[0] = nondet_bool(); g_smp[1] = nondet_bool(); g_smp[2] = nondet_bool();
  g_incr               = 0;
  vf_exc               = 0;
}
#ifdef H_match_common
void harness(void)
{
  setup();
  g_req_is_sender = nondet_bool();
  Request__match_common(g_req_is_sender ? &g_s : &g_r, &g_s, &g_r);
  VF_CANARY_POINT;
}
#endif
#ifdef H_match_send
void harness(void)
{
  setup();
  g_req_is_sender = 0;
  Request__match_send(&g_s, &g_r, NULL);
  VF_CANARY_POINT;
}
#endif
#ifdef H_match_recv
void harness(void)
{
  setup();
  g_req_is_sender = 1;
  Request__match_recv(&g_r, &g_s, NULL);
  VF_CANARY_POINT;
}
#endif
#ifdef H_start
void harness(void)
{
  setup();
  g_s.comm_ = g_r.comm_;
  g_s.action_ = NULL;
  g_s.buf_ = NULL;
  g_s.old_buf_ = NULL; /* no user buffer: the copy of detached send buffers is outside this contract */
  g_mb_small.pimpl_ = &g_mbi_small;
  g_mb_large.pimpl_ = &g_mbi_large;
  g_in_small = nondet_bool();
  g_in_large = nondet_bool();
  g_posts = 0;
  size_t n = nondet_size();
  __CPROVER_assume(n < MQ);
  g_s.message_id_.n = n;
  Request__start(&g_s);
  VF_CANARY_POINT;
}
#endif
