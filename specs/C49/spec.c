/* C49 — Parmap (src/xbt/parmap.hpp, instantiation simgrid::xbt::Parmap<simgrid::kernel::actor::ActorImpl*> of
 * src/kernel/context/ContextSwapped.cpp): next(), work(), apply(), worker_main().
 * Property: apply() runs the function on every element of the vector exactly once, whatever the number of workers.
 *
 * CBMC contracts have no threads. Every contract below speaks about the execution of ONE thread (the caller); the other
 * workers exist only as INTERFERENCE on the shared counter common_index:
 *   std::atomic<unsigned>::fetch_add(1) is the assumed callee vf_fetch_add_unsigned_int, an atomic TICKET DISPENSER: it
 *   returns a ticket t >= the counter value this thread last saw (the other threads may have drawn the tickets in
 *   between: they are recorded in g_other[]), marks t as drawn by this thread (g_mine[t]++) and leaves the counter at
 *   t + 1. Invariant DISP_WF(c): counter value c <=> exactly the tickets 0..c-1 have been handed out since the last
 *   reset, each ONCE, to this thread (g_mine) or to another one (g_other).
 * What is proved about the real bodies: this thread calls worker_fun exactly on the elements whose ticket it drew (once
 * per ticket, in ticket order, only tickets < length, never an index >= length), it leaves work() only after drawing a
 * ticket >= length, hence (DISP_WF) every index < length has then been handed out exactly once, to it or to another
 * thread running the same work(); apply() publishes fun/data/counter = 0 BEFORE master_signal, works, then master_wait.
 * With no other thread (g_solo) every index is processed exactly once by the caller. worker_main(): a worker thread
 * runs work() exactly once between worker_wait(k) and worker_signal(), k = 1, 2, ..., and leaves only when destroying.
 * Composition (argued here, NOT machine-checked for several threads): tickets are handed out 0, 1, 2, ... once each
 * (assumption on fetch_add); a thread stops only after a ticket >= length, so when any thread has left work() every
 * ticket < length has been drawn by some thread, and that thread calls fun on it exactly once before it signals; the
 * barrier (assumption) lets apply() return only after every worker has signalled => each element exactly once.
 * NOT proved: real interleavings, memory ordering, the futex / posix / busy-wait barriers (assumed callees).
 *
 * Positions of the vector are told apart by distinct element values (data[k] == &g_actor[k]); the units never look at
 * the element values. */
#define CAP 6 /* capacity of the data vector (model bound); the length is symbolic in 0..CAP */
#include "gen.h"

struct ThreadData g_td; /* the worker's ThreadData; its reference member `parmap` is emitted as an embedded struct */
#define g_pm (g_td.parmap) /* THE parmap of every harness */
struct Synchro g_syn;
struct EngineImpl g_engine;
struct ContextFactory g_cf;
struct Context g_ctx; /* the context create_context returns to the worker thread */
/* the three barrier objects; their reference member `parmap` is an embedded struct (the shared counters live there) */
struct BusyWaitSynchro g_bw;
struct FutexSynchro g_fx;
struct PosixSynchro g_px;
#define BWP (g_bw.__b_Synchro.parmap)
#define FXP (g_fx.__b_Synchro.parmap)
#define PXP (g_px.__b_Synchro.parmap)
struct vf_seq_ActorImplP g_data; /* the vector handed to apply */
struct ActorImpl* g_buf[CAP];    /* its storage */
struct ActorImpl g_actor[CAP];   /* the elements: data[k] == &g_actor[k] */
struct vf_fn g_fun;              /* the std::function handed to apply */
char g_env;                      /* its environment */

/* ---- ghost state of the ticket dispenser (per round) ---- */
_Bool g_solo;               /* input: no other thread draws tickets (sequential skeleton, 1 worker = the caller) */
unsigned int g_c0;          /* input: counter value when this thread enters the round */
unsigned long g_nt;         /* tickets drawn by this thread */
unsigned int g_last;        /* the last ticket drawn by this thread */
unsigned char g_mine[CAP];  /* g_mine[k]: how many times ticket k was returned to THIS thread */
unsigned char g_other[CAP]; /* g_other[k]: how many times ticket k was returned to ANOTHER thread */
/* ---- ghost log of worker_fun (filled by fun_log, the target of the std::function) ---- */
unsigned char g_cnt[CAP]; /* g_cnt[k]: calls of worker_fun on data[k] by this thread */
_Bool g_bad;              /* worker_fun got something that is not an element of data, or a wrong environment */
_Bool g_fany;             /* worker_fun was called at least once */
unsigned int g_flast;     /* index of the element of the last call */
_Bool g_ord_ok;           /* every call so far had an index greater than the call before */
/* ---- ghost sequence numbers of the barrier calls (recorded by the assumed contracts of Synchro) ---- */
unsigned int g_seq, g_nsig, g_nwait, g_sig_seq, g_wait_seq;
unsigned int g_sig_idx; /* snapshot at master_signal: common_index, common_data, worker_fun, tickets drawn so far */
struct vf_seq_ActorImplP* g_sig_data;
vf_fnptr g_sig_fn;
void* g_sig_env;
unsigned long g_sig_nt, g_wait_nt; /* tickets drawn by the caller when the barrier call happened */
unsigned int g_wait_last;

/* ---- ghost state of the worker-side round protocol (worker_main) ---- */
unsigned int g_phase; /* 0 = before the first worker_wait, 1 = released by worker_wait (round open), 2 = signalled */
unsigned int g_ww_n, g_ws_n; /* calls of worker_wait / worker_signal (modulo 2^32, like the round counters) */
_Bool g_round_ok;            /* the k-th worker_wait asked for round k */
unsigned int g_ctx_created, g_ctx_set;

/* ---- ghost state of the barrier pieces ---- */
unsigned int g_add_n, g_add_ret; /* fetch_add on a barrier counter by this thread: number of calls, last result */
unsigned int g_wake_n, g_wake_cnt, g_wake_round, g_wake_tc; /* futex_wake: calls, count argument, counters at the call */
unsigned int* g_wake_addr;
_Bool g_fw_any; /* futex_wait was called; on which address */
unsigned int* g_fw_addr;
unsigned int g_nall_n, g_none_n, g_notify_round, g_notify_tc; /* notify_all / notify_one: calls, counters at the call */
struct condition_variable* g_notify_cv;
struct condition_variable* g_cvw_cv; /* condition variable of the last wait */

#define ALLK(P) (P(0) && P(1) && P(2) && P(3) && P(4) && P(5))
#if CAP != 6
#error "ALLK is written for CAP == 6"
#endif

void fun_log(void* env, struct ActorImpl* a);

/* ---- shapes ---- */
#define ELEM_K(k) (g_buf[k] == &g_actor[k])
#define WF_DATA (g_data.d == g_buf && g_data.h == 0 && g_data.n <= CAP && g_data.cap == CAP && ALLK(ELEM_K))
#define WF_PM                                                                                                          \
  (WF_DATA && g_pm.common_data == &g_data && g_pm.worker_fun.fn == (vf_fnptr)fun_log && g_pm.worker_fun.env == &g_env && \
   g_pm.synchro == &g_syn)
/* the dispenser invariant for counter value c */
#define DISP_K(c, k) ((k) < (c) ? g_mine[k] + g_other[k] == 1 : (g_mine[k] == 0 && g_other[k] == 0))
#define DISP_WF(c) (DISP_K(c, 0) && DISP_K(c, 1) && DISP_K(c, 2) && DISP_K(c, 3) && DISP_K(c, 4) && DISP_K(c, 5))
/* this thread has not drawn or processed anything in this round yet */
#define FRESH_K(k) (g_mine[k] == 0 && g_cnt[k] == 0)
#define FRESH_ME (ALLK(FRESH_K) && g_nt == 0 && !g_fany && g_ord_ok && !g_bad)
#define NOOTHER_K(k) (g_other[k] == 0)

/* ---- assumed: std::atomic<unsigned>::fetch_add(1) on common_index = atomic ticket dispenser under interference ---- */
#define FA_MINE_K(k) (g_mine[k] == __CPROVER_old(g_mine[k]) + ((k) == __CPROVER_return_value ? 1 : 0))
#define FA_OTHER_K(k)                                                                                                  \
  (g_other[k] == __CPROVER_old(g_other[k]) + (__CPROVER_old(*p) <= (k) && (k) < __CPROVER_return_value ? 1 : 0))
#define FA_SOLO_K(k) (g_other[k] == __CPROVER_old(g_other[k]))
/* the other atomic counters: work_round (written by the master only) and thread_counter (incremented by every worker) of
 * the barrier objects g_bw / g_fx (see "barrier pieces" below): plain +1, recorded in g_add_n / g_add_ret */
#define IS_TICKET(p) ((p) == &g_pm.common_index)
#define IS_ROUND(p) ((p) == &BWP.work_round || (p) == &FXP.work_round)
#define IS_TC(p) ((p) == &BWP.thread_counter || (p) == &FXP.thread_counter)
#ifndef H_lemma_sequential_bodies
unsigned int vf_fetch_add_unsigned_int(unsigned int* p, unsigned int v)
    /* clang-format off */
__CPROVER_requires((IS_TICKET(p) || IS_ROUND(p) || IS_TC(p)) && v == 1)
__CPROVER_requires(!IS_TICKET(p) || DISP_WF(*p)) /*@ dispenser_consistent_with_counter */
__CPROVER_requires(!IS_TICKET(p) || g_nt <= UINT_MAX)
__CPROVER_assigns(*p;
                  IS_TICKET(p): g_nt, g_last, __CPROVER_object_whole(g_mine), __CPROVER_object_whole(g_other);
                  !IS_TICKET(p): g_add_n, g_add_ret)
__CPROVER_ensures(!IS_TICKET(p) || __CPROVER_return_value >= __CPROVER_old(*p))   /* the others may have advanced the counter */
__CPROVER_ensures(!IS_TICKET(p) || (__CPROVER_return_value < UINT_MAX && *p == __CPROVER_return_value + 1)) /* no wrap-around */
__CPROVER_ensures(!IS_TICKET(p) || !g_solo || __CPROVER_return_value == __CPROVER_old(*p))
__CPROVER_ensures(!IS_TICKET(p) || (g_nt == __CPROVER_old(g_nt) + 1 && g_last == __CPROVER_return_value))
__CPROVER_ensures(!IS_TICKET(p) || ALLK(FA_MINE_K))  /* the ticket is mine now */
__CPROVER_ensures(!IS_TICKET(p) || ALLK(FA_OTHER_K)) /* the skipped tickets went to other threads, once each */
__CPROVER_ensures(!IS_ROUND(p) || __CPROVER_return_value == __CPROVER_old(*p)) /* nobody else writes work_round */
__CPROVER_ensures(IS_TICKET(p) || (*p == __CPROVER_return_value + 1 && g_add_n == __CPROVER_old(g_add_n) + 1 && g_add_ret == __CPROVER_return_value))
    /* clang-format on */
    ;
#endif

/* ---- assumed: the virtual barrier calls of Synchro (futex, posix, busy-wait implementations are out of scope): they
 * only record WHEN they were called and what the shared state was ---- */
#ifndef H_lemma_sequential_bodies
void Synchro__master_signal(struct Synchro* s)
    /* clang-format off */
__CPROVER_requires(s == &g_syn && g_seq < 1000 && g_nsig < 1000)
__CPROVER_assigns(g_seq, g_nsig, g_sig_seq, g_sig_idx, g_sig_data, g_sig_fn, g_sig_env, g_sig_nt)
__CPROVER_ensures(g_seq == __CPROVER_old(g_seq) + 1 && g_sig_seq == g_seq && g_nsig == __CPROVER_old(g_nsig) + 1)
__CPROVER_ensures(g_sig_idx == g_pm.common_index && g_sig_data == g_pm.common_data && g_sig_nt == g_nt)
__CPROVER_ensures(g_sig_fn == g_pm.worker_fun.fn && g_sig_env == g_pm.worker_fun.env)
__CPROVER_ensures(vf_exc == 0)
    /* clang-format on */
    ;
void Synchro__master_wait(struct Synchro* s)
    /* clang-format off */
__CPROVER_requires(s == &g_syn && g_seq < 1000 && g_nwait < 1000)
__CPROVER_assigns(g_seq, g_nwait, g_wait_seq, g_wait_nt, g_wait_last)
__CPROVER_ensures(g_seq == __CPROVER_old(g_seq) + 1 && g_wait_seq == g_seq && g_nwait == __CPROVER_old(g_nwait) + 1)
__CPROVER_ensures(g_wait_nt == g_nt && g_wait_last == g_last)
__CPROVER_ensures(vf_exc == 0)
    /* clang-format on */
    ;
#endif

/* ---- Parmap::next(): draws one ticket; the element of that ticket, or none when the ticket is past the end ---- */
#define FA_MINE_K_NEXT(k) (g_mine[k] == __CPROVER_old(g_mine[k]) + ((k) == g_last ? 1 : 0))
struct vf_opt_ActorImplP Parmap__next(struct Parmap* self)
    /* clang-format off */
__CPROVER_requires(self == &g_pm && WF_PM && vf_exc == 0)
__CPROVER_requires(DISP_WF(g_pm.common_index) && g_nt <= CAP)
__CPROVER_assigns(g_pm.common_index, g_nt, g_last, __CPROVER_object_whole(g_mine), __CPROVER_object_whole(g_other))
__CPROVER_ensures(g_nt == __CPROVER_old(g_nt) + 1 && g_last >= __CPROVER_old(g_pm.common_index)) /*@ next_draws_one_ticket */
__CPROVER_ensures(g_last < UINT_MAX && g_pm.common_index == g_last + 1 && DISP_WF(g_pm.common_index)) /*@ next_counter_after */
__CPROVER_ensures(__CPROVER_return_value.has == (g_last < g_data.n)) /*@ next_engaged_iff_ticket_below_length */
__CPROVER_ensures(!__CPROVER_return_value.has || (g_last < CAP && __CPROVER_return_value.value == g_buf[g_last])) /*@ next_returns_element_of_ticket */
__CPROVER_ensures(ALLK(FA_MINE_K_NEXT)) /*@ next_ticket_is_mine */
__CPROVER_ensures(vf_exc == 0)
    /* clang-format on */
    ;

/* ---- Parmap::work(): the work loop of one thread ---- */
#define W_ONLY_OWN_K(k) (g_cnt[k] == ((k) < g_data.n ? g_mine[k] : 0) && g_mine[k] <= 1)
#define W_HANDED_K(k) (!((k) < g_data.n) || g_mine[k] + g_other[k] == 1)
#define W_SOLO_K(k) (!((k) >= g_c0) || g_other[k] == 0)
#define W_SOLO_MINE_K(k) (!((k) >= g_c0 && (k) < g_data.n) || g_cnt[k] == 1)
void Parmap__work(struct Parmap* self)
    /* clang-format off */
__CPROVER_requires(self == &g_pm && WF_PM && vf_exc == 0) /*@ work_pre_fun_and_data_published */
__CPROVER_requires(DISP_WF(g_pm.common_index)) /*@ work_pre_counter_consistent_with_round */
__CPROVER_requires(FRESH_ME && g_c0 == g_pm.common_index) /*@ work_pre_fresh_round_of_this_thread */
__CPROVER_assigns(g_pm.common_index, g_nt, g_last, __CPROVER_object_whole(g_mine), __CPROVER_object_whole(g_other),
                  __CPROVER_object_whole(g_cnt), g_bad, g_fany, g_flast, g_ord_ok)
__CPROVER_ensures(g_nt >= 1 && g_last >= g_data.n) /*@ work_returns_only_after_ticket_past_end */
__CPROVER_ensures(ALLK(W_ONLY_OWN_K) && !g_bad) /*@ work_calls_fun_once_per_own_ticket_below_length */
__CPROVER_ensures(g_ord_ok) /*@ work_calls_in_ticket_order */
__CPROVER_ensures(ALLK(W_HANDED_K)) /*@ work_every_index_handed_out_exactly_once */
__CPROVER_ensures(g_last < UINT_MAX && g_pm.common_index == g_last + 1 && DISP_WF(g_pm.common_index)) /*@ work_counter_after */
__CPROVER_ensures(!g_solo || (ALLK(W_SOLO_K) && ALLK(W_SOLO_MINE_K))) /*@ work_alone_processes_every_index_once */
__CPROVER_ensures(vf_exc == 0)
    /* clang-format on */
    ;

/* loop of work(): `index` is the ticket drawn last (mine, not processed yet) */
#define LI_CNT_K(k) (g_cnt[k] == ((k) == index || (k) >= length ? 0 : g_mine[k]) && g_mine[k] <= 1)
#define LI_CUR_K(k) ((k) != index || g_mine[k] == 1)
#define LI_SOLO_MINE_K(k) (!((k) >= g_c0 && (k) <= index) || g_mine[k] == 1)
#define VF_LOOP_Parmap__work_0                                                                                         \
  __CPROVER_assigns(index, g_pm.common_index, g_nt, g_last, __CPROVER_object_whole(g_mine),                            \
                    __CPROVER_object_whole(g_other), __CPROVER_object_whole(g_cnt), g_bad, g_fany, g_flast, g_ord_ok)  \
  __CPROVER_loop_invariant(length == g_data.n && vf_exc == 0 && g_nt >= 1 && g_nt <= (unsigned long)index + 1 &&       \
                           g_last == index && index < UINT_MAX && g_pm.common_index == index + 1 &&                   \
                           DISP_WF(g_pm.common_index) && ALLK(LI_CNT_K) && ALLK(LI_CUR_K) && !g_bad && g_ord_ok &&      \
                           (!g_fany || g_flast < index) && (!g_solo || (ALLK(W_SOLO_K) && ALLK(LI_SOLO_MINE_K))))       \
  __CPROVER_decreases(index < length ? length - index : 0)

/* ---- Parmap::apply(fun, data): one round, seen from the caller (maestro = worker 0) ---- */
#define A_HANDED_K(k) (!((k) < g_data.n) || g_cnt[k] + g_other[k] == 1)
#define A_ONLY_BELOW_K(k) ((k) < g_data.n || g_cnt[k] == 0)
#define A_SOLO_K(k) (!((k) < g_data.n) || g_cnt[k] == 1)
#define A_FRESH_OTHER_K(k) (g_other[k] == 0)
void Parmap__apply(struct Parmap* self, struct vf_fn* fun, struct vf_seq_ActorImplP* data)
    /* clang-format off */
__CPROVER_requires(self == &g_pm && fun == &g_fun && data == &g_data && WF_DATA && g_pm.synchro == &g_syn && vf_exc == 0)
__CPROVER_requires(g_fun.fn == (vf_fnptr)fun_log && g_fun.env == &g_env)
__CPROVER_requires(FRESH_ME && ALLK(A_FRESH_OTHER_K) && g_c0 == 0) /* a new round: no ticket handed out yet; the counter holds whatever the last round left */
__CPROVER_requires(g_seq == 0 && g_nsig == 0 && g_nwait == 0)
__CPROVER_assigns(g_pm.common_index, g_pm.common_data, g_pm.worker_fun, g_nt, g_last, __CPROVER_object_whole(g_mine),
                  __CPROVER_object_whole(g_other), __CPROVER_object_whole(g_cnt), g_bad, g_fany, g_flast, g_ord_ok,
                  g_seq, g_nsig, g_nwait, g_sig_seq, g_wait_seq, g_sig_idx, g_sig_data, g_sig_fn, g_sig_env, g_sig_nt,
                  g_wait_nt, g_wait_last)
__CPROVER_ensures(g_nsig == 1 && g_sig_idx == 0 && g_sig_data == &g_data && g_sig_fn == (vf_fnptr)fun_log &&
                  g_sig_env == &g_env && g_sig_nt == 0) /*@ apply_resets_and_publishes_before_master_signal */
__CPROVER_ensures(g_nwait == 1 && g_sig_seq < g_wait_seq && g_wait_nt == g_nt && g_nt >= 1 &&
                  g_wait_last >= g_data.n) /*@ apply_master_wait_after_own_work_is_finished */
__CPROVER_ensures(ALLK(A_HANDED_K)) /*@ apply_every_index_processed_here_once_or_handed_to_one_other_thread */
__CPROVER_ensures(ALLK(A_ONLY_BELOW_K) && !g_bad && g_ord_ok) /*@ apply_calls_fun_only_on_elements_in_order */
__CPROVER_ensures(!g_solo || ALLK(A_SOLO_K)) /*@ apply_alone_processes_every_index_exactly_once */
__CPROVER_ensures(vf_exc == 0)
    /* clang-format on */
    ;

/* ---- Parmap::worker_main(data): the loop of a worker thread. The barrier calls are assumed callees that police the
 * order of the calls through their preconditions (g_phase) and open a new round: worker_wait returns with destroying
 * set, or with the publication of the master visible (what apply() does before master_signal) and a fresh ticket
 * state of this thread; worker_signal may only be called once this thread has drawn a ticket past the end. ---- */
struct EngineImpl* get_instance(void)
    /* clang-format off */
__CPROVER_assigns()
__CPROVER_ensures(__CPROVER_pointer_in_range_dfcc(&g_engine, __CPROVER_return_value, &g_engine))
__CPROVER_ensures(__CPROVER_return_value == &g_engine && vf_exc == 0)
    /* clang-format on */
    ;
struct Context* ContextFactory__create_context(struct ContextFactory* cf, struct vf_fn* code, struct ActorImpl* actor)
    /* clang-format off */
__CPROVER_requires(cf == &g_cf && actor == NULL && code->fn == 0 && g_ctx_created < 1000)
__CPROVER_assigns(g_ctx_created)
__CPROVER_ensures(__CPROVER_pointer_in_range_dfcc(&g_ctx, __CPROVER_return_value, &g_ctx))
__CPROVER_ensures(__CPROVER_return_value == &g_ctx && g_ctx_created == __CPROVER_old(g_ctx_created) + 1 && vf_exc == 0)
    /* clang-format on */
    ;
void set_current(struct Context* c)
    /* clang-format off */
__CPROVER_requires(c == &g_ctx && g_ctx_set < 1000)
__CPROVER_assigns(g_ctx_set)
__CPROVER_ensures(g_ctx_set == __CPROVER_old(g_ctx_set) + 1 && vf_exc == 0)
    /* clang-format on */
    ;
#define WM_ROUND_STATE                                                                                                 \
  g_pm.destroying, g_pm.common_index, g_pm.common_data, g_pm.worker_fun, g_data.n, g_c0, g_nt, g_last,                 \
      __CPROVER_object_whole(g_mine), __CPROVER_object_whole(g_other), __CPROVER_object_whole(g_cnt), g_bad, g_fany,   \
      g_flast, g_ord_ok
void Synchro__worker_wait(struct Synchro* s, unsigned int round)
    /* clang-format off */
__CPROVER_requires(s == &g_syn)
__CPROVER_requires(g_phase == 0 || g_phase == 2) /*@ wm_waits_only_before_first_round_or_after_its_signal */
__CPROVER_assigns(g_phase, g_ww_n, g_round_ok, WM_ROUND_STATE)
__CPROVER_ensures(g_phase == 1 && g_ww_n == __CPROVER_old(g_ww_n) + 1 && g_round_ok == (__CPROVER_old(g_round_ok) && round == g_ww_n))
__CPROVER_ensures(g_pm.destroying || (WF_PM && DISP_WF(g_pm.common_index) && FRESH_ME && g_c0 == g_pm.common_index))
__CPROVER_ensures(vf_exc == 0)
    /* clang-format on */
    ;
void Synchro__worker_signal(struct Synchro* s)
    /* clang-format off */
__CPROVER_requires(s == &g_syn)
__CPROVER_requires(g_phase == 1) /*@ wm_signals_once_per_open_round */
__CPROVER_requires(!g_pm.destroying && g_nt >= 1 && g_last >= g_data.n) /*@ wm_signals_only_after_own_work_is_finished */
__CPROVER_assigns(g_phase, g_ws_n)
__CPROVER_ensures(g_phase == 2 && g_ws_n == __CPROVER_old(g_ws_n) + 1 && vf_exc == 0)
    /* clang-format on */
    ;
#define WF_WM                                                                                                          \
  (g_data.d == g_buf && g_data.h == 0 && g_data.cap == CAP && ALLK(ELEM_K) && g_pm.synchro == &g_syn &&                \
   g_engine.context_factory_ == &g_cf)
void Parmap__worker_main(struct ThreadData* data)
    /* clang-format off */
__CPROVER_requires(data == &g_td && WF_WM && vf_exc == 0)
__CPROVER_requires(g_phase == 0 && g_ww_n == 0 && g_ws_n == 0 && g_round_ok && g_ctx_created == 0 && g_ctx_set == 0)
__CPROVER_assigns(g_phase, g_ww_n, g_ws_n, g_round_ok, g_ctx_created, g_ctx_set, WM_ROUND_STATE)
__CPROVER_ensures(g_pm.destroying) /*@ wm_returns_only_when_destroying */
__CPROVER_ensures(g_phase == 1 && g_ws_n + 1 == g_ww_n) /*@ wm_one_work_and_one_signal_per_round */
__CPROVER_ensures(g_round_ok) /*@ wm_waits_for_consecutive_rounds */
__CPROVER_ensures(g_ctx_created == 1 && g_ctx_set == 1) /*@ wm_creates_and_installs_its_context_once */
__CPROVER_ensures(vf_exc == 0)
    /* clang-format on */
    ;
#define VF_LOOP_Parmap__worker_main_0                                                                                  \
  __CPROVER_assigns(round, g_phase, g_ww_n, g_ws_n, g_round_ok, WM_ROUND_STATE)                                        \
  __CPROVER_loop_invariant(vf_exc == 0 && parmap == &g_pm && round == g_ww_n && g_ws_n == g_ww_n &&                    \
                           (g_phase == 0 || g_phase == 2) && g_round_ok)

/* ===== barrier pieces: the twelve methods of BusyWaitSynchro / FutexSynchro / PosixSynchro, ONE call of ONE thread.
 * Interference: wherever the thread yields, sleeps on a futex or waits on a condition variable the other threads may
 * change the shared counters arbitrarily (assumed callees vf_thread_yield (= std::this_thread::yield) / futex_wait, model of condition_variable::wait).
 * Proved: what the call itself does to the counters, whom it wakes and when, and the condition under which it returns.
 * NOT proved: the barrier property itself (needs all threads). ===== */
#define BARRIER_SHARED                                                                                                 \
  BWP.thread_counter, BWP.work_round, FXP.thread_counter, FXP.work_round, PXP.thread_counter, PXP.work_round
void vf_thread_yield(void)
    /* clang-format off */
__CPROVER_assigns(BARRIER_SHARED)
__CPROVER_ensures(vf_exc == 0)
    /* clang-format on */
    ;
void futex_wait(unsigned int* a, unsigned int val)
    /* clang-format off */
__CPROVER_assigns(BARRIER_SHARED, g_fw_any, g_fw_addr)
__CPROVER_ensures(g_fw_any && g_fw_addr == a && vf_exc == 0)
    /* clang-format on */
    ;
void futex_wake(unsigned int* a, unsigned int n)
    /* clang-format off */
__CPROVER_assigns(g_wake_n, g_wake_addr, g_wake_cnt, g_wake_round, g_wake_tc)
__CPROVER_ensures(g_wake_n == __CPROVER_old(g_wake_n) + 1 && g_wake_addr == a && g_wake_cnt == n)
__CPROVER_ensures(g_wake_round == FXP.work_round && g_wake_tc == FXP.thread_counter && vf_exc == 0)
    /* clang-format on */
    ;
void condition_variable__notify_all(struct condition_variable* cv)
    /* clang-format off */
__CPROVER_assigns(g_nall_n, g_notify_cv, g_notify_round, g_notify_tc)
__CPROVER_ensures(g_nall_n == __CPROVER_old(g_nall_n) + 1 && g_notify_cv == cv)
__CPROVER_ensures(g_notify_round == PXP.work_round && g_notify_tc == PXP.thread_counter && vf_exc == 0)
    /* clang-format on */
    ;
void condition_variable__notify_one(struct condition_variable* cv)
    /* clang-format off */
__CPROVER_assigns(g_none_n, g_notify_cv)
__CPROVER_ensures(g_none_n == __CPROVER_old(g_none_n) + 1 && g_notify_cv == cv && vf_exc == 0)
    /* clang-format on */
    ;
_Bool nondet_bool(void);
/* model of std::condition_variable::wait(lock, pred) = `while (!pred()) wait(lock);`: the other threads run (or not),
 * and the call returns in a state where the REAL predicate (the lifted lambda of the unit) holds */
void condition_variable__wait(struct condition_variable* cv, struct vf_lock* l, struct vf_fn pred)
{
  g_cvw_cv = cv;
  if (nondet_bool())
    vf_thread_yield();
  _Bool ok = ((_Bool (*)(void*))pred.fn)(pred.env);
  __CPROVER_assume(ok);
}

/* -- busy-wait -- */
void BusyWaitSynchro__master_signal(struct BusyWaitSynchro* self)
    /* clang-format off */
__CPROVER_requires(self == &g_bw && vf_exc == 0)
__CPROVER_assigns(BWP.thread_counter, BWP.work_round, g_add_n, g_add_ret)
__CPROVER_ensures(BWP.thread_counter == 1 && BWP.work_round == __CPROVER_old(BWP.work_round) + 1) /*@ bw_master_signal_counts_itself_and_opens_the_next_round */
__CPROVER_ensures(vf_exc == 0)
    /* clang-format on */
    ;
void BusyWaitSynchro__master_wait(struct BusyWaitSynchro* self)
    /* clang-format off */
__CPROVER_requires(self == &g_bw && vf_exc == 0)
__CPROVER_assigns(BARRIER_SHARED)
__CPROVER_ensures(BWP.thread_counter >= BWP.num_workers) /*@ bw_master_wait_returns_only_when_all_workers_signalled */
__CPROVER_ensures(vf_exc == 0)
    /* clang-format on */
    ;
#define VF_LOOP_BusyWaitSynchro__master_wait_0 __CPROVER_assigns(BARRIER_SHARED) __CPROVER_loop_invariant(vf_exc == 0)
void BusyWaitSynchro__worker_signal(struct BusyWaitSynchro* self)
    /* clang-format off */
__CPROVER_requires(self == &g_bw && vf_exc == 0)
__CPROVER_assigns(BWP.thread_counter, g_add_n, g_add_ret)
__CPROVER_ensures(g_add_n == __CPROVER_old(g_add_n) + 1 && BWP.thread_counter == g_add_ret + 1) /*@ bw_worker_signal_adds_exactly_one */
__CPROVER_ensures(vf_exc == 0)
    /* clang-format on */
    ;
void BusyWaitSynchro__worker_wait(struct BusyWaitSynchro* self, unsigned int round)
    /* clang-format off */
__CPROVER_requires(self == &g_bw && vf_exc == 0)
__CPROVER_assigns(BARRIER_SHARED)
__CPROVER_ensures(BWP.work_round == round) /*@ bw_worker_wait_returns_only_in_the_expected_round */
__CPROVER_ensures(vf_exc == 0)
    /* clang-format on */
    ;
#define VF_LOOP_BusyWaitSynchro__worker_wait_0 __CPROVER_assigns(BARRIER_SHARED) __CPROVER_loop_invariant(vf_exc == 0)

/* -- futex -- */
void FutexSynchro__master_signal(struct FutexSynchro* self)
    /* clang-format off */
__CPROVER_requires(self == &g_fx && vf_exc == 0)
__CPROVER_assigns(FXP.thread_counter, FXP.work_round, g_add_n, g_add_ret, g_wake_n, g_wake_addr, g_wake_cnt, g_wake_round, g_wake_tc)
__CPROVER_ensures(FXP.thread_counter == 1 && FXP.work_round == __CPROVER_old(FXP.work_round) + 1) /*@ fx_master_signal_counts_itself_and_opens_the_next_round */
__CPROVER_ensures(g_wake_n == __CPROVER_old(g_wake_n) + 1 && g_wake_addr == &FXP.work_round && g_wake_cnt == INT_MAX &&
                  g_wake_round == FXP.work_round && g_wake_tc == 1) /*@ fx_master_signal_wakes_everybody_after_the_update */
__CPROVER_ensures(vf_exc == 0)
    /* clang-format on */
    ;
void FutexSynchro__master_wait(struct FutexSynchro* self)
    /* clang-format off */
__CPROVER_requires(self == &g_fx && vf_exc == 0 && !g_fw_any)
__CPROVER_assigns(BARRIER_SHARED, g_fw_any, g_fw_addr)
__CPROVER_ensures(FXP.thread_counter >= FXP.num_workers) /*@ fx_master_wait_returns_only_when_all_workers_signalled */
__CPROVER_ensures(!g_fw_any || g_fw_addr == &FXP.thread_counter) /*@ fx_master_wait_sleeps_on_thread_counter */
__CPROVER_ensures(vf_exc == 0)
    /* clang-format on */
    ;
#define VF_LOOP_FutexSynchro__master_wait_0                                                                            \
  __CPROVER_assigns(count, BARRIER_SHARED, g_fw_any, g_fw_addr)                                                        \
  __CPROVER_loop_invariant(vf_exc == 0 && count == FXP.thread_counter && (!g_fw_any || g_fw_addr == &FXP.thread_counter))
void FutexSynchro__worker_signal(struct FutexSynchro* self)
    /* clang-format off */
__CPROVER_requires(self == &g_fx && vf_exc == 0)
__CPROVER_assigns(FXP.thread_counter, g_add_n, g_add_ret, g_wake_n, g_wake_addr, g_wake_cnt, g_wake_round, g_wake_tc)
__CPROVER_ensures(g_add_n == __CPROVER_old(g_add_n) + 1 && FXP.thread_counter == g_add_ret + 1) /*@ fx_worker_signal_adds_exactly_one */
__CPROVER_ensures(g_wake_n == __CPROVER_old(g_wake_n) + (g_add_ret + 1 == FXP.num_workers ? 1 : 0)) /*@ fx_exactly_the_last_worker_wakes_the_master */
__CPROVER_ensures(g_wake_n == __CPROVER_old(g_wake_n) || (g_wake_addr == &FXP.thread_counter && g_wake_cnt >= 1)) /*@ fx_worker_signal_wakes_on_thread_counter */
__CPROVER_ensures(vf_exc == 0)
    /* clang-format on */
    ;
void FutexSynchro__worker_wait(struct FutexSynchro* self, unsigned int expected_round)
    /* clang-format off */
__CPROVER_requires(self == &g_fx && vf_exc == 0 && !g_fw_any)
__CPROVER_assigns(BARRIER_SHARED, g_fw_any, g_fw_addr)
__CPROVER_ensures(FXP.work_round == expected_round) /*@ fx_worker_wait_returns_only_in_the_expected_round */
__CPROVER_ensures(!g_fw_any || g_fw_addr == &FXP.work_round) /*@ fx_worker_wait_sleeps_on_work_round */
__CPROVER_ensures(vf_exc == 0)
    /* clang-format on */
    ;
#define VF_LOOP_FutexSynchro__worker_wait_0                                                                            \
  __CPROVER_assigns(round, BARRIER_SHARED, g_fw_any, g_fw_addr)                                                        \
  __CPROVER_loop_invariant(vf_exc == 0 && round == FXP.work_round && (!g_fw_any || g_fw_addr == &FXP.work_round))

/* -- posix -- */
void PosixSynchro__master_signal(struct PosixSynchro* self)
    /* clang-format off */
__CPROVER_requires(self == &g_px && vf_exc == 0)
__CPROVER_assigns(PXP.thread_counter, PXP.work_round, g_nall_n, g_notify_cv, g_notify_round, g_notify_tc)
__CPROVER_ensures(PXP.thread_counter == 1 && PXP.work_round == __CPROVER_old(PXP.work_round) + 1) /*@ px_master_signal_counts_itself_and_opens_the_next_round */
__CPROVER_ensures(g_nall_n == __CPROVER_old(g_nall_n) + 1 && g_notify_cv == &g_px.ready_cond && g_notify_round == PXP.work_round &&
                  g_notify_tc == 1) /*@ px_master_signal_notifies_all_on_ready_cond_after_the_update */
__CPROVER_ensures(vf_exc == 0)
    /* clang-format on */
    ;
void PosixSynchro__master_wait(struct PosixSynchro* self)
    /* clang-format off */
__CPROVER_requires(self == &g_px && vf_exc == 0)
__CPROVER_assigns(BARRIER_SHARED, g_cvw_cv)
__CPROVER_ensures(PXP.thread_counter >= PXP.num_workers) /*@ px_master_wait_returns_only_when_all_workers_signalled */
__CPROVER_ensures(g_cvw_cv == &g_px.done_cond) /*@ px_master_wait_waits_on_done_cond */
__CPROVER_ensures(vf_exc == 0)
    /* clang-format on */
    ;
void PosixSynchro__worker_signal(struct PosixSynchro* self)
    /* clang-format off */
__CPROVER_requires(self == &g_px && vf_exc == 0)
__CPROVER_assigns(PXP.thread_counter, g_none_n, g_notify_cv)
__CPROVER_ensures(PXP.thread_counter == __CPROVER_old(PXP.thread_counter) + 1) /*@ px_worker_signal_adds_exactly_one */
__CPROVER_ensures(g_none_n == __CPROVER_old(g_none_n) + (PXP.thread_counter == PXP.num_workers ? 1 : 0)) /*@ px_exactly_the_last_worker_notifies_the_master */
__CPROVER_ensures(g_none_n == __CPROVER_old(g_none_n) || g_notify_cv == &g_px.done_cond) /*@ px_worker_signal_notifies_done_cond */
__CPROVER_ensures(vf_exc == 0)
    /* clang-format on */
    ;
void PosixSynchro__worker_wait(struct PosixSynchro* self, unsigned int expected_round)
    /* clang-format off */
__CPROVER_requires(self == &g_px && vf_exc == 0)
__CPROVER_assigns(BARRIER_SHARED, g_cvw_cv)
__CPROVER_ensures(PXP.work_round == expected_round) /*@ px_worker_wait_returns_only_in_the_expected_round */
__CPROVER_ensures(g_cvw_cv == &g_px.ready_cond) /*@ px_worker_wait_waits_on_ready_cond */
__CPROVER_ensures(vf_exc == 0)
    /* clang-format on */
    ;

#include "gen.c"

unsigned int nondet_uint(void);
size_t nondet_size(void);

/* the target of the std::function: records which element it got */
#define FL_K(k)                                                                                                        \
  if (a == &g_actor[k]) {                                                                                              \
    hit = 1;                                                                                                           \
    if (g_fany && !(g_flast < (k)))                                                                                    \
      g_ord_ok = 0;                                                                                                    \
    g_fany  = 1;                                                                                                       \
    g_flast = (k);                                                                                                     \
    if (g_cnt[k] < 200)                                                                                                \
      g_cnt[k]++;                                                                                                      \
  }
void fun_log(void* env, struct ActorImpl* a)
{
  _Bool hit = 0;
  FL_K(0) FL_K(1) FL_K(2) FL_K(3) FL_K(4) FL_K(5)
  if (!hit || env != (void*)&g_env)
    g_bad = 1;
}

#ifdef H_lemma_sequential_bodies
/* the dispenser without interference: plain fetch_add (sequential skeleton, 1 worker = the caller) */
unsigned int vf_fetch_add_unsigned_int(unsigned int* p, unsigned int v)
{
  unsigned int t = *p;
  *p             = t + v;
  g_nt++;
  g_last = t;
  return t;
}
void Synchro__master_signal(struct Synchro* s)
{
  g_nsig++;
  g_sig_idx = g_pm.common_index;
  g_sig_nt  = g_nt;
}
void Synchro__master_wait(struct Synchro* s)
{
  g_nwait++;
  g_wait_nt = g_nt;
}
#endif

static void setup(void)
{
  g_pm.common_data    = &g_data;
  g_pm.synchro        = &g_syn;
  g_engine.context_factory_ = &g_cf;
  g_pm.worker_fun.fn  = (vf_fnptr)fun_log;
  g_pm.worker_fun.env = &g_env;
  g_fun.fn            = (vf_fnptr)fun_log;
  g_fun.env           = &g_env;
  g_data.d            = g_buf;
  g_data.h            = 0;
  g_data.cap          = CAP;
  for (int k = 0; k < CAP; k++)
    g_buf[k] = &g_actor[k];
}

#ifdef H_next
void harness(void)
{
  setup();
  struct vf_opt_ActorImplP r = Parmap__next(&g_pm);
  VF_CANARY_POINT;
}
#endif
#ifdef H_work
void harness(void)
{
  setup();
  Parmap__work(&g_pm);
  VF_CANARY_POINT;
}
#endif
#ifdef H_worker_main
void harness(void)
{
  setup();
  Parmap__worker_main(&g_td);
  VF_CANARY_POINT;
}
#endif
#ifdef H_apply
void harness(void)
{
  setup();
  g_pm.common_data = nondet_bool() ? &g_data : NULL; /* whatever the last round left */
  if (nondet_bool()) {
    g_pm.worker_fun.fn  = 0;
    g_pm.worker_fun.env = 0;
  }
  Parmap__apply(&g_pm, &g_fun, &g_data);
  VF_CANARY_POINT;
}
#endif
#ifdef H_bw_master_signal
void harness(void)
{
  BusyWaitSynchro__master_signal(&g_bw);
  VF_CANARY_POINT;
}
#endif
#ifdef H_bw_master_wait
void harness(void)
{
  BusyWaitSynchro__master_wait(&g_bw);
  VF_CANARY_POINT;
}
#endif
#ifdef H_bw_worker_signal
void harness(void)
{
  BusyWaitSynchro__worker_signal(&g_bw);
  VF_CANARY_POINT;
}
#endif
#ifdef H_bw_worker_wait
void harness(void)
{
  BusyWaitSynchro__worker_wait(&g_bw, nondet_uint());
  VF_CANARY_POINT;
}
#endif
#ifdef H_fx_master_signal
void harness(void)
{
  FutexSynchro__master_signal(&g_fx);
  VF_CANARY_POINT;
}
#endif
#ifdef H_fx_master_wait
void harness(void)
{
  FutexSynchro__master_wait(&g_fx);
  VF_CANARY_POINT;
}
#endif
#ifdef H_fx_worker_signal
void harness(void)
{
  FutexSynchro__worker_signal(&g_fx);
  VF_CANARY_POINT;
}
#endif
#ifdef H_fx_worker_wait
void harness(void)
{
  FutexSynchro__worker_wait(&g_fx, nondet_uint());
  VF_CANARY_POINT;
}
#endif
#ifdef H_px_master_signal
void harness(void)
{
  PosixSynchro__master_signal(&g_px);
  VF_CANARY_POINT;
}
#endif
#ifdef H_px_master_wait
void harness(void)
{
  PosixSynchro__master_wait(&g_px);
  VF_CANARY_POINT;
}
#endif
#ifdef H_px_worker_signal
void harness(void)
{
  PosixSynchro__worker_signal(&g_px);
  VF_CANARY_POINT;
}
#endif
#ifdef H_px_worker_wait
void harness(void)
{
  PosixSynchro__worker_wait(&g_px, nondet_uint());
  VF_CANARY_POINT;
}
#endif
#ifdef H_lemma_sequential_bodies
/* plain harness (no contracts): the real bodies of apply() and work() with a plain fetch_add, every length 0..CAP,
 * any left-over counter value: each index is processed exactly once, in order, nothing else. */
void harness(void)
{
  setup();
  g_data.n = nondet_size();
  __CPROVER_assume(g_data.n <= CAP);
  g_pm.common_index   = nondet_uint();
  g_pm.common_data    = 0;
  g_pm.worker_fun.fn  = 0;
  g_pm.worker_fun.env = 0;
  g_ord_ok            = 1;
  vf_exc              = 0;
  Parmap__apply(&g_pm, &g_fun, &g_data);
  __CPROVER_assert(vf_exc == 0, "lemma: no exception"); /*@ lemma_seq_no_exception */
  for (int k = 0; k < CAP; k++)
    __CPROVER_assert(g_cnt[k] == ((size_t)k < g_data.n ? 1 : 0), "lemma: every index < length processed exactly once, no other"); /*@ lemma_seq_every_index_exactly_once */
  __CPROVER_assert(!g_bad && g_ord_ok, "lemma: only elements of data, in index order"); /*@ lemma_seq_in_order */
  __CPROVER_assert(g_nsig == 1 && g_nwait == 1 && g_sig_idx == 0 && g_sig_nt == 0 && g_wait_nt == g_data.n + 1,
                   "lemma: signal before the first ticket, wait after the last"); /*@ lemma_seq_barrier_order */
  __CPROVER_assert(g_pm.common_index == g_data.n + 1, "lemma: length + 1 tickets drawn"); /*@ lemma_seq_counter */
  VF_CANARY_POINT;
}
#endif
