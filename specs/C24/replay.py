import os, sys
sys.path.insert(0, os.path.join(os.path.dirname(os.path.abspath(__file__)), "..", "..", "replay"))
import native


def replay(violation, inputs, workdir, repo):
    """real NetZoneImpl code (the working tree's NetZoneImpl.cpp compiled into the driver) on a platform of three nested
    Star zones whose middle zone declares a two-link route from its child zone up to its gateway"""
    here = os.path.dirname(os.path.abspath(__file__))
    return native.build_and_run(os.path.join(here, "replay.cpp"), workdir, repo, [violation["label"]])
