// C24 native reproduction: 3 nested Star zones; the route of zone A from its child zone K up to A's gateway has TWO links
// (native replay for C24 against the BUILT library /repo/_build/lib/libsimgrid.so — NetZoneImpl.cpp cannot be compiled
//  into the driver: it needs hidden symbols of the library — so a change of the working tree shows up here only after a
//  rebuild; obligation NetZoneImpl__get_interzone_route:postcondition:iz_up_prepends_answers_innermost_first; exit 1 =
//  the route h -> x does not list zone A's links in their declared order)
#include <simgrid/s4u.hpp>
#include <cstdio>
#include <string>
namespace sg4 = simgrid::s4u;
static sg4::LinkInRoute up(const sg4::Link* l) { return sg4::LinkInRoute(l, sg4::LinkInRoute::Direction::UP); }
int main(int argc, char** argv)
{
  sg4::Engine e(&argc, argv);
  auto* root = e.get_netzone_root()->add_netzone_star("rootzone");
  auto* A    = root->add_netzone_star("A");
  A->set_gateway(A->add_router("A_router"));
  auto* K = A->add_netzone_star("K");
  auto* h = K->add_host("h", "1Gf");
  K->add_route(h, nullptr, {up(K->add_link("lk", "1Gbps")->set_latency("1ms"))}, true);
  K->set_gateway(K->add_router("K_router"));
  K->seal();
  const sg4::Link* la1 = A->add_link("la1", "1Gbps")->set_latency("2ms");
  const sg4::Link* la2 = A->add_link("la2", "1Gbps")->set_latency("4ms");
  A->add_route(K, nullptr, {up(la1), up(la2)}, true);
  A->seal();
  auto* x = root->add_host("x", "1Gf");
  root->add_route(x, nullptr, {up(root->add_link("lx", "1Gbps")->set_latency("8ms"))}, true);
  root->add_route(A, nullptr, {up(root->add_link("lr", "1Gbps")->set_latency("16ms"))}, true);
  root->seal();
  e.get_netzone_root()->seal();
  std::vector<sg4::Link*> links;
  double lat = 0;
  h->route_to(x, links, &lat);
  std::string got;
  for (auto* l : links)
    got += l->get_name() + " ";
  printf("h -> x : %s(latency %g)\n", got.c_str(), lat);
  std::vector<sg4::Link*> back;
  double lat2 = 0;
  x->route_to(h, back, &lat2);
  std::string got2;
  for (auto* l : back)
    got2 += l->get_name() + " ";
  printf("x -> h : %s(latency %g)\n", got2.c_str(), lat2);
  bool bad = got != "lk la1 la2 lr lx ";
  printf("%s\n", bad ? "REPRODUCED: expected 'lk la1 la2 lr lx' (zone A's up route K->gateway in its declared order)" : "ok");
  return bad ? 1 : 0;
}
