/* C24 — Hierarchical routes are composed correctly.
 * Units (real code, extracted by cxx2c): NetZoneImpl::get_global_route_with_netzones, find_common_ancestors,
 * NetZoneImpl::get_interzone_route, NetPoint::get_all_englobing_zones (NetZoneImpl.cpp / NetPoint.cpp),
 * add_link_latency (both overloads, NetworkModel.cpp), Route::Route().
 *
 * Vocabulary. A "local route" is what zone->get_local_route(src, dst, route, lat) appends to route->link_list_ (virtual,
 * one implementation per zone kind: C25/C26). Here it is an ASSUMED callee that (1) logs its query (zone, src, dst) in
 * the ghost log g_q[g_ncalls++] and (2) appends the k-th ghost segment g_seg[k] (0..SEGCAP arbitrary links, arbitrary
 * gateways, arbitrary latency term) — the k-th answer is arbitrary and independent of the others, which is more general
 * than any function of the query. The property then reads: the log holds exactly the queries of the zones the route
 * crosses (right zone, right end points, gateways taken from the previous answers), and the returned vector is the old
 * content followed by the answers concatenated in geographic order UP ++ ACROSS ++ DOWN, each answer in its own order. */
#include "gen.h"

#ifndef SEGCAP
#define SEGCAP 2
#endif /* links per local-route answer (2 = enough to see a reordering inside one answer) */
#define MAXCALLS 8 /* length of the ghost log */
#define NZ 5       /* zones z0 (root); z1, z2 (children of z0); z3, z4 (children of z1 or z2): 3 levels */
#define NNP 10     /* netpoints: g_np[i], i < NZ, is the netpoint of zone i; the others are hosts / routers / gateways */
#define NLK 8      /* link objects */
#define LBUF 24    /* harness-owned link vector buffer */
#define PCAP 4     /* zone paths handled by find_common_ancestors */

struct seg {
  size_t n;
  struct StandardLinkImpl* l[2]; /* SEGCAP <= 2 */
  struct NetPoint* gw_src;
  struct NetPoint* gw_dst;
  double lat;
};
struct query {
  struct NetZoneImpl* z;
  struct NetPoint* s;
  struct NetPoint* d;
  double* acc; /* the latency accumulator the call received */
};
double g_latval[8]; /* value of the accumulator after the k-th logged call (arbitrary: the callee's business) */

struct NetZoneImpl g_z[NZ];
struct NetPoint g_np[NNP];
struct StandardLinkImpl g_lk[NLK];
struct seg g_seg[MAXCALLS]; /* the answers, fixed by the harness, never assigned */
struct query g_q[MAXCALLS]; /* the log */
size_t g_ncalls;
struct NetPoint* g_zgw[NZ]; /* default gateway of each zone (NetZoneImpl::get_gateway), never NULL */
_Bool g_zgw_ok[NZ];         /* get_gateway succeeds (else it throws: no / several gateways) */
/* bypass oracle */
_Bool g_bypass;
struct seg g_bseg;
struct query g_bq;
int g_bcalls;
double g_blatval; /* accumulator value left by a bypass (arbitrary) */

struct StandardLinkImpl* g_lbuf[LBUF];
struct vf_seq_StandardLinkImplP g_links;
struct NetZoneImpl* g_nzbuf[LBUF];
struct vf_set_NetZoneImplP g_netzones;
double g_lat;
size_t gk; /* ghost index: an arbitrary position */

#define FIN(x) ((x) - (x) == 0.0) /* finite double (not NaN, not infinite) */
#define ZN(p) ((p)->englobing_zone_)
#define ZIDX(z) ((z) - &g_z[0])
#define IN_Z(p) __CPROVER_pointer_in_range_dfcc(&g_z[0], (p), &g_z[NZ - 1])
/* a zone's own netpoint is of kind NetZone (NetZoneImpl constructor) */
#define WF_ZONE(i) (g_z[i].netpoint_ == &g_np[i] && g_np[i].component_type_ == Type__NetZone)
#define WF_ZONES (WF_ZONE(0) && WF_ZONE(1) && WF_ZONE(2) && WF_ZONE(3) && WF_ZONE(4))
#define IN_NP(p) __CPROVER_pointer_in_range_dfcc(&g_np[0], (p), &g_np[NNP - 1])
/* for `requires` of enforced contracts (there pointer_in_range_dfcc would RE-POINT the argument): exact membership */
#define IS_NP(p)                                                                                                       \
  ((p) == &g_np[0] || (p) == &g_np[1] || (p) == &g_np[2] || (p) == &g_np[3] || (p) == &g_np[4] || (p) == &g_np[5] ||    \
   (p) == &g_np[6] || (p) == &g_np[7] || (p) == &g_np[8] || (p) == &g_np[9])
#define IS_Z(p) ((p) == &g_z[0] || (p) == &g_z[1] || (p) == &g_z[2] || (p) == &g_z[3] || (p) == &g_z[4])
#define IS_LK(p)                                                                                                       \
  ((p) == &g_lk[0] || (p) == &g_lk[1] || (p) == &g_lk[2] || (p) == &g_lk[3] || (p) == &g_lk[4] || (p) == &g_lk[5] ||    \
   (p) == &g_lk[6] || (p) == &g_lk[7])

/* ---------------- assumed callees ------------------------------------------------------------------------------ */
#define RL (route->link_list_)
/* log entries written before the call are kept */
#define KEEPQ(k)                                                                                                       \
  (!((k) < __CPROVER_old(g_ncalls)) ||                                                                                 \
   (g_q[k].z == __CPROVER_old(g_q[k].z) && g_q[k].s == __CPROVER_old(g_q[k].s) && g_q[k].d == __CPROVER_old(g_q[k].d) && \
    g_q[k].acc == __CPROVER_old(g_q[k].acc)))
#define ALL_KEEPQ (KEEPQ(0) && KEEPQ(1) && KEEPQ(2) && KEEPQ(3) && KEEPQ(4) && KEEPQ(5) && KEEPQ(6) && KEEPQ(7))
#define CUR g_seg[__CPROVER_old(g_ncalls)]
void NetZoneImpl__get_local_route(struct NetZoneImpl* self, struct NetPoint* src, struct NetPoint* dst,
                                  struct Route* route, double* lat)
    __CPROVER_requires(g_ncalls < MAXCALLS && vf_exc == 0 && self != NULL && RL.h == 0 && RL.n <= LBUF &&
                       RL.n + SEGCAP <= RL.cap && RL.n <= 1 && lat != NULL)
    /* NOTE (CBMC 6.11 dfcc): lvalue assigns targets of POINTER type (RL.d[RL.n], route->gw_src_) of a REPLACED contract get
       the same havoc value at every application (docs/HOWTO.md): whole objects are assigned and every untouched element is
       restated (KEEPQ, RL.d[0]); single pointer fields go through VF_PT (byte-level havoc, fresh each time) */
    __CPROVER_assigns(g_ncalls, __CPROVER_object_whole(g_q), VF_PT(route->gw_src_), VF_PT(route->gw_dst_), RL.n,
                      __CPROVER_object_whole(RL.d), *lat)
    __CPROVER_ensures(ALL_KEEPQ)
    __CPROVER_ensures(__CPROVER_old(RL.n) < 1 || RL.d[0] == __CPROVER_old(RL.d[0]))
    __CPROVER_ensures(route->gw_src_ == NULL || IN_NP(route->gw_src_))
    __CPROVER_ensures(route->gw_dst_ == NULL || IN_NP(route->gw_dst_))
    __CPROVER_ensures(g_ncalls == __CPROVER_old(g_ncalls) + 1)
    __CPROVER_ensures(g_q[__CPROVER_old(g_ncalls)].z == self && g_q[__CPROVER_old(g_ncalls)].s == src &&
                      g_q[__CPROVER_old(g_ncalls)].d == dst)
    __CPROVER_ensures(route->gw_src_ == CUR.gw_src && route->gw_dst_ == CUR.gw_dst)
    __CPROVER_ensures(RL.n == __CPROVER_old(RL.n) + CUR.n)
    __CPROVER_ensures(!(0 < CUR.n) || RL.d[__CPROVER_old(RL.n)] == CUR.l[0])
    __CPROVER_ensures(!(1 < CUR.n) || RL.d[__CPROVER_old(RL.n) + 1] == CUR.l[1])
    __CPROVER_ensures(g_q[__CPROVER_old(g_ncalls)].acc == lat && *lat == g_latval[__CPROVER_old(g_ncalls)]);

struct NetPoint* NetZoneImpl__get_gateway(struct NetZoneImpl* self)
    __CPROVER_requires(vf_exc == 0 && __CPROVER_pointer_in_range_dfcc(&g_z[0], self, &g_z[NZ - 1]))
    __CPROVER_assigns(vf_exc)
    __CPROVER_ensures(IN_NP(__CPROVER_return_value))
    __CPROVER_ensures(__CPROVER_return_value == g_zgw[ZIDX(self)])
    __CPROVER_ensures(vf_exc == (g_zgw_ok[ZIDX(self)] ? 0 : VF_EXC_AssertionError));

/* bypass routes (NetZoneImpl::get_bypass_route: map of pairs, recursion through get_global_route_with_netzones) are an
   assumed oracle: either "no bypass" and nothing changes, or the bypass segment is appended */
_Bool NetZoneImpl__get_bypass_route(struct NetZoneImpl* self, struct NetPoint* src, struct NetPoint* dst,
                                    struct vf_seq_StandardLinkImplP* links, double* lat,
                                    struct vf_set_NetZoneImplP* netzones)
    __CPROVER_requires(vf_exc == 0 && self != NULL && links->h == 0 && links->n <= 1 && links->n + SEGCAP <= links->cap && lat != NULL)
    __CPROVER_assigns(g_bcalls, g_bq; g_bypass: links->n, __CPROVER_object_whole(links->d), *lat)
    __CPROVER_ensures(!g_bypass || __CPROVER_old(links->n) < 1 || links->d[0] == __CPROVER_old(links->d[0]))
    __CPROVER_ensures(__CPROVER_return_value == g_bypass)
    __CPROVER_ensures(g_bcalls == __CPROVER_old(g_bcalls) + 1 && g_bq.z == self && g_bq.s == src && g_bq.d == dst)
    __CPROVER_ensures(!g_bypass || links->n == __CPROVER_old(links->n) + g_bseg.n)
    __CPROVER_ensures(!(g_bypass && 0 < g_bseg.n) || links->d[__CPROVER_old(links->n)] == g_bseg.l[0])
    __CPROVER_ensures(!(g_bypass && 1 < g_bseg.n) || links->d[__CPROVER_old(links->n) + 1] == g_bseg.l[1])
    __CPROVER_ensures(!g_bypass || *lat == g_blatval);

/* static add_latency (std::accumulate with a generic lambda: outside the cxx2c subset): assumed to add the link
   latencies one by one, in order, to *latency when latency != NULL */
/* StandardLinkImpl::get_latency() (inline accessor latency_.peak * latency_.scale) is replaced by an assumed contract:
   it returns the link's latency value, ghost table g_llat (keeps floating-point products out of the obligations) */
double g_llat[NLK];
#define LAT_OF(l) g_llat[(l) - &g_lk[0]]
double StandardLinkImpl__get_latency(struct StandardLinkImpl* self)
    __CPROVER_requires(__CPROVER_pointer_in_range_dfcc(&g_lk[0], self, &g_lk[NLK - 1])) __CPROVER_assigns()
    __CPROVER_ensures(__CPROVER_return_value == LAT_OF(self));
#define FOLD0(x) (x)
#define FOLD1(x, s) (FOLD0(x) + LAT_OF((s)->d[0]))
#define FOLD2(x, s) (FOLD1(x, s) + LAT_OF((s)->d[1]))
#define FOLD3(x, s) (FOLD2(x, s) + LAT_OF((s)->d[2]))
#define FOLDN(x, s) ((s)->n == 0 ? FOLD0(x) : (s)->n == 1 ? FOLD1(x, s) : (s)->n == 2 ? FOLD2(x, s) : FOLD3(x, s))
void add_latency(struct vf_seq_StandardLinkImplP* links, double* latency)
    __CPROVER_requires(links->h == 0 && links->n <= 3 && latency != NULL) __CPROVER_assigns(*latency)
    __CPROVER_ensures(*latency == FOLDN(__CPROVER_old(*latency), links));

/* ---------------- add_link_latency ----------------------------------------------------------------------------- */
/* one link: appended at the tail, everything before it untouched, *latency grows by the link's latency */
void add_link_latency_one(struct vf_seq_StandardLinkImplP* result, struct StandardLinkImpl* link, double* latency)
    __CPROVER_requires(result == &g_links && g_links.d == g_lbuf && g_links.h == 0 && g_links.cap == LBUF &&
                       g_links.n < LBUF && vf_exc == 0 && (latency == NULL || latency == &g_lat) &&
                       IS_LK(link) && FIN(g_lat))
    __CPROVER_assigns(g_links.n, VF_PT(g_lbuf[g_links.n]), g_lat)
    __CPROVER_ensures(g_links.n == __CPROVER_old(g_links.n) + 1 && g_lbuf[g_links.n - 1] == link) /*@ one_link_at_tail */
    __CPROVER_ensures(latency == NULL || g_lat == __CPROVER_old(g_lat) + LAT_OF(link))           /*@ one_latency_added */
    __CPROVER_ensures(latency != NULL || g_lat == __CPROVER_old(g_lat)) /*@ one_null_latency_untouched */
    __CPROVER_ensures(vf_exc == 0);

/* vector of links: appended at the tail in the same order */
struct StandardLinkImpl* g_src_buf[LBUF];
struct vf_seq_StandardLinkImplP g_src_links;
void add_link_latency_vec(struct vf_seq_StandardLinkImplP* result, struct vf_seq_StandardLinkImplP* links,
                          double* latency)
    __CPROVER_requires(result == &g_links && g_links.d == g_lbuf && g_links.h == 0 && g_links.cap == LBUF &&
                       g_links.n <= 4 && links == &g_src_links && g_src_links.d == g_src_buf && g_src_links.h == 0 &&
                       g_src_links.n <= 3 && vf_exc == 0 && latency == &g_lat && gk < LBUF && FIN(g_lat))
    __CPROVER_assigns(g_links.n, __CPROVER_object_whole(g_lbuf), g_lat)
    __CPROVER_ensures(g_links.n == __CPROVER_old(g_links.n) + g_src_links.n) /*@ vec_length_grows_by_segment */
    __CPROVER_ensures(!(gk < g_src_links.n) || g_lbuf[__CPROVER_old(g_links.n) + gk] == g_src_buf[gk])
    /*@ vec_appended_in_order */
    __CPROVER_ensures(!(gk < __CPROVER_old(g_links.n)) || g_lbuf[gk] == __CPROVER_old(g_lbuf[gk])) /*@ vec_prefix_kept */
    __CPROVER_ensures(g_lat == FOLDN(__CPROVER_old(g_lat), &g_src_links)) /*@ vec_latency_is_fold_of_links */
    __CPROVER_ensures(vf_exc == 0);

/* ---------------- find_common_ancestors ------------------------------------------------------------------------ */
/* both paths are root-first lists of zones. Common ancestor = last element of their longest common prefix (the lowest
   zone containing both); src_ancestor = next zone on src's path (the child of the common ancestor that contains src),
   or the common ancestor itself when src lives directly in it; the paths are returned stripped of the common prefix */
struct NetZoneImpl* g_spb[2 * PCAP + 2];
struct NetZoneImpl* g_dpb[2 * PCAP + 2];
struct vf_seq_NetZoneImplP g_sp, g_dp;
struct NetZoneImpl *g_ca, *g_sa, *g_da;
#define OSP(k) __CPROVER_old(g_spb[k])
#define ODP(k) __CPROVER_old(g_dpb[k])
#define OSN __CPROVER_old(g_sp.n)
#define ODN __CPROVER_old(g_dp.n)
#define OMIN (OSN < ODN ? OSN : ODN)
#define EQ_UPTO0 (0 < OMIN && OSP(0) == ODP(0))
#define EQ_UPTO1 (EQ_UPTO0 && 1 < OMIN && OSP(1) == ODP(1))
#define EQ_UPTO2 (EQ_UPTO1 && 2 < OMIN && OSP(2) == ODP(2))
#define EQ_UPTO3 (EQ_UPTO2 && 3 < OMIN && OSP(3) == ODP(3))
#define CI (EQ_UPTO3 ? 3 : EQ_UPTO2 ? 2 : EQ_UPTO1 ? 1 : 0) /* index of the lowest common zone */
#define OSP_AT(i) ((i) == 0 ? OSP(0) : (i) == 1 ? OSP(1) : (i) == 2 ? OSP(2) : (i) == 3 ? OSP(3) : (i) == 4 ? OSP(4) : (i) == 5 ? OSP(5) : (i) == 6 ? OSP(6) : OSP(7))
#define ODP_AT(i) ((i) == 0 ? ODP(0) : (i) == 1 ? ODP(1) : (i) == 2 ? ODP(2) : (i) == 3 ? ODP(3) : (i) == 4 ? ODP(4) : (i) == 5 ? ODP(5) : (i) == 6 ? ODP(6) : ODP(7))
#define SAME_ZONE (ZN(src) == ZN(dst))
#define WF_PATH(v, b) ((v).d == (b) && (v).h == 0 && (v).n <= PCAP && (v).cap == 2 * PCAP + 2)
#define NONNULL_PATH(b) ((b)[0] != NULL && (b)[1] != NULL && (b)[2] != NULL && (b)[3] != NULL)
void find_common_ancestors(struct NetPoint* src, struct NetPoint* dst, struct NetZoneImpl** common_ancestor,
                           struct NetZoneImpl** src_ancestor, struct NetZoneImpl** dst_ancestor,
                           struct vf_seq_NetZoneImplP* src_path, struct vf_seq_NetZoneImplP* dst_path)
    __CPROVER_requires(vf_exc == 0 && __CPROVER_r_ok(src, sizeof(*src)) && __CPROVER_r_ok(dst, sizeof(*dst)) &&
                       common_ancestor == &g_ca && src_ancestor == &g_sa && dst_ancestor == &g_da &&
                       src_path == &g_sp && dst_path == &g_dp && WF_PATH(g_sp, g_spb) && WF_PATH(g_dp, g_dpb) &&
                       NONNULL_PATH(g_spb) && NONNULL_PATH(g_dpb) && gk < PCAP)
    __CPROVER_assigns(vf_exc, g_ca, g_sa, g_da, g_sp.n, g_dp.n, __CPROVER_object_whole(g_spb),
                      __CPROVER_object_whole(g_dpb))
    __CPROVER_ensures(!SAME_ZONE || (vf_exc == 0 && g_ca == ZN(src) && g_sa == g_ca && g_da == g_ca && g_sp.n == OSN &&
                                     g_dp.n == ODN && g_spb[gk] == OSP_AT(gk) && g_dpb[gk] == ODP_AT(gk)))
    /*@ fca_same_zone_is_its_own_ancestor */
    __CPROVER_ensures(SAME_ZONE || (vf_exc != 0) == (ZN(src) == NULL || ZN(dst) == NULL || !EQ_UPTO0))
    /*@ fca_rejects_paths_without_common_root */
    __CPROVER_ensures(vf_exc == 0 || vf_exc == VF_EXC_ABORT || vf_exc == VF_EXC_AssertionError)
    __CPROVER_ensures(SAME_ZONE || vf_exc != 0 || g_ca == OSP_AT(CI)) /*@ fca_common_is_end_of_common_prefix */
    __CPROVER_ensures(SAME_ZONE || vf_exc != 0 || (g_sp.n == OSN - (CI + 1) && g_dp.n == ODN - (CI + 1)))
    /*@ fca_paths_lose_exactly_the_common_prefix */
    __CPROVER_ensures(SAME_ZONE || vf_exc != 0 || !(gk < g_sp.n) || g_spb[gk] == OSP_AT(gk + CI + 1))
    /*@ fca_src_path_tail_kept_in_order */
    __CPROVER_ensures(SAME_ZONE || vf_exc != 0 || !(gk < g_dp.n) || g_dpb[gk] == ODP_AT(gk + CI + 1))
    /*@ fca_dst_path_tail_kept_in_order */
    __CPROVER_ensures(SAME_ZONE || vf_exc != 0 || g_sa == (CI + 1 < OSN ? OSP_AT(CI + 1) : g_ca))
    /*@ fca_src_ancestor_is_child_on_src_path */
    __CPROVER_ensures(SAME_ZONE || vf_exc != 0 || g_da == (CI + 1 < ODN ? ODP_AT(CI + 1) : g_ca))
    /*@ fca_dst_ancestor_is_child_on_dst_path */;

#define SAMEPFX(k) (!((k) < i) || src_path->d[k] == dst_path->d[k])
#define VF_LOOP_find_common_ancestors_0                                                                                \
  __CPROVER_assigns(i, common_ancestor_index)                                                                          \
      __CPROVER_loop_invariant(i <= min_size && (i == 0 ? common_ancestor_index == 0 : common_ancestor_index == i - 1) && \
                               SAMEPFX(0) && SAMEPFX(1) && SAMEPFX(2) && SAMEPFX(3)) __CPROVER_decreases(min_size - i)

/* ---------------- get_interzone_route -------------------------------------------------------------------------- */
/* Expected behaviour of the chain of local routes between a netpoint np and a gateway gw of an enclosing zone, through the
   zones p0, p1 (pn of them, outermost first) that lie between the gateway's zone and the netpoint's zone; c = index of
   the first log entry it will write; dir = gateway_to_netpoint (1: DOWN from the gateway, 0: UP to the gateway).
   Hop i (i = 0, 1): while the current gateway G_i is not in np's zone, ask G_i's zone for the route between G_i and the
   netpoint of zone p_i; the next gateway G_{i+1} is the gateway named by that answer on p_i's side, or p_i's default
   gateway when the answer names none. Last: the route between G_K and np inside np's zone (nothing if np is G_K). */
#define SG(c, i) g_seg[(c) + (i)]
#define ZGW(z) g_zgw[ZIDX(z)]
#define ZGW_OK(z) g_zgw_ok[ZIDX(z)]
struct izx {
  _Bool aborts, throws; /* xbt_assert "no route to the gateway" / get_gateway() throws */
  size_t k;             /* hops through intermediate zones */
  size_t nc;            /* local routes asked = k + (np != last gateway) */
  struct NetPoint *g1, *gk;
};
/* pure specification function (plain C, no side effect), evaluated on the pre-state values */
static struct izx iz_expect(size_t c, struct NetPoint* np, struct NetPoint* gw, _Bool dir, struct NetZoneImpl* p0,
                            struct NetZoneImpl* p1, size_t pn)
{
  struct izx r         = {0, 0, 0, 0, gw, gw};
  struct NetPoint* cur = gw;
  if (ZN(np) != ZN(cur)) { /* hop 0 */
    if (pn < 1) {
      r.aborts = 1;
      return r;
    }
    struct NetPoint* g = dir ? SG(c, 0).gw_dst : SG(c, 0).gw_src;
    if (g == NULL) {
      if (!ZGW_OK(p0)) {
        r.throws = 1;
        return r;
      }
      g = ZGW(p0);
    }
    r.k = 1, r.g1 = g, cur = g;
    if (ZN(np) != ZN(cur)) { /* hop 1 */
      if (pn < 2) {
        r.aborts = 1;
        return r;
      }
      g = dir ? SG(c, 1).gw_dst : SG(c, 1).gw_src;
      if (g == NULL) {
        if (!ZGW_OK(p1)) {
          r.throws = 1;
          return r;
        }
        g = ZGW(p1);
      }
      r.k = 2, cur = g;
      if (ZN(np) != ZN(cur)) { /* pn <= 2: a third hop finds no zone left on the path */
        r.aborts = 1;
        return r;
      }
    }
  }
  r.gk = cur;
  r.nc = r.k + (np != cur ? 1 : 0);
  return r;
}
#define Q_IS(k, zz, ss, dd) (g_q[k].z == (zz) && g_q[k].s == (ss) && g_q[k].d == (dd))
/* the log entries c, c+1, .. are the queries of the crossed zones, between the right end points */
static _Bool iz_queries(size_t c, struct NetPoint* np, struct NetPoint* gw, _Bool dir, struct NetZoneImpl* p0,
                        struct NetZoneImpl* p1, size_t pn)
{
  struct izx r = iz_expect(c, np, gw, dir, p0, p1, pn);
  if (r.aborts || r.throws)
    return 1;
  if (r.k >= 1 && !Q_IS(c, ZN(gw), dir ? gw : p0->netpoint_, dir ? p0->netpoint_ : gw))
    return 0;
  if (r.k >= 2 && !Q_IS(c + 1, ZN(r.g1), dir ? r.g1 : p1->netpoint_, dir ? p1->netpoint_ : r.g1))
    return 0;
  if (r.nc > r.k && !Q_IS(c + r.k, ZN(np), dir ? r.gk : np, dir ? np : r.gk))
    return 0;
  return 1;
}
/* links of the chain, given nc answers starting at log index c: DOWN = answers in call order, UP = reverse call order;
   every answer in its own order */
static size_t seg_tot(size_t c, size_t nc)
{
  return (0 < nc ? SG(c, 0).n : 0) + (1 < nc ? SG(c, 1).n : 0) + (2 < nc ? SG(c, 2).n : 0);
}
static struct StandardLinkImpl* el_chain(size_t c, size_t nc, _Bool down, size_t j)
{
#define EL_STEP(i)                                                                                                     \
  if ((i) < nc) {                                                                                                      \
    size_t s = down ? c + (i) : c + (nc - 1 - (i));                                                                    \
    if (j < g_seg[s].n)                                                                                                \
      return g_seg[s].l[j];                                                                                            \
    j -= g_seg[s].n;                                                                                                   \
  }
  EL_STEP(0) EL_STEP(1) EL_STEP(2) return NULL;
}
/* latency: the answers' terms are added one call after the other */
static double latsum(double x, size_t c, size_t nc)
{
  if (0 < nc)
    x = x + SG(c, 0).lat;
  if (1 < nc)
    x = x + SG(c, 1).lat;
  if (2 < nc)
    x = x + SG(c, 2).lat;
  return x;
}
#define TOT(c, nc) seg_tot(c, nc)
#define EL_DOWN(c, nc, j) el_chain(c, nc, 1, j)
#define EL_UP(c, nc, j) el_chain(c, nc, 0, j)
#define LATSUM(x, c, nc) latsum(x, c, nc)
/* latency without floating point: every logged call received the accumulator `acc` (g_q[k].acc) and left it at the
   arbitrary new value g_latval[k]; that a local route adds its links' latencies is add_link_latency's contract */
static _Bool iz_accs(size_t c, size_t nc, double* acc)
{
  return (!(0 < nc) || g_q[c].acc == acc) && (!(1 < nc) || g_q[c + 1].acc == acc) &&
         (!(2 < nc) || g_q[c + 2].acc == acc);
}
#define IZ_ABORTS(c, np, gw, dir, p0, p1, pn) (iz_expect(c, np, gw, dir, p0, p1, pn).aborts)
#define IZ_FAIL(c, np, gw, dir, p0, p1, pn)                                                                            \
  (iz_expect(c, np, gw, dir, p0, p1, pn).aborts || iz_expect(c, np, gw, dir, p0, p1, pn).throws)
#define IZ_NC(c, np, gw, dir, p0, p1, pn) (iz_expect(c, np, gw, dir, p0, p1, pn).nc)
#define IZ_QUERIES(c, np, gw, dir, p0, p1, pn) iz_queries(c, np, gw, dir, p0, p1, pn)
#if 0 /* first version: the same definitions as nested macros (their expansion is exponential; kept for reference) */
#define GWRAW(c, dir, i) ((dir) ? SG(c, i).gw_dst : SG(c, i).gw_src)
#define ZGW(z) g_zgw[ZIDX(z)]
#define ZGW_OK(z) g_zgw_ok[ZIDX(z)]
#define IZ_H0(c, np, gw, dir, p0, p1, pn) (ZN(np) != ZN(gw))
#define IZ_AB0(c, np, gw, dir, p0, p1, pn) (IZ_H0(c, np, gw, dir, p0, p1, pn) && (pn) < 1)
#define IZ_TH0(c, np, gw, dir, p0, p1, pn)                                                                             \
  (IZ_H0(c, np, gw, dir, p0, p1, pn) && (pn) >= 1 && GWRAW(c, dir, 0) == NULL && !ZGW_OK(p0))
#define IZ_OK0(c, np, gw, dir, p0, p1, pn)                                                                             \
  (IZ_H0(c, np, gw, dir, p0, p1, pn) && (pn) >= 1 && !(GWRAW(c, dir, 0) == NULL && !ZGW_OK(p0)))
#define IZ_G1(c, np, gw, dir, p0, p1, pn) (GWRAW(c, dir, 0) == NULL ? ZGW(p0) : GWRAW(c, dir, 0))
#define IZ_H1(c, np, gw, dir, p0, p1, pn)                                                                              \
  (IZ_OK0(c, np, gw, dir, p0, p1, pn) && ZN(np) != ZN(IZ_G1(c, np, gw, dir, p0, p1, pn)))
#define IZ_AB1(c, np, gw, dir, p0, p1, pn) (IZ_H1(c, np, gw, dir, p0, p1, pn) && (pn) < 2)
#define IZ_TH1(c, np, gw, dir, p0, p1, pn)                                                                             \
  (IZ_H1(c, np, gw, dir, p0, p1, pn) && (pn) >= 2 && GWRAW(c, dir, 1) == NULL && !ZGW_OK(p1))
#define IZ_OK1(c, np, gw, dir, p0, p1, pn)                                                                             \
  (IZ_H1(c, np, gw, dir, p0, p1, pn) && (pn) >= 2 && !(GWRAW(c, dir, 1) == NULL && !ZGW_OK(p1)))
#define IZ_G2(c, np, gw, dir, p0, p1, pn) (GWRAW(c, dir, 1) == NULL ? ZGW(p1) : GWRAW(c, dir, 1))
/* pn <= 2: a third hop finds no zone left on the path */
#define IZ_AB2(c, np, gw, dir, p0, p1, pn)                                                                             \
  (IZ_OK1(c, np, gw, dir, p0, p1, pn) && ZN(np) != ZN(IZ_G2(c, np, gw, dir, p0, p1, pn)))
#define IZ_ABORTS(c, np, gw, dir, p0, p1, pn)                                                                          \
  (IZ_AB0(c, np, gw, dir, p0, p1, pn) || IZ_AB1(c, np, gw, dir, p0, p1, pn) || IZ_AB2(c, np, gw, dir, p0, p1, pn))
#define IZ_THROWS(c, np, gw, dir, p0, p1, pn)                                                                          \
  (IZ_TH0(c, np, gw, dir, p0, p1, pn) || IZ_TH1(c, np, gw, dir, p0, p1, pn))
#define IZ_FAIL(c, np, gw, dir, p0, p1, pn)                                                                            \
  (IZ_ABORTS(c, np, gw, dir, p0, p1, pn) || IZ_THROWS(c, np, gw, dir, p0, p1, pn))
#define IZ_K(c, np, gw, dir, p0, p1, pn)                                                                               \
  (IZ_OK1(c, np, gw, dir, p0, p1, pn) ? (size_t)2 : IZ_OK0(c, np, gw, dir, p0, p1, pn) ? (size_t)1 : (size_t)0)
#define IZ_GK(c, np, gw, dir, p0, p1, pn)                                                                              \
  (IZ_OK1(c, np, gw, dir, p0, p1, pn)   ? IZ_G2(c, np, gw, dir, p0, p1, pn)                                            \
   : IZ_OK0(c, np, gw, dir, p0, p1, pn) ? IZ_G1(c, np, gw, dir, p0, p1, pn)                                            \
                                        : (gw))
#define IZ_FIN(c, np, gw, dir, p0, p1, pn)                                                                             \
  (!IZ_FAIL(c, np, gw, dir, p0, p1, pn) && (np) != IZ_GK(c, np, gw, dir, p0, p1, pn))
#define IZ_NC(c, np, gw, dir, p0, p1, pn)                                                                              \
  (IZ_K(c, np, gw, dir, p0, p1, pn) + (IZ_FIN(c, np, gw, dir, p0, p1, pn) ? (size_t)1 : (size_t)0))
/* the log entry k is the query (zone zz, from ss, to dd) */
#define Q_IS(k, zz, ss, dd) (g_q[k].z == (zz) && g_q[k].s == (ss) && g_q[k].d == (dd))
#define IZ_QUERIES(c, np, gw, dir, p0, p1, pn)                                                                         \
  ((!IZ_OK0(c, np, gw, dir, p0, p1, pn) ||                                                                             \
    Q_IS(c, ZN(gw), (dir) ? (gw) : (p0)->netpoint_, (dir) ? (p0)->netpoint_ : (gw))) &&                                \
   (!IZ_OK1(c, np, gw, dir, p0, p1, pn) ||                                                                             \
    Q_IS((c) + 1, ZN(IZ_G1(c, np, gw, dir, p0, p1, pn)),                                                               \
         (dir) ? IZ_G1(c, np, gw, dir, p0, p1, pn) : (p1)->netpoint_,                                                  \
         (dir) ? (p1)->netpoint_ : IZ_G1(c, np, gw, dir, p0, p1, pn))) &&                                              \
   (!IZ_FIN(c, np, gw, dir, p0, p1, pn) ||                                                                             \
    Q_IS((c) + IZ_K(c, np, gw, dir, p0, p1, pn), ZN(np), (dir) ? IZ_GK(c, np, gw, dir, p0, p1, pn) : (np),             \
         (dir) ? (np) : IZ_GK(c, np, gw, dir, p0, p1, pn))))
/* links of the chain, given nc answers starting at log index c: DOWN = answers in call order, UP = reverse call order;
   every answer in its own order */
#define LN(c, nc, i) ((i) < (nc) ? SG(c, i).n : (size_t)0)
#define TOT(c, nc) (LN(c, nc, 0) + LN(c, nc, 1) + LN(c, nc, 2))
#define EL_DOWN(c, nc, j)                                                                                              \
  ((j) < LN(c, nc, 0)                  ? SG(c, 0).l[j]                                                                 \
   : (j) < LN(c, nc, 0) + LN(c, nc, 1) ? SG(c, 1).l[(j)-LN(c, nc, 0)]                                                  \
                                       : SG(c, 2).l[(j)-LN(c, nc, 0) - LN(c, nc, 1)])
#define RSG(c, nc, i) SG(c, (nc)-1 - (i)) /* i-th answer counted from the last one */
#define RLN(c, nc, i) ((i) < (nc) ? RSG(c, nc, i).n : (size_t)0)
#define EL_UP(c, nc, j)                                                                                                \
  ((j) < RLN(c, nc, 0)                   ? RSG(c, nc, 0).l[j]                                                          \
   : (j) < RLN(c, nc, 0) + RLN(c, nc, 1) ? RSG(c, nc, 1).l[(j)-RLN(c, nc, 0)]                                          \
                                         : RSG(c, nc, 2).l[(j)-RLN(c, nc, 0) - RLN(c, nc, 1)])
/* latency: the answers' terms are added one call after the other */
#define LATSUM(x, c, nc)                                                                                               \
  ((nc) == 0   ? (x)                                                                                                   \
   : (nc) == 1 ? (x) + SG(c, 0).lat                                                                                    \
   : (nc) == 2 ? ((x) + SG(c, 0).lat) + SG(c, 1).lat                                                                   \
               : (((x) + SG(c, 0).lat) + SG(c, 1).lat) + SG(c, 2).lat)
#endif

/* result vector d[0..n) after the chain: length, EVERY position (at most 3 answers of SEGCAP links), old content kept
   (before the chain when going down, after it when going up; n0 <= 1 old links) */
static _Bool iz_links_ok(size_t c, size_t nc, _Bool down, size_t n0, struct StandardLinkImpl** d, size_t n,
                         struct StandardLinkImpl* old0)
{
  size_t tot  = seg_tot(c, nc);
  size_t base = down ? n0 : 0;
  if (n != n0 + tot)
    return 0;
#define IZ_AT(j)                                                                                                       \
  if ((j) < tot && d[base + (j)] != el_chain(c, nc, down, (j)))                                                        \
    return 0;
  IZ_AT(0) IZ_AT(1) IZ_AT(2) IZ_AT(3) IZ_AT(4) IZ_AT(5)
  if (n0 >= 1 && d[down ? 0 : tot] != old0)
    return 0;
  return 1;
}
#define ZP(k) (zones_path->d[k])
#define IZA __CPROVER_old(g_ncalls), netpoint, gateway, gateway_to_netpoint, ZP(0), ZP(1), zones_path->n
#define IZX(M) M(__CPROVER_old(g_ncalls), netpoint, gateway, gateway_to_netpoint, ZP(0), ZP(1), zones_path->n)
#define IZ_NCX IZX(IZ_NC)
#define ON0 __CPROVER_old(links->n)
void NetZoneImpl__get_interzone_route(struct NetPoint* netpoint, struct NetPoint* gateway, _Bool gateway_to_netpoint,
                                      struct vf_seq_StandardLinkImplP* links, double* latency,
                                      struct vf_seq_NetZoneImplP* zones_path)
    __CPROVER_requires(vf_exc == 0 && g_ncalls + 3 <= MAXCALLS && IS_NP(netpoint) && IS_NP(gateway) &&
                       ZN(netpoint) != NULL && ZN(gateway) != NULL && latency != NULL && links->h == 0 &&
                       links->n <= 1 && links->n + 3 * SEGCAP <= links->cap && links->cap <= LBUF &&
                       zones_path->h == 0 && zones_path->n <= 2 && zones_path->cap >= 2 && WF_ZONES &&
                       (zones_path->n < 1 || IS_Z(ZP(0))) && (zones_path->n < 2 || IS_Z(ZP(1))))
    __CPROVER_assigns(vf_exc, g_ncalls, __CPROVER_object_whole(g_q), links->n, __CPROVER_object_whole(links->d), *latency)
    __CPROVER_ensures(ALL_KEEPQ) /*@ iz_keeps_the_earlier_log_entries */
    __CPROVER_ensures((vf_exc == VF_EXC_ABORT) == IZX(IZ_ABORTS)) /*@ iz_aborts_iff_path_exhausted */
    __CPROVER_ensures((vf_exc != 0) == IZX(IZ_FAIL))              /*@ iz_fails_iff_no_zone_or_no_gateway */
    __CPROVER_ensures(vf_exc == 0 || vf_exc == VF_EXC_ABORT || vf_exc == VF_EXC_AssertionError)
    __CPROVER_ensures(vf_exc != 0 || g_ncalls == __CPROVER_old(g_ncalls) + IZ_NCX) /*@ iz_number_of_local_routes */
    __CPROVER_ensures(vf_exc != 0 || IZX(IZ_QUERIES)) /*@ iz_asks_each_crossed_zone_between_its_gateways */
    __CPROVER_ensures(vf_exc != 0 || !gateway_to_netpoint ||
                      iz_links_ok(__CPROVER_old(g_ncalls), IZ_NCX, 1, ON0, links->d, links->n, __CPROVER_old(links->d[0])))
    /*@ iz_down_appends_answers_in_call_order */
    __CPROVER_ensures(vf_exc != 0 || gateway_to_netpoint ||
                      iz_links_ok(__CPROVER_old(g_ncalls), IZ_NCX, 0, ON0, links->d, links->n, __CPROVER_old(links->d[0])))
    /*@ iz_up_prepends_answers_innermost_first */
    __CPROVER_ensures(vf_exc != 0 || iz_accs(__CPROVER_old(g_ncalls), IZ_NCX, latency))
    /*@ iz_every_answer_adds_to_the_callers_latency */
    __CPROVER_ensures(vf_exc != 0 || *latency == (IZ_NCX == 0 ? __CPROVER_old(*latency)
                                                              : g_latval[__CPROVER_old(g_ncalls) + IZ_NCX - 1]))
    /*@ iz_latency_changed_by_the_answers_only */;

/* ---------------- get_global_route_with_netzones --------------------------------------------------------------- */
/* Zone tree of the harness: depth <= 3 (z0; z1, z2 below z0; z3, z4 below z1 or z2). The expectations are written from the
   tree (parent_ pointers), not from the paths the code computes. */
#define PAR(z) ((z)->parent_)
#define WF_TREE                                                                                                        \
  (g_z[0].parent_ == NULL && g_z[1].parent_ == &g_z[0] && g_z[2].parent_ == &g_z[0] &&                                 \
   (g_z[3].parent_ == &g_z[1] || g_z[3].parent_ == &g_z[2]) && (g_z[4].parent_ == &g_z[1] || g_z[4].parent_ == &g_z[2]) && \
   ZN(&g_np[0]) == NULL && ZN(&g_np[1]) == &g_z[0] && ZN(&g_np[2]) == &g_z[0] && ZN(&g_np[3]) == g_z[3].parent_ &&        \
   ZN(&g_np[4]) == g_z[4].parent_ && IS_Z(ZN(&g_np[5])) && IS_Z(ZN(&g_np[6])) && IS_Z(ZN(&g_np[7])) &&                    \
   IS_Z(ZN(&g_np[8])) && IS_Z(ZN(&g_np[9])))
static _Bool is_anc(struct NetZoneImpl* a, struct NetZoneImpl* z) /* a is z or one of its ancestors */
{
  if (a == NULL || z == NULL)
    return 0;
  if (a == z)
    return 1;
  if (PAR(z) == NULL)
    return 0;
  if (PAR(z) == a)
    return 1;
  if (PAR(PAR(z)) == NULL)
    return 0;
  return PAR(PAR(z)) == a;
}
struct gx {
  struct NetZoneImpl *ca, *sa, *da; /* lowest common ancestor zone; its child zone (or itself) on src's / dst's side */
  struct NetZoneImpl *sp0, *dp0;    /* zones strictly below sa / da down to the zone of src / dst (at most one here) */
  size_t spn, dpn;
  int exc;                          /* expected vf_exc */
  size_t upc, upnc, dnc, dnnc;      /* first log index and number of local routes of the UP and DOWN chains */
  size_t ncalls;                    /* 1 (across, or the single zone) + upnc + dnnc */
};
static struct gx glob_expect(size_t c, struct NetPoint* src, struct NetPoint* dst)
{
  struct gx r            = {0};
  struct NetZoneImpl* zs = ZN(src);
  struct NetZoneImpl* zd = ZN(dst);
  r.ca  = is_anc(zs, zd) ? zs : is_anc(PAR(zs), zd) ? PAR(zs) : PAR(PAR(zs));
  r.sa  = zs == r.ca ? r.ca : PAR(zs) == r.ca ? zs : PAR(zs);
  r.da  = zd == r.ca ? r.ca : PAR(zd) == r.ca ? zd : PAR(zd);
  r.sp0 = zs, r.spn = (zs != r.ca && zs != r.sa) ? 1 : 0;
  r.dp0 = zd, r.dpn = (zd != r.ca && zd != r.da) ? 1 : 0;
  r.upc = c + 1, r.dnc = c + 1;
  if (zs == zd) {
    r.ncalls = 1;
    return r;
  }
  if (r.sa != r.ca) { /* UP: from src to the gateway the ACROSS answer names on src's side */
    if (g_seg[c].gw_src == NULL) {
      r.exc = VF_EXC_ABORT;
      return r;
    }
    struct izx u = iz_expect(r.upc, src, g_seg[c].gw_src, 0, r.sp0, r.sp0, r.spn);
    if (u.aborts || u.throws) {
      r.exc = u.aborts ? VF_EXC_ABORT : VF_EXC_AssertionError;
      return r;
    }
    r.upnc = u.nc;
  }
  r.dnc = r.upc + r.upnc;
  if (r.da != r.ca) { /* DOWN: from the gateway named on dst's side to dst */
    if (g_seg[c].gw_dst == NULL) {
      r.exc = VF_EXC_ABORT;
      return r;
    }
    struct izx w = iz_expect(r.dnc, dst, g_seg[c].gw_dst, 1, r.dp0, r.dp0, r.dpn);
    if (w.aborts || w.throws) {
      r.exc = w.aborts ? VF_EXC_ABORT : VF_EXC_AssertionError;
      return r;
    }
    r.dnnc = w.nc;
  }
  r.ncalls = 1 + r.upnc + r.dnnc;
  return r;
}
/* the log: ACROSS asked to the common ancestor between the two child zones (or the end points living directly in it), then
   the UP chain, then the DOWN chain; every call got the caller's latency accumulator */
static _Bool glob_queries_ok(size_t c, struct NetPoint* src, struct NetPoint* dst, double* acc)
{
  struct gx r = glob_expect(c, src, dst);
  if (r.exc)
    return 1;
  if (g_q[c].acc != acc)
    return 0;
  if (ZN(src) == ZN(dst))
    return Q_IS(c, ZN(src), src, dst);
  if (!Q_IS(c, r.ca, r.sa != r.ca ? r.sa->netpoint_ : src, r.da != r.ca ? r.da->netpoint_ : dst))
    return 0;
  if (r.sa != r.ca &&
      !(iz_queries(r.upc, src, g_seg[c].gw_src, 0, r.sp0, r.sp0, r.spn) && iz_accs(r.upc, r.upnc, acc)))
    return 0;
  if (r.da != r.ca &&
      !(iz_queries(r.dnc, dst, g_seg[c].gw_dst, 1, r.dp0, r.dp0, r.dpn) && iz_accs(r.dnc, r.dnnc, acc)))
    return 0;
  return 1;
}
/* the route: old content, then UP (innermost zone first), then ACROSS, then DOWN (outermost zone first); each answer in
   its own order; every position checked (at most 2 + 1 + 2 answers of SEGCAP links) */
static _Bool glob_links_ok(size_t c, struct NetPoint* src, struct NetPoint* dst, size_t n0, struct StandardLinkImpl** d,
                           size_t n, struct StandardLinkImpl* old0)
{
  struct gx r = glob_expect(c, src, dst);
  if (r.exc)
    return 1;
  size_t ul = seg_tot(r.upc, r.upnc), xn = g_seg[c].n, dl = seg_tot(r.dnc, r.dnnc);
  if (n != n0 + ul + xn + dl)
    return 0;
#define GL_AT(j)                                                                                                       \
  if ((j) < ul + xn + dl &&                                                                                            \
      d[n0 + (j)] != ((j) < ul        ? el_chain(r.upc, r.upnc, 0, (j))                                                \
                      : (j) < ul + xn ? g_seg[c].l[(j)-ul]                                                             \
                                      : el_chain(r.dnc, r.dnnc, 1, (j)-ul - xn)))                                      \
    return 0;
  GL_AT(0) GL_AT(1) GL_AT(2) GL_AT(3) GL_AT(4) GL_AT(5) GL_AT(6) GL_AT(7) GL_AT(8) GL_AT(9)
  if (n0 >= 1 && d[0] != old0)
    return 0;
  return 1;
}
#define GX glob_expect(__CPROVER_old(g_ncalls), src, dst)
#define GN0 __CPROVER_old(g_links.n)
void NetZoneImpl__get_global_route_with_netzones(struct NetPoint* src, struct NetPoint* dst,
                                                 struct vf_seq_StandardLinkImplP* links, double* latency,
                                                 struct vf_set_NetZoneImplP* netzones)
    __CPROVER_requires(vf_exc == 0 && g_ncalls <= 1 && g_bcalls == 0 && IS_NP(src) && IS_NP(dst) && src != &g_np[0] &&
                       dst != &g_np[0] && links == &g_links && g_links.d == g_lbuf && g_links.h == 0 &&
                       g_links.n <= 1 && g_links.cap == LBUF && latency == &g_lat && netzones == &g_netzones &&
                       g_netzones.k == g_nzbuf && g_netzones.n <= 1 && g_netzones.cap == LBUF && WF_ZONES && WF_TREE &&
                       g_bseg.n <= SEGCAP)
    __CPROVER_assigns(vf_exc, g_ncalls, __CPROVER_object_whole(g_q), g_bcalls, g_bq, g_links,
                      __CPROVER_object_whole(g_lbuf), g_lat, g_netzones.n, __CPROVER_object_whole(g_nzbuf))
    __CPROVER_ensures(g_links.d == g_lbuf && g_links.h == 0 && g_links.cap == LBUF) /*@ glob_result_vector_still_owns_its_buffer */
    __CPROVER_ensures(g_bcalls == 1 && g_bq.z == GX.ca && g_bq.s == src && g_bq.d == dst)
    /*@ glob_bypass_is_asked_to_the_lowest_common_ancestor */
    __CPROVER_ensures(!g_bypass ||
                      (vf_exc == 0 && g_ncalls == __CPROVER_old(g_ncalls) && g_links.n == GN0 + g_bseg.n &&
                       (!(0 < g_bseg.n) || g_lbuf[GN0] == g_bseg.l[0]) && (!(1 < g_bseg.n) || g_lbuf[GN0 + 1] == g_bseg.l[1]) &&
                       (GN0 == 0 || g_lbuf[0] == __CPROVER_old(g_lbuf[0])) && g_lat == g_blatval))
    /*@ glob_declared_bypass_is_the_whole_route */
    __CPROVER_ensures(g_bypass || vf_exc == GX.exc) /*@ glob_fails_iff_a_gateway_is_missing_or_a_chain_fails */
    __CPROVER_ensures(g_bypass || vf_exc != 0 || g_ncalls == __CPROVER_old(g_ncalls) + GX.ncalls)
    /*@ glob_one_local_route_per_crossed_zone */
    __CPROVER_ensures(g_bypass || vf_exc != 0 || glob_queries_ok(__CPROVER_old(g_ncalls), src, dst, latency))
    /*@ glob_asks_across_then_up_then_down_with_the_right_end_points */
    __CPROVER_ensures(g_bypass || vf_exc != 0 ||
                      glob_links_ok(__CPROVER_old(g_ncalls), src, dst, GN0, g_lbuf, g_links.n, __CPROVER_old(g_lbuf[0])))
    /*@ glob_route_is_old_then_up_then_across_then_down */
    __CPROVER_ensures(g_bypass || vf_exc != 0 || g_lat == g_latval[__CPROVER_old(g_ncalls) + GX.ncalls - 1])
    /*@ glob_latency_changed_by_the_answers_only */;

#include "gen.c"

/* ---------------- harnesses ------------------------------------------------------------------------------------ */
size_t nondet_size(void);
int nondet_int(void);
_Bool nondet_bool(void);
double nondet_double(void);

static struct StandardLinkImpl* pick_link(void)
{
  size_t i = nondet_size();
  __CPROVER_assume(i < NLK);
  return &g_lk[i];
}
static struct NetZoneImpl* pick_zone(void)
{
  size_t i = nondet_size();
  __CPROVER_assume(i < NZ);
  return &g_z[i];
}
static struct NetPoint* pick_np(void) /* any netpoint but the root's (which has no englobing zone) */
{
  size_t i = nondet_size();
  __CPROVER_assume(1 <= i && i < NNP);
  return &g_np[i];
}

static void setup_links(size_t maxn)
{
  for (int k = 0; k < NLK; k++)
    __CPROVER_assume(FIN(g_llat[k])); /* link latencies are finite numbers */
  g_links.d   = g_lbuf;
  g_links.h   = 0;
  g_links.cap = LBUF;
  size_t n    = nondet_size();
  __CPROVER_assume(n <= maxn);
  g_links.n = n;
  for (int k = 0; k < 4; k++)
    g_lbuf[k] = pick_link();
  vf_exc = 0;
}

#ifdef H_add_one
void harness(void)
{
  setup_links(LBUF - 1);
  add_link_latency_one(&g_links, pick_link(), nondet_bool() ? NULL : &g_lat);
  VF_CANARY_POINT;
}
#endif
#ifdef H_add_vec
void harness(void)
{
  setup_links(4);
  g_src_links.d   = g_src_buf;
  g_src_links.h   = 0;
  g_src_links.cap = LBUF;
  size_t n        = nondet_size();
  __CPROVER_assume(n <= 3);
  g_src_links.n = n;
  for (int k = 0; k < 3; k++)
    g_src_buf[k] = pick_link();
  __CPROVER_assume(gk < LBUF);
  add_link_latency_vec(&g_links, &g_src_links, &g_lat);
  VF_CANARY_POINT;
}
#endif
#ifdef H_fca
void harness(void)
{
  vf_exc = 0;
  for (int k = 0; k < 2 * PCAP + 2; k++) {
    g_spb[k] = pick_zone();
    g_dpb[k] = pick_zone();
  }
  g_sp.d = g_spb, g_sp.h = 0, g_sp.cap = 2 * PCAP + 2;
  g_dp.d = g_dpb, g_dp.h = 0, g_dp.cap = 2 * PCAP + 2;
  size_t a = nondet_size(), b = nondet_size();
  __CPROVER_assume(a <= PCAP && b <= PCAP);
  g_sp.n = a, g_dp.n = b;
  for (int k = 1; k < NNP; k++)
    g_np[k].englobing_zone_ = nondet_bool() ? NULL : pick_zone();
  __CPROVER_assume(gk < PCAP);
  find_common_ancestors(pick_np(), pick_np(), &g_ca, &g_sa, &g_da, &g_sp, &g_dp);
  VF_CANARY_POINT;
}
#endif

static void setup_world(void)
{
  vf_exc          = 0;
  g_z[0].parent_ = NULL;
  g_z[1].parent_ = &g_z[0];
  g_z[2].parent_ = &g_z[0];
  g_z[3].parent_ = nondet_bool() ? &g_z[1] : &g_z[2];
  g_z[4].parent_ = nondet_bool() ? &g_z[1] : &g_z[2];
  for (int i = 0; i < NZ; i++) {
    g_z[i].netpoint_          = &g_np[i];
    g_np[i].component_type_   = Type__NetZone;
    g_np[i].englobing_zone_   = g_z[i].parent_;
    g_zgw[i]                  = pick_np();
  }
  for (int i = NZ; i < NNP; i++)
    g_np[i].englobing_zone_ = pick_zone();
  for (int k = 0; k < MAXCALLS; k++) {
    __CPROVER_assume(g_seg[k].n <= SEGCAP && FIN(g_seg[k].lat) && g_latval[k] == g_latval[k]);
    for (int j = 0; j < SEGCAP; j++)
      g_seg[k].l[j] = pick_link();
    g_seg[k].gw_src = nondet_bool() ? NULL : pick_np();
    g_seg[k].gw_dst = nondet_bool() ? NULL : pick_np();
  }
  __CPROVER_assume(g_ncalls <= 1 && FIN(g_lat));
}

#if defined(H_interzone_up) || defined(H_interzone_down)
#ifndef IZ_PN
#define IZ_PN 2 /* zones on the path between the gateway's zone and the netpoint's zone (quick: 1, thorough: 2) */
#endif
#ifdef H_interzone_up
#define IZ_DIR 0
#else
#define IZ_DIR 1
#endif
void harness(void)
{
  setup_world();
  setup_links(1);
  g_sp.d = g_spb, g_sp.h = 0, g_sp.cap = 2 * PCAP + 2;
  size_t a = nondet_size();
  __CPROVER_assume(a <= IZ_PN);
  g_sp.n = a;
  for (int k = 0; k < 2 * PCAP + 2; k++)
    g_spb[k] = pick_zone();
  __CPROVER_assume(gk < 3 * SEGCAP);
  NetZoneImpl__get_interzone_route(pick_np(), pick_np(), IZ_DIR, &g_links, &g_lat, &g_sp);
  VF_CANARY_POINT;
}
#endif

#if defined(H_global) || defined(H_global_full) || defined(H_global_z0) || defined(H_global_z1) || defined(H_global_z2) || \
    defined(H_global_z3) || defined(H_global_z4)
void harness(void)
{
  setup_world();
  setup_links(1);
  g_netzones.k = g_nzbuf, g_netzones.cap = LBUF;
  __CPROVER_assume(g_netzones.n <= 1);
  g_nzbuf[0] = pick_zone();
  g_bcalls   = 0;
  __CPROVER_assume(g_bseg.n <= SEGCAP && g_blatval == g_blatval);
  for (int j = 0; j < SEGCAP; j++)
    g_bseg.l[j] = pick_link();
#ifdef G_SRC_ZONE /* quick tier: one harness per zone of the source host (constant pointers: much faster), any destination */
  g_np[5].englobing_zone_ = &g_z[G_SRC_ZONE];
  NetZoneImpl__get_global_route_with_netzones(&g_np[5], pick_np(), &g_links, &g_lat, &g_netzones);
#else
  NetZoneImpl__get_global_route_with_netzones(pick_np(), pick_np(), &g_links, &g_lat, &g_netzones);
#endif
  VF_CANARY_POINT;
}
#endif
