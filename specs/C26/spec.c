/* C26 — structured topologies; this check covers the Star sentence of the statement:
 * "star routes are the source's up links followed by the destination's down links without repetition. Loopback [...] links
 *  appear exactly as configured."
 * Units (real code, StarZone.cpp): StarZone::get_local_route, StarZone::add_links_to_route, StarRoute::has_loopback,
 * and the inline accessors has_links_up / has_links_down / NetPoint::id.
 * Latency: add_link_latency(result, link, latency) (contract proved under C24) is an assumed callee that appends the link
 * and RECORDS (link, accumulator) in a ghost log: "every link of the route contributes its latency once, in order". */
#define VF_SET_EXACT 8
#define VF_EXACT_MODELS
#include "gen.h"

#define NE 3   /* netpoints registered in the zone (entries of routes_) */
#define LCAP 2 /* links per up / down / loopback list in the get_local_route harness */
#define ICAP 3 /* links per list in the add_links_to_route harness */
#define NLK 6  /* link objects */
#define LBUF 12
#define ADDCAP 8

struct StandardLinkImpl g_lk[NLK];
struct NetPoint g_np[NE + 2];
struct vf_pair_unsigned_long__StarRoute g_ent[NE + 1];
struct StandardLinkImpl* g_lb[NE][ICAP + 1];
struct StandardLinkImpl* g_up[NE][ICAP + 1];
struct StandardLinkImpl* g_dn[NE][ICAP + 1];
struct StarZone g_sz;
struct Route g_res;
struct StandardLinkImpl* g_lbuf[LBUF];
double g_lat;
/* ghost log of the latency contributions */
size_t g_nadd;
struct StandardLinkImpl* g_added[ADDCAP];
double* g_addacc[ADDCAP];

#define IS_LK(p) ((p) == &g_lk[0] || (p) == &g_lk[1] || (p) == &g_lk[2] || (p) == &g_lk[3] || (p) == &g_lk[4] || (p) == &g_lk[5])

/* NOTE (CBMC 6.11 dfcc): an assigns target with a symbolic index (`result->d[result->n]`) of a REPLACED contract is not
   havocked properly on a second call (the path dies unless the old value happens to fit): whole objects are assigned
   and the untouched elements are restated one by one. */
#define KEEP_D(k) (!((k) < __CPROVER_old(result->n)) || result->d[k] == __CPROVER_old(result->d[k]))
#define KEEP_LOG(k)                                                                                                    \
  (!((k) < __CPROVER_old(g_nadd)) || (g_added[k] == __CPROVER_old(g_added[k]) && g_addacc[k] == __CPROVER_old(g_addacc[k])))
void add_link_latency(struct vf_seq_StandardLinkImplP* result, struct StandardLinkImpl* link, double* latency)
    __CPROVER_requires(vf_exc == 0 && result->h == 0 && result->n < result->cap && result->n < 8 && g_nadd < ADDCAP)
    __CPROVER_assigns(result->n, __CPROVER_object_whole(result->d), g_nadd, __CPROVER_object_whole(g_added),
                      __CPROVER_object_whole(g_addacc))
    __CPROVER_ensures(result->n == __CPROVER_old(result->n) + 1 && result->d[__CPROVER_old(result->n)] == link)
    __CPROVER_ensures(KEEP_D(0) && KEEP_D(1) && KEEP_D(2) && KEEP_D(3) && KEEP_D(4) && KEEP_D(5) && KEEP_D(6) && KEEP_D(7))
    __CPROVER_ensures(g_nadd == __CPROVER_old(g_nadd) + 1 && g_added[__CPROVER_old(g_nadd)] == link &&
                      g_addacc[__CPROVER_old(g_nadd)] == latency)
    __CPROVER_ensures(KEEP_LOG(0) && KEEP_LOG(1) && KEEP_LOG(2) && KEEP_LOG(3) && KEEP_LOG(4) && KEEP_LOG(5) &&
                      KEEP_LOG(6) && KEEP_LOG(7));

/* expected list: the elements of a[0..an) then b[0..bn), skipping those in the set o[0..on) and every repetition */
struct exp {
  size_t m;
  struct StandardLinkImpl* e[8];
};
static struct exp no_repeat(struct StandardLinkImpl** o, size_t on, struct StandardLinkImpl** a, size_t an,
                            struct StandardLinkImpl** b, size_t bn)
{
  struct exp r = {0};
#define PUSH_IF_NEW(x)                                                                                                 \
  {                                                                                                                    \
    struct StandardLinkImpl* v = (x);                                                                                  \
    _Bool dup                  = (0 < on && o[0] == v) || (1 < on && o[1] == v) || (2 < on && o[2] == v);              \
    dup = dup || (0 < r.m && r.e[0] == v) || (1 < r.m && r.e[1] == v) || (2 < r.m && r.e[2] == v) ||                   \
          (3 < r.m && r.e[3] == v) || (4 < r.m && r.e[4] == v);                                                        \
    if (!dup)                                                                                                          \
      r.e[r.m++] = v;                                                                                                  \
  }
  if (0 < an)
    PUSH_IF_NEW(a[0])
  if (1 < an)
    PUSH_IF_NEW(a[1])
  if (2 < an)
    PUSH_IF_NEW(a[2])
  if (0 < bn)
    PUSH_IF_NEW(b[0])
  if (1 < bn)
    PUSH_IF_NEW(b[1])
  if (2 < bn)
    PUSH_IF_NEW(b[2])
  return r;
}
/* result vector d[0..n) = its old content (n0 <= 2 links r0, r1) followed by the expected list */
static _Bool appended_is(struct exp x, size_t n0, struct StandardLinkImpl** d, size_t n, struct StandardLinkImpl* r0,
                         struct StandardLinkImpl* r1)
{
  if (n != n0 + x.m)
    return 0;
  if ((0 < n0 && d[0] != r0) || (1 < n0 && d[1] != r1))
    return 0;
#define AT(j)                                                                                                          \
  if ((j) < x.m && d[n0 + (j)] != x.e[j])                                                                              \
    return 0;
  AT(0) AT(1) AT(2) AT(3) AT(4) AT(5) return 1;
}
/* latency log: exactly the expected links, in order, each into the accumulator acc */
static _Bool latency_log_is(struct exp x, size_t a0, double* acc)
{
  if (g_nadd != a0 + x.m)
    return 0;
#define LG(j)                                                                                                          \
  if ((j) < x.m && (g_added[a0 + (j)] != x.e[j] || g_addacc[a0 + (j)] != acc))                                         \
    return 0;
  LG(0) LG(1) LG(2) LG(3) LG(4) LG(5) return 1;
}

/* ---------------- add_links_to_route ---------------------------------------------------------------------------- */
struct StandardLinkImpl* g_in[ICAP + 1];
struct vf_seq_StandardLinkImplP g_inv;
struct StandardLinkImpl* g_setbuf[LBUF];
struct vf_set_StandardLinkImplP g_set;
#define WF_RES (g_res.link_list_.d == g_lbuf && g_res.link_list_.h == 0 && g_res.link_list_.cap == LBUF && g_res.link_list_.n <= 2)
#define OLD_SET __CPROVER_old(g_setbuf[0]), __CPROVER_old(g_setbuf[1]), __CPROVER_old(g_setbuf[2])
static struct exp alr_expect(struct StandardLinkImpl* o0, struct StandardLinkImpl* o1, struct StandardLinkImpl* o2,
                             size_t on)
{
  struct StandardLinkImpl* o[3] = {o0, o1, o2};
  return no_repeat(o, on, g_in, g_inv.n, g_in, 0);
}
void StarZone__add_links_to_route(struct StarZone* self, struct vf_seq_StandardLinkImplP* links, struct Route* route,
                                  double* latency, struct vf_set_StandardLinkImplP* added_links)
    __CPROVER_requires(vf_exc == 0 && links == &g_inv && g_inv.d == g_in && g_inv.h == 0 && g_inv.n <= ICAP &&
                       route == &g_res && WF_RES && added_links == &g_set && g_set.k == g_setbuf && g_set.n <= 3 &&
                       g_set.cap == LBUF && (g_set.n < 2 || g_setbuf[0] != g_setbuf[1]) &&
                       (g_set.n < 3 || (g_setbuf[0] != g_setbuf[2] && g_setbuf[1] != g_setbuf[2])) && g_nadd <= 1 &&
                       (latency == NULL || latency == &g_lat))
    __CPROVER_assigns(g_res.link_list_.n, __CPROVER_object_whole(g_lbuf), g_set.n, __CPROVER_object_whole(g_setbuf),
                      g_nadd, __CPROVER_object_whole(g_added), __CPROVER_object_whole(g_addacc))
    __CPROVER_ensures(vf_exc == 0)
    __CPROVER_ensures(appended_is(alr_expect(OLD_SET, __CPROVER_old(g_set.n)), __CPROVER_old(g_res.link_list_.n), g_lbuf,
                                  g_res.link_list_.n, __CPROVER_old(g_lbuf[0]), __CPROVER_old(g_lbuf[1])))
    /*@ alr_appends_the_links_not_seen_before_once_in_order */
    __CPROVER_ensures(appended_is(alr_expect(OLD_SET, __CPROVER_old(g_set.n)), __CPROVER_old(g_set.n), g_setbuf, g_set.n,
                                  __CPROVER_old(g_setbuf[0]), __CPROVER_old(g_setbuf[1])) &&
                      (__CPROVER_old(g_set.n) < 3 || g_setbuf[2] == __CPROVER_old(g_setbuf[2])))
    /*@ alr_remembers_every_link_it_added */
    __CPROVER_ensures(latency_log_is(alr_expect(OLD_SET, __CPROVER_old(g_set.n)), __CPROVER_old(g_nadd), latency))
    /*@ alr_each_added_link_contributes_its_latency_once */;

/* ---------------- get_local_route ------------------------------------------------------------------------------- */
#define SR (&g_ent[src->id_].second)
#define DR (&g_ent[dst->id_].second)
#define WF_ENT(i)                                                                                                      \
  (g_ent[i].first == (i) && g_ent[i].second.loopback.d == g_lb[i] && g_ent[i].second.loopback.h == 0 &&                \
   g_ent[i].second.loopback.n <= LCAP && g_ent[i].second.links_up.d == g_up[i] && g_ent[i].second.links_up.h == 0 &&   \
   g_ent[i].second.links_up.n <= LCAP && g_ent[i].second.links_down.d == g_dn[i] &&                                    \
   g_ent[i].second.links_down.h == 0 && g_ent[i].second.links_down.n <= LCAP)
#define WF_STAR (g_sz.routes_.e == g_ent && g_sz.routes_.n == NE && WF_ENT(0) && WF_ENT(1) && WF_ENT(2))
#define LOOPBACK_CASE (src == dst && SR->loopback.n != 0)
#define REJECTED (!LOOPBACK_CASE && (!SR->links_up_set || !DR->links_down_set))
static struct exp star_expect(struct NetPoint* src, struct NetPoint* dst)
{
  struct StandardLinkImpl* none[3] = {0, 0, 0};
  if (LOOPBACK_CASE)
    return no_repeat(none, 0, SR->loopback.d, SR->loopback.n, none, 0);
  return no_repeat(none, 0, SR->links_up.d, SR->links_up.n, DR->links_down.d, DR->links_down.n);
}
void StarZone__get_local_route(struct StarZone* self, struct NetPoint* src, struct NetPoint* dst, struct Route* route,
                               double* latency)
    __CPROVER_requires(vf_exc == 0 && self == &g_sz && WF_STAR && __CPROVER_r_ok(src, sizeof(*src)) &&
                       __CPROVER_r_ok(dst, sizeof(*dst)) && src->id_ < NE && dst->id_ < NE && route == &g_res && WF_RES &&
                       g_nadd <= 1 && (latency == NULL || latency == &g_lat))
    __CPROVER_assigns(vf_exc, g_res.link_list_.n, __CPROVER_object_whole(g_lbuf), g_res.gw_src_, g_res.gw_dst_, g_nadd,
                      __CPROVER_object_whole(g_added), __CPROVER_object_whole(g_addacc))
    __CPROVER_ensures((vf_exc == VF_EXC_ABORT) == REJECTED) /*@ star_rejects_missing_up_or_down_links */
    __CPROVER_ensures(vf_exc == 0 || vf_exc == VF_EXC_ABORT)
    __CPROVER_ensures(vf_exc != 0 ||
                      appended_is(star_expect(src, dst), __CPROVER_old(g_res.link_list_.n), g_lbuf, g_res.link_list_.n,
                                  __CPROVER_old(g_lbuf[0]), __CPROVER_old(g_lbuf[1])))
    /*@ star_route_is_up_links_then_down_links_without_repetition_or_the_loopback */
    __CPROVER_ensures(vf_exc != 0 || latency_log_is(star_expect(src, dst), __CPROVER_old(g_nadd), latency))
    /*@ star_every_link_of_the_route_contributes_its_latency_once */
    __CPROVER_ensures(vf_exc != 0 || LOOPBACK_CASE || (g_res.gw_src_ == SR->gateway && g_res.gw_dst_ == DR->gateway))
    /*@ star_gateways_are_those_of_the_two_end_points */
    __CPROVER_ensures(vf_exc != 0 || !LOOPBACK_CASE ||
                      (g_res.gw_src_ == __CPROVER_old(g_res.gw_src_) && g_res.gw_dst_ == __CPROVER_old(g_res.gw_dst_)))
    /*@ star_loopback_route_names_no_gateway */;

/* ---------------- DragonflyZone::rankId_to_coords ---------------------------------------------------------------- */
/* exact mixed-radix decomposition of the rank: (group, chassis, blade, node) with chassis < C, blade < B, node < N and
   rank == ((group * C + chassis) * B + blade) * N + node  (so the map is the inverse of the documented numbering) */
#ifndef DIM_MAX
#define DIM_MAX 8 /* chassis per group, blades per chassis, nodes per blade: 1..DIM_MAX; ranks below RANK_MAX */
#endif
#ifndef RANK_MAX
#define RANK_MAX 4096
#endif
struct DragonflyZone g_df;
#define DC ((unsigned long)g_df.num_chassis_per_group_)
#define DB ((unsigned long)g_df.num_blades_per_chassis_)
#define DN ((unsigned long)g_df.num_nodes_per_blade_)
#define RV __CPROVER_return_value
struct Coords DragonflyZone__rankId_to_coords(struct DragonflyZone* self, unsigned long rankId)
    __CPROVER_requires(self == &g_df && vf_exc == 0 && 1 <= DC && DC <= DIM_MAX && 1 <= DB && DB <= DIM_MAX && 1 <= DN &&
                       DN <= DIM_MAX && rankId < RANK_MAX)
    __CPROVER_assigns()
    __CPROVER_ensures(vf_exc == 0)
    __CPROVER_ensures(RV.chassis < DC && RV.blade < DB && RV.node < DN) /*@ coords_each_digit_below_its_radix */
    __CPROVER_ensures(((RV.group * DC + RV.chassis) * DB + RV.blade) * DN + RV.node == rankId)
    /*@ coords_recompose_to_the_rank */;

#include "gen.c"

size_t nondet_size(void);
_Bool nondet_bool(void);
static struct StandardLinkImpl* pick_link(void)
{
  size_t i = nondet_size();
  __CPROVER_assume(i < NLK);
  return &g_lk[i];
}
static void setup(void)
{
  vf_exc = 0;
  g_res.link_list_.d = g_lbuf, g_res.link_list_.h = 0, g_res.link_list_.cap = LBUF;
  __CPROVER_assume(g_res.link_list_.n <= 2);
  g_lbuf[0] = pick_link(), g_lbuf[1] = pick_link();
  g_res.gw_src_ = nondet_bool() ? NULL : &g_np[NE];
  g_res.gw_dst_ = nondet_bool() ? NULL : &g_np[NE + 1];
  __CPROVER_assume(g_nadd <= 1);
}
#ifdef H_add_links
void harness(void)
{
  setup();
  g_inv.d = g_in, g_inv.h = 0, g_inv.cap = ICAP + 1;
  __CPROVER_assume(g_inv.n <= ICAP);
  for (int k = 0; k <= ICAP; k++)
    g_in[k] = pick_link();
  g_set.k = g_setbuf, g_set.cap = LBUF;
  __CPROVER_assume(g_set.n <= 3);
  for (int k = 0; k < 3; k++)
    g_setbuf[k] = pick_link();
  __CPROVER_assume(g_set.n < 2 || g_setbuf[0] != g_setbuf[1]);
  __CPROVER_assume(g_set.n < 3 || (g_setbuf[0] != g_setbuf[2] && g_setbuf[1] != g_setbuf[2]));
  StarZone__add_links_to_route(&g_sz, &g_inv, &g_res, nondet_bool() ? NULL : &g_lat, &g_set);
  VF_CANARY_POINT;
}
#endif
#ifdef H_star_route
void harness(void)
{
  setup();
  g_sz.routes_.e = g_ent, g_sz.routes_.n = NE, g_sz.routes_.cap = NE + 1;
  for (int i = 0; i < NE; i++) {
    g_ent[i].first = i;
    struct StarRoute* r = &g_ent[i].second;
    r->loopback.d = g_lb[i], r->loopback.h = 0, r->loopback.cap = ICAP + 1;
    r->links_up.d = g_up[i], r->links_up.h = 0, r->links_up.cap = ICAP + 1;
    r->links_down.d = g_dn[i], r->links_down.h = 0, r->links_down.cap = ICAP + 1;
    __CPROVER_assume(r->loopback.n <= LCAP && r->links_up.n <= LCAP && r->links_down.n <= LCAP);
    for (int k = 0; k <= ICAP; k++)
      g_lb[i][k] = pick_link(), g_up[i][k] = pick_link(), g_dn[i][k] = pick_link();
    r->gateway = nondet_bool() ? NULL : &g_np[NE];
  }
  size_t s = nondet_size(), d = nondet_size();
  __CPROVER_assume(s < NE && d < NE);
  g_np[s].id_ = s, g_np[d].id_ = d;
  StarZone__get_local_route(&g_sz, &g_np[s], &g_np[d], &g_res, nondet_bool() ? NULL : &g_lat);
  VF_CANARY_POINT;
}
#endif
#ifdef H_coords
unsigned long nondet_ulong(void);
void harness(void)
{
  vf_exc = 0;
  DragonflyZone__rankId_to_coords(&g_df, nondet_ulong());
  VF_CANARY_POINT;
}
#endif
