/* C35 — private parts of partially shared buffers are transferred exactly.
 * Units: shift_and_frame_private_blocks, merge_private_blocks (src/smpi/internals/smpi_shared.cpp);
 *        smpi_comm_copy_buffer_callback, check_blocks, memcpy_private, smpi_cleanup_comm_after_copy
 *        (src/smpi/internals/smpi_global.cpp).
 * Byte-level specification with a ghost byte offset gb:
 *   shift(vec, offset, size): for gb < size:  gb is in a result block  <=>  gb + offset is in a block of vec
 *   merge(src, dst):          gb is in a result block  <=>  gb is in a block of src and in a block of dst
 *   check_blocks(l, size):    aborts iff a block of l is reversed or ends after size
 *   memcpy_private(d, s, l):  d[gb] = s[gb] if gb is in a block of l, else d[gb] unchanged
 *   callback(comm, buff, size): for gb < size: the receive buffer's byte gb becomes the send buffer's byte gb iff
 *        byte gb + (offset of the send buffer in its allocation) is private on the sender side (or the send buffer is
 *        not shared) AND byte gb + (offset of the receive buffer) is private on the receiver side (or not shared);
 *        otherwise the receive buffer's byte gb is left alone.
 * The contracts are stated on the ARGUMENTS (any list object), so that the callback can be checked against the
 * contracts of shift / merge / check_blocks / memcpy_private, all with the same ghost byte gb.
 * Block lists hold at most CAP blocks (model bound), loops unwound accordingly.                                    */
#include "gen.h"
#ifndef CAP
#define CAP 3
#endif
#ifndef NB
#define NB 8 /* bytes of the message buffers of the copy harnesses (real memory; block arithmetic is not bounded by it) */
#endif
#define BIG (1UL << 40) /* offsets and sizes below 2^40 bytes: keeps gb + offset from wrapping in the SPEC */
typedef struct vf_pair_unsigned_long__unsigned_long blk_t;
typedef struct vf_seq_vf_pair_unsigned_long__unsigned_long seq_t;
typedef unsigned char byte_t;

blk_t g_v1[CAP], g_v2[CAP];
seq_t g_s1, g_s2;
size_t gb; /* ghost byte */

/* Predicates over block lists, as functions: each block is loaded ONCE into a local (an absent block reads as the empty
 * block [0,0)), so that the pointer checks of a contract clause do not multiply with the size of the formula. */
static inline blk_t blk_at(const blk_t* a, size_t len, size_t k)
{
  blk_t z = {0, 0};
  if (k < len)
    return a[k];
  return z;
}
#define IN_B(b, x) ((b).first <= (x) && (x) < (b).second)
/* byte x lies in one of the first 3 (resp. 6) blocks of the list */
static inline _Bool in_list3(const blk_t* a, size_t len, size_t x)
{
  blk_t b0 = blk_at(a, len, 0), b1 = blk_at(a, len, 1), b2 = blk_at(a, len, 2);
  return IN_B(b0, x) || IN_B(b1, x) || IN_B(b2, x);
}
static inline _Bool in_list6(const blk_t* a, size_t len, size_t x)
{
  blk_t b0 = blk_at(a, len, 0), b1 = blk_at(a, len, 1), b2 = blk_at(a, len, 2), b3 = blk_at(a, len, 3),
        b4 = blk_at(a, len, 4), b5 = blk_at(a, len, 5);
  return IN_B(b0, x) || IN_B(b1, x) || IN_B(b2, x) || IN_B(b3, x) || IN_B(b4, x) || IN_B(b5, x);
}
/* a block list as smpi_shared_malloc builds it: non-empty blocks, ordered, disjoint (bounds below BIG) */
#define WF_B(k, b, nxt) (!((k) < len) || ((b).first < (b).second && (b).second <= BIG && (!((k) + 1 < len) || (b).second <= (nxt).first)))
static inline _Bool wf_list3(const blk_t* a, size_t len)
{
  blk_t b0 = blk_at(a, len, 0), b1 = blk_at(a, len, 1), b2 = blk_at(a, len, 2);
  return WF_B(0, b0, b1) && WF_B(1, b1, b2) && WF_B(2, b2, b2);
}
static inline _Bool wf_list6(const blk_t* a, size_t len)
{
  blk_t b0 = blk_at(a, len, 0), b1 = blk_at(a, len, 1), b2 = blk_at(a, len, 2), b3 = blk_at(a, len, 3),
        b4 = blk_at(a, len, 4), b5 = blk_at(a, len, 5);
  return WF_B(0, b0, b1) && WF_B(1, b1, b2) && WF_B(2, b2, b3) && WF_B(3, b3, b4) && WF_B(4, b4, b5) && WF_B(5, b5, b5);
}
/* every block (of at most 6) has begin <= end <= size: what check_blocks asserts */
#define FRAMED_B(b) ((b).first <= (b).second && (b).second <= size)
static inline _Bool framed_list6(const blk_t* a, size_t len, size_t size)
{
  blk_t b0 = blk_at(a, len, 0), b1 = blk_at(a, len, 1), b2 = blk_at(a, len, 2), b3 = blk_at(a, len, 3),
        b4 = blk_at(a, len, 4), b5 = blk_at(a, len, 5);
  return FRAMED_B(b0) && FRAMED_B(b1) && FRAMED_B(b2) && FRAMED_B(b3) && FRAMED_B(b4) && FRAMED_B(b5);
}
/* every block of r (at most 6) lies inside one block of s (at most 3) */
#define SUB_B(r, s) ((s).first <= (r).first && (r).second <= (s).second)
#define SUB3(k, r) (!((k) < rlen) || SUB_B(r, s0) || SUB_B(r, s1) || SUB_B(r, s2))
static inline _Bool inside_list(const blk_t* r, size_t rlen, const blk_t* s, size_t slen)
{
  blk_t r0 = blk_at(r, rlen, 0), r1 = blk_at(r, rlen, 1), r2 = blk_at(r, rlen, 2), r3 = blk_at(r, rlen, 3),
        r4 = blk_at(r, rlen, 4), r5 = blk_at(r, rlen, 5);
  blk_t s0 = blk_at(s, slen, 0), s1 = blk_at(s, slen, 1), s2 = blk_at(s, slen, 2);
  /* an absent block of s is [0,0): it contains no (non-empty) block of r */
  return SUB3(0, r0) && SUB3(1, r1) && SUB3(2, r2) && SUB3(3, r3) && SUB3(4, r4) && SUB3(5, r5);
}
#define RV __CPROVER_return_value
/* an input list: the vector model with its elements at d[0..n), at most CAP of them */
#define SEQ_IN(s) ((s)->h == 0 && (s)->n <= CAP)
/* a result list: a fresh vector (elements d[0..n) in an allocation of VF_CAP slots) */
#define RET_OK (RV.h == 0 && RV.n <= 2 * CAP && RV.cap == VF_CAP && vf_exc == 0)
#define RET_FRESH __CPROVER_is_fresh(RV.d, sizeof(blk_t) * VF_CAP)

seq_t shift_and_frame_private_blocks(seq_t* vec, unsigned long offset, unsigned long buff_size)
    __CPROVER_requires(SEQ_IN(vec) && wf_list3(vec->d, vec->n) && offset <= BIG && buff_size <= BIG && vf_exc == 0)
    __CPROVER_assigns()
    __CPROVER_ensures(RET_FRESH)
    __CPROVER_ensures(RET_OK && RV.n <= vec->n)
    __CPROVER_ensures(!(gb < buff_size) || (in_list6(RV.d, RV.n, gb) == in_list3(vec->d, vec->n, gb + offset)))
    /*@ shift_keeps_exactly_the_private_bytes_of_the_message */
    __CPROVER_ensures(wf_list6(RV.d, RV.n)) /*@ shift_result_blocks_non_empty_ordered_disjoint */
    __CPROVER_ensures(framed_list6(RV.d, RV.n, buff_size)) /*@ shift_result_inside_the_message */;

seq_t merge_private_blocks(seq_t* src, seq_t* dst)
    __CPROVER_requires(SEQ_IN(src) && SEQ_IN(dst) && wf_list3(src->d, src->n) && wf_list3(dst->d, dst->n) && vf_exc == 0)
    __CPROVER_assigns()
    __CPROVER_ensures(RET_FRESH)
    __CPROVER_ensures(RET_OK)
    __CPROVER_ensures(in_list6(RV.d, RV.n, gb) == (in_list3(src->d, src->n, gb) && in_list3(dst->d, dst->n, gb)))
    /*@ merge_is_the_byte_wise_intersection */
    __CPROVER_ensures(wf_list6(RV.d, RV.n)) /*@ merge_result_blocks_non_empty_ordered_disjoint */
    __CPROVER_ensures(inside_list(RV.d, RV.n, src->d, src->n)) /*@ merge_result_blocks_inside_a_source_block */;

/* check_blocks: xbt_assert on every block (begin <= end <= size); a list of at most VF_CAP blocks */
#define SEQ_ANY(s) ((s)->h == 0 && (s)->n <= VF_CAP)
void check_blocks(seq_t* private_blocks, unsigned long buff_size)
    __CPROVER_requires(SEQ_ANY(private_blocks) && vf_exc == 0)
    __CPROVER_assigns(vf_exc)
    __CPROVER_ensures(vf_exc == 0 || vf_exc == VF_EXC_ABORT)
    __CPROVER_ensures((vf_exc == 0) == framed_list6(private_blocks->d, private_blocks->n, buff_size))
    /*@ check_blocks_aborts_iff_a_block_leaves_the_message */;

/* memcpy_private on real memory: both buffers hold g_sz bytes (ghost, the message size), every block inside */
size_t g_sz;
void memcpy_private(void* dest, void* src, seq_t* private_blocks)
    __CPROVER_requires(SEQ_ANY(private_blocks) && framed_list6(private_blocks->d, private_blocks->n, g_sz) && vf_exc == 0 &&
                       0 < g_sz && g_sz <= NB && gb < g_sz)
    __CPROVER_requires(__CPROVER_w_ok(dest, g_sz) && __CPROVER_r_ok(src, g_sz) && !__CPROVER_same_object(dest, src))
    __CPROVER_assigns(__CPROVER_object_upto(dest, g_sz))
    __CPROVER_ensures(vf_exc == 0)
    __CPROVER_ensures(!in_list6(private_blocks->d, private_blocks->n, gb) || ((byte_t*)dest)[gb] == __CPROVER_old(((byte_t*)src)[gb]))
    /*@ memcpy_private_copies_every_byte_of_a_block */
    __CPROVER_ensures(in_list6(private_blocks->d, private_blocks->n, gb) || ((byte_t*)dest)[gb] == __CPROVER_old(((byte_t*)dest)[gb]))
    /*@ memcpy_private_leaves_bytes_outside_the_blocks */;

/* ---------------- the copy callback --------------------------------------------------------------------------------- */
struct CommImpl g_comm;
struct ActorImpl g_src_actor, g_dst_actor;
struct Actor g_iface;
byte_t* g_buff; /* the send buffer handed to the callback (malloc'ed by the harness: a detached send frees it) */
byte_t g_dst[NB]; /* the receive buffer */
/* what smpi_is_shared answers for the two buffers (ghost description of the allocation metadata): shared or not, the
 * private blocks of the allocation (g_v1 / g_s1.n for the send buffer, g_v2 / g_s2.n for the receive buffer), and the
 * offset of the buffer inside its allocation */
_Bool g_shared1, g_shared2;
size_t g_off1, g_off2;

void smpi_cleanup_comm_after_copy(struct CommImpl* comm, void* buff)
    __CPROVER_requires(comm == &g_comm && vf_exc == 0 && (!g_comm.__b_ActivityImpl_T_CommImpl.__b_ActivityImpl.detached_ || __CPROVER_is_freeable(buff)))
    __CPROVER_assigns(VF_PT(g_comm.src_buff_)) /* pointer target: see HOWTO (dfcc pointer havoc) */
    __CPROVER_frees(buff)
    __CPROVER_ensures(vf_exc == 0)
    __CPROVER_ensures(g_comm.__b_ActivityImpl_T_CommImpl.__b_ActivityImpl.detached_
                          ? g_comm.src_buff_ == NULL
                          : g_comm.src_buff_ == __CPROVER_old(g_comm.src_buff_))
    /*@ cleanup_frees_the_duplicated_buffer_of_a_detached_send_only */;

/* ASSUMED (callees outside the property): privatisation switch, actor interface, allocation */
_Bool smpi_switch_data_segment(struct Actor* actor, void* addr)
    __CPROVER_requires(1) __CPROVER_assigns() __CPROVER_ensures(vf_exc == 0);
struct Actor* ActorImpl__get_iface(struct ActorImpl* self)
    __CPROVER_requires(self == &g_src_actor || self == &g_dst_actor) __CPROVER_assigns()
    __CPROVER_ensures(__CPROVER_return_value == &g_iface && vf_exc == 0);
void* xbt_malloc(size_t n)
    __CPROVER_requires(n <= NB) __CPROVER_assigns()
    __CPROVER_ensures(__CPROVER_is_fresh(__CPROVER_return_value, n) && vf_exc == 0);

#define SRC_PRIVATE (!g_shared1 || in_list3(g_v1, g_s1.n, gb + g_off1))
#define DST_PRIVATE (!g_shared2 || in_list3(g_v2, g_s2.n, gb + g_off2))
void smpi_comm_copy_buffer_callback(struct CommImpl* comm, void* buff, unsigned long buff_size)
    __CPROVER_requires(comm == &g_comm && buff == g_buff && g_comm.dst_buff_ == g_dst && vf_exc == 0)
    __CPROVER_requires(__CPROVER_is_freeable(buff) && __CPROVER_r_ok(buff, NB))
    /* CommImpl::copy_data calls the callback for non-empty messages only */
    __CPROVER_requires(0 < buff_size && buff_size <= NB && g_sz == buff_size && gb < buff_size)
    __CPROVER_requires(g_s1.n <= CAP && g_s2.n <= CAP && wf_list3(g_v1, g_s1.n) && wf_list3(g_v2, g_s2.n) && g_off1 <= BIG && g_off2 <= BIG)
    __CPROVER_assigns(vf_exc, g_comm.src_buff_, __CPROVER_object_whole(g_dst))
    __CPROVER_frees(buff)
    __CPROVER_ensures(vf_exc == 0) /*@ callback_does_not_abort_on_well_formed_metadata */
    __CPROVER_ensures(!(SRC_PRIVATE && DST_PRIVATE) || g_dst[gb] == __CPROVER_old(g_buff[gb]))
    /*@ every_byte_private_in_both_buffers_is_copied */
    __CPROVER_ensures((SRC_PRIVATE && DST_PRIVATE) || g_dst[gb] == __CPROVER_old(g_dst[gb]))
    /*@ bytes_of_a_shared_region_are_left_alone */;

/* STUB (assumed): smpi_is_shared answers from the ghost description: the metadata lookup itself is not verified.
 * Like the real function it clears the list first, and hands out a COPY of the allocation's block list. */
int smpi_is_shared(void* ptr, seq_t* private_blocks, size_t* offset)
{
  private_blocks->n = 0;
  if (ptr == (void*)g_buff) {
    if (!g_shared1)
      return 0;
    for (size_t k = 0; k < CAP; k++)
      private_blocks->d[k] = g_v1[k];
    private_blocks->n = g_s1.n;
    *offset           = g_off1;
    return 1;
  }
  if (!g_shared2)
    return 0;
  for (size_t k = 0; k < CAP; k++)
    private_blocks->d[k] = g_v2[k];
  private_blocks->n = g_s2.n;
  *offset           = g_off2;
  return 1;
}

#include "gen.c"

size_t nondet_size(void);
_Bool nondet_bool(void);
static void setup(void)
{
  g_s1.d = g_v1;
  g_s2.d = g_v2;
  g_s1.h = g_s2.h = 0;
  g_s1.cap = g_s2.cap = CAP;
  g_s1.n = nondet_size();
  g_s2.n = nondet_size();
  __CPROVER_assume(g_s1.n <= CAP && g_s2.n <= CAP);
  vf_exc = 0;
}
#ifdef H_shift
void harness(void)
{
  setup();
  shift_and_frame_private_blocks(&g_s1, nondet_size(), nondet_size());
  VF_CANARY_POINT;
}
#endif
#ifdef H_merge
void harness(void)
{
  setup();
  merge_private_blocks(&g_s1, &g_s2);
  VF_CANARY_POINT;
}
#endif
#ifdef H_check_blocks
blk_t g_v6[VF_CAP];
seq_t g_s6;
void harness(void)
{
  vf_exc   = 0;
  g_s6.d   = g_v6;
  g_s6.h   = 0;
  g_s6.cap = VF_CAP;
  check_blocks(&g_s6, nondet_size());
  VF_CANARY_POINT;
}
#endif
#ifdef H_memcpy_private
blk_t g_v6[VF_CAP];
seq_t g_s6;
byte_t g_src[NB];
void harness(void)
{
  vf_exc   = 0;
  g_s6.d   = g_v6;
  g_s6.h   = 0;
  g_s6.cap = VF_CAP;
  memcpy_private(g_dst, g_src, &g_s6);
  VF_CANARY_POINT;
}
#endif
#ifdef H_cleanup
void harness(void)
{
  vf_exc = 0;
  g_buff = malloc(NB);
  __CPROVER_assume(g_buff != NULL);
  smpi_cleanup_comm_after_copy(&g_comm, g_buff);
  VF_CANARY_POINT;
}
#endif
#ifdef H_copy
/* the four cases (send buffer shared or not) x (receive buffer shared or not) are all covered: g_shared1 / g_shared2
 * are unconstrained; so are the block lists (at most CAP blocks each), the two offsets and the message size (1..NB) */
void harness(void)
{
  setup();
  g_buff = malloc(NB);
  __CPROVER_assume(g_buff != NULL);
  g_comm.dst_buff_  = g_dst;
  g_comm.src_buff_  = g_buff;
  g_comm.src_actor_ = &g_src_actor;
  g_comm.dst_actor_ = &g_dst_actor;
  smpi_comm_copy_buffer_callback(&g_comm, g_buff, nondet_size());
  VF_CANARY_POINT;
}
#endif
