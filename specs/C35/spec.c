/* C35 — private parts of partially shared buffers are transferred exactly.
 * Units (src/smpi/internals/smpi_shared.cpp): shift_and_frame_private_blocks, merge_private_blocks.
 * Byte-level specification with a ghost byte offset gb:
 *   shift(vec, offset, size): for gb < size:  gb is in a result block  <=>  gb + offset is in a block of vec
 *   merge(src, dst):          gb is in a result block  <=>  gb is in a block of src and in a block of dst
 * and the result blocks are non-empty, ordered, disjoint (and inside [0,size] for shift).
 * Block lists hold at most CAP blocks (model bound), loops unwound accordingly.                                    */
#include "gen.h"
#ifndef CAP
#define CAP 3
#endif
#define BIG (1UL << 40) /* offsets and sizes below 2^40 bytes: keeps gb + offset from wrapping in the SPEC */
typedef struct vf_pair_unsigned_long__unsigned_long blk_t;
typedef struct vf_seq_vf_pair_unsigned_long__unsigned_long seq_t;

blk_t g_v1[CAP], g_v2[CAP];
seq_t g_s1, g_s2;
size_t gb; /* ghost byte */

#define ANY3(P) (P(0) || P(1) || P(2))
#define ALL3(P) (P(0) && P(1) && P(2))
#define ALL6(P) (P(0) && P(1) && P(2) && P(3) && P(4) && P(5))
#define IN_BLK(a, n, k, x) ((k) < (n) && (a)[k].first <= (x) && (x) < (a)[k].second)
#define IN1(k) IN_BLK(g_v1, g_s1.n, k, XX)
#define IN2(k) IN_BLK(g_v2, g_s2.n, k, XX)
#define INR(k) IN_BLK(__CPROVER_return_value.d, __CPROVER_return_value.n, k, XX)
#define ANY6(P) (P(0) || P(1) || P(2) || P(3) || P(4) || P(5))
/* a block list as smpi_shared_malloc builds it: non-empty blocks, ordered, disjoint */
#define WF_BLK(a, n, k) (!((k) < (n)) || ((a)[k].first < (a)[k].second && (a)[k].second <= BIG &&                       \
                                          (!((k) + 1 < (n)) || (a)[k].second <= (a)[(k) + 1].first)))
#define WF1(k) WF_BLK(g_v1, g_s1.n, k)
#define WF2(k) WF_BLK(g_v2, g_s2.n, k)
#define WFR(k) WF_BLK(__CPROVER_return_value.d, __CPROVER_return_value.n, k)
#define SEQ_IS(s, arr) ((s).d == (arr) && (s).h == 0 && (s).n <= CAP && (s).cap == CAP)
#define RET_OK (__CPROVER_return_value.h == 0 && __CPROVER_return_value.n <= 2 * CAP && vf_exc == 0)

seq_t shift_and_frame_private_blocks(seq_t* vec, unsigned long offset, unsigned long buff_size)
    __CPROVER_requires(vec == &g_s1 && SEQ_IS(g_s1, g_v1) && ALL3(WF1) && offset <= BIG && buff_size <= BIG && vf_exc == 0)
    __CPROVER_assigns()
    __CPROVER_ensures(RET_OK)
#define XX gb
    __CPROVER_ensures(!(gb < buff_size) || (ANY6(INR) ==
#undef XX
#define XX (gb + offset)
                                             ANY3(IN1))) /*@ shift_keeps_exactly_the_private_bytes_of_the_message */
#undef XX
    __CPROVER_ensures(ALL6(WFR)) /*@ shift_result_blocks_non_empty_ordered_disjoint */
#define IN_FRAME(k) (!((k) < __CPROVER_return_value.n) || __CPROVER_return_value.d[k].second <= buff_size)
    __CPROVER_ensures(ALL6(IN_FRAME)) /*@ shift_result_inside_the_message */;

seq_t merge_private_blocks(seq_t* src, seq_t* dst)
    __CPROVER_requires(src == &g_s1 && dst == &g_s2 && SEQ_IS(g_s1, g_v1) && SEQ_IS(g_s2, g_v2) && ALL3(WF1) && ALL3(WF2) &&
                       vf_exc == 0)
    __CPROVER_assigns()
    __CPROVER_ensures(RET_OK)
#define XX gb
    __CPROVER_ensures(ANY6(INR) == (ANY3(IN1) && ANY3(IN2))) /*@ merge_is_the_byte_wise_intersection */
#undef XX
    __CPROVER_ensures(ALL6(WFR)) /*@ merge_result_blocks_non_empty_ordered_disjoint */;

#include "gen.c"

size_t nondet_size(void);
static void setup(void)
{
  g_s1.d = g_v1;
  g_s2.d = g_v2;
  g_s1.h = g_s2.h = 0;
  g_s1.cap = g_s2.cap = CAP;
  g_s1.n = nondet_size();
  g_s2.n = nondet_size();
  __CPROVER_assume(g_s1.n <= CAP && g_s2.n <= CAP);
  vf_exc = 0;
}
#ifdef H_shift
void harness(void)
{
  setup();
  shift_and_frame_private_blocks(&g_s1, nondet_size(), nondet_size());
  VF_CANARY_POINT;
}
#endif
#ifdef H_merge
void harness(void)
{
  setup();
  merge_private_blocks(&g_s1, &g_s2);
  VF_CANARY_POINT;
}
#endif
