// Native replay for C35: the REAL shift_and_frame_private_blocks / merge_private_blocks of the working tree (TU compiled
// into this driver) on every layout of <= 2 blocks with bounds in [0,12], every offset and size in [0,12]; checks the
// byte-level postconditions of specs/C35/spec.c. Exit 1 when one fails (first failing input printed).
#include "src/smpi/internals/smpi_shared.cpp"
// configuration getters of libsimgrid that are not exported (hidden visibility); never called by the two units
SharedMallocType smpi_cfg_shared_malloc() { return SharedMallocType::NONE; }
double smpi_cfg_auto_shared_malloc_thresh() { return 0; }
bool smpi_cfg_trace_call_use_absolute_path() { return false; }
int smpi_temp_shm_get() { return -1; }
void* smpi_temp_shm_mmap(int, size_t) { return nullptr; }
#include <cstdio>
#include <cstring>
using blocks_t = std::vector<std::pair<size_t, size_t>>;
static bool in(const blocks_t& v, size_t x)
{
  for (auto const& [b, e] : v)
    if (b <= x && x < e)
      return true;
  return false;
}
int main(int argc, char** argv)
{
  const char* label = argc > 1 ? argv[1] : "";
  const size_t M = 12;
  long failures = 0, calls = 0;
  std::vector<blocks_t> layouts;
  layouts.push_back({});
  for (size_t a = 0; a <= M; a++)
    for (size_t b = a + 1; b <= M; b++) {
      layouts.push_back({{a, b}});
      for (size_t c = b; c <= M; c++)
        for (size_t d = c + 1; d <= M; d++)
          layouts.push_back({{a, b}, {c, d}});
    }
  if (label[0] == 0 || strstr(label, "shift") != nullptr || strstr(label, "safety") != nullptr)
    for (auto const& v : layouts)
      for (size_t off = 0; off <= M; off++)
        for (size_t size = 0; size <= M; size++) {
          blocks_t r = shift_and_frame_private_blocks(v, off, size);
          calls++;
          for (size_t gb = 0; gb < size; gb++)
            if (in(r, gb) != in(v, gb + off)) {
              if (failures++ == 0) {
                printf("REPRODUCED shift_keeps_exactly_the_private_bytes_of_the_message: vec=[");
                for (auto const& [b, e] : v)
                  printf("[%zu,%zu)", b, e);
                printf("] offset=%zu buff_size=%zu -> result=[", off, size);
                for (auto const& [b, e] : r)
                  printf("[%zu,%zu)", b, e);
                printf("]; message byte %zu (buffer byte %zu) is private but %s in the result\n", gb, gb + off,
                       in(r, gb) ? "present" : "missing");
              }
              break;
            }
        }
  if (label[0] == 0 || strstr(label, "merge") != nullptr)
    for (auto const& s : layouts)
      for (auto const& d : layouts) {
        blocks_t r = merge_private_blocks(s, d);
        calls++;
        for (size_t gb = 0; gb <= M; gb++)
          if (in(r, gb) != (in(s, gb) && in(d, gb))) {
            if (failures++ == 0)
              printf("REPRODUCED merge_is_the_byte_wise_intersection at byte %zu\n", gb);
            break;
          }
      }
  printf("%ld calls, %ld failing inputs\n", calls, failures);
  return failures ? 1 : 0;
}
