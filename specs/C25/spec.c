/* C25 — "a Full zone returns exactly the declared route" (the Floyd / Dijkstra parts of the statement: see check.json).
 * Units: FullZone::get_local_route (FullZone.cpp), add_link_latency(vector overload) (NetworkModel.cpp).
 * State: an N x N routing table whose cells are NULL (no route declared) or a declared Route (0..RCAP links, two
 * gateways); every table content, every (src, dst), every previous content of the result route. */
#include "gen.h"

#define N 3     /* table size (number of netpoints of the zone); the unit has no loop over it */
#define RCAP 3  /* links per declared route */
#define NLK 8   /* link objects */
#define LBUF 16 /* buffer of the result vector */

struct StandardLinkImpl g_lk[NLK];
double g_llat[NLK]; /* latency of each link (StandardLinkImpl::get_latency), finite */
struct NetPoint g_np[N + 2];
struct Route g_decl[N][N];                     /* the declared routes */
struct StandardLinkImpl* g_dl[N][N][RCAP + 1]; /* their link vectors */
struct Route* g_cell[N][N];                    /* the table: NULL or &g_decl[i][j] */
struct vf_seq_RouteP g_row[N];
struct FullZone g_fz;
struct Route g_res;
struct StandardLinkImpl* g_lbuf[LBUF];
double g_lat;
size_t gk; /* ghost index: any position */
int g_fold_calls;                          /* ghost: calls of add_link_latency seen by FullZone::get_local_route */
struct vf_seq_StandardLinkImplP* g_fold_arg; /* ghost: the vector whose latencies were added by the last call */

#define FIN(x) ((x) - (x) == 0.0)
#define LAT_OF(l) g_llat[(l) - &g_lk[0]]
#define FOLD1(x, s) ((x) + LAT_OF((s)->d[0]))
#define FOLD2(x, s) (FOLD1(x, s) + LAT_OF((s)->d[1]))
#define FOLD3(x, s) (FOLD2(x, s) + LAT_OF((s)->d[2]))
#define FOLDN(x, s) ((s)->n == 0 ? (x) : (s)->n == 1 ? FOLD1(x, s) : (s)->n == 2 ? FOLD2(x, s) : FOLD3(x, s))

/* assumed: static add_latency() (std::accumulate with a generic lambda, outside the cxx2c subset) adds the latencies of
   the links one after the other, in order, when latency != NULL */
void add_latency(struct vf_seq_StandardLinkImplP* links, double* latency)
    __CPROVER_requires(links->h == 0 && links->n <= RCAP && latency == &g_lat) __CPROVER_assigns(g_lat)
    __CPROVER_ensures(g_lat == FOLDN(__CPROVER_old(g_lat), links));

/* add_link_latency(result, links, latency): links appended at the tail of result in the same order */
void add_link_latency_vec(struct vf_seq_StandardLinkImplP* result, struct vf_seq_StandardLinkImplP* links,
                          double* latency)
    __CPROVER_requires(result == &g_res.link_list_ && result->d == g_lbuf && result->h == 0 && result->cap == LBUF &&
                       result->n <= 4 && __CPROVER_r_ok(links, sizeof(*links)) && links->h == 0 && links->n <= RCAP &&
                       __CPROVER_r_ok(links->d, (RCAP + 1) * sizeof(struct StandardLinkImpl*)) && vf_exc == 0 &&
                       latency == &g_lat && gk < LBUF && FIN(g_lat))
    __CPROVER_assigns(g_res.link_list_.n, __CPROVER_object_whole(g_lbuf), g_lat, g_fold_calls, g_fold_arg)
    __CPROVER_ensures(g_res.link_list_.n == __CPROVER_old(g_res.link_list_.n) + links->n) /*@ vec_length_grows_by_segment */
    __CPROVER_ensures(!(gk < links->n) || g_lbuf[__CPROVER_old(g_res.link_list_.n) + gk] == links->d[gk])
    /*@ vec_appended_in_order */
    __CPROVER_ensures(!(gk < __CPROVER_old(g_res.link_list_.n)) || g_lbuf[gk] == __CPROVER_old(g_lbuf[gk]))
    /*@ vec_prefix_kept */
#ifdef H_full /* seen from FullZone::get_local_route: WHICH vector is folded into the accumulator is recorded in ghosts
                 (no floating point in that harness); that a call folds it is the clause below, proved in harness add_vec */
    __CPROVER_ensures(g_fold_calls == __CPROVER_old(g_fold_calls) + 1 && g_fold_arg == links)
#else
    __CPROVER_ensures(g_lat == FOLDN(__CPROVER_old(g_lat), links)) /*@ vec_latency_is_fold_of_links */
#endif
    __CPROVER_ensures(vf_exc == 0);

/* the declared route of (src, dst) */
#define DECL (g_cell[src->id_][dst->id_])
#define WF_TABLE                                                                                                       \
  (g_fz.routing_table_.d == g_row && g_fz.routing_table_.h == 0 && g_fz.routing_table_.n == N && WF_ROW(0) &&          \
   WF_ROW(1) && WF_ROW(2))
#define WF_ROW(i)                                                                                                      \
  (g_row[i].d == g_cell[i] && g_row[i].h == 0 && g_row[i].n == N && WF_CELL(i, 0) && WF_CELL(i, 1) && WF_CELL(i, 2))
#define WF_CELL(i, j)                                                                                                  \
  (g_cell[i][j] == NULL ||                                                                                             \
   (g_cell[i][j] == &g_decl[i][j] && g_decl[i][j].link_list_.d == g_dl[i][j] && g_decl[i][j].link_list_.h == 0 &&      \
    g_decl[i][j].link_list_.n <= RCAP))
void FullZone__get_local_route(struct FullZone* self, struct NetPoint* src, struct NetPoint* dst, struct Route* res,
                               double* lat)
    __CPROVER_requires(self == &g_fz && WF_TABLE && __CPROVER_r_ok(src, sizeof(*src)) &&
                       __CPROVER_r_ok(dst, sizeof(*dst)) && src->id_ < N && dst->id_ < N && res == &g_res &&
                       g_res.link_list_.d == g_lbuf && g_res.link_list_.h == 0 && g_res.link_list_.cap == LBUF &&
                       g_res.link_list_.n <= 4 && lat == &g_lat && FIN(g_lat) && vf_exc == 0 && gk < LBUF)
    __CPROVER_assigns(g_res.gw_src_, g_res.gw_dst_, g_res.link_list_.n, __CPROVER_object_whole(g_lbuf), g_lat,
                      g_fold_calls, g_fold_arg)
    __CPROVER_ensures(vf_exc == 0)
    __CPROVER_ensures(DECL != NULL || (g_res.link_list_.n == __CPROVER_old(g_res.link_list_.n) &&
                                       g_res.gw_src_ == __CPROVER_old(g_res.gw_src_) &&
                                       g_res.gw_dst_ == __CPROVER_old(g_res.gw_dst_)))
    /*@ full_no_declared_route_nothing_returned */
    __CPROVER_ensures(DECL == NULL || g_res.link_list_.n == __CPROVER_old(g_res.link_list_.n) + DECL->link_list_.n)
    /*@ full_returns_as_many_links_as_declared */
    __CPROVER_ensures(DECL == NULL || !(gk < DECL->link_list_.n) ||
                      g_lbuf[__CPROVER_old(g_res.link_list_.n) + gk] == DECL->link_list_.d[gk])
    /*@ full_returns_exactly_the_declared_links_in_order */
    __CPROVER_ensures(!(gk < __CPROVER_old(g_res.link_list_.n)) || g_lbuf[gk] == __CPROVER_old(g_lbuf[gk]))
    /*@ full_keeps_what_was_already_in_the_route */
    __CPROVER_ensures(DECL == NULL || (g_res.gw_src_ == DECL->gw_src_ && g_res.gw_dst_ == DECL->gw_dst_))
    /*@ full_returns_the_declared_gateways */
    __CPROVER_ensures(DECL == NULL || (g_fold_calls == 1 && g_fold_arg == &DECL->link_list_))
    /*@ full_latency_gets_the_declared_links_once */
    __CPROVER_ensures(DECL != NULL || g_fold_calls == 0) /*@ full_no_route_no_latency */;

#include "gen.c"

size_t nondet_size(void);
_Bool nondet_bool(void);
static struct StandardLinkImpl* pick_link(void)
{
  size_t i = nondet_size();
  __CPROVER_assume(i < NLK);
  return &g_lk[i];
}
static void setup(void)
{
  vf_exc = 0;
  g_fold_calls = 0;
  for (int k = 0; k < NLK; k++)
    __CPROVER_assume(FIN(g_llat[k]));
  g_fz.routing_table_.d = g_row, g_fz.routing_table_.h = 0, g_fz.routing_table_.n = N, g_fz.routing_table_.cap = N;
  for (int i = 0; i < N; i++) {
    g_row[i].d = g_cell[i], g_row[i].h = 0, g_row[i].n = N, g_row[i].cap = N;
    for (int j = 0; j < N; j++) {
      g_cell[i][j]                 = nondet_bool() ? NULL : &g_decl[i][j];
      g_decl[i][j].link_list_.d   = g_dl[i][j];
      g_decl[i][j].link_list_.h   = 0;
      g_decl[i][j].link_list_.cap = RCAP + 1;
      __CPROVER_assume(g_decl[i][j].link_list_.n <= RCAP);
      for (int k = 0; k <= RCAP; k++)
        g_dl[i][j][k] = pick_link();
      g_decl[i][j].gw_src_ = nondet_bool() ? NULL : &g_np[N];
      g_decl[i][j].gw_dst_ = nondet_bool() ? NULL : &g_np[N + 1];
    }
  }
  g_res.link_list_.d = g_lbuf, g_res.link_list_.h = 0, g_res.link_list_.cap = LBUF;
  __CPROVER_assume(g_res.link_list_.n <= 4);
  for (int k = 0; k < 4; k++)
    g_lbuf[k] = pick_link();
  g_res.gw_src_ = NULL, g_res.gw_dst_ = NULL;
  __CPROVER_assume(FIN(g_lat) && gk < LBUF);
}
#ifdef H_full
void harness(void)
{
  setup();
  size_t s = nondet_size(), d = nondet_size();
  __CPROVER_assume(s < N && d < N);
  FullZone__get_local_route(&g_fz, &g_np[s], &g_np[d], &g_res, &g_lat);
  VF_CANARY_POINT;
}
#endif
#ifdef H_add_vec
void harness(void)
{
  setup();
  size_t s = nondet_size(), d = nondet_size();
  __CPROVER_assume(s < N && d < N);
  add_link_latency_vec(&g_res.link_list_, &g_decl[s][d].link_list_, &g_lat);
  VF_CANARY_POINT;
}
#endif
