/* C50 — xbt_dynar behaves as a growable array (src/xbt/dynar.cpp, include/xbt/dynar.h, include/xbt/sysdep.h).
 *
 * Abstract view of a dynar d: (elmsize, used, the used*elmsize bytes of the sequence). Contracts are stated on the
 * real functions (extracted by cxx2c into gen.c). "For every element / every byte" is expressed with GHOST INDICES:
 *   GE  an arbitrary element index, GB an arbitrary byte inside an element, GPOS == GE*elmsize+GB,
 *   g_old == the byte (GE,GB) of the sequence BEFORE the call (when GE < used).
 * A postcondition such as "old element GE now sits at index GE+1 with the same byte GB" therefore holds for every
 * element and every byte. The same ghosts are used by callers and callees, so the proofs are modular.
 *
 * Capacity of the explored state space (model bound, stated in check.json): size <= SZMAX on entry,
 * 1 <= elmsize <= ELMMAX. The state is built by the harness (heap objects), contracts pin dynar == g_dp.         */
#include "gen.h"

#ifndef SZB
#define SZB 3
#endif
#ifndef ELB
#define ELB 3
#endif
#define SZMAX ((1UL << SZB) - 1UL) /* size <= SZMAX on entry */
#define SZOUT (2UL * SZMAX + 2UL)  /* largest size after one growth step: 2*(size+1) */
#define ELMMAX (1UL << ELB)        /* 1 <= elmsize <= ELMMAX */
#define BYTES_MAX (SZOUT * ELMMAX)

struct xbt_dynar_s* g_dp; /* the dynar under test */
struct xbt_dynar_s* g_var; /* a variable holding the dynar (for xbt_dynar_free*(xbt_dynar_t*)) */
char g_buf[ELMMAX];       /* destination of get_cpy / remove_at / pop / shift / cursor_get */
char g_src[ELMMAX];       /* source of insert_at / push / unshift, needle of member */
unsigned long GE, GB, GPOS;
char g_old;
unsigned long GMK; /* ghost: offset of the watched byte inside the range handed to memmove / memset */
_Bool G_MV;         /* ghost: the watched byte lies inside that range */
unsigned long GCP;  /* ghost: position (in the data block) of the watched byte at the time of a memcpy into the block */
_Bool G_CPK;        /* ghost: the watched byte exists at that time (== G_IN) */
_Bool G_IN; /* ghost: the watched position lies inside the sequence (GE < used) on entry */
/* ghost observers of the callbacks (free_f, op, compar_fn are function pointers supplied by the user) */
unsigned long g_calls; /* number of callback calls */
void* g_last_arg;      /* argument of the last callback call */
_Bool g_in_order;      /* every callback call k (0-based) received the address of element k */
unsigned long g_qsort_calls;
void *g_qsort_base;
unsigned long g_qsort_n, g_qsort_sz;
vf_fnptr g_qsort_cmp;

#define NUM_OK(szmax)                                                                                                  \
  (g_dp->elmsize >= 1 && g_dp->elmsize <= ELMMAX && g_dp->used <= g_dp->size && g_dp->size <= (szmax))
#define DATA_IN                                                                                                        \
  (g_dp->size == 0 ? g_dp->data == NULL                                                                                \
                   : (__CPROVER_rw_ok(g_dp->data, g_dp->size * g_dp->elmsize) && __CPROVER_is_freeable(g_dp->data)))
#define FREE_F_OK (g_dp->free_f == NULL || g_dp->free_f == (vf_fnptr)ghost_cb)
/* representation invariant on entry (wf_dynar) */
#define WF_IN (__CPROVER_rw_ok(g_dp, sizeof(*g_dp)) && NUM_OK(SZMAX) && DATA_IN && FREE_F_OK)
#define IS_DYN(d) ((d) == g_dp)
#define BYTE(e, b) (((char*)g_dp->data)[(e) * g_dp->elmsize + (b)])
#define WATCH                                                                                                          \
  (GE <= SZOUT && GB < g_dp->elmsize && GPOS == GE * g_dp->elmsize + GB && G_IN == (GE < g_dp->used) &&                \
   (!(GE < g_dp->used) || ((char*)g_dp->data)[GPOS] == g_old))
#define OLD(e) __CPROVER_old(e)
/* the data block after the call: reallocated (fresh, old one freed) iff the dynar had to grow, else untouched */
#define BLOCK_POST(grew)                                                                                               \
  ((grew) ? __CPROVER_is_fresh(g_dp->data, g_dp->size * g_dp->elmsize)                                                \
          : (g_dp->data == OLD(g_dp->data) && g_dp->size == OLD(g_dp->size)))
/* CBMC 6.11: __CPROVER_was_freed cannot be assumed when a contract REPLACES a call (internal precondition fails even
 * for `frees(p) ensures(was_freed(p))`), so "the old block is released" is only stated where the function itself is
 * checked (the replaced contract is then weaker than the proved one, which is sound). */
#define OLD_BLOCK_RELEASED(grew) (!(grew) || OLD(g_dp->data) == NULL || __CPROVER_was_freed(OLD(g_dp->data)))
#define SAME_BLOCK (g_dp->data == OLD(g_dp->data) && g_dp->size == OLD(g_dp->size) && g_dp->elmsize == OLD(g_dp->elmsize))
#define NO_EXC (vf_exc == 0)
#define ABORTS_IFF(c) ((vf_exc == VF_EXC_ABORT) == (c) && (vf_exc == 0 || vf_exc == VF_EXC_ABORT))
#define UNCHANGED (g_dp->used == OLD(g_dp->used) && SAME_BLOCK)
#define DATA_TARGET ; g_dp->data != NULL : __CPROVER_object_whole(g_dp->data)

/* ---------------- element comparison (member): explicit conjunction over the byte / element capacity --------------- */
#define EQB(e, b) (!((b) < g_dp->elmsize) || BYTE(e, b) == g_src[b])
#if ELB == 2
#define EQ_ELEM(e) (EQB(e, 0) && EQB(e, 1) && EQB(e, 2) && EQB(e, 3))
#elif ELB == 3
#define EQ_ELEM(e) (EQB(e, 0) && EQB(e, 1) && EQB(e, 2) && EQB(e, 3) && EQB(e, 4) && EQB(e, 5) && EQB(e, 6) && EQB(e, 7))
#elif ELB == 4
#define EQ_ELEM(e)                                                                                                     \
  (EQB(e, 0) && EQB(e, 1) && EQB(e, 2) && EQB(e, 3) && EQB(e, 4) && EQB(e, 5) && EQB(e, 6) && EQB(e, 7) && EQB(e, 8) && \
   EQB(e, 9) && EQB(e, 10) && EQB(e, 11) && EQB(e, 12) && EQB(e, 13) && EQB(e, 14) && EQB(e, 15))
#else
#error "ELB must be 2, 3 or 4"
#endif
#define IS_MATCH(e) ((e) < g_dp->used && EQ_ELEM(e))
#if SZB == 2
#define ANYE(P) (P(0) || P(1) || P(2))
#elif SZB == 3
#define ANYE(P) (P(0) || P(1) || P(2) || P(3) || P(4) || P(5) || P(6))
#elif SZB == 4
#define ANYE(P)                                                                                                        \
  (P(0) || P(1) || P(2) || P(3) || P(4) || P(5) || P(6) || P(7) || P(8) || P(9) || P(10) || P(11) || P(12) || P(13) ||  \
   P(14))
#else
#error "SZB must be 2, 3 or 4"
#endif

#ifdef IDX_ANY
#define IDX_FITS_INT(idx)
#else
/* see check.json: indices above INT_MAX are truncated by the (int) cast of the bounds check (known finding) */
#define IDX_FITS_INT(idx) &&(idx) <= 2147483647UL
#endif

/* ---------------- user callbacks: assumed to leave the dynar alone (listed in check.json) ------------------------ */
void ghost_cb(void* p)
    __CPROVER_requires(1)
    __CPROVER_assigns(g_calls, g_last_arg, g_in_order)
    __CPROVER_ensures(g_calls == OLD(g_calls) + 1 && g_last_arg == p &&
                      g_in_order == (OLD(g_in_order) && p == (char*)g_dp->data + OLD(g_calls) * g_dp->elmsize));

/* libc qsort: assumed (sorted permutation of the n elements of sz bytes at base); recorded by ghosts */
void qsort(void* base, size_t n, size_t sz, vf_fnptr cmp)
    __CPROVER_requires(__CPROVER_rw_ok(base, n * sz))
    __CPROVER_assigns(__CPROVER_object_whole(base), g_qsort_calls, g_qsort_base, g_qsort_n, g_qsort_sz, g_qsort_cmp)
    __CPROVER_ensures(g_qsort_calls == OLD(g_qsort_calls) + 1 && g_qsort_base == base && g_qsort_n == n &&
                      g_qsort_sz == sz && g_qsort_cmp == cmp);

/* ---------------- libc memory functions: ASSUMED contracts (CBMC's built-in models of memmove/memcpy with a symbolic
 * length do not terminate in reasonable time). Frame: only [dst, dst+n) is written. Content: stated for the ghost
 * positions (GB for memcpy, GMK for memmove/memset), i.e. for every byte. --------------------------------------- */
/* "every byte of the destination object outside [dst, dst+n) is unchanged" is stated for the ghost byte: the caller
 * names a position (GPOS for memmove/memset, GCP for memcpy) of the data block that holds g_old and lies outside
 * the written range; the contract gives it back unchanged. The frame is the whole destination object because
 * havocking a slice of symbolic length is as expensive in CBMC as the built-in memmove. */
#define OBJ_BASE(p) ((char*)g_dp->data) /* callers pass pointers into the data block (IN_DATA) */
#define OUTSIDE(pos, p, n) ((pos) < __CPROVER_POINTER_OFFSET(p) || (pos) >= __CPROVER_POINTER_OFFSET(p) + (n))
#define IN_DATA(p) (g_dp->data != NULL && __CPROVER_same_object(p, g_dp->data))
void* memcpy(void* dst, const void* src, size_t n)
    __CPROVER_requires(n <= ELMMAX && __CPROVER_rw_ok(dst, n) && __CPROVER_r_ok(src, n) && !__CPROVER_same_object(dst, src))
    __CPROVER_requires(!(G_CPK && IN_DATA(dst)) || (__CPROVER_r_ok(OBJ_BASE(dst), GCP + 1) && OBJ_BASE(dst)[GCP] == g_old && OUTSIDE(GCP, dst, n)))
    __CPROVER_assigns(__CPROVER_object_whole(dst))
    __CPROVER_ensures(__CPROVER_return_value == dst && (!(GB < n) || ((char*)dst)[GB] == ((const char*)src)[GB]))
    __CPROVER_ensures(!(G_CPK && IN_DATA(dst)) || OBJ_BASE(dst)[GCP] == g_old);

void* memmove(void* dst, const void* src, size_t n)
    __CPROVER_requires(n <= BYTES_MAX && __CPROVER_rw_ok(dst, n) && __CPROVER_r_ok(src, n) && IN_DATA(dst))
    __CPROVER_requires(!G_MV || (GMK < n && ((const char*)src)[GMK] == g_old))
    __CPROVER_requires(!(G_IN && !G_MV) || (__CPROVER_r_ok(OBJ_BASE(dst), GPOS + 1) && OBJ_BASE(dst)[GPOS] == g_old && OUTSIDE(GPOS, dst, n)))
    __CPROVER_assigns(__CPROVER_object_whole(dst))
    __CPROVER_ensures(__CPROVER_return_value == dst && (!G_MV || ((char*)dst)[GMK] == g_old))
    __CPROVER_ensures(!(G_IN && !G_MV) || OBJ_BASE(dst)[GPOS] == g_old);

void* memset(void* p, int c, size_t n)
    __CPROVER_requires(n <= BYTES_MAX && __CPROVER_rw_ok(p, n) && -128 <= c && c <= 127 && IN_DATA(p))
    __CPROVER_requires(!G_IN || (__CPROVER_r_ok(OBJ_BASE(p), GPOS + 1) && OBJ_BASE(p)[GPOS] == g_old && OUTSIDE(GPOS, p, n)))
    __CPROVER_assigns(__CPROVER_object_whole(p))
    __CPROVER_ensures(__CPROVER_return_value == p && (!(GMK < n) || ((char*)p)[GMK] == (char)c))
    __CPROVER_ensures(!G_IN || OBJ_BASE(p)[GPOS] == g_old);

#define MEMEQB(a, b, n, k) (!((k) < (n)) || ((const char*)(a))[k] == ((const char*)(b))[k])
#if ELB == 2
#define MEMEQ(a, b, n) (MEMEQB(a, b, n, 0) && MEMEQB(a, b, n, 1) && MEMEQB(a, b, n, 2) && MEMEQB(a, b, n, 3))
#elif ELB == 3
#define MEMEQ(a, b, n)                                                                                                 \
  (MEMEQB(a, b, n, 0) && MEMEQB(a, b, n, 1) && MEMEQB(a, b, n, 2) && MEMEQB(a, b, n, 3) && MEMEQB(a, b, n, 4) &&       \
   MEMEQB(a, b, n, 5) && MEMEQB(a, b, n, 6) && MEMEQB(a, b, n, 7))
#else
#define MEMEQ(a, b, n)                                                                                                 \
  (MEMEQB(a, b, n, 0) && MEMEQB(a, b, n, 1) && MEMEQB(a, b, n, 2) && MEMEQB(a, b, n, 3) && MEMEQB(a, b, n, 4) &&       \
   MEMEQB(a, b, n, 5) && MEMEQB(a, b, n, 6) && MEMEQB(a, b, n, 7) && MEMEQB(a, b, n, 8) && MEMEQB(a, b, n, 9) &&       \
   MEMEQB(a, b, n, 10) && MEMEQB(a, b, n, 11) && MEMEQB(a, b, n, 12) && MEMEQB(a, b, n, 13) && MEMEQB(a, b, n, 14) &&  \
   MEMEQB(a, b, n, 15))
#endif
int memcmp(const void* a, const void* b, size_t n)
    __CPROVER_requires(n <= ELMMAX && __CPROVER_r_ok(a, n) && __CPROVER_r_ok(b, n))
    __CPROVER_assigns()
    __CPROVER_ensures((__CPROVER_return_value == 0) == MEMEQ(a, b, n));

/* ---------------- allocation wrappers of xbt/sysdep.h ------------------------------------------------------------- */
void* xbt_malloc(unsigned long n)
    __CPROVER_requires(NO_EXC && n >= 1 && n <= BYTES_MAX)
    __CPROVER_assigns()
    __CPROVER_ensures(NO_EXC && __CPROVER_is_fresh(__CPROVER_return_value, n)) /*@ malloc_returns_fresh_block */;

void* xbt_malloc0(unsigned long n)
    __CPROVER_requires(NO_EXC && n >= 1 && n <= 64)
    __CPROVER_assigns()
    __CPROVER_ensures(NO_EXC && __CPROVER_is_fresh(__CPROVER_return_value, n))
    __CPROVER_ensures(!(GPOS < n) || ((char*)__CPROVER_return_value)[GPOS] == 0) /*@ malloc0_zero_filled */;

void* xbt_realloc(void* p, unsigned long s)
    __CPROVER_requires(NO_EXC && s <= BYTES_MAX && (p == NULL || __CPROVER_is_freeable(p)))
    __CPROVER_requires(p == NULL || !G_IN || (__CPROVER_r_ok(p, GPOS + 1) && ((char*)p)[GPOS] == g_old))
    __CPROVER_assigns()
    __CPROVER_frees(p)
    __CPROVER_ensures(NO_EXC)
    __CPROVER_ensures(s == 0 ? __CPROVER_return_value == NULL : __CPROVER_is_fresh(__CPROVER_return_value, s))
    /*@ realloc_returns_fresh_block_of_s_bytes */
#ifdef H_xbt_realloc
    __CPROVER_ensures(p == NULL || __CPROVER_was_freed(p)) /*@ realloc_releases_old_block */
#endif
    __CPROVER_ensures(p == NULL || !(G_IN && GPOS < s) ||
                      ((char*)__CPROVER_return_value)[GPOS] == g_old) /*@ realloc_keeps_common_prefix */;

/* ---------------- argument checks ----------------------------------------------------------------------------------- */
void _sanity_check_dynar(struct xbt_dynar_s* dynar)
    __CPROVER_requires(NO_EXC)
    __CPROVER_assigns(vf_exc)
    __CPROVER_ensures(ABORTS_IFF(dynar == NULL)) /*@ sanity_rejects_null_dynar */;

void _sanity_check_idx(int idx)
    __CPROVER_requires(NO_EXC)
    __CPROVER_assigns(vf_exc)
    __CPROVER_ensures(ABORTS_IFF(idx < 0)) /*@ sanity_rejects_negative_index */;

void _check_inbound_idx(struct xbt_dynar_s* dynar, int idx)
    __CPROVER_requires(NO_EXC && IS_DYN(dynar) && __CPROVER_rw_ok(g_dp, sizeof(*g_dp)) && g_dp->used <= SZOUT)
    __CPROVER_assigns(vf_exc)
    __CPROVER_ensures(ABORTS_IFF(idx < 0 || (unsigned long)idx >= g_dp->used)) /*@ inbound_rejects_exactly_out_of_range */;

void _check_populated_dynar(struct xbt_dynar_s* dynar)
    __CPROVER_requires(NO_EXC && IS_DYN(dynar) && __CPROVER_rw_ok(g_dp, sizeof(*g_dp)))
    __CPROVER_assigns(vf_exc)
    __CPROVER_ensures(ABORTS_IFF(g_dp->used == 0)) /*@ populated_rejects_exactly_empty */;

/* ---------------- storage helpers ------------------------------------------------------------------------------------ */
void _xbt_dynar_resize(struct xbt_dynar_s* dynar, unsigned long new_size)
    __CPROVER_requires(NO_EXC && IS_DYN(dynar) && WF_IN && WATCH && new_size >= g_dp->size && new_size <= SZOUT)
    __CPROVER_assigns(g_dp->size, g_dp->data)
    __CPROVER_frees(new_size != g_dp->size : g_dp->data)
#ifdef H_resize /* checked with the body of xbt_realloc inlined (see check.json) */
    __CPROVER_ensures(OLD_BLOCK_RELEASED(new_size != OLD(g_dp->size))) /*@ resize_releases_old_block */
#endif
    __CPROVER_ensures(NO_EXC && g_dp->size == new_size)                                  /*@ resize_sets_size */
    __CPROVER_ensures(BLOCK_POST(new_size != OLD(g_dp->size)))                            /*@ resize_block_valid_for_new_size */
    __CPROVER_ensures(!(GE < g_dp->used) || ((char*)g_dp->data)[GPOS] == g_old)           /*@ resize_keeps_elements */;

void _xbt_dynar_expand(struct xbt_dynar_s* dynar, unsigned long nb)
    __CPROVER_requires(NO_EXC && IS_DYN(dynar) && WF_IN && WATCH && nb <= SZMAX + 1)
    __CPROVER_assigns(g_dp->size, g_dp->data)
    __CPROVER_frees(nb > g_dp->size : g_dp->data)
    __CPROVER_ensures(NO_EXC && g_dp->size >= nb && g_dp->size >= OLD(g_dp->size) && g_dp->size <= SZOUT)
    /*@ expand_makes_room_for_nb */
    __CPROVER_ensures(g_dp->size == (nb > OLD(g_dp->size) ? (nb > 2 * (OLD(g_dp->size) + 1) ? nb : 2 * (OLD(g_dp->size) + 1))
                                                          : OLD(g_dp->size))) /*@ expand_doubles */
    __CPROVER_ensures(BLOCK_POST(nb > OLD(g_dp->size)))                        /*@ expand_block_valid_for_new_size */
    __CPROVER_ensures(!(GE < g_dp->used) || ((char*)g_dp->data)[GPOS] == g_old) /*@ expand_keeps_elements */;

void* _xbt_dynar_elm(struct xbt_dynar_s* dynar, unsigned long idx)
    __CPROVER_requires(IS_DYN(dynar) && __CPROVER_rw_ok(g_dp, sizeof(*g_dp)) && NUM_OK(SZOUT) && g_dp->data != NULL &&
                       __CPROVER_rw_ok(g_dp->data, g_dp->size * g_dp->elmsize) && idx <= g_dp->size)
    __CPROVER_assigns()
    __CPROVER_ensures(__CPROVER_return_value == (char*)g_dp->data + idx * g_dp->elmsize) /*@ elm_is_address_of_element */;

void _xbt_dynar_get_elm(void* dst, struct xbt_dynar_s* dynar, unsigned long idx)
    __CPROVER_requires(dst == g_buf && IS_DYN(dynar) && __CPROVER_rw_ok(g_dp, sizeof(*g_dp)) && NUM_OK(SZOUT) &&
                       g_dp->data != NULL && __CPROVER_rw_ok(g_dp->data, g_dp->size * g_dp->elmsize) &&
                       idx < g_dp->used && GB < g_dp->elmsize)
    __CPROVER_assigns(__CPROVER_object_whole(g_buf))
    __CPROVER_ensures(g_buf[GB] == BYTE(idx, GB)) /*@ get_elm_copies_element */;

/* ---------------- public API ------------------------------------------------------------------------------------------ */
struct xbt_dynar_s* xbt_dynar_new(unsigned long elmsize, vf_fnptr free_f)
    __CPROVER_requires(NO_EXC)
    __CPROVER_assigns()
    __CPROVER_ensures(NO_EXC && __CPROVER_is_fresh(__CPROVER_return_value, sizeof(struct xbt_dynar_s)))
    __CPROVER_ensures(__CPROVER_return_value->used == 0 && __CPROVER_return_value->size == 0 &&
                      __CPROVER_return_value->data == NULL && __CPROVER_return_value->elmsize == elmsize &&
                      __CPROVER_return_value->free_f == free_f) /*@ new_is_empty_array_of_elmsize */;

unsigned long xbt_dynar_length(struct xbt_dynar_s* dynar)
    __CPROVER_requires((dynar == NULL || IS_DYN(dynar)) && __CPROVER_rw_ok(g_dp, sizeof(*g_dp)))
    __CPROVER_assigns()
    __CPROVER_ensures(__CPROVER_return_value == (dynar == NULL ? 0 : g_dp->used)) /*@ length_is_used */;

int xbt_dynar_is_empty(struct xbt_dynar_s* dynar)
    __CPROVER_requires((dynar == NULL || IS_DYN(dynar)) && __CPROVER_rw_ok(g_dp, sizeof(*g_dp)) && NO_EXC)
    __CPROVER_assigns()
    __CPROVER_ensures(NO_EXC && __CPROVER_return_value == ((dynar == NULL || g_dp->used == 0) ? 1 : 0)) /*@ is_empty_iff_no_element */;

void xbt_dynar_get_cpy(struct xbt_dynar_s* dynar, unsigned long idx, void* dst)
    __CPROVER_requires(NO_EXC && (dynar == NULL || IS_DYN(dynar)) && WF_IN && WATCH && dst == g_buf IDX_FITS_INT(idx))
    __CPROVER_assigns(vf_exc, __CPROVER_object_whole(g_buf))
    __CPROVER_ensures(ABORTS_IFF(dynar == NULL || idx >= g_dp->used))          /*@ get_cpy_aborts_iff_out_of_range */
    __CPROVER_ensures(vf_exc != 0 || GE != idx || g_buf[GB] == g_old)           /*@ get_cpy_returns_element_idx */
    __CPROVER_ensures(UNCHANGED && (!(GE < g_dp->used) || BYTE(GE, GB) == g_old)) /*@ get_cpy_does_not_modify */;

void* xbt_dynar_get_ptr(struct xbt_dynar_s* dynar, unsigned long idx)
    __CPROVER_requires(NO_EXC && (dynar == NULL || IS_DYN(dynar)) && WF_IN && WATCH IDX_FITS_INT(idx))
    __CPROVER_assigns(vf_exc)
    __CPROVER_ensures(ABORTS_IFF(dynar == NULL || idx >= g_dp->used)) /*@ get_ptr_aborts_iff_out_of_range */
    __CPROVER_ensures(vf_exc != 0 || __CPROVER_return_value == (char*)g_dp->data + idx * g_dp->elmsize)
    /*@ get_ptr_is_address_of_element */
    __CPROVER_ensures(UNCHANGED);

void* xbt_dynar_set_at_ptr(struct xbt_dynar_s* dynar, unsigned long idx)
    __CPROVER_requires(NO_EXC && (dynar == NULL || IS_DYN(dynar)) && WF_IN && WATCH && idx <= SZMAX && (!(g_dp->used <= GE && GE < idx) || GMK == GPOS - g_dp->used * g_dp->elmsize))
    __CPROVER_assigns(vf_exc, g_dp->size, g_dp->data, g_dp->used DATA_TARGET)
    __CPROVER_frees(idx + 1 > g_dp->size : g_dp->data)
    __CPROVER_ensures(ABORTS_IFF(dynar == NULL)) /*@ set_at_ptr_never_rejects_an_index */
    __CPROVER_ensures(vf_exc != 0 || g_dp->used == (idx >= OLD(g_dp->used) ? idx + 1 : OLD(g_dp->used)))
    /*@ set_at_ptr_extends_to_idx_plus_one */
    __CPROVER_ensures(vf_exc != 0 || (g_dp->used <= g_dp->size && g_dp->size <= SZOUT &&
                                      BLOCK_POST(idx + 1 > OLD(g_dp->size)))) /*@ set_at_ptr_keeps_wf */
    __CPROVER_ensures(vf_exc != 0 || __CPROVER_return_value == (char*)g_dp->data + idx * g_dp->elmsize)
    /*@ set_at_ptr_is_address_of_element */
    __CPROVER_ensures(vf_exc != 0 || !(GE < OLD(g_dp->used)) || BYTE(GE, GB) == g_old) /*@ set_at_ptr_keeps_elements */
    __CPROVER_ensures(vf_exc != 0 || !(OLD(g_dp->used) <= GE && GE < idx) || BYTE(GE, GB) == 0)
    /*@ set_at_ptr_zero_fills_gap */
    __CPROVER_ensures(vf_exc == 0 || UNCHANGED);

/* NOTE (precondition taken from the call sites, not enforced by the code): 0 <= idx implies idx <= used.
 * The code accepts idx > used, leaves a hole of uninitialised elements and may write past the block. */
#define INSERT_IDX_OK(idx) ((idx) < 0 || (unsigned long)(idx) <= g_dp->used)
/* link of the memmove ghosts with the watched byte: inserting at idx moves the bytes of elements idx.. */
#define INSERT_MV(idx)                                                                                                 \
  (G_MV == (G_IN && (idx) >= 0 && GE >= (unsigned long)(idx)) && (!G_MV || GMK == GPOS - (unsigned long)(idx)*g_dp->elmsize))
/* removing idx moves the bytes of elements idx+1.. */
#define REMOVE_MV(idx)                                                                                                 \
  (G_MV == (G_IN && (idx) >= 0 && GE > (unsigned long)(idx)) &&                                                        \
   (!G_MV || GMK == GPOS - ((unsigned long)(idx) + 1) * g_dp->elmsize))
void* xbt_dynar_insert_at_ptr(struct xbt_dynar_s* dynar, int idx)
    __CPROVER_requires(NO_EXC && (dynar == NULL || IS_DYN(dynar)) && WF_IN && WATCH && INSERT_IDX_OK(idx) && INSERT_MV(idx))
    __CPROVER_assigns(vf_exc, g_dp->size, g_dp->data, g_dp->used DATA_TARGET)
    __CPROVER_frees(g_dp->used + 1 > g_dp->size : g_dp->data)
    __CPROVER_ensures(ABORTS_IFF(dynar == NULL || idx < 0))                    /*@ insert_aborts_iff_negative_index */
    __CPROVER_ensures(vf_exc != 0 || g_dp->used == OLD(g_dp->used) + 1)         /*@ insert_grows_by_one */
    __CPROVER_ensures(vf_exc != 0 || (g_dp->used <= g_dp->size && g_dp->size <= SZOUT &&
                                      BLOCK_POST(OLD(g_dp->used) + 1 > OLD(g_dp->size)))) /*@ insert_keeps_wf */
    __CPROVER_ensures(vf_exc != 0 || __CPROVER_return_value == (char*)g_dp->data + (unsigned long)idx * g_dp->elmsize)
    /*@ insert_returns_slot_idx */
    __CPROVER_ensures(vf_exc != 0 || !(GE < OLD(g_dp->used)) ||
                      BYTE(GE < (unsigned long)idx ? GE : GE + 1, GB) == g_old) /*@ insert_shifts_tail_right_keeps_head */
    __CPROVER_ensures(vf_exc == 0 || UNCHANGED)                                 /*@ insert_rejected_changes_nothing */;

void xbt_dynar_insert_at(struct xbt_dynar_s* dynar, int idx, void* src)
    __CPROVER_requires(NO_EXC && IS_DYN(dynar) && WF_IN && WATCH && INSERT_IDX_OK(idx) && INSERT_MV(idx) && src == g_src &&
                       G_CPK == G_IN && GCP == ((idx) >= 0 && GE >= (unsigned long)(idx) ? GPOS + g_dp->elmsize : GPOS))
    __CPROVER_assigns(vf_exc, g_dp->size, g_dp->data, g_dp->used DATA_TARGET)
    __CPROVER_frees(g_dp->used + 1 > g_dp->size : g_dp->data)
    __CPROVER_ensures(ABORTS_IFF(idx < 0))                              /*@ insert_at_aborts_iff_negative_index */
    __CPROVER_ensures(vf_exc != 0 || g_dp->used == OLD(g_dp->used) + 1) /*@ insert_at_grows_by_one */
    __CPROVER_ensures(vf_exc != 0 || (g_dp->used <= g_dp->size && g_dp->size <= SZOUT &&
                                      BLOCK_POST(OLD(g_dp->used) + 1 > OLD(g_dp->size)))) /*@ insert_at_keeps_wf */
    __CPROVER_ensures(vf_exc != 0 || BYTE((unsigned long)idx, GB) == g_src[GB]) /*@ insert_at_stores_src_at_idx */
    __CPROVER_ensures(vf_exc != 0 || !(GE < OLD(g_dp->used)) ||
                      BYTE(GE < (unsigned long)idx ? GE : GE + 1, GB) == g_old) /*@ insert_at_shifts_tail_right_keeps_head */
    __CPROVER_ensures(vf_exc == 0 || UNCHANGED);

#define CB_RESET (g_calls == 0 && g_in_order)
void xbt_dynar_remove_at(struct xbt_dynar_s* dynar, int idx, void* object)
    __CPROVER_requires(NO_EXC && (dynar == NULL || IS_DYN(dynar)) && WF_IN && WATCH && (object == NULL || object == g_buf) &&
                       CB_RESET && REMOVE_MV(idx))
    __CPROVER_assigns(vf_exc, g_dp->used, __CPROVER_object_whole(g_buf), g_calls, g_last_arg, g_in_order DATA_TARGET)
    __CPROVER_ensures(ABORTS_IFF(dynar == NULL || idx < 0 || (unsigned long)idx >= OLD(g_dp->used)))
    /*@ remove_aborts_iff_out_of_range */
    __CPROVER_ensures(vf_exc != 0 || (g_dp->used == OLD(g_dp->used) - 1 && SAME_BLOCK)) /*@ remove_shrinks_by_one */
    __CPROVER_ensures(vf_exc != 0 || !(GE < OLD(g_dp->used) && GE != (unsigned long)idx) ||
                      BYTE(GE < (unsigned long)idx ? GE : GE - 1, GB) == g_old) /*@ remove_shifts_tail_left_keeps_head */
    __CPROVER_ensures(vf_exc != 0 || object == NULL || GE != (unsigned long)idx || g_buf[GB] == g_old)
    /*@ remove_returns_removed_element */
    __CPROVER_ensures(vf_exc != 0 || g_calls == ((object == NULL && g_dp->free_f != NULL) ? 1 : 0))
    /*@ remove_frees_element_iff_not_returned */
    __CPROVER_ensures(vf_exc != 0 || g_calls == 0 || g_last_arg == (char*)g_dp->data + (unsigned long)idx * g_dp->elmsize)
    /*@ remove_frees_the_removed_element */
    __CPROVER_ensures(vf_exc == 0 || (UNCHANGED && g_calls == 0)) /*@ remove_rejected_changes_nothing */;

int xbt_dynar_member(struct xbt_dynar_s* dynar, void* elem)
    __CPROVER_requires(NO_EXC && IS_DYN(dynar) && WF_IN && WATCH && elem == g_src)
    __CPROVER_assigns()
    __CPROVER_ensures(__CPROVER_return_value == 0 || __CPROVER_return_value == 1)
    __CPROVER_ensures(__CPROVER_return_value != 0 || !(GE < g_dp->used) || !EQ_ELEM(GE)) /*@ member_0_means_no_element_equal */
    __CPROVER_ensures(__CPROVER_return_value != 1 || ANYE(IS_MATCH))                      /*@ member_1_means_some_element_equal */;

void* xbt_dynar_push_ptr(struct xbt_dynar_s* dynar)
    __CPROVER_requires(NO_EXC && IS_DYN(dynar) && WF_IN && WATCH && !G_MV)
    __CPROVER_assigns(vf_exc, g_dp->size, g_dp->data, g_dp->used DATA_TARGET)
    __CPROVER_frees(g_dp->used + 1 > g_dp->size : g_dp->data)
    __CPROVER_ensures(NO_EXC && g_dp->used == OLD(g_dp->used) + 1) /*@ push_ptr_grows_by_one */
    __CPROVER_ensures(g_dp->used <= g_dp->size && g_dp->size <= SZOUT && BLOCK_POST(OLD(g_dp->used) + 1 > OLD(g_dp->size)))
    __CPROVER_ensures(__CPROVER_return_value == (char*)g_dp->data + OLD(g_dp->used) * g_dp->elmsize)
    /*@ push_ptr_returns_new_last_slot */
    __CPROVER_ensures(!(GE < OLD(g_dp->used)) || BYTE(GE, GB) == g_old) /*@ push_ptr_keeps_elements */;

void xbt_dynar_push(struct xbt_dynar_s* dynar, void* src)
    __CPROVER_requires(NO_EXC && IS_DYN(dynar) && WF_IN && WATCH && src == g_src && !G_MV && G_CPK == G_IN && GCP == GPOS)
    __CPROVER_assigns(vf_exc, g_dp->size, g_dp->data, g_dp->used DATA_TARGET)
    __CPROVER_frees(g_dp->used + 1 > g_dp->size : g_dp->data)
    __CPROVER_ensures(NO_EXC && g_dp->used == OLD(g_dp->used) + 1) /*@ push_grows_by_one */
    __CPROVER_ensures(g_dp->used <= g_dp->size && g_dp->size <= SZOUT && BLOCK_POST(OLD(g_dp->used) + 1 > OLD(g_dp->size)))
    __CPROVER_ensures(BYTE(OLD(g_dp->used), GB) == g_src[GB])             /*@ push_appends_src */
    __CPROVER_ensures(!(GE < OLD(g_dp->used)) || BYTE(GE, GB) == g_old)  /*@ push_keeps_elements */;

void* xbt_dynar_pop_ptr(struct xbt_dynar_s* dynar)
    __CPROVER_requires(NO_EXC && IS_DYN(dynar) && WF_IN && WATCH)
    __CPROVER_assigns(vf_exc, g_dp->used)
    __CPROVER_ensures(ABORTS_IFF(OLD(g_dp->used) == 0))                        /*@ pop_ptr_aborts_iff_empty */
    __CPROVER_ensures(vf_exc != 0 || (g_dp->used == OLD(g_dp->used) - 1 && SAME_BLOCK)) /*@ pop_ptr_shrinks_by_one */
    __CPROVER_ensures(vf_exc != 0 || __CPROVER_return_value == (char*)g_dp->data + g_dp->used * g_dp->elmsize)
    /*@ pop_ptr_returns_old_last_slot */
    __CPROVER_ensures(!(GE < OLD(g_dp->used)) || BYTE(GE, GB) == g_old) /*@ pop_ptr_keeps_bytes */
    __CPROVER_ensures(vf_exc == 0 || UNCHANGED);

void xbt_dynar_pop(struct xbt_dynar_s* dynar, void* dst)
    __CPROVER_requires(NO_EXC && IS_DYN(dynar) && WF_IN && WATCH && (dst == NULL || dst == g_buf) && CB_RESET && !G_MV)
    __CPROVER_assigns(vf_exc, g_dp->used, __CPROVER_object_whole(g_buf), g_calls, g_last_arg, g_in_order DATA_TARGET)
    __CPROVER_ensures(ABORTS_IFF(OLD(g_dp->used) == 0))                                  /*@ pop_aborts_iff_empty */
    __CPROVER_ensures(vf_exc != 0 || (g_dp->used == OLD(g_dp->used) - 1 && SAME_BLOCK)) /*@ pop_shrinks_by_one */
    __CPROVER_ensures(vf_exc != 0 || !(GE < g_dp->used) || BYTE(GE, GB) == g_old)        /*@ pop_keeps_other_elements */
    __CPROVER_ensures(vf_exc != 0 || dst == NULL || GE != g_dp->used || g_buf[GB] == g_old) /*@ pop_returns_last_element */
    __CPROVER_ensures(vf_exc == 0 || UNCHANGED);

void xbt_dynar_unshift(struct xbt_dynar_s* dynar, void* src)
    __CPROVER_requires(NO_EXC && IS_DYN(dynar) && WF_IN && WATCH && src == g_src && G_MV == G_IN && (!G_MV || GMK == GPOS) && G_CPK == G_IN &&
                       GCP == GPOS + g_dp->elmsize)
    __CPROVER_assigns(vf_exc, g_dp->size, g_dp->data, g_dp->used DATA_TARGET)
    __CPROVER_frees(g_dp->used + 1 > g_dp->size : g_dp->data)
    __CPROVER_ensures(NO_EXC && g_dp->used == OLD(g_dp->used) + 1) /*@ unshift_grows_by_one */
    __CPROVER_ensures(g_dp->used <= g_dp->size && g_dp->size <= SZOUT && BLOCK_POST(OLD(g_dp->used) + 1 > OLD(g_dp->size)))
    __CPROVER_ensures(BYTE(0, GB) == g_src[GB])                            /*@ unshift_stores_src_first */
    __CPROVER_ensures(!(GE < OLD(g_dp->used)) || BYTE(GE + 1, GB) == g_old) /*@ unshift_shifts_everything_right */;

void xbt_dynar_shift(struct xbt_dynar_s* dynar, void* dst)
    __CPROVER_requires(NO_EXC && IS_DYN(dynar) && WF_IN && WATCH && (dst == NULL || dst == g_buf) && CB_RESET && G_MV == (G_IN && GE > 0) && (!G_MV || GMK == GPOS - g_dp->elmsize))
    __CPROVER_assigns(vf_exc, g_dp->used, __CPROVER_object_whole(g_buf), g_calls, g_last_arg, g_in_order DATA_TARGET)
    __CPROVER_ensures(ABORTS_IFF(OLD(g_dp->used) == 0))                                  /*@ shift_aborts_iff_empty */
    __CPROVER_ensures(vf_exc != 0 || (g_dp->used == OLD(g_dp->used) - 1 && SAME_BLOCK)) /*@ shift_shrinks_by_one */
    __CPROVER_ensures(vf_exc != 0 || !(GE >= 1 && GE < OLD(g_dp->used)) || BYTE(GE - 1, GB) == g_old)
    /*@ shift_shifts_everything_left */
    __CPROVER_ensures(vf_exc != 0 || dst == NULL || GE != 0 || g_buf[GB] == g_old) /*@ shift_returns_first_element */
    __CPROVER_ensures(vf_exc == 0 || UNCHANGED);

void xbt_dynar_map(struct xbt_dynar_s* dynar, vf_fnptr op)
    __CPROVER_requires(NO_EXC && IS_DYN(dynar) && WF_IN && WATCH && op == (vf_fnptr)ghost_cb && CB_RESET)
    __CPROVER_assigns(vf_exc, g_calls, g_last_arg, g_in_order)
    __CPROVER_ensures(NO_EXC && g_calls == g_dp->used) /*@ map_calls_op_once_per_element */
    __CPROVER_ensures(g_in_order)                      /*@ map_visits_elements_in_index_order */
    __CPROVER_ensures(UNCHANGED);

void xbt_dynar_reset(struct xbt_dynar_s* dynar)
    __CPROVER_requires(NO_EXC && (dynar == NULL || IS_DYN(dynar)) && WF_IN && WATCH && CB_RESET)
    __CPROVER_assigns(vf_exc, g_dp->used, g_calls, g_last_arg, g_in_order)
    __CPROVER_ensures(ABORTS_IFF(dynar == NULL))
    __CPROVER_ensures(vf_exc != 0 || (g_dp->used == 0 && SAME_BLOCK)) /*@ reset_empties_keeps_storage */
    __CPROVER_ensures(vf_exc != 0 || (g_calls == (g_dp->free_f != NULL ? OLD(g_dp->used) : 0) && g_in_order))
    /*@ reset_frees_every_element_once */;

void xbt_dynar_sort(struct xbt_dynar_s* dynar, vf_fnptr compar_fn)
    __CPROVER_requires(NO_EXC && IS_DYN(dynar) && WF_IN && g_qsort_calls == 0)
    __CPROVER_assigns(g_qsort_calls, g_qsort_base, g_qsort_n, g_qsort_sz, g_qsort_cmp DATA_TARGET)
    __CPROVER_ensures(NO_EXC && UNCHANGED)
    __CPROVER_ensures(g_qsort_calls == (g_dp->data != NULL ? 1 : 0)) /*@ sort_delegates_to_qsort_once */
    __CPROVER_ensures(g_qsort_calls == 0 || (g_qsort_base == g_dp->data && g_qsort_n == g_dp->used &&
                                             g_qsort_sz == g_dp->elmsize && g_qsort_cmp == compar_fn))
    /*@ sort_sorts_exactly_the_used_elements */
    __CPROVER_ensures(g_dp->data != NULL || g_dp->used == 0) /*@ sort_skipped_only_when_empty */;

void xbt_dynar_free_container(struct xbt_dynar_s** dynar)
    __CPROVER_requires(NO_EXC && (dynar == NULL || dynar == &g_var) && (g_var == NULL || g_var == g_dp) && WF_IN &&
                       __CPROVER_is_freeable(g_dp))
    __CPROVER_assigns(g_var)
    __CPROVER_frees(g_dp, g_dp->data)
    __CPROVER_ensures(NO_EXC)
    __CPROVER_ensures(dynar == NULL || g_var == NULL) /*@ free_container_nulls_the_variable */
#ifdef H_free_container
    __CPROVER_ensures(dynar == NULL || OLD(g_var) == NULL || (__CPROVER_was_freed(OLD(g_dp)) &&
                      (OLD(g_dp->data) == NULL || __CPROVER_was_freed(OLD(g_dp->data))))) /*@ free_container_releases_both_blocks */
#endif
    ;

void xbt_dynar_free(struct xbt_dynar_s** dynar)
    __CPROVER_requires(NO_EXC && (dynar == NULL || dynar == &g_var) && (g_var == NULL || g_var == g_dp) && WF_IN && WATCH &&
                       __CPROVER_is_freeable(g_dp) && CB_RESET)
    __CPROVER_assigns(vf_exc, g_var, g_dp->used, g_calls, g_last_arg, g_in_order)
    __CPROVER_frees(g_dp, g_dp->data)
    __CPROVER_ensures(NO_EXC)
    __CPROVER_ensures(dynar == NULL || g_var == NULL) /*@ free_nulls_the_variable */
    __CPROVER_ensures(dynar == NULL || OLD(g_var) == NULL ||
                      (g_calls == (OLD(g_dp->free_f) != NULL ? OLD(g_dp->used) : 0) && g_in_order))
    /*@ free_frees_every_element_once */
#ifdef H_free /* checked with the body of xbt_dynar_free_container inlined (see check.json) */
    __CPROVER_ensures(dynar == NULL || OLD(g_var) == NULL || (__CPROVER_was_freed(OLD(g_dp)) &&
                      (OLD(g_dp->data) == NULL || __CPROVER_was_freed(OLD(g_dp->data))))) /*@ free_releases_both_blocks */
#endif
    ;

/* iteration step of xbt_dynar_foreach */
int _xbt_dynar_cursor_get(struct xbt_dynar_s* dynar, unsigned int idx, void* dst)
    __CPROVER_requires(NO_EXC && (dynar == NULL || IS_DYN(dynar)) && WF_IN && WATCH && dst == g_buf)
    __CPROVER_assigns(__CPROVER_object_whole(g_buf))
    __CPROVER_ensures(__CPROVER_return_value == ((dynar != NULL && idx < g_dp->used) ? 1 : 0)) /*@ cursor_stops_exactly_at_used */
    __CPROVER_ensures(__CPROVER_return_value == 0 || GE != idx || g_buf[GB] == g_old)          /*@ cursor_yields_element_idx */
    __CPROVER_ensures(NO_EXC && UNCHANGED);

/* loops */
#define VF_LOOP_xbt_dynar_member_0                                                                                     \
  __CPROVER_assigns(it) __CPROVER_loop_invariant(it <= g_dp->used && (!(GE < it) || !EQ_ELEM(GE)))                    \
      __CPROVER_decreases(g_dp->used - it)
#define VF_LOOP_xbt_dynar_map_0                                                                                        \
  __CPROVER_assigns(i, g_calls, g_last_arg, g_in_order)                                                                \
      __CPROVER_loop_invariant(i <= used && g_calls == i && g_in_order) __CPROVER_decreases(used - i)

#include "gen.c"

/* ---------------- harnesses ------------------------------------------------------------------------------------------- */
unsigned long nondet_ul(void);
int nondet_int(void);
unsigned int nondet_uint(void);
_Bool nondet_bool(void);

static void setup(void)
{
  g_dp          = malloc(sizeof(*g_dp));
  g_dp->elmsize = (nondet_ul() & (ELMMAX - 1UL)) + 1UL;
  g_dp->size    = nondet_ul() & SZMAX;
  g_dp->used    = nondet_ul() & SZMAX;
  __CPROVER_assume(g_dp->used <= g_dp->size);
  g_dp->data   = g_dp->size == 0 ? NULL : malloc(g_dp->size * g_dp->elmsize);
  g_dp->free_f = nondet_bool() ? NULL : (vf_fnptr)ghost_cb;
  g_var        = nondet_bool() ? NULL : g_dp;
  GE           = nondet_ul() & (4UL * SZMAX + 3UL);
  GB           = nondet_ul() & (ELMMAX - 1UL);
  __CPROVER_assume(GE <= SZOUT && GB < g_dp->elmsize);
  GPOS = GE * g_dp->elmsize + GB;
  GMK  = nondet_ul() & (4UL * BYTES_MAX - 1UL);
  G_MV = nondet_bool();
  GCP  = nondet_ul() & (4UL * BYTES_MAX - 1UL);
  G_CPK = nondet_bool();
  G_IN = GE < g_dp->used;
  if (G_IN)
    g_old = ((char*)g_dp->data)[GPOS];
  vf_exc        = 0;
  g_calls       = 0;
  g_in_order    = 1;
  g_qsort_calls = 0;
}
static struct xbt_dynar_s* dyn_or_null(void)
{
  return nondet_bool() ? NULL : g_dp;
}
static void* buf_or_null(void)
{
  return nondet_bool() ? NULL : (void*)g_buf;
}

#define HARNESS(name, call)                                                                                            \
  void harness(void)                                                                                                   \
  {                                                                                                                    \
    setup();                                                                                                           \
    call;                                                                                                              \
    VF_CANARY_POINT;                                                                                                   \
  }

#ifdef H_xbt_malloc
void harness(void)
{
  vf_exc = 0;
  xbt_malloc(nondet_ul() & 255UL);
  VF_CANARY_POINT;
}
#endif
#ifdef H_xbt_malloc0
void harness(void)
{
  vf_exc = 0;
  GPOS   = nondet_ul() & 127UL;
  xbt_malloc0(nondet_ul() & 127UL);
  VF_CANARY_POINT;
}
#endif
#ifdef H_xbt_realloc
void harness(void)
{
  vf_exc           = 0;
  unsigned long n0 = nondet_ul() & 255UL, s = nondet_ul() & 255UL;
  GPOS             = nondet_ul() & 255UL;
  char* p          = nondet_bool() ? NULL : malloc(n0);
  G_IN = nondet_bool();
  __CPROVER_assume(!G_IN || (p != NULL && GPOS < n0));
  if (G_IN)
    g_old = p[GPOS];
  xbt_realloc(p, s);
  VF_CANARY_POINT;
}
#endif
#ifdef H_sanity_check_dynar
HARNESS(x, _sanity_check_dynar(dyn_or_null()))
#endif
#ifdef H_sanity_check_idx
HARNESS(x, _sanity_check_idx(nondet_int()))
#endif
#ifdef H_check_inbound_idx
HARNESS(x, _check_inbound_idx(g_dp, nondet_int()))
#endif
#ifdef H_check_populated_dynar
HARNESS(x, _check_populated_dynar(g_dp))
#endif
#ifdef H_resize /* checked with the body of xbt_realloc inlined (see check.json) */
HARNESS(x, _xbt_dynar_resize(g_dp, nondet_ul() & (4UL * SZMAX + 3UL)))
#endif
#ifdef H_expand
HARNESS(x, _xbt_dynar_expand(g_dp, nondet_ul() & (2UL * SZMAX + 1UL)))
#endif
#ifdef H_elm
HARNESS(x, _xbt_dynar_elm(g_dp, nondet_ul() & (4UL * SZMAX + 3UL)))
#endif
#ifdef H_get_elm
HARNESS(x, _xbt_dynar_get_elm(g_buf, g_dp, nondet_ul() & SZMAX))
#endif
#ifdef H_new
void harness(void)
{
  vf_exc = 0;
  xbt_dynar_new(nondet_ul(), nondet_bool() ? NULL : (vf_fnptr)ghost_cb);
  VF_CANARY_POINT;
}
#endif
#ifdef H_length
HARNESS(x, xbt_dynar_length(dyn_or_null()))
#endif
#ifdef H_is_empty
HARNESS(x, xbt_dynar_is_empty(dyn_or_null()))
#endif
#if defined(H_get_cpy) || defined(H_get_cpy_any_index)
HARNESS(x, xbt_dynar_get_cpy(dyn_or_null(), nondet_ul(), g_buf))
#endif
#if defined(H_get_ptr) || defined(H_get_ptr_any_index)
HARNESS(x, xbt_dynar_get_ptr(dyn_or_null(), nondet_ul()))
#endif
#ifdef H_set_at_ptr
HARNESS(x, xbt_dynar_set_at_ptr(dyn_or_null(), nondet_ul() & SZMAX))
#endif
#ifdef H_insert_at_ptr
HARNESS(x, xbt_dynar_insert_at_ptr(dyn_or_null(), nondet_int()))
#endif
#ifdef H_insert_at
HARNESS(x, xbt_dynar_insert_at(g_dp, nondet_int(), g_src))
#endif
#ifdef H_remove_at
HARNESS(x, xbt_dynar_remove_at(dyn_or_null(), nondet_int(), buf_or_null()))
#endif
#ifdef H_member
HARNESS(x, xbt_dynar_member(g_dp, g_src))
#endif
#ifdef H_push_ptr
HARNESS(x, xbt_dynar_push_ptr(g_dp))
#endif
#ifdef H_push
HARNESS(x, xbt_dynar_push(g_dp, g_src))
#endif
#ifdef H_pop_ptr
HARNESS(x, xbt_dynar_pop_ptr(g_dp))
#endif
#ifdef H_pop
HARNESS(x, xbt_dynar_pop(g_dp, buf_or_null()))
#endif
#ifdef H_unshift
HARNESS(x, xbt_dynar_unshift(g_dp, g_src))
#endif
#ifdef H_shift
HARNESS(x, xbt_dynar_shift(g_dp, buf_or_null()))
#endif
#ifdef H_map
HARNESS(x, xbt_dynar_map(g_dp, (vf_fnptr)ghost_cb))
#endif
#ifdef H_reset
HARNESS(x, xbt_dynar_reset(dyn_or_null()))
#endif
#ifdef H_sort
HARNESS(x, xbt_dynar_sort(g_dp, (vf_fnptr)ghost_cb))
#endif
#ifdef H_free_container
HARNESS(x, xbt_dynar_free_container(nondet_bool() ? NULL : &g_var))
#endif
#ifdef H_free
HARNESS(x, xbt_dynar_free(nondet_bool() ? NULL : &g_var))
#endif
#ifdef H_cursor_get
HARNESS(x, _xbt_dynar_cursor_get(dyn_or_null(), nondet_uint(), g_buf))
#endif
