/* C06 — Condition variable semantics: notify_one wakes the longest waiter or is lost; notify_all wakes every waiter
 * of that moment; a woken or timed-out waiter returns only after re-acquiring its mutex; wait_for(t) reports a
 * timeout iff it was not notified within t.
 * Contracts on the real ConditionVariableImpl / ConditionVariableAcquisitionImpl methods (extracted by cxx2c).
 * Abstract view of the condvar c: Q(c) = FIFO of waiters (ongoing_acquisitions_), each (issuer, granted = notified).
 * The mutex is seen through its abstract owner only; MutexImpl::unlock / lock_async / MutexAcquisitionImpl::wait_for are
 * called through the contracts proved in C04, restated here over the owner.                                         */
#include "gen.h"

#ifndef QCAP
#define QCAP 4 /* model capacity of the FIFO */
#endif
#define QSZ (2 * QCAP + 2)
#define NACT (QCAP + 1) /* waiters have pairwise distinct issuers: QCAP waiters + the acting actor */
#define WCAP 2          /* model capacity of an actor's waiting_synchros_ / activities_ */

/* ---------------- the state the harnesses build (all objects distinct, all pointers valid) ------------- */
struct ActorImpl g_act[NACT];
struct ActivityImpl* g_ws[NACT][WCAP + 2];
struct ActivityImpl* g_actv[NACT][WCAP + 2];
struct ConditionVariableObserver g_cobs[NACT]; /* the observer of each actor's pending simcall */
struct Host g_host;
struct CpuImpl g_cpu;
struct CpuAction g_timer; /* the sleep action CpuImpl::sleep hands out */
struct ConditionVariableAcquisitionImpl g_acq[QSZ];
struct ConditionVariableAcquisitionImpl* g_qd[QSZ];
struct ConditionVariableImpl g_cv;
struct MutexImpl g_m;              /* the mutex of this condition variable */
struct MutexAcquisitionImpl g_macq; /* what MutexImpl::lock_async hands out */

/* ghost observers of the assumed callees */
int g_answered; /* number of ActorImpl::simcall_answer calls */
struct ActorImpl* g_answered_actor;
int g_registered;     /* number of register_simcall calls */
int g_result_set;     /* number of observer->set_result calls */
_Bool g_result_value; /* last value passed */
void* g_result_obs;   /* observer it was passed to */
int g_sleeps;         /* number of CpuImpl::sleep calls */
double g_sleep_duration;
int g_timer_state; /* what Action::get_state answers for the timer (fixed during a call) */
int g_unrefs;
int g_unreg_calls;              /* number of unregister_first_simcall calls */
struct ActorImpl* g_unreg_ret;  /* what the last one returned (NULL: the waiter is exiting or dying) */
int g_mc_active, g_mc_replay;   /* what MC_is_active() / MC_record_replay_is_active() answer */
int g_unlock_calls;             /* MutexImpl::unlock */
int g_lock_calls;               /* MutexImpl::lock_async */
struct ActorImpl* g_lock_issuer; /* issuer of the last lock_async */
int g_mwait_calls;              /* MutexAcquisitionImpl::wait_for */

#define Qh (g_cv.ongoing_acquisitions_.h)
#define Qn (g_cv.ongoing_acquisitions_.n)
#define Q(k) (g_qd[Qh + (k)])
#define oldQh __CPROVER_old(g_cv.ongoing_acquisitions_.h)
#define oldQn __CPROVER_old(g_cv.ongoing_acquisitions_.n)
#define ACT(a) ((a)->__b_ActivityImpl_T_ConditionVariableAcquisitionImpl.__b_ActivityImpl)
#define SIMCALLS_N(a) (ACT(a).simcalls_.n)
#define TIMER (&g_timer.__b_Action)
#define OBS_OF(actor) ((struct ConditionVariableObserver*)(actor)->simcall_.observer_)
#define NOMC(actor) (OBS_OF(actor)->type_ == Type__CONDVAR_NOMC)

#if QCAP == 4
#define IS_ACTOR(p) ((p) == &g_act[0] || (p) == &g_act[1] || (p) == &g_act[2] || (p) == &g_act[3] || (p) == &g_act[4])
#define ALLACT(P) (P(0) && P(1) && P(2) && P(3) && P(4))
#define ALLQ(P) (P(0) && P(1) && P(2) && P(3))
#define ANYQ(P) (P(0) || P(1) || P(2) || P(3))
#define ALLQ2(P, X) (P(0, X) && P(1, X) && P(2, X) && P(3, X))
#define ALLPAIRS2(P, X) (P(0, 1, X) && P(0, 2, X) && P(0, 3, X) && P(1, 2, X) && P(1, 3, X) && P(2, 3, X))
#define ACTV_NS                                                                                                        \
  g_act[0].activities_.n, g_act[1].activities_.n, g_act[2].activities_.n, g_act[3].activities_.n, g_act[4].activities_.n
#elif QCAP == 6
#define IS_ACTOR(p)                                                                                                    \
  ((p) == &g_act[0] || (p) == &g_act[1] || (p) == &g_act[2] || (p) == &g_act[3] || (p) == &g_act[4] ||                 \
   (p) == &g_act[5] || (p) == &g_act[6])
#define ALLACT(P) (P(0) && P(1) && P(2) && P(3) && P(4) && P(5) && P(6))
#define ALLQ(P) (P(0) && P(1) && P(2) && P(3) && P(4) && P(5))
#define ANYQ(P) (P(0) || P(1) || P(2) || P(3) || P(4) || P(5))
#define ALLQ2(P, X) (P(0, X) && P(1, X) && P(2, X) && P(3, X) && P(4, X) && P(5, X))
#define ALLPAIRS2(P, X)                                                                                                \
  (P(0, 1, X) && P(0, 2, X) && P(0, 3, X) && P(0, 4, X) && P(0, 5, X) && P(1, 2, X) && P(1, 3, X) && P(1, 4, X) &&     \
   P(1, 5, X) && P(2, 3, X) && P(2, 4, X) && P(2, 5, X) && P(3, 4, X) && P(3, 5, X) && P(4, 5, X))
#define ACTV_NS                                                                                                        \
  g_act[0].activities_.n, g_act[1].activities_.n, g_act[2].activities_.n, g_act[3].activities_.n,                      \
      g_act[4].activities_.n, g_act[5].activities_.n, g_act[6].activities_.n
#else
#error "QCAP must be 4 or 6"
#endif

/* representation invariant of the condition variable: waiters are not notified, wait on this condvar with its mutex;
 * an actor blocked on the condvar cannot wait again (pairwise distinct issuers).  Written over a layout IDX: the k-th
 * waiter is the object g_acq[IDX(k)] (indexed accesses only).  Preconditions use the canonical layout
 * IDX0(k) = h + k (symmetry reduction: the code looks at addresses of acquisitions only through equality); cancel
 * leaves a gap at the position it removes (IDXGAP).                                                                 */
#define IDX0(k) (Qh + (k))
#define ELEM_AT(k, IDX)                                                                                                \
  (!((k) < Qn) || (Q(k) == &g_acq[IDX(k)] && IS_ACTOR(g_acq[IDX(k)].issuer_) && g_acq[IDX(k)].cond_ == &g_cv &&        \
                   g_acq[IDX(k)].mutex_ == &g_m && !g_acq[IDX(k)].granted_))
#define PAIR_AT(i, j, IDX) (!((j) < Qn) || g_acq[IDX(i)].issuer_ != g_acq[IDX(j)].issuer_)
#define WF_AT(IDX)                                                                                                     \
  (g_cv.ongoing_acquisitions_.d == g_qd && g_cv.ongoing_acquisitions_.cap == QSZ && Qn <= QCAP && Qh <= QCAP + 1 &&    \
   ALLQ2(ELEM_AT, IDX) && ALLPAIRS2(PAIR_AT, IDX))
#define WF_CV (Qn <= QCAP && Qh <= QCAP && Qh + Qn <= QCAP && WF_AT(IDX0))
#define WF_ACTOR(a)                                                                                                    \
  (g_act[a].waiting_synchros_.d == g_ws[a] && g_act[a].waiting_synchros_.h == 0 &&                                     \
   g_act[a].waiting_synchros_.n <= WCAP && g_act[a].activities_.k == g_actv[a] && g_act[a].activities_.n <= WCAP &&    \
   g_act[a].simcall_.observer_ == (struct SimcallObserver*)&g_cobs[a] && g_act[a].simcall_.issuer_ == &g_act[a] &&     \
   g_cobs[a].mutex_ == &g_m && g_act[a].host_ == &g_host)
#define WF_ACTORS (ALLACT(WF_ACTOR) && g_host.pimpl_cpu_ == &g_cpu)
#define ACTV_LE(a) (g_act[a].activities_.n <= WCAP)
/* an acquisition handed out by acquire_async and not yet finished: either notified, or waiting in Q (never both);
 * the MC-mode timeout flag is only ever set on a waiting acquisition without timer (wait_for)                       */
#define IN_Q_AT(k) ((k) < Qn && Q(k) == self)
#define ACQ_LIVE(self)                                                                                                 \
  (__CPROVER_rw_ok(self, sizeof(*self)) && self->cond_ == &g_cv && self->mutex_ == &g_m && IS_ACTOR(self->issuer_) &&  \
   (self->granted_ != ANYQ(IN_Q_AT)) && (ACT(self).model_action_ == NULL || ACT(self).model_action_ == TIMER) &&       \
   (!self->mc_timeout_ || (!self->granted_ && ACT(self).model_action_ == NULL)))
/* assumed about the waiter: in MC mode (observer type != CONDVAR_NOMC) finish() answers it without testing for
 * nullptr, so it must not be exiting/dying (ghost field ActorImpl::vf_dying decides what unregister_first_simcall
 * returns) — see level_note                                                                                         */
#define WAITER_OK(self) (NOMC((self)->issuer_) || !(self)->issuer_->vf_dying)
#define WAITER_OK_A(a) (g_cobs[a].type_ == Type__CONDVAR_NOMC || !g_act[a].vf_dying)
#define WAITERS_OK ALLACT(WAITER_OK_A) /* the same for every actor, without pointer chasing */
/* assumed link with ActivityImpl / ActorImpl (assumed callees): a queued waiter has exactly one registered simcall
 * (its issuer is blocked on it: acquire_async and wait_for happen in the same simcall outside MC mode); its timer, if
 * any, is the one sleep() handed out; no MC timeout is pending                                                        */
#define A(k) g_acq[Qh + (k)]
#define LINK(k)                                                                                                        \
  (!((k) < Qn) || (SIMCALLS_N(&A(k)) == 1 && !A(k).mc_timeout_ &&                                                      \
                   (ACT(&A(k)).model_action_ == NULL || ACT(&A(k)).model_action_ == TIMER)))
#define COUNTERS_OK                                                                                                    \
  (0 <= g_answered && g_answered < 1000 && 0 <= g_unreg_calls && g_unreg_calls < 1000 && 0 <= g_unrefs &&              \
   g_unrefs < 1000 && 0 <= g_lock_calls && g_lock_calls < 1000 && 0 <= g_mwait_calls && g_mwait_calls < 1000)

/* ghost indices: an arbitrary queue position / an arbitrary acquisition object */
size_t gk;
size_t gj;

/* ---------------- assumed contracts of callees outside C06 (listed in the evidence) -------------------- */
void ActivityImpl__register_simcall(struct ActivityImpl* self, struct Simcall* sc)
    __CPROVER_requires(__CPROVER_rw_ok(self, sizeof(*self))) __CPROVER_assigns(g_registered, self->simcalls_.n)
    __CPROVER_ensures(g_registered == __CPROVER_old(g_registered) + 1 &&
                      self->simcalls_.n == __CPROVER_old(self->simcalls_.n) + 1);

/* assumed: hands back the actor that registered, i.e. the acquisition's issuer (wait_for registers issuer_->simcall_),
 * or nullptr when that actor is exiting or dying                                                                     */
struct ActorImpl* ActivityImpl__unregister_first_simcall(struct ActivityImpl* self)
    __CPROVER_requires(__CPROVER_r_ok((struct ConditionVariableAcquisitionImpl*)self,
                                      sizeof(struct ConditionVariableAcquisitionImpl)) &&
                       IS_ACTOR(((struct ConditionVariableAcquisitionImpl*)self)->issuer_))
    __CPROVER_assigns(g_unreg_calls, VF_PT(g_unreg_ret))
    __CPROVER_ensures(__CPROVER_return_value == (((struct ConditionVariableAcquisitionImpl*)self)->issuer_->vf_dying
                                                     ? NULL
                                                     : ((struct ConditionVariableAcquisitionImpl*)self)->issuer_) &&
                      g_unreg_ret == __CPROVER_return_value && g_unreg_calls == __CPROVER_old(g_unreg_calls) + 1);

void ActorImpl__simcall_answer(struct ActorImpl* self)
    __CPROVER_requires(IS_ACTOR(self)) __CPROVER_assigns(g_answered, VF_PT(g_answered_actor))
    __CPROVER_ensures(g_answered == __CPROVER_old(g_answered) + 1 && g_answered_actor == self);

/* ActivityImpl_T<> constructor: header default member initialisers (model_action_ = nullptr, no simcall) */
void ActivityImpl_T_ConditionVariableAcquisitionImpl__ctor(struct ActivityImpl_T_ConditionVariableAcquisitionImpl* self)
    __CPROVER_requires(__CPROVER_rw_ok(self, sizeof(*self))) __CPROVER_assigns(*self)
    __CPROVER_ensures(self->__b_ActivityImpl.simcalls_.n == 0 && self->__b_ActivityImpl.model_action_ == NULL);

/* names are dropped (strings are opaque ids) */
struct ConditionVariableAcquisitionImpl*
ActivityImpl_T_ConditionVariableAcquisitionImpl__set_name(struct ActivityImpl_T_ConditionVariableAcquisitionImpl* self,
                                                          vf_str name) __CPROVER_requires(1) __CPROVER_assigns()
    __CPROVER_ensures(__CPROVER_return_value == (struct ConditionVariableAcquisitionImpl*)self);
vf_str to_string(unsigned int v) __CPROVER_requires(1) __CPROVER_assigns() __CPROVER_ensures(1);
vf_str vf_str_concat(vf_str a, vf_str b) __CPROVER_requires(1) __CPROVER_assigns() __CPROVER_ensures(1);

/* the timer: CpuImpl::sleep(t) hands out an action of duration exactly t (its completion date is C03/C12 territory) */
struct CpuAction* CpuImpl__sleep(struct CpuImpl* self, double duration)
    __CPROVER_requires(self == &g_cpu) __CPROVER_assigns(g_sleeps, g_sleep_duration)
    __CPROVER_ensures(__CPROVER_return_value == &g_timer && g_sleeps == __CPROVER_old(g_sleeps) + 1 &&
                      g_sleep_duration == duration);
int Action__get_state(struct Action* self) __CPROVER_requires(self == TIMER) __CPROVER_assigns()
    __CPROVER_ensures(__CPROVER_return_value == g_timer_state);
_Bool Action__unref(struct Action* self) __CPROVER_requires(self == TIMER) __CPROVER_assigns(g_unrefs)
    __CPROVER_ensures(g_unrefs == __CPROVER_old(g_unrefs) + 1);
int MC_is_active(void) __CPROVER_requires(1) __CPROVER_assigns() __CPROVER_ensures(__CPROVER_return_value == g_mc_active);
int MC_record_replay_is_active(void) __CPROVER_requires(1) __CPROVER_assigns()
    __CPROVER_ensures(__CPROVER_return_value == g_mc_replay);

/* the pending simcall of an actor blocked in a condvar wait carries a ConditionVariableObserver (s4u_ConditionVariable.cpp) */
struct ConditionVariableObserver* vf_dyncast_SimcallObserver_to_ConditionVariableObserver(struct SimcallObserver* p)
    __CPROVER_requires(1) __CPROVER_assigns()
    __CPROVER_ensures(__CPROVER_return_value == (struct ConditionVariableObserver*)p);
void DelayedSimcallObserver_bool__set_result(struct DelayedSimcallObserver_bool* self, _Bool v)
    __CPROVER_requires(1) __CPROVER_assigns(g_result_set, g_result_value, VF_PT(g_result_obs))
    __CPROVER_ensures(g_result_set == __CPROVER_old(g_result_set) + 1 && g_result_value == v &&
                      g_result_obs == (void*)self);

/* the mutex, through the contracts proved in C04 (restated over the abstract owner):
 * unlock: only the owner releases (aborts otherwise); lock_async: a free mutex is taken at once, a held one is left to
 * its owner; MutexAcquisitionImpl::wait_for(-1): the waiter is answered only if it owns the mutex                   */
void MutexImpl__unlock(struct MutexImpl* self, struct ActorImpl* issuer)
    __CPROVER_requires(self == &g_m && IS_ACTOR(issuer)) __CPROVER_assigns(vf_exc, VF_PT(g_m.owner_), g_unlock_calls)
    __CPROVER_ensures((vf_exc == VF_EXC_ABORT) == (__CPROVER_old(g_m.owner_) != issuer))
    __CPROVER_ensures(vf_exc == 0 || vf_exc == VF_EXC_ABORT)
    __CPROVER_ensures(g_unlock_calls == __CPROVER_old(g_unlock_calls) + 1)
    __CPROVER_ensures(vf_exc == 0 || g_m.owner_ == __CPROVER_old(g_m.owner_))
    __CPROVER_ensures(g_m.owner_ == NULL || IS_ACTOR(g_m.owner_));
struct MutexAcquisitionImpl* MutexImpl__lock_async(struct MutexImpl* self, struct ActorImpl* issuer)
    __CPROVER_requires(self == &g_m && IS_ACTOR(issuer) && (g_m.owner_ == NULL || IS_ACTOR(g_m.owner_)))
    __CPROVER_assigns(VF_PT(g_m.owner_), g_lock_calls, VF_PT(g_lock_issuer))
    __CPROVER_ensures(__CPROVER_return_value == &g_macq && g_lock_calls == __CPROVER_old(g_lock_calls) + 1 &&
                      g_lock_issuer == issuer)
    __CPROVER_ensures(g_m.owner_ == (__CPROVER_old(g_m.owner_) == NULL ? issuer : __CPROVER_old(g_m.owner_)));
void MutexAcquisitionImpl__wait_for(struct MutexAcquisitionImpl* self, struct ActorImpl* issuer, double timeout)
    __CPROVER_requires(self == &g_macq && issuer == g_lock_issuer && timeout < 0.0 && g_m.owner_ != NULL)
    __CPROVER_assigns(g_answered, VF_PT(g_answered_actor), g_mwait_calls)
    __CPROVER_ensures(g_mwait_calls == __CPROVER_old(g_mwait_calls) + 1)
    __CPROVER_ensures(g_answered == __CPROVER_old(g_answered) ||
                      (g_m.owner_ == issuer && g_answered == __CPROVER_old(g_answered) + 1 && g_answered_actor == issuer));

/* ---------------- contracts of the units ----------------------------------------------------------------- */

void ConditionVariableAcquisitionImpl__ctor(struct ConditionVariableAcquisitionImpl* self, struct ActorImpl* issuer,
                                            struct ConditionVariableImpl* cond, struct MutexImpl* mutex)
    __CPROVER_requires(__CPROVER_rw_ok(self, sizeof(*self)) && __CPROVER_r_ok(cond, sizeof(*cond)) && vf_exc == 0)
    __CPROVER_assigns(*self)
    __CPROVER_ensures(self->issuer_ == issuer && self->cond_ == cond && self->mutex_ == mutex)
    /*@ ctor_records_issuer_condvar_mutex */
    __CPROVER_ensures(!self->granted_ && !self->mc_timeout_) /*@ ctor_never_notified_at_creation */
    __CPROVER_ensures(ACT(self).model_action_ == NULL && SIMCALLS_N(self) == 0 && vf_exc == 0);

_Bool ConditionVariableAcquisitionImpl__test(struct ConditionVariableAcquisitionImpl* self, struct ActorImpl* issuer)
    __CPROVER_requires(__CPROVER_r_ok(self, sizeof(*self))) __CPROVER_assigns()
    __CPROVER_ensures(__CPROVER_return_value == self->granted_) /*@ test_true_iff_notified */;

/* acquire_async (the wait): only the owner of the mutex may wait; the mutex is released exactly once; the waiter goes
 * to the TAIL and is never notified at creation.  (wf of the new state follows piecewise from the clauses; stating WF
 * over a queue that holds a heap object does not terminate in the solver.)                                          */
#define NOT_MINE(k) (!((k) < Qn) || A(k).issuer_ != issuer)
struct ConditionVariableAcquisitionImpl* ConditionVariableImpl__acquire_async(struct ConditionVariableImpl* self,
                                                                              struct ActorImpl* issuer,
                                                                              struct MutexImpl* mutex)
    __CPROVER_requires(self == &g_cv && mutex == &g_m && WF_CV && Qh + Qn + 1 <= QCAP && IS_ACTOR(issuer) &&
                       vf_exc == 0 && g_unlock_calls == 0)
    /* assumed from the s4u layer: the caller is not already blocked on this condition variable */
    __CPROVER_requires(ALLQ(NOT_MINE))
    __CPROVER_assigns(vf_exc, VF_PT(g_m.owner_), g_unlock_calls, g_cv.ongoing_acquisitions_.n, __CPROVER_object_whole(g_qd))
    __CPROVER_ensures((vf_exc == VF_EXC_ABORT) == (__CPROVER_old(g_m.owner_) != issuer))
    /*@ wait_requires_owning_the_mutex */
    __CPROVER_ensures(vf_exc == 0 || vf_exc == VF_EXC_ABORT)
    __CPROVER_ensures(vf_exc == 0 || (g_unlock_calls == 0 && Qn == oldQn && Qh == oldQh &&
                                      g_m.owner_ == __CPROVER_old(g_m.owner_))) /*@ rejected_wait_changes_nothing */
    __CPROVER_ensures(vf_exc != 0 || g_unlock_calls == 1) /*@ wait_releases_the_mutex_once */
    __CPROVER_ensures(vf_exc != 0 || (__CPROVER_return_value != NULL && __CPROVER_return_value->issuer_ == issuer &&
                                      __CPROVER_return_value->cond_ == &g_cv &&
                                      __CPROVER_return_value->mutex_ == &g_m && !__CPROVER_return_value->granted_ &&
                                      !__CPROVER_return_value->mc_timeout_)) /*@ waiter_is_mine_and_not_notified */
    __CPROVER_ensures(vf_exc != 0 || (Qn == oldQn + 1 && Qh == oldQh && Q(oldQn) == __CPROVER_return_value))
    /*@ waiter_goes_to_tail */
    __CPROVER_ensures(!(gk < oldQn) || (Q(gk) == &A(gk) && !A(gk).granted_ &&
                                        A(gk).issuer_ == __CPROVER_old(g_acq[g_cv.ongoing_acquisitions_.h + gk].issuer_)))
    /*@ existing_waiters_untouched */
    __CPROVER_ensures(vf_exc != 0 || (ACT(__CPROVER_return_value).model_action_ == NULL &&
                                      SIMCALLS_N(__CPROVER_return_value) == 0));

/* cancel: the waiter leaves the queue; nobody else moves relative to the others; nobody is notified
 * (every granted_ flag is outside its assigns clause)                                                               */
#define SELF_POS ((size_t)(self - &g_acq[0]) - oldQh) /* position of self in the old queue */
#define IDXGAP(k) (oldQh + (k) + ((k) >= SELF_POS ? 1 : 0))
void ConditionVariableAcquisitionImpl__cancel(struct ConditionVariableAcquisitionImpl* self)
    __CPROVER_requires(WF_CV && WF_ACTORS && ACQ_LIVE(self) && !self->granted_ && vf_exc == 0)
    __CPROVER_assigns(vf_exc, g_cv.ongoing_acquisitions_.n, __CPROVER_object_whole(g_qd),
                      __CPROVER_object_whole(g_actv), ACTV_NS)
    __CPROVER_ensures(vf_exc == 0)
    __CPROVER_ensures(Qn == oldQn - 1 && Qh == oldQh) /*@ cancel_removes_one */
    __CPROVER_ensures(!(gk < Qn) || Q(gk) != self)    /*@ cancel_removes_me */
    __CPROVER_ensures(WF_AT(IDXGAP))                  /*@ cancel_keeps_order_of_the_others_and_wf */
    __CPROVER_ensures(ALLACT(ACTV_LE))                /*@ cancel_keeps_actors_wf */;

/* loop 0 of cancel: std::find_if of my issuer in Q */
#define NOT_FOUND_BEFORE(k) (!((k) < __i0) || g_acq[Qh + (k)].issuer_ != issuer)
#define VF_LOOP_ConditionVariableAcquisitionImpl__cancel_0                                                             \
  __CPROVER_assigns(__i0) __CPROVER_loop_invariant(__i0 <= __fn0 && ALLQ(NOT_FOUND_BEFORE))                            \
      __CPROVER_decreases(__fn0 - __i0)

/* finish: a timeout is reported iff (the timer elapsed or the MC-mode timeout was declared) and the waiter was not
 * notified; it then leaves the queue and nobody is notified.  The waiter is never answered by finish itself in the
 * normal mode (observer type CONDVAR_NOMC): its wake-up is turned into one lock_async + wait_for(-1) on its mutex, so
 * it returns only as owner of the mutex.                                                                            */
#define TO_PRE(self)                                                                                                   \
  ((ACT(self).model_action_ != NULL && g_timer_state == State__FINISHED && !self->granted_) || self->mc_timeout_)
#define TIMED_OUT(self)                                                                                                \
  ((__CPROVER_old(ACT(self).model_action_) != NULL && g_timer_state == State__FINISHED &&                              \
    !__CPROVER_old(self->granted_)) ||                                                                                 \
   __CPROVER_old(self->mc_timeout_))
void ConditionVariableAcquisitionImpl__finish(struct ConditionVariableAcquisitionImpl* self)
    __CPROVER_requires(WF_CV && WF_ACTORS && ACQ_LIVE(self) && WAITER_OK(self) && vf_exc == 0 && g_result_set == 0 &&
                       COUNTERS_OK && (g_m.owner_ == NULL || IS_ACTOR(g_m.owner_)))
    __CPROVER_assigns(vf_exc, g_answered, VF_PT(g_answered_actor), g_unrefs, g_unreg_calls, VF_PT(g_unreg_ret),
                      VF_PT(ACT(self).model_action_), ACT(self).state_, VF_PT(g_m.owner_), g_lock_calls, VF_PT(g_lock_issuer), g_mwait_calls)
    __CPROVER_assigns(TO_PRE(self) : g_cv.ongoing_acquisitions_.n, __CPROVER_object_whole(g_qd),
                      __CPROVER_object_whole(g_actv), ACTV_NS, g_result_set, g_result_value, VF_PT(g_result_obs))
    __CPROVER_ensures((vf_exc == VF_EXC_ABORT) == (SIMCALLS_N(self) != 1)) /*@ finish_needs_exactly_one_waiter */
    __CPROVER_ensures(vf_exc == 0 || vf_exc == VF_EXC_ABORT)
    __CPROVER_ensures(g_result_set == (TIMED_OUT(self) ? 1 : 0) &&
                      (g_result_set == 0 || (g_result_value && g_result_obs == (void*)self->issuer_->simcall_.observer_)))
    /*@ finish_reports_timeout_iff_elapsed_and_not_notified */
    __CPROVER_ensures(!TIMED_OUT(self) || (Qn == oldQn - 1 && Qh == oldQh && !self->granted_ && WF_AT(IDXGAP)))
    /*@ finish_timeout_leaves_the_queue_unnotified_others_in_order */
    __CPROVER_ensures(!TIMED_OUT(self) || !(gk < Qn) || Q(gk) != self) /*@ finish_timeout_removes_me */
    __CPROVER_ensures(TIMED_OUT(self) || (Qn == oldQn && Qh == oldQh && WF_AT(IDX0)))
    /*@ finish_without_timeout_leaves_queue_alone */
    __CPROVER_ensures(ACT(self).model_action_ == NULL)
    __CPROVER_ensures(vf_exc == 0 || (g_answered == __CPROVER_old(g_answered) &&
                                      g_unreg_calls == __CPROVER_old(g_unreg_calls) &&
                                      g_lock_calls == __CPROVER_old(g_lock_calls)))
    __CPROVER_ensures(vf_exc != 0 || g_unreg_calls == __CPROVER_old(g_unreg_calls) + 1)
    __CPROVER_ensures(vf_exc != 0 || NOMC(self->issuer_) ||
                      (g_answered == __CPROVER_old(g_answered) + 1 && g_answered_actor == self->issuer_ &&
                       g_lock_calls == __CPROVER_old(g_lock_calls))) /*@ finish_mc_mode_answers_the_waiter */
    __CPROVER_ensures(vf_exc != 0 || !NOMC(self->issuer_) || !self->issuer_->vf_dying ||
                      (g_answered == __CPROVER_old(g_answered) && g_lock_calls == __CPROVER_old(g_lock_calls)))
    /*@ finish_dying_waiter_is_dropped */
    __CPROVER_ensures(vf_exc != 0 || !NOMC(self->issuer_) || self->issuer_->vf_dying ||
                      (g_lock_calls == __CPROVER_old(g_lock_calls) + 1 && g_lock_issuer == self->issuer_ &&
                       g_mwait_calls == __CPROVER_old(g_mwait_calls) + 1))
    /*@ finish_wakeup_becomes_one_mutex_acquisition */
    __CPROVER_ensures(!NOMC(self->issuer_) || g_answered == __CPROVER_old(g_answered) ||
                      (g_answered == __CPROVER_old(g_answered) + 1 && g_answered_actor == self->issuer_ &&
                       g_m.owner_ == self->issuer_)) /*@ waiter_returns_only_as_owner_of_its_mutex */
    __CPROVER_ensures(g_m.owner_ == NULL || IS_ACTOR(g_m.owner_))
    __CPROVER_ensures(g_answered >= __CPROVER_old(g_answered) && g_answered <= __CPROVER_old(g_answered) + 1 &&
                       g_unreg_calls >= __CPROVER_old(g_unreg_calls) && g_unreg_calls <= __CPROVER_old(g_unreg_calls) + 1 &&
                       g_unrefs >= __CPROVER_old(g_unrefs) && g_unrefs <= __CPROVER_old(g_unrefs) + 1 &&
                       g_lock_calls >= __CPROVER_old(g_lock_calls) && g_lock_calls <= __CPROVER_old(g_lock_calls) + 1 &&
                       g_mwait_calls >= __CPROVER_old(g_mwait_calls) && g_mwait_calls <= __CPROVER_old(g_mwait_calls) + 1) /*@ finish_does_each_step_at_most_once */
    __CPROVER_ensures(ALLACT(ACTV_LE)) /*@ finish_keeps_actors_wf */;

/* signal (notify_one): the HEAD of the queue (longest waiter) is notified and leaves; with no waiter nothing at all is
 * assignable (the signal is lost)                                                                                   */
void ConditionVariableImpl__signal(struct ConditionVariableImpl* self)
    __CPROVER_requires(self == &g_cv && WF_CV && WF_ACTORS && vf_exc == 0 && g_result_set == 0 && COUNTERS_OK &&
                       ALLQ(LINK) && WAITERS_OK && (g_m.owner_ == NULL || IS_ACTOR(g_m.owner_)))
    __CPROVER_assigns(Qn > 0 : vf_exc, g_cv.ongoing_acquisitions_.h, g_cv.ongoing_acquisitions_.n,
                      g_acq[g_cv.ongoing_acquisitions_.h].granted_,
                      VF_PT(ACT(&g_acq[g_cv.ongoing_acquisitions_.h]).model_action_),
                      ACT(&g_acq[g_cv.ongoing_acquisitions_.h]).state_, g_answered, VF_PT(g_answered_actor), g_unrefs, g_unreg_calls,
                      VF_PT(g_unreg_ret), VF_PT(g_m.owner_), g_lock_calls, VF_PT(g_lock_issuer), g_mwait_calls)
    __CPROVER_ensures(vf_exc == 0)
    __CPROVER_ensures(oldQn == 0 || (g_acq[oldQh].granted_ && Qh == oldQh + 1 && Qn == oldQn - 1))
    /*@ signal_notifies_head_of_queue */
    __CPROVER_ensures(oldQn != 0 || (Qn == 0 && Qh == oldQh)) /*@ signal_without_waiter_is_lost */
    __CPROVER_ensures(!(gj < QSZ) || gj == oldQh || g_acq[gj].granted_ == __CPROVER_old(g_acq[gj].granted_))
    /*@ signal_notifies_nobody_else */
    __CPROVER_ensures(WF_CV && ALLQ(LINK)) /*@ signal_keeps_wf_rest_of_queue_untouched */
    __CPROVER_ensures(!(gk < Qn) || A(gk).issuer_ == __CPROVER_old(g_acq[g_cv.ongoing_acquisitions_.h + 1 + gk].issuer_))
    /*@ signal_keeps_order_of_the_others */
    __CPROVER_ensures(g_result_set == 0) /*@ signal_never_reports_timeout */
    __CPROVER_ensures(g_answered == __CPROVER_old(g_answered) ||
                      (oldQn != 0 && g_answered == __CPROVER_old(g_answered) + 1 &&
                       g_answered_actor == g_acq[oldQh].issuer_ &&
                       (!NOMC(g_acq[oldQh].issuer_) || g_m.owner_ == g_answered_actor)))
    /*@ signalled_waiter_returns_only_as_owner_of_its_mutex */
    __CPROVER_ensures(g_answered >= __CPROVER_old(g_answered) && g_answered <= __CPROVER_old(g_answered) + 1 &&
                       g_unreg_calls >= __CPROVER_old(g_unreg_calls) && g_unreg_calls <= __CPROVER_old(g_unreg_calls) + 1 &&
                       g_unrefs >= __CPROVER_old(g_unrefs) && g_unrefs <= __CPROVER_old(g_unrefs) + 1 &&
                       g_lock_calls >= __CPROVER_old(g_lock_calls) && g_lock_calls <= __CPROVER_old(g_lock_calls) + 1 &&
                       g_mwait_calls >= __CPROVER_old(g_mwait_calls) && g_mwait_calls <= __CPROVER_old(g_mwait_calls) + 1)
    __CPROVER_ensures(g_m.owner_ == NULL || IS_ACTOR(g_m.owner_));

/* broadcast (notify_all): every waiter of that moment is notified, nobody else; the queue ends empty */
void ConditionVariableImpl__broadcast(struct ConditionVariableImpl* self)
    __CPROVER_requires(self == &g_cv && WF_CV && WF_ACTORS && vf_exc == 0 && g_result_set == 0 && g_answered == 0 &&
                       g_unreg_calls == 0 && g_unrefs == 0 && g_lock_calls == 0 && g_mwait_calls == 0 && ALLQ(LINK) &&
                       WAITERS_OK && (g_m.owner_ == NULL || IS_ACTOR(g_m.owner_)))
    __CPROVER_assigns(vf_exc, g_cv.ongoing_acquisitions_.h, g_cv.ongoing_acquisitions_.n, __CPROVER_object_whole(g_acq),
                      g_answered, VF_PT(g_answered_actor), g_unrefs, g_unreg_calls, VF_PT(g_unreg_ret), VF_PT(g_m.owner_), g_lock_calls,
                      VF_PT(g_lock_issuer), g_mwait_calls)
    __CPROVER_ensures(vf_exc == 0)
    __CPROVER_ensures(Qn == 0 && Qh == oldQh + oldQn) /*@ broadcast_empties_the_queue */
    __CPROVER_ensures(!(oldQh <= gj && gj < oldQh + oldQn) || g_acq[gj].granted_) /*@ broadcast_notifies_every_waiter */
    __CPROVER_ensures(!(gj < QSZ) || (oldQh <= gj && gj < oldQh + oldQn) ||
                      g_acq[gj].granted_ == __CPROVER_old(g_acq[gj].granted_)) /*@ broadcast_notifies_nobody_else */
    __CPROVER_ensures(g_result_set == 0)                                       /*@ broadcast_never_reports_timeout */
    __CPROVER_ensures(0 <= g_answered && (size_t)g_answered <= oldQn)          /*@ at_most_one_answer_per_waiter */;

#define VF_LOOP_ConditionVariableImpl__broadcast_0                                                                     \
  __CPROVER_assigns(vf_exc, g_cv.ongoing_acquisitions_.h, g_cv.ongoing_acquisitions_.n, __CPROVER_object_whole(g_acq),  \
                    g_answered, g_answered_actor, g_unrefs, g_unreg_calls, g_unreg_ret, g_m.owner_, g_lock_calls,      \
                    g_lock_issuer, g_mwait_calls)                                                                      \
      __CPROVER_loop_invariant(                                                                                        \
          vf_exc == 0 && WF_CV && ALLQ(LINK) && Qh >= __CPROVER_loop_entry(g_cv.ongoing_acquisitions_.h) &&            \
          Qh + Qn == __CPROVER_loop_entry(g_cv.ongoing_acquisitions_.h) +                                              \
                         __CPROVER_loop_entry(g_cv.ongoing_acquisitions_.n) &&                                         \
          0 <= g_answered && (size_t)g_answered <= Qh - __CPROVER_loop_entry(g_cv.ongoing_acquisitions_.h) &&          \
          0 <= g_unreg_calls && (size_t)g_unreg_calls <= Qh - __CPROVER_loop_entry(g_cv.ongoing_acquisitions_.h) &&    \
          0 <= g_unrefs && (size_t)g_unrefs <= Qh - __CPROVER_loop_entry(g_cv.ongoing_acquisitions_.h) &&              \
          0 <= g_lock_calls && (size_t)g_lock_calls <= Qh - __CPROVER_loop_entry(g_cv.ongoing_acquisitions_.h) &&      \
          0 <= g_mwait_calls && (size_t)g_mwait_calls <= Qh - __CPROVER_loop_entry(g_cv.ongoing_acquisitions_.h) &&    \
          (g_m.owner_ == NULL || IS_ACTOR(g_m.owner_)) &&                                                              \
          (!(gj < QSZ) ||                                                                                              \
           (__CPROVER_loop_entry(g_cv.ongoing_acquisitions_.h) <= gj && gj < Qh ? g_acq[gj].granted_                   \
                                                                                : g_acq[gj].granted_ ==               \
                                                                                      __CPROVER_loop_entry(g_acq[gj].granted_)))) \
          __CPROVER_decreases(Qn)

/* wait_for: only the creator may wait; returns through finish at once iff already notified; else blocks, with a timer
 * of exactly t if t > 0 (in MC mode a positive timeout is taken at once: finish reports it)                        */
#define MC_ON (g_mc_active != 0 || g_mc_replay != 0)
void ConditionVariableAcquisitionImpl__wait_for(struct ConditionVariableAcquisitionImpl* self, struct ActorImpl* issuer,
                                                double timeout)
    __CPROVER_requires(WF_CV && WF_ACTORS && ACQ_LIVE(self) && WAITER_OK(self) && !self->mc_timeout_ && vf_exc == 0 &&
                       g_registered == 0 && g_answered == 0 && g_sleeps == 0 && g_result_set == 0 &&
                       SIMCALLS_N(self) == 0 && ACT(self).model_action_ == NULL && g_unreg_calls == 0 &&
                       g_unrefs == 0 && g_lock_calls == 0 && g_mwait_calls == 0 &&
                       (g_m.owner_ == NULL || IS_ACTOR(g_m.owner_)))
    __CPROVER_assigns(vf_exc, g_answered, VF_PT(g_answered_actor), g_unrefs, g_unreg_calls, VF_PT(g_unreg_ret),
                      VF_PT(ACT(self).model_action_), ACT(self).state_, VF_PT(g_m.owner_), g_lock_calls, VF_PT(g_lock_issuer), g_mwait_calls,
                      g_registered, SIMCALLS_N(self), g_sleeps, g_sleep_duration, VF_PT(g_timer.__b_Action.activity_),
                      self->mc_timeout_)
    /* (>= 0: also right once the zero-timeout finding is repaired by `timeout >= 0` in the code) */
    __CPROVER_assigns(!self->granted_ && timeout >= 0.0 && MC_ON : g_cv.ongoing_acquisitions_.n,
                      __CPROVER_object_whole(g_qd), __CPROVER_object_whole(g_actv), ACTV_NS, g_result_set,
                      g_result_value, VF_PT(g_result_obs))
    __CPROVER_ensures((vf_exc == VF_EXC_ABORT) == (!__CPROVER_isfinited(timeout) || issuer != self->issuer_))
    /*@ wait_for_rejects_misuse */
    __CPROVER_ensures(vf_exc == 0 || vf_exc == VF_EXC_ABORT)
    __CPROVER_ensures(vf_exc != 0 || g_registered == 1) /*@ wait_for_registers_the_waiter */
    __CPROVER_ensures(vf_exc != 0 || !__CPROVER_old(self->granted_) ||
                      (g_unreg_calls == 1 && g_sleeps == 0 && g_result_set == 0))
    /*@ wait_for_notified_finishes_at_once_without_timeout */
    __CPROVER_ensures(vf_exc != 0 || __CPROVER_old(self->granted_) || !(timeout > 0.0) || MC_ON ||
                      (g_sleeps == 1 && g_sleep_duration == timeout && ACT(self).model_action_ == TIMER &&
                       g_timer.__b_Action.activity_ == &ACT(self) && g_unreg_calls == 0 && g_answered == 0 &&
                       g_result_set == 0)) /*@ wait_for_arms_timer_of_exactly_t_and_blocks */
    __CPROVER_ensures(vf_exc != 0 || __CPROVER_old(self->granted_) || !(timeout > 0.0) || !MC_ON ||
                      (g_result_set == 1 && g_result_value && g_sleeps == 0 && Qn == oldQn - 1))
    /*@ wait_for_mc_mode_takes_the_timeout_at_once */
    __CPROVER_ensures(vf_exc != 0 || __CPROVER_old(self->granted_) || !(timeout < 0.0) ||
                      (g_sleeps == 0 && g_unreg_calls == 0 && g_answered == 0 && g_result_set == 0))
    /*@ wait_for_without_timeout_blocks_until_notified */
    /* t == 0 (s4u wait_for clamps negative timeouts to 0, wait_until passes 0 for a deadline in the past: "not notified
       within 0 seconds"): the property demands a timeout report now, through a timer of duration 0 or directly.  The
       code only arms a timer when timeout > 0: KNOWN FINDING (see known_findings.txt / level_note)                   */
    __CPROVER_ensures(vf_exc != 0 || __CPROVER_old(self->granted_) || timeout != 0.0 ||
                      (g_sleeps == 1 && g_sleep_duration == 0.0 && ACT(self).model_action_ == TIMER) ||
                      (g_result_set == 1 && g_result_value)) /*@ wait_for_zero_timeout_expires_at_once */
    __CPROVER_ensures(!NOMC(self->issuer_) || g_answered == 0 || (g_answered == 1 && g_m.owner_ == self->issuer_))
    /*@ wait_returns_only_as_owner_of_its_mutex */;

#include "gen.c"

/* ---------------- harnesses -------------------------------------------------------------------------------- */
size_t nondet_size(void);
int nondet_int(void);
_Bool nondet_bool(void);
double nondet_double(void);

static struct ActorImpl* pick_actor(void)
{
  int i = nondet_int();
  __CPROVER_assume(0 <= i && i < NACT);
  return &g_act[i];
}

static void setup(void)
{
  for (int a = 0; a < NACT; a++) {
    g_act[a].waiting_synchros_.d   = g_ws[a];
    g_act[a].waiting_synchros_.h   = 0;
    g_act[a].waiting_synchros_.cap = WCAP + 2;
    size_t n                       = nondet_size();
    __CPROVER_assume(n <= WCAP);
    g_act[a].waiting_synchros_.n = n;
    g_act[a].activities_.k       = g_actv[a];
    g_act[a].activities_.cap     = WCAP + 2;
    size_t m                     = nondet_size();
    __CPROVER_assume(m <= WCAP);
    g_act[a].activities_.n      = m;
    g_act[a].simcall_.observer_ = (struct SimcallObserver*)&g_cobs[a];
    g_act[a].simcall_.issuer_   = &g_act[a];
    g_act[a].host_              = &g_host;
    g_cobs[a].mutex_            = &g_m;
  }
  g_host.pimpl_cpu_ = &g_cpu;
  for (int k = 0; k < QSZ; k++) {
    g_qd[k]                      = &g_acq[k];
    g_acq[k].issuer_             = pick_actor();
    g_acq[k].cond_               = &g_cv;
    g_acq[k].mutex_              = &g_m;
    ACT(&g_acq[k]).simcalls_.d   = NULL;
    ACT(&g_acq[k]).model_action_ = nondet_bool() ? NULL : TIMER;
  }
  g_cv.ongoing_acquisitions_.d   = g_qd;
  g_cv.ongoing_acquisitions_.cap = QSZ;
  g_m.owner_                     = nondet_bool() ? NULL : pick_actor();
  vf_exc                         = 0;
  g_answered                     = 0;
  g_registered                   = 0;
  g_result_set                   = 0;
  g_sleeps                       = 0;
  g_unrefs                       = 0;
  g_unreg_calls                  = 0;
  g_unlock_calls                 = 0;
  g_lock_calls                   = 0;
  g_mwait_calls                  = 0;
  __CPROVER_assume(gk < QCAP);
  __CPROVER_assume(gj < QSZ);
}

static struct ConditionVariableAcquisitionImpl* pick_acq(void)
{
  size_t k = nondet_size();
  __CPROVER_assume(k < QSZ);
  return &g_acq[k];
}

#ifdef H_ctor
struct ConditionVariableAcquisitionImpl g_fresh;
void harness(void)
{
  setup();
  ConditionVariableAcquisitionImpl__ctor(&g_fresh, pick_actor(), &g_cv, &g_m);
  VF_CANARY_POINT;
}
#endif
#ifdef H_acq_test
void harness(void)
{
  setup();
  ConditionVariableAcquisitionImpl__test(pick_acq(), pick_actor());
  VF_CANARY_POINT;
}
#endif
#ifdef H_acquire_async
void harness(void)
{
  setup();
  ConditionVariableImpl__acquire_async(&g_cv, pick_actor(), &g_m);
  VF_CANARY_POINT;
}
#endif
#ifdef H_cancel
void harness(void)
{
  setup();
  ConditionVariableAcquisitionImpl__cancel(pick_acq());
  VF_CANARY_POINT;
}
#endif
#ifdef H_finish
void harness(void)
{
  setup();
  ConditionVariableAcquisitionImpl__finish(pick_acq());
  VF_CANARY_POINT;
}
#endif
#ifdef H_signal
void harness(void)
{
  setup();
  ConditionVariableImpl__signal(&g_cv);
  VF_CANARY_POINT;
}
#endif
#ifdef H_broadcast
void harness(void)
{
  setup();
  ConditionVariableImpl__broadcast(&g_cv);
  VF_CANARY_POINT;
}
#endif
#ifdef H_wait_for
void harness(void)
{
  setup();
  ConditionVariableAcquisitionImpl__wait_for(pick_acq(), pick_actor(), nondet_double());
  VF_CANARY_POINT;
}
#endif
