// native reproduction: ConditionVariable::wait_for(lock, 0) / wait_until(lock, past date) with nobody notifying in time
#include <simgrid/s4u.hpp>
#include <cstdio>
int main(int argc, char** argv)
{
  simgrid::s4u::Engine e(&argc, argv);
  e.load_platform(argv[1]);
  auto mtx = simgrid::s4u::Mutex::create();
  auto cv  = simgrid::s4u::ConditionVariable::create();
  int result[2] = {-1, -1};
  double when[2] = {-1, -1};
  simgrid::s4u::Actor::create("waiter0", e.get_all_hosts()[0], [&]() {
    mtx->lock();
    result[0] = cv->wait_for(mtx, 0.0) == std::cv_status::timeout;
    when[0]   = simgrid::s4u::Engine::get_clock();
    mtx->unlock();
  });
  simgrid::s4u::Actor::create("waiter1", e.get_all_hosts()[0], [&]() {
    simgrid::s4u::this_actor::sleep_for(1);
    mtx->lock();
    result[1] = cv->wait_until(mtx, 0.5) == std::cv_status::timeout; // deadline already in the past
    when[1]   = simgrid::s4u::Engine::get_clock();
    mtx->unlock();
  });
  simgrid::s4u::Actor::create("notifier", e.get_all_hosts()[0], [&]() {
    simgrid::s4u::this_actor::sleep_for(5);
    cv->notify_all();
  });
  e.run();
  printf("wait_for(0): timeout=%d at t=%g (expected timeout=1 at t=0)\n", result[0], when[0]);
  printf("wait_until(0.5) called at t=1: timeout=%d at t=%g (expected timeout=1 at t=1)\n", result[1], when[1]);
  return (result[0] == 1 && when[0] == 0.0 && result[1] == 1 && when[1] == 1.0) ? 0 : 1;
}
