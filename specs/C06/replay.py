import os, sys
sys.path.insert(0, os.path.join(os.path.dirname(os.path.abspath(__file__)), "..", "..", "replay"))
import native


def replay(violation, inputs, workdir, repo):
    """zero-timeout finding: a tiny s4u simulation against the real library (replay.cpp); exit 1 = reproduced.
    Other obligations have no native driver."""
    if "zero_timeout" not in violation["label"]:
        return {"reproduced": False, "note": "no native driver for this obligation"}
    here = os.path.dirname(os.path.abspath(__file__))
    return native.build_and_run(os.path.join(here, "replay.cpp"), workdir, repo,
                                [os.path.join(repo, "examples", "platforms", "small_platform.xml")])
