// validation of the ">= 0" repairs: the patched TUs are compiled into this driver (PATCHED defined) or not
#ifdef PATCHED
#include "src/kernel/activity/SemaphoreImpl.cpp"
#undef XBT_LOG_DEFAULT_CATEGORY
#include "src/kernel/activity/ConditionVariableImpl.cpp"
#endif
#include <simgrid/s4u.hpp>
#include <cstdio>
namespace sg = simgrid::s4u;
static double now() { return sg::Engine::get_clock(); }
int main(int argc, char** argv)
{
  sg::Engine e(&argc, argv);
  e.load_platform(argv[1]);
  auto* h = e.get_all_hosts()[0];
  int bad = 0;
  auto check = [&bad](bool ok, const char* what, double t, int v) {
    printf("%s %s (t=%g, value=%d)\n", ok ? "ok  " : "FAIL", what, t, v);
    if (not ok) bad++;
  };
  // (a) empty semaphore, acquire_timeout(0): timeout at the same date, no token consumed
  auto semA = sg::Semaphore::create(0);
  sg::Actor::create("a", h, [&]() {
    bool to = semA->acquire_timeout(0.0);
    check(to && now() == 0.0, "(a) acquire_timeout(0) on empty semaphore times out at once", now(), to);
    sg::this_actor::sleep_for(1);
    semA->release(); // nobody must be waiting any more: the token goes to the capacity
    check(semA->get_capacity() == 1, "(a) no ghost waiter, no token consumed: capacity 1 after one release", now(), semA->get_capacity());
    bool to2 = semA->acquire_timeout(0.0);
    check(not to2 && semA->get_capacity() == 0, "(b') acquire_timeout(0) with a free token succeeds", now(), to2);
  });
  // (b) free token
  auto semB = sg::Semaphore::create(1);
  sg::Actor::create("b", h, [&]() {
    bool to = semB->acquire_timeout(0.0);
    check(not to && now() == 0.0 && semB->get_capacity() == 0, "(b) acquire_timeout(0) with a free token succeeds at once", now(), to);
  });
  // (d) plain acquire still blocks until the release at t=5; acquire_timeout(2) still times out at t=2
  auto semD = sg::Semaphore::create(0);
  sg::Actor::create("d1", h, [&]() { semD->acquire(); check(now() == 5.0, "(d) acquire() blocks until release", now(), 0); });
  sg::Actor::create("d2", h, [&]() { sg::this_actor::sleep_for(5); semD->release(); });
  auto semE = sg::Semaphore::create(0);
  sg::Actor::create("e", h, [&]() { bool to = semE->acquire_timeout(2); check(to && now() == 2.0, "(d) acquire_timeout(2) times out at t=2", now(), to); });
  // (c) condition variable
  auto mtx = sg::Mutex::create();
  auto cv  = sg::ConditionVariable::create();
  sg::Actor::create("c1", h, [&]() {
    mtx->lock();
    bool to = cv->wait_for(mtx, 0.0) == std::cv_status::timeout;
    check(to && now() == 0.0 && mtx->get_owner() == sg::Actor::self(), "(c) wait_for(lock,0) times out at once and I own the mutex", now(), to);
    mtx->unlock();
    sg::this_actor::sleep_for(1);
    mtx->lock();
    bool to2 = cv->wait_until(mtx, 0.5) == std::cv_status::timeout;
    check(to2 && now() == 1.0 && mtx->get_owner() == sg::Actor::self(), "(c) wait_until(past date) times out at once and I own the mutex", now(), to2);
    mtx->unlock();
  });
  auto mtx2 = sg::Mutex::create();
  auto cv2  = sg::ConditionVariable::create();
  sg::Actor::create("c2", h, [&]() {
    mtx2->lock();
    cv2->wait(mtx2);
    check(now() == 5.0 && mtx2->get_owner() == sg::Actor::self(), "(d) wait() blocks until notify", now(), 0);
    mtx2->unlock();
  });
  sg::Actor::create("c3", h, [&]() { sg::this_actor::sleep_for(5); cv2->notify_all(); });
  // contended mutex at the timeout: the waiter must come back only after the holder releases it
  auto mtx3 = sg::Mutex::create();
  auto cv3  = sg::ConditionVariable::create();
  sg::Actor::create("c4", h, [&]() {
    mtx3->lock();
    bool to = cv3->wait_for(mtx3, 0.0) == std::cv_status::timeout; // c5 grabs the mutex meanwhile? (same date)
    check(to && mtx3->get_owner() == sg::Actor::self(), "(c) timed-out waiter returns as owner even if the mutex is contended", now(), to);
    mtx3->unlock();
  });
  sg::Actor::create("c5", h, [&]() { mtx3->lock(); sg::this_actor::sleep_for(3); mtx3->unlock(); });
  e.run();
  printf("%d failed checks, end of simulation at t=%g\n", bad, now());
  return bad ? 1 : 0;
}
