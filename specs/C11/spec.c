/* C11 — Actor lifecycle (src/kernel/actor/ActorImpl.cpp): cleanup_from_self (on_exit callbacks), join, set_kill_time,
 * suspend / resume, kill.
 * Property: on_exit callbacks run exactly once, in reverse registration order, with failed == "the actor was killed";
 * join(t) returns when the target terminates or after t; an actor with a kill time dies exactly at that date;
 * suspended actors' activities are suspended until resumed.
 * Abstract view: ON_EXIT(p) = the vector *p.on_exit of closures (fn, env); ghost call log g_log_* of the callbacks;
 * ACTS(p) = the set p.activities_; ghost counters per activity (suspend/resume/cancel calls), per actor (exit calls,
 * run-list insertions), Timer::set log, Timer::remove counters.                                                     */
#define OC 4 /* capacity of an on_exit vector */
#define AC 3 /* capacity of an activities_ set = number of activities in the universe */
#include "gen.h"

struct ActorImpl g_p0, g_p1;
struct vf_seq_vf_fn g_oe0, g_oe1; /* the vectors behind p.on_exit */
struct vf_fn g_oed0[OC + 1], g_oed1[OC + 1];
struct ActivityImpl g_v0, g_v1, g_v2;
struct ActivityImpl *g_ak0[AC], *g_ak1[AC]; /* keys of p.activities_ */
struct ActivityImpl *g_ws0[AC], *g_ws1[AC]; /* p.waiting_synchros_ */
struct Action g_ma;
struct ActivityImpl g_sleep; /* the sleep activity ActorImpl::sleep returns */
struct Timer g_kt, g_tt, g_newtimer; /* a kill timer, a simcall timeout timer, the timer Timer::set returns */
struct EngineImpl g_engine;
char g_tok[OC + 1]; /* distinct addresses used as closure environments */

int g_log_n; /* ghost log of the on_exit callbacks: k-th call got (env, failed) */
void* g_log_env[OC + 1];
_Bool g_log_failed[OC + 1];
int g_set_calls; /* Timer::set log */
double g_set_date;
vf_fnptr g_set_fn;
void* g_set_cap0;
double g_clock;
double g_sleep_duration; /* argument of the last ActorImpl::sleep */
int g_sleep_calls;
int g_action_finish_calls, g_action_finish_state;
size_t gk;

#define IS_ACTOR(p) ((p) == &g_p0 || (p) == &g_p1)
#define IS_ACTV(v) ((v) == &g_v0 || (v) == &g_v1 || (v) == &g_v2)
#define WF_P(i)                                                                                                        \
  ((g_p##i.on_exit == NULL || g_p##i.on_exit == &g_oe##i) && g_oe##i.d == g_oed##i && g_oe##i.h == 0 &&                \
   g_oe##i.cap == OC + 1 && g_oe##i.n <= OC && g_p##i.activities_.k == g_ak##i && g_p##i.activities_.cap == AC &&      \
   g_p##i.activities_.n <= AC && (!(0 < g_p##i.activities_.n) || IS_ACTV(g_ak##i[0])) &&                               \
   (!(1 < g_p##i.activities_.n) || (IS_ACTV(g_ak##i[1]) && g_ak##i[1] != g_ak##i[0])) &&                               \
   (!(2 < g_p##i.activities_.n) || (IS_ACTV(g_ak##i[2]) && g_ak##i[2] != g_ak##i[0] && g_ak##i[2] != g_ak##i[1])) &&    \
   g_p##i.waiting_synchros_.d == g_ws##i && g_p##i.waiting_synchros_.h == 0 && g_p##i.waiting_synchros_.cap == AC &&   \
   g_p##i.waiting_synchros_.n <= AC && (g_p##i.kill_timer_ == NULL || g_p##i.kill_timer_ == &g_kt) &&                  \
   (g_p##i.simcall_.timeout_cb_ == NULL || g_p##i.simcall_.timeout_cb_ == &g_tt) && 0 <= g_p##i.vf_exit_calls &&       \
   g_p##i.vf_exit_calls < 1000 && 0 <= g_p##i.vf_runlist && g_p##i.vf_runlist < 1000)
#define WF_V(i)                                                                                                        \
  (0 <= g_v##i.vf_suspended && g_v##i.vf_suspended < 1000 && 0 <= g_v##i.vf_resumed && g_v##i.vf_resumed < 1000 &&     \
   0 <= g_v##i.vf_canceled && g_v##i.vf_canceled < 1000)
#define WF                                                                                                             \
  (WF_P(0) && WF_P(1) && WF_V(0) && WF_V(1) && WF_V(2) && 0 <= g_kt.vf_removed && g_kt.vf_removed < 1000 &&            \
   0 <= g_tt.vf_removed && g_tt.vf_removed < 1000 && 0 <= g_set_calls && g_set_calls < 1000 && 0 <= g_sleep_calls &&   \
   g_sleep_calls < 1000 && 0 <= g_action_finish_calls && g_action_finish_calls < 1000 &&                               \
   (g_sleep.model_action_ == NULL || g_sleep.model_action_ == &g_ma))
/* membership of activity i in the activities_ of actor p (selected without dereferencing p) */
#define SELP(p, E0, E1) ((p) == &g_p0 ? (E0) : (E1))
#define INSET_AT(p, v, k) ((k) < SELP(p, g_p0.activities_.n, g_p1.activities_.n) && SELP(p, g_ak0[k], g_ak1[k]) == (v))
#define INSET(p, v) (INSET_AT(p, v, 0) || INSET_AT(p, v, 1) || INSET_AT(p, v, 2))
#define OINSET_AT(p, v, k)                                                                                             \
  ((k) < SELP(p, __CPROVER_old(g_p0.activities_.n), __CPROVER_old(g_p1.activities_.n)) &&                              \
   SELP(p, __CPROVER_old(g_ak0[k]), __CPROVER_old(g_ak1[k])) == (v))
#define OLD_INSET(p, v) (OINSET_AT(p, v, 0) || OINSET_AT(p, v, 1) || OINSET_AT(p, v, 2))

/* ---------------- assumed contracts of callees outside C11 (listed in check.json) --------------------------------- */
_Bool ActorImpl__is_maestro(struct ActorImpl* self) __CPROVER_requires(IS_ACTOR(self)) __CPROVER_assigns()
    __CPROVER_ensures(__CPROVER_return_value == self->vf_is_maestro);
void sthread_disable(void) __CPROVER_requires(1) __CPROVER_assigns() __CPROVER_ensures(1);
void sthread_enable(void) __CPROVER_requires(1) __CPROVER_assigns() __CPROVER_ensures(1);
/* ActivityImpl::cancel (virtual): "cancel() removes the activity from this collection" (comment in the source): the
 * activity leaves the activities_ of the actor that is cleaning up (g_p0 in the harness), the others keep their order */
/* (no dereference of `self` in this contract: in the caller it is read from the array the previous call havocked, and
 * such a pointer has no points-to set for the symbolic executor - the counters are selected by comparing the pointer) */
#define CANCELED_ONE(i) (g_v##i.vf_canceled == __CPROVER_old(g_v##i.vf_canceled) + (self == &g_v##i ? 1 : 0))
void ActivityImpl__cancel(struct ActivityImpl* self)
    __CPROVER_requires(IS_ACTV(self))
    __CPROVER_requires(g_p0.activities_.n > 0 && g_p0.activities_.n <= AC)
    __CPROVER_requires(self == g_ak0[0])
    __CPROVER_requires(g_v0.vf_canceled < 2000 && g_v1.vf_canceled < 2000 && g_v2.vf_canceled < 2000)
    __CPROVER_assigns(g_v0.vf_canceled, g_v1.vf_canceled, g_v2.vf_canceled, g_p0.activities_.n,
                      __CPROVER_object_whole(g_ak0))
    __CPROVER_ensures(CANCELED_ONE(0) && CANCELED_ONE(1) && CANCELED_ONE(2) &&
                      g_p0.activities_.n == __CPROVER_old(g_p0.activities_.n) - 1 &&
                      g_ak0[0] == __CPROVER_old(g_ak0[1]) && g_ak0[1] == __CPROVER_old(g_ak0[2]));
void ActivityImpl__suspend(struct ActivityImpl* self) __CPROVER_requires(IS_ACTV(self) && self->vf_suspended < 2000)
    __CPROVER_assigns(self->vf_suspended) __CPROVER_ensures(self->vf_suspended == __CPROVER_old(self->vf_suspended) + 1);
void ActivityImpl__resume(struct ActivityImpl* self) __CPROVER_requires(IS_ACTV(self) && self->vf_resumed < 2000)
    __CPROVER_assigns(self->vf_resumed) __CPROVER_ensures(self->vf_resumed == __CPROVER_old(self->vf_resumed) + 1);
void Timer__remove(struct Timer* self) __CPROVER_requires((self == &g_kt || self == &g_tt) && self->vf_removed < 2000)
    __CPROVER_assigns(self->vf_removed) __CPROVER_ensures(self->vf_removed == __CPROVER_old(self->vf_removed) + 1);
double Engine__get_clock(void) __CPROVER_requires(1) __CPROVER_assigns() __CPROVER_ensures(__CPROVER_return_value == g_clock);
struct EngineImpl* get_instance(void) __CPROVER_requires(1) __CPROVER_assigns()
    __CPROVER_ensures(__CPROVER_return_value == &g_engine);
void EngineImpl__add_actor_to_run_list(struct EngineImpl* self, struct ActorImpl* a)
    __CPROVER_requires(self == &g_engine && IS_ACTOR(a) && a->vf_runlist < 2000) __CPROVER_assigns(a->vf_runlist)
    __CPROVER_ensures(a->vf_runlist == __CPROVER_old(a->vf_runlist) + 1);
void EngineImpl__add_actor_to_run_list_no_check(struct EngineImpl* self, struct ActorImpl* a)
    __CPROVER_requires(self == &g_engine && IS_ACTOR(a) && a->vf_runlist < 2000) __CPROVER_assigns(a->vf_runlist)
    __CPROVER_ensures(a->vf_runlist == __CPROVER_old(a->vf_runlist) + 1);
void ActorImpl__exit(struct ActorImpl* self) __CPROVER_requires(IS_ACTOR(self) && self->vf_exit_calls < 2000)
    __CPROVER_assigns(self->vf_exit_calls, self->iwannadie_, self->suspended_)
    __CPROVER_ensures(self->vf_exit_calls == __CPROVER_old(self->vf_exit_calls) + 1 && self->iwannadie_);
#define KT_ENV(cb) ((struct ActorImpl__set_kill_time__lambda0_env*)(cb).env)
struct Timer* Timer__set(double date, struct vf_fn cb)
    __CPROVER_requires(g_set_calls < 2000 && cb.env != NULL && date == date)
    __CPROVER_assigns(g_set_calls, g_set_date, g_set_fn, g_set_cap0)
    __CPROVER_ensures(__CPROVER_return_value == &g_newtimer && g_set_calls == __CPROVER_old(g_set_calls) + 1 &&
                      g_set_date == date && g_set_fn == cb.fn)
    __CPROVER_ensures(cb.fn != (vf_fnptr)ActorImpl__set_kill_time__lambda0 || g_set_cap0 == (void*)KT_ENV(cb)->self);
/* ActorImpl::sleep(d): a sleep activity of duration d on the actor's host (its model action may be absent) */
struct ActivityImpl* ActorImpl__sleep(struct ActorImpl* self, double duration)
    __CPROVER_requires(IS_ACTOR(self) && g_sleep_calls < 2000) __CPROVER_assigns(g_sleep_calls, g_sleep_duration)
    __CPROVER_ensures(__CPROVER_return_value == NULL || __CPROVER_pointer_in_range_dfcc(&g_sleep, __CPROVER_return_value, &g_sleep))
    __CPROVER_ensures(__CPROVER_return_value == &g_sleep && g_sleep_calls == __CPROVER_old(g_sleep_calls) + 1 &&
                      ((duration != duration && g_sleep_duration != g_sleep_duration) || g_sleep_duration == duration));
void Action__finish(struct Action* self, int state) __CPROVER_requires(self == &g_ma && g_action_finish_calls < 2000)
    __CPROVER_assigns(g_action_finish_calls, g_action_finish_state)
    __CPROVER_ensures(g_action_finish_calls == __CPROVER_old(g_action_finish_calls) + 1 && g_action_finish_state == state);

/* ---------------- contracts of the units -------------------------------------------------------------------------- */

/* cleanup_from_self: refused in maestro; otherwise every on_exit callback ran exactly once, LAST registered first, each
 * with failed == (the actor was marked as dying before the cleanup); the vector is dropped (a second cleanup runs
 * none); every activity of the actor is cancelled; both timers are removed; the actor is to_be_freed and wannadie */
#define OLD_OE_N __CPROVER_old(g_oe0.n)
void ActorImpl__cleanup_from_self(struct ActorImpl* self)
    __CPROVER_requires(self == &g_p0 && WF && vf_exc == 0 && g_log_n == 0)
    __CPROVER_assigns(vf_exc, g_p0.to_be_freed_, g_p0.iwannadie_, g_p0.on_exit, g_log_n, __CPROVER_object_whole(g_log_env),
                      __CPROVER_object_whole(g_log_failed), g_p0.activities_.n, __CPROVER_object_whole(g_ak0),
                      g_v0.vf_canceled, g_v1.vf_canceled, g_v2.vf_canceled, g_kt.vf_removed, g_tt.vf_removed,
                      g_p0.kill_timer_, g_p0.simcall_.timeout_cb_, g_p0.simcall_.observer_)
    __CPROVER_ensures((vf_exc == VF_EXC_ABORT) == (g_p0.vf_is_maestro != 0)) /*@ cleanup_refused_in_maestro */
    __CPROVER_ensures(vf_exc == 0 || vf_exc == VF_EXC_ABORT)
    __CPROVER_ensures(vf_exc != 0 || (g_p0.on_exit == NULL && g_p0.to_be_freed_ && g_p0.iwannadie_))
    /*@ cleanup_drops_callbacks_and_marks_actor_dead */
    __CPROVER_ensures(vf_exc != 0 || g_log_n == (__CPROVER_old(g_p0.on_exit) != NULL ? (int)OLD_OE_N : 0))
    /*@ cleanup_runs_each_callback_exactly_once */
    __CPROVER_ensures(vf_exc != 0 || __CPROVER_old(g_p0.on_exit) == NULL || !(gk < OLD_OE_N) ||
                      (g_log_env[gk] == g_oed0[OLD_OE_N - 1 - gk].env && g_log_failed[gk] == __CPROVER_old(g_p0.iwannadie_)))
    /*@ cleanup_runs_callbacks_in_reverse_registration_order_with_failed_flag */
    __CPROVER_ensures(vf_exc != 0 ||
                      (g_p0.activities_.n == 0 &&
                       g_v0.vf_canceled == __CPROVER_old(g_v0.vf_canceled) + (OLD_INSET(&g_p0, &g_v0) ? 1 : 0) &&
                       g_v1.vf_canceled == __CPROVER_old(g_v1.vf_canceled) + (OLD_INSET(&g_p0, &g_v1) ? 1 : 0) &&
                       g_v2.vf_canceled == __CPROVER_old(g_v2.vf_canceled) + (OLD_INSET(&g_p0, &g_v2) ? 1 : 0)))
    /*@ cleanup_cancels_every_activity_once */
    __CPROVER_ensures(vf_exc != 0 ||
                      (g_p0.kill_timer_ == NULL && g_p0.simcall_.timeout_cb_ == NULL && g_p0.simcall_.observer_ == NULL &&
                       g_kt.vf_removed == __CPROVER_old(g_kt.vf_removed) + (__CPROVER_old(g_p0.kill_timer_) != NULL ? 1 : 0) &&
                       g_tt.vf_removed ==
                           __CPROVER_old(g_tt.vf_removed) + (__CPROVER_old(g_p0.simcall_.timeout_cb_) != NULL ? 1 : 0)))
    /*@ cleanup_removes_kill_timer_and_timeout */;

/* loop 0: reverse walk over the callbacks; exit_fun is the base() of the reverse iterator */
#define POS(p)                                                                                                         \
  ((p) == &g_oed0[0] ? 0 : (p) == &g_oed0[1] ? 1 : (p) == &g_oed0[2] ? 2 : (p) == &g_oed0[3] ? 3 : (p) == &g_oed0[4] ? 4 : 99)
#define LOGGED(k)                                                                                                      \
  (!((k) < g_log_n) || (g_log_env[k] == g_oed0[g_oe0.n - 1 - (k)].env && g_log_failed[k] == failed))
#define VF_LOOP_ActorImpl__cleanup_from_self_0                                                                         \
  __CPROVER_assigns(exit_fun, g_log_n, __CPROVER_object_whole(g_log_env), __CPROVER_object_whole(g_log_failed))        \
      __CPROVER_loop_invariant(POS(exit_fun) <= g_oe0.n && vf_exc == 0 && g_log_n == (int)g_oe0.n - POS(exit_fun) &&   \
                               LOGGED(0) && LOGGED(1) && LOGGED(2) && LOGGED(3)) __CPROVER_decreases(POS(exit_fun))
/* loop 1: cancel the first activity until the set is empty */
#define LE(e) __CPROVER_loop_entry(e)
#define GONE_AT(i, k) ((k) < LE(g_p0.activities_.n) - g_p0.activities_.n && LE(g_ak0[k]) == &g_v##i)
#define GONE(i) (GONE_AT(i, 0) || GONE_AT(i, 1) || GONE_AT(i, 2))
#define CANC(i) (g_v##i.vf_canceled == LE(g_v##i.vf_canceled) + (GONE(i) ? 1 : 0))
#define SHIFTED(k)                                                                                                     \
  (!((k) < g_p0.activities_.n) ||                                                                                      \
   g_ak0[k] == (LE(g_p0.activities_.n) - g_p0.activities_.n + (k) == 0   ? LE(g_ak0[0])                                 \
                : LE(g_p0.activities_.n) - g_p0.activities_.n + (k) == 1 ? LE(g_ak0[1])                                 \
                                                                         : LE(g_ak0[2])))
#define VF_LOOP_ActorImpl__cleanup_from_self_1                                                                         \
  __CPROVER_assigns(g_p0.activities_.n, __CPROVER_object_whole(g_ak0), g_v0.vf_canceled, g_v1.vf_canceled,             \
                    g_v2.vf_canceled)                                                                                  \
      __CPROVER_loop_invariant(g_p0.activities_.n <= LE(g_p0.activities_.n) && vf_exc == 0 && SHIFTED(0) &&            \
                               SHIFTED(1) && SHIFTED(2) && CANC(0) && CANC(1) && CANC(2))                              \
          __CPROVER_decreases(g_p0.activities_.n)

/* suspend: idempotent; otherwise the actor is marked suspended and each of its activities is suspended once */
#define SUSP(i)                                                                                                        \
  (g_v##i.vf_suspended ==                                                                                              \
   __CPROVER_old(g_v##i.vf_suspended) + ((!__CPROVER_old(self->suspended_) && INSET(self, &g_v##i)) ? 1 : 0))
void ActorImpl__suspend(struct ActorImpl* self) __CPROVER_requires(IS_ACTOR(self) && WF && vf_exc == 0)
    __CPROVER_assigns(self->suspended_, g_v0.vf_suspended, g_v1.vf_suspended, g_v2.vf_suspended)
    __CPROVER_ensures(vf_exc == 0 && self->suspended_) /*@ suspend_marks_actor_suspended */
    __CPROVER_ensures(SUSP(0) && SUSP(1) && SUSP(2))   /*@ suspend_suspends_each_activity_once_unless_already_suspended */;
#define SEEN_AT(v, q) ((q) < __i0 && __r0->k[q] == (v))
#define SEEN(v) (SEEN_AT(v, 0) || SEEN_AT(v, 1) || SEEN_AT(v, 2))
#define S_INV(i) (g_v##i.vf_suspended == LE(g_v##i.vf_suspended) + (SEEN(&g_v##i) ? 1 : 0))
#define VF_LOOP_ActorImpl__suspend_0                                                                                   \
  __CPROVER_assigns(__i0, g_v0.vf_suspended, g_v1.vf_suspended, g_v2.vf_suspended)                                     \
      __CPROVER_loop_invariant(__i0 <= __r0->n && vf_exc == 0 && S_INV(0) && S_INV(1) && S_INV(2))                     \
          __CPROVER_decreases(__r0->n - __i0)

/* resume: ignored for a dying actor or one that is not suspended; otherwise each activity is resumed once and the
 * actor is rescheduled iff it waits on nothing */
#define DO_RESUME (!self->iwannadie_ && __CPROVER_old(self->suspended_))
#define RESU(i) (g_v##i.vf_resumed == __CPROVER_old(g_v##i.vf_resumed) + ((DO_RESUME && INSET(self, &g_v##i)) ? 1 : 0))
void ActorImpl__resume(struct ActorImpl* self) __CPROVER_requires(IS_ACTOR(self) && WF && vf_exc == 0)
    __CPROVER_assigns(self->suspended_, g_v0.vf_resumed, g_v1.vf_resumed, g_v2.vf_resumed, self->vf_runlist)
    __CPROVER_ensures(vf_exc == 0 && (self->iwannadie_ ? self->suspended_ == __CPROVER_old(self->suspended_)
                                                       : !self->suspended_))
    /*@ resume_clears_suspended_unless_dying */
    __CPROVER_ensures(RESU(0) && RESU(1) && RESU(2)) /*@ resume_resumes_each_activity_once */
    __CPROVER_ensures(self->vf_runlist ==
                      __CPROVER_old(self->vf_runlist) + ((DO_RESUME && self->waiting_synchros_.n == 0) ? 1 : 0))
    /*@ resume_reschedules_iff_not_waiting */;
#define R_INV(i) (g_v##i.vf_resumed == LE(g_v##i.vf_resumed) + (SEEN(&g_v##i) ? 1 : 0))
#define VF_LOOP_ActorImpl__resume_0                                                                                    \
  __CPROVER_assigns(__i0, g_v0.vf_resumed, g_v1.vf_resumed, g_v2.vf_resumed)                                           \
      __CPROVER_loop_invariant(__i0 <= __r0->n && vf_exc == 0 && R_INV(0) && R_INV(1) && R_INV(2))                     \
          __CPROVER_decreases(__r0->n - __i0)

/* set_kill_time(t): a date that is not in the future is ignored; otherwise exactly one timer, AT t, whose callback is
 * the kill lambda bound to this actor, remembered in kill_timer_ */
void ActorImpl__set_kill_time(struct ActorImpl* self, double kill_time)
    __CPROVER_requires(IS_ACTOR(self) && WF && vf_exc == 0 && kill_time == kill_time && g_clock == g_clock)
    __CPROVER_assigns(self->kill_timer_, g_set_calls, g_set_date, g_set_fn, g_set_cap0)
    __CPROVER_ensures(vf_exc == 0)
    __CPROVER_ensures(!(kill_time <= g_clock) || (g_set_calls == __CPROVER_old(g_set_calls) &&
                                                  self->kill_timer_ == __CPROVER_old(self->kill_timer_)))
    /*@ kill_time_in_the_past_is_ignored */
    __CPROVER_ensures(kill_time <= g_clock ||
                      (g_set_calls == __CPROVER_old(g_set_calls) + 1 && g_set_date == kill_time &&
                       g_set_fn == (vf_fnptr)ActorImpl__set_kill_time__lambda0 && g_set_cap0 == (void*)self &&
                       self->kill_timer_ == &g_newtimer)) /*@ kill_timer_fires_exactly_at_kill_time */;
/* the kill callback: the actor exits once, forgets its kill timer and is scheduled once */
#define K_ENV ((struct ActorImpl__set_kill_time__lambda0_env*)__env)
void ActorImpl__set_kill_time__lambda0(void* __env)
    __CPROVER_requires(__CPROVER_r_ok(K_ENV, sizeof(*K_ENV)) && IS_ACTOR(K_ENV->self) && WF && vf_exc == 0)
    __CPROVER_assigns(K_ENV->self->vf_exit_calls, K_ENV->self->iwannadie_, K_ENV->self->suspended_,
                      K_ENV->self->kill_timer_, K_ENV->self->vf_runlist)
    __CPROVER_ensures(vf_exc == 0 && K_ENV->self->vf_exit_calls == __CPROVER_old(K_ENV->self->vf_exit_calls) + 1 &&
                      K_ENV->self->iwannadie_ && K_ENV->self->kill_timer_ == NULL &&
                      K_ENV->self->vf_runlist == __CPROVER_old(K_ENV->self->vf_runlist) + 1)
    /*@ kill_callback_exits_once_and_schedules_once */;

/* join(target, t): a sleep of exactly t is created and returned; if the target is already dying / freed the sleep is
 * finished at once (FINISHED); otherwise ONE closure is appended to the target's on_exit that will finish that sleep */
#define J_ENV(f) ((struct ActorImpl__join__lambda0_env*)(f).env)
struct ActivityImpl* ActorImpl__join(struct ActorImpl* self, struct ActorImpl* actor, double timeout)
    __CPROVER_requires(IS_ACTOR(self) && IS_ACTOR(actor) && WF && vf_exc == 0 && g_p0.on_exit == &g_oe0 &&
                       g_p1.on_exit == &g_oe1 && g_oe0.n < OC && g_oe1.n < OC && timeout == timeout)
    __CPROVER_assigns(g_sleep_calls, g_sleep_duration, g_action_finish_calls, g_action_finish_state, g_oe0.n, g_oe1.n,
                      __CPROVER_object_whole(g_oed0), __CPROVER_object_whole(g_oed1))
    __CPROVER_ensures(vf_exc == 0 && __CPROVER_return_value == &g_sleep &&
                      g_sleep_calls == __CPROVER_old(g_sleep_calls) + 1 && g_sleep_duration == timeout)
    /*@ join_creates_a_sleep_of_the_timeout */
    __CPROVER_ensures(!(actor->iwannadie_ || actor->to_be_freed_) ||
                      (actor->on_exit->n == __CPROVER_old(actor->on_exit->n) &&
                       g_action_finish_calls == __CPROVER_old(g_action_finish_calls) + (g_sleep.model_action_ != NULL ? 1 : 0) &&
                       (g_sleep.model_action_ == NULL || g_action_finish_state == State__FINISHED)))
    /*@ join_on_terminated_target_returns_at_once */
    __CPROVER_ensures((actor->iwannadie_ || actor->to_be_freed_) ||
                      (actor->on_exit->n == __CPROVER_old(actor->on_exit->n) + 1 &&
                       actor->on_exit->d[__CPROVER_old(actor->on_exit->n)].fn == (vf_fnptr)ActorImpl__join__lambda0 &&
                       J_ENV(actor->on_exit->d[__CPROVER_old(actor->on_exit->n)])->sleep_activity == &g_sleep &&
                       g_action_finish_calls == __CPROVER_old(g_action_finish_calls)))
    /*@ join_registers_one_on_exit_callback_on_the_target */
    __CPROVER_ensures((actor->iwannadie_ || actor->to_be_freed_) || !(gk < __CPROVER_old(actor->on_exit->n)) ||
                      (actor->on_exit->d[gk].fn == __CPROVER_old(actor->on_exit->d[gk].fn) &&
                       actor->on_exit->d[gk].env == __CPROVER_old(actor->on_exit->d[gk].env)))
    /*@ join_keeps_earlier_callbacks */;
/* the on_exit callback of join: finishes the sleep (FINISHED) if it has a model action */
#define JL_ENV ((struct ActorImpl__join__lambda0_env*)__env)
void ActorImpl__join__lambda0(void* __env, _Bool __unused1)
    __CPROVER_requires(__CPROVER_r_ok(JL_ENV, sizeof(*JL_ENV)) && JL_ENV->sleep_activity == &g_sleep && WF && vf_exc == 0)
    __CPROVER_assigns(g_action_finish_calls, g_action_finish_state)
    __CPROVER_ensures(vf_exc == 0 &&
                      g_action_finish_calls == __CPROVER_old(g_action_finish_calls) + (g_sleep.model_action_ != NULL ? 1 : 0) &&
                      (g_sleep.model_action_ == NULL || g_action_finish_state == State__FINISHED))
    /*@ join_callback_finishes_the_sleep */;

/* kill(target): maestro cannot be killed; an actor already dying is left alone; otherwise the target exits once and is
 * scheduled once unless it is the killer itself */
void ActorImpl__kill(struct ActorImpl* self, struct ActorImpl* actor)
    __CPROVER_requires(IS_ACTOR(self) && IS_ACTOR(actor) && WF && vf_exc == 0)
    __CPROVER_assigns(vf_exc, actor->vf_exit_calls, actor->iwannadie_, actor->suspended_, actor->vf_runlist)
    __CPROVER_ensures((vf_exc == VF_EXC_ABORT) == (actor->vf_is_maestro != 0)) /*@ kill_refuses_maestro */
    __CPROVER_ensures(vf_exc == 0 || vf_exc == VF_EXC_ABORT)
    __CPROVER_ensures(actor->vf_exit_calls ==
                      __CPROVER_old(actor->vf_exit_calls) + ((vf_exc == 0 && !__CPROVER_old(actor->iwannadie_)) ? 1 : 0))
    /*@ kill_exits_a_live_target_exactly_once */
    __CPROVER_ensures(actor->vf_runlist == __CPROVER_old(actor->vf_runlist) +
                                               ((vf_exc == 0 && !__CPROVER_old(actor->iwannadie_) && actor != self) ? 1 : 0))
    /*@ kill_schedules_the_target_unless_suicide */;

#include "gen.c"

/* ---------------- harnesses -------------------------------------------------------------------------------------- */
int nondet_int(void);
_Bool nondet_bool(void);
double nondet_double(void);

/* a user on_exit callback: appends (env, failed) to the ghost log */
void cb_log(void* env, _Bool failed)
{
  if (g_log_n >= 0 && g_log_n <= OC) {
    g_log_env[g_log_n]    = env;
    g_log_failed[g_log_n] = failed;
  }
  g_log_n++;
}

static struct ActorImpl* pick_actor(void) { return nondet_bool() ? &g_p0 : &g_p1; }
static struct ActivityImpl* pick_actv(void)
{
  int i = nondet_int();
  __CPROVER_assume(0 <= i && i < 3);
  return i == 0 ? &g_v0 : i == 1 ? &g_v1 : &g_v2;
}
#define WIRE_P(i)                                                                                                      \
  g_oe##i.d                    = g_oed##i;                                                                             \
  g_oe##i.h                    = 0;                                                                                    \
  g_oe##i.cap                  = OC + 1;                                                                               \
  g_p##i.on_exit               = nondet_bool() ? NULL : &g_oe##i;                                                      \
  g_p##i.activities_.k         = g_ak##i;                                                                              \
  g_p##i.activities_.cap       = AC;                                                                                   \
  g_p##i.waiting_synchros_.d   = g_ws##i;                                                                              \
  g_p##i.waiting_synchros_.h   = 0;                                                                                    \
  g_p##i.waiting_synchros_.cap = AC;                                                                                   \
  g_p##i.kill_timer_           = nondet_bool() ? NULL : &g_kt;                                                         \
  g_p##i.simcall_.timeout_cb_  = nondet_bool() ? NULL : &g_tt;                                                         \
  for (int k = 0; k < AC; k++) {                                                                                       \
    g_ak##i[k] = pick_actv();                                                                                          \
    g_ws##i[k] = pick_actv();                                                                                          \
  }                                                                                                                    \
  for (int k = 0; k <= OC; k++) {                                                                                      \
    int t = nondet_int();                                                                                              \
    __CPROVER_assume(0 <= t && t <= OC);                                                                               \
    g_oed##i[k].fn  = (vf_fnptr)cb_log;                                                                                \
    g_oed##i[k].env = &g_tok[t];                                                                                       \
  }

static void setup(void)
{
  WIRE_P(0) WIRE_P(1)
  g_sleep.model_action_ = nondet_bool() ? NULL : &g_ma;
  vf_exc                = 0;
  g_log_n               = 0;
  __CPROVER_assume(gk < OC);
}

#ifdef H_cleanup_from_self
void harness(void)
{
  setup();
  ActorImpl__cleanup_from_self(&g_p0);
  VF_CANARY_POINT;
}
#endif
#ifdef H_suspend
void harness(void)
{
  setup();
  ActorImpl__suspend(pick_actor());
  VF_CANARY_POINT;
}
#endif
#ifdef H_resume
void harness(void)
{
  setup();
  ActorImpl__resume(pick_actor());
  VF_CANARY_POINT;
}
#endif
#ifdef H_set_kill_time
void harness(void)
{
  setup();
  ActorImpl__set_kill_time(pick_actor(), nondet_double());
  VF_CANARY_POINT;
}
#endif
#ifdef H_kill_callback
void harness(void)
{
  setup();
  struct ActorImpl__set_kill_time__lambda0_env env = {pick_actor()};
  ActorImpl__set_kill_time__lambda0(&env);
  VF_CANARY_POINT;
}
#endif
#ifdef H_join
void harness(void)
{
  setup();
  ActorImpl__join(pick_actor(), pick_actor(), nondet_double());
  VF_CANARY_POINT;
}
#endif
#ifdef H_join_callback
void harness(void)
{
  setup();
  struct ActorImpl__join__lambda0_env env = {&g_sleep};
  ActorImpl__join__lambda0(&env, nondet_bool());
  VF_CANARY_POINT;
}
#endif
#ifdef H_kill
void harness(void)
{
  setup();
  ActorImpl__kill(pick_actor(), pick_actor());
  VF_CANARY_POINT;
}
#endif
