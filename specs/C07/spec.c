/* C07 — Barrier semantics: waiters are released only in complete groups of n, in arrival order; no wait returns before
 * n actors (including itself) have arrived in its group.
 * Contracts on the real BarrierImpl / BarrierAcquisitionImpl methods (extracted by cxx2c into gen.c).
 * Abstract view of the barrier b: n = expected_actors_, Q(b) = arrivals of the current (incomplete) group, in arrival
 * order (ongoing_acquisitions_), each (issuer, granted).  A wait "returns" when ActorImpl::simcall_answer is called for
 * its issuer; the ghost log g_ans_log records these calls in order.  ActorImpl::vf_rank is a ghost field (units.json
 * extra_fields): for the issuer of a queued arrival, its arrival position in the current group.                        */
#include "gen.h"

#ifndef QCAP
#define QCAP 4 /* model capacity of the FIFO: barriers of size n <= QCAP + 1 are covered */
#endif
#define QSZ (2 * QCAP + 2)
#define NACT (QCAP + 1) /* arrivals of one group have pairwise distinct issuers: QCAP waiting + the arriving actor */
#define WCAP 2          /* model capacity of an actor's waiting_synchros_ */

/* ---------------- the state the harnesses build (all objects distinct, all pointers valid) ------------- */
struct ActorImpl g_act[NACT];
struct ActivityImpl* g_ws[NACT][WCAP + 2];
struct BarrierAcquisitionImpl g_acq[QSZ];
struct BarrierAcquisitionImpl* g_qd[QSZ];
struct BarrierImpl g_b;

/* ghost observers of the assumed callees */
int g_answered;                       /* number of ActorImpl::simcall_answer calls */
size_t g_ans_log[QCAP + 2];           /* ghost rank (vf_rank) of the actors answered, in call order */
int g_registered;                     /* number of register_simcall calls */

/* ---- s4u layer (Barrier::wait): the simcall machinery is a model (bodies below), the calls wait() makes are logged ---- */
struct Barrier g_bar;                 /* the s4u object, pimpl_ == &g_b */
struct ActorImpl* g_self;             /* what ActorImpl::self() returns: the calling actor */
int g_mc_active, g_mc_replay;         /* what MC_is_active() / MC_record_replay_is_active() return */
int g_in_kernel;                      /* 1 while maestro runs the closure of a simcall (kernel context), else 0 */
#define EV_ANSWERED_IN 1              /* a simcall_answered hands its closure to maestro */
#define EV_ANSWERED_OUT 2             /* ... and the caller is rescheduled unconditionally */
#define EV_BLOCKING_IN 3              /* a simcall_blocking hands its closure to maestro */
#define EV_BLOCKING_OUT 4             /* ... the caller resumes only when somebody calls simcall_answer() on it */
#define EV_ARRIVE 5                   /* call of BarrierImpl::acquire_async */
#define EV_WAITFOR 6                  /* call of BarrierAcquisitionImpl::wait_for */
#define NEV 8
int g_ev[NEV];                        /* ghost log of the events above, in order */
int g_nev;
_Bool g_ev_overflow;
struct BarrierImpl* g_arr_bar;        /* arguments / result of the (last) logged arrival */
struct ActorImpl* g_arr_issuer;
struct BarrierAcquisitionImpl* g_arr_ret;
struct BarrierAcquisitionImpl* g_wf_acq; /* arguments of the (last) logged wait_for */
struct ActorImpl* g_wf_issuer;
double g_wf_timeout;
size_t g_snap_n, g_snap_h;            /* barrier state when the kernel was last left (or wait() entered) */
unsigned g_snap_exp;
_Bool g_outside_write;                /* the barrier state changed while no closure was running */

#define Qh (g_b.ongoing_acquisitions_.h)
#define Qn (g_b.ongoing_acquisitions_.n)
#define Q(k) (g_qd[Qh + (k)])
#define oldQh __CPROVER_old(g_b.ongoing_acquisitions_.h)
#define oldQn __CPROVER_old(g_b.ongoing_acquisitions_.n)
#define ACT(a) ((a)->__b_ActivityImpl_T_BarrierAcquisitionImpl.__b_ActivityImpl)
#define SIMCALLS_N(a) (ACT(a).simcalls_.n)
#define NEXP ((size_t)g_b.expected_actors_)

#if QCAP == 4
#define IS_ACTOR(p) ((p) == &g_act[0] || (p) == &g_act[1] || (p) == &g_act[2] || (p) == &g_act[3] || (p) == &g_act[4])
#define ALLACT(P) (P(0) && P(1) && P(2) && P(3) && P(4))
#define ALLQ(P) (P(0) && P(1) && P(2) && P(3))
#define ALLPAIRS(P) (P(0, 1) && P(0, 2) && P(0, 3) && P(1, 2) && P(1, 3) && P(2, 3))
#define GRANTED_FLAGS                                                                                                  \
  g_acq[0].granted_, g_acq[1].granted_, g_acq[2].granted_, g_acq[3].granted_, g_acq[4].granted_, g_acq[5].granted_,    \
      g_acq[6].granted_, g_acq[7].granted_, g_acq[8].granted_, g_acq[9].granted_
#elif QCAP == 6
#define IS_ACTOR(p)                                                                                                    \
  ((p) == &g_act[0] || (p) == &g_act[1] || (p) == &g_act[2] || (p) == &g_act[3] || (p) == &g_act[4] ||                 \
   (p) == &g_act[5] || (p) == &g_act[6])
#define ALLACT(P) (P(0) && P(1) && P(2) && P(3) && P(4) && P(5) && P(6))
#define ALLQ(P) (P(0) && P(1) && P(2) && P(3) && P(4) && P(5))
#define ALLPAIRS(P)                                                                                                    \
  (P(0, 1) && P(0, 2) && P(0, 3) && P(0, 4) && P(0, 5) && P(1, 2) && P(1, 3) && P(1, 4) && P(1, 5) && P(2, 3) &&       \
   P(2, 4) && P(2, 5) && P(3, 4) && P(3, 5) && P(4, 5))
#define GRANTED_FLAGS                                                                                                  \
  g_acq[0].granted_, g_acq[1].granted_, g_acq[2].granted_, g_acq[3].granted_, g_acq[4].granted_, g_acq[5].granted_,    \
      g_acq[6].granted_, g_acq[7].granted_, g_acq[8].granted_, g_acq[9].granted_, g_acq[10].granted_,                  \
      g_acq[11].granted_, g_acq[12].granted_, g_acq[13].granted_
#else
#error "QCAP must be 4 or 6"
#endif

/* representation invariant of the barrier (wf_Bar of DESIGN.md): the current group is incomplete and nobody in it is
 * released; an actor blocked on the barrier cannot arrive again (pairwise distinct issuers)                          */
/* symmetry reduction: the arrivals are the objects g_acq[h..h+n), in order (the code looks at addresses of acquisitions
 * only through equality); every access is then an indexed access to g_acq (cheap for the solver)                    */
#define A(k) g_acq[Qh + (k)]
#define WF_ELEM(k)                                                                                                     \
  (!((k) < Qn) || (Q(k) == &A(k) && IS_ACTOR(A(k).issuer_) && A(k).barrier_ == &g_b && !A(k).granted_))
#define WF_PAIR(i, j) (!((j) < Qn) || A(i).issuer_ != A(j).issuer_)
#define WF_BAR                                                                                                         \
  (g_b.ongoing_acquisitions_.d == g_qd && g_b.ongoing_acquisitions_.cap == QSZ && Qn <= QCAP && Qh <= QCAP &&          \
   Qh + Qn <= QCAP && g_b.expected_actors_ >= 1 && Qn < NEXP && ALLQ(WF_ELEM) && ALLPAIRS(WF_PAIR))
#define WF_ACTOR(a)                                                                                                    \
  (g_act[a].waiting_synchros_.d == g_ws[a] && g_act[a].waiting_synchros_.h == 0 && g_act[a].waiting_synchros_.n <= WCAP)
#define WF_ACTORS ALLACT(WF_ACTOR)
/* assumed link with ActivityImpl (register_simcall / ActorImpl are assumed callees): an acquisition that sits in its
 * issuer's waiting_synchros_ has exactly one registered simcall                                                      */
#define WS(k) (A(k).issuer_->waiting_synchros_)
#define NOT_WAITED(k)                                                                                                  \
  ((WS(k).n <= 0 || WS(k).d[0] != &ACT(&A(k))) && (WS(k).n <= 1 || WS(k).d[1] != &ACT(&A(k))))
/* ghost labelling of the waiting actors by arrival position (exists because issuers are pairwise distinct) */
#define RANKED(k) (!((k) < Qn) || A(k).issuer_->vf_rank == (k))
#define LINK(k) (!((k) < Qn) || SIMCALLS_N(&A(k)) == 1 || NOT_WAITED(k))

/* ghost indices: an arbitrary queue position / two arbitrary log positions / an arbitrary acquisition object */
size_t gk;
size_t ga, gb;
size_t gj;
#define GHOSTS_OK (gk < QCAP && ga < QCAP + 2 && gb < QCAP + 2 && gj < QSZ)
#define LOG_OK (0 <= g_answered && g_answered <= QCAP)

/* ---------------- assumed contracts of callees outside C07 (listed in the evidence) -------------------- */
void ActivityImpl__register_simcall(struct ActivityImpl* self, struct Simcall* sc)
    __CPROVER_requires(__CPROVER_rw_ok(self, sizeof(*self))) __CPROVER_assigns(g_registered, self->simcalls_.n)
    __CPROVER_ensures(g_registered == __CPROVER_old(g_registered) + 1 &&
                      self->simcalls_.n == __CPROVER_old(self->simcalls_.n) + 1);

/* assumed: hands back the actor that registered, i.e. the acquisition's issuer (wait_for registers issuer_->simcall_),
 * and that actor is alive (the real function returns nullptr for a dying actor; BarrierAcquisitionImpl::finish does
 * not test for it — see level_note)                                                                                  */
struct ActorImpl* ActivityImpl__unregister_first_simcall(struct ActivityImpl* self)
    __CPROVER_requires(__CPROVER_r_ok((struct BarrierAcquisitionImpl*)self, sizeof(struct BarrierAcquisitionImpl)))
    __CPROVER_assigns()
    __CPROVER_ensures(__CPROVER_return_value == ((struct BarrierAcquisitionImpl*)self)->issuer_);

void ActorImpl__simcall_answer(struct ActorImpl* self)
    __CPROVER_requires(IS_ACTOR(self) && LOG_OK && GHOSTS_OK)
    __CPROVER_assigns(g_answered, __CPROVER_object_whole(g_ans_log))
    __CPROVER_ensures(g_answered == __CPROVER_old(g_answered) + 1 && g_ans_log[__CPROVER_old(g_answered)] == self->vf_rank)
    __CPROVER_ensures(!(ga < __CPROVER_old(g_answered)) || g_ans_log[ga] == __CPROVER_old(g_ans_log[ga]))
    __CPROVER_ensures(!(gb < __CPROVER_old(g_answered)) || g_ans_log[gb] == __CPROVER_old(g_ans_log[gb]));

/* ActivityImpl_T<> constructor: header default member initialisers (no simcall registered) */
void ActivityImpl_T_BarrierAcquisitionImpl__ctor(struct ActivityImpl_T_BarrierAcquisitionImpl* self)
    __CPROVER_requires(__CPROVER_rw_ok(self, sizeof(*self))) __CPROVER_assigns(*self)
    __CPROVER_ensures(self->__b_ActivityImpl.simcalls_.n == 0);

/* ---------------- contracts of the units ----------------------------------------------------------------- */

void BarrierAcquisitionImpl__ctor(struct BarrierAcquisitionImpl* self, struct ActorImpl* issuer, struct BarrierImpl* bar)
    __CPROVER_requires(__CPROVER_rw_ok(self, sizeof(*self)) && vf_exc == 0) __CPROVER_assigns(*self)
    __CPROVER_ensures(self->issuer_ == issuer && self->barrier_ == bar) /*@ ctor_records_issuer_and_barrier */
    __CPROVER_ensures(!self->granted_)                                  /*@ ctor_never_granted_at_creation */
    __CPROVER_ensures(SIMCALLS_N(self) == 0 && vf_exc == 0);

_Bool BarrierAcquisitionImpl__test(struct BarrierAcquisitionImpl* self, struct ActorImpl* issuer)
    __CPROVER_requires(__CPROVER_r_ok(self, sizeof(*self))) __CPROVER_assigns()
    __CPROVER_ensures(__CPROVER_return_value == self->granted_) /*@ test_true_iff_granted */;

_Bool BarrierImpl__was_last(struct BarrierImpl* self)
    __CPROVER_requires(__CPROVER_r_ok(self, sizeof(*self))) __CPROVER_assigns()
    __CPROVER_ensures(__CPROVER_return_value == (self->ongoing_acquisitions_.n == 0)) /*@ was_last_iff_group_empty */;

/* finish: the wait returns — exactly one answer, to the issuer */
void BarrierAcquisitionImpl__finish(struct BarrierAcquisitionImpl* self)
    __CPROVER_requires(__CPROVER_rw_ok(self, sizeof(*self)) && IS_ACTOR(self->issuer_) && vf_exc == 0 && LOG_OK &&
                       GHOSTS_OK)
    __CPROVER_assigns(vf_exc, g_answered, __CPROVER_object_whole(g_ans_log))
    __CPROVER_ensures((vf_exc == VF_EXC_ABORT) == (SIMCALLS_N(self) != 1)) /*@ finish_needs_exactly_one_waiter */
    __CPROVER_ensures(vf_exc == 0 || vf_exc == VF_EXC_ABORT)
    __CPROVER_ensures(vf_exc == 0 || g_answered == __CPROVER_old(g_answered))
    __CPROVER_ensures(vf_exc != 0 || (g_answered == __CPROVER_old(g_answered) + 1 &&
                                      g_ans_log[__CPROVER_old(g_answered)] == self->issuer_->vf_rank))
    /*@ finish_answers_the_issuer_once */
    __CPROVER_ensures(!(ga < __CPROVER_old(g_answered)) || g_ans_log[ga] == __CPROVER_old(g_ans_log[ga]))
    __CPROVER_ensures(!(gb < __CPROVER_old(g_answered)) || g_ans_log[gb] == __CPROVER_old(g_ans_log[gb]))
    /*@ finish_keeps_the_log */;

/* wait_for: only the creator may wait, no timeouts; the wait returns at once iff the group is already complete.
 * (called right after acquire_async in the same simcall: the arrivals released there are already in the log)           */
void BarrierAcquisitionImpl__wait_for(struct BarrierAcquisitionImpl* self, struct ActorImpl* issuer, double timeout)
    __CPROVER_requires(__CPROVER_rw_ok(self, sizeof(*self)) && IS_ACTOR(self->issuer_) &&
                       __CPROVER_r_ok(self->issuer_, sizeof(struct ActorImpl)) && vf_exc == 0 && 0 <= g_registered &&
                       g_registered <= QCAP && LOG_OK && GHOSTS_OK && SIMCALLS_N(self) == 0)
    __CPROVER_requires(g_in_kernel == 1) /*@ wait_for_runs_in_kernel_context_only */
    __CPROVER_assigns(vf_exc, g_registered, g_answered, __CPROVER_object_whole(g_ans_log), SIMCALLS_N(self))
    __CPROVER_ensures((vf_exc == VF_EXC_ABORT) == (issuer != self->issuer_ || !(timeout < 0.0)))
    /*@ wait_for_rejects_misuse */
    __CPROVER_ensures(vf_exc == 0 || vf_exc == VF_EXC_ABORT)
    __CPROVER_ensures(vf_exc != 0 || g_registered == __CPROVER_old(g_registered) + 1) /*@ wait_for_registers_the_waiter */
    __CPROVER_ensures(vf_exc != 0 || g_answered == __CPROVER_old(g_answered) + (self->granted_ ? 1 : 0))
    /*@ wait_returns_iff_granted */
    __CPROVER_ensures(vf_exc == 0 || (g_answered == __CPROVER_old(g_answered) && g_registered == __CPROVER_old(g_registered)));

/* acquire_async: the arrival.  The n-th arrival of a group releases the whole group (itself included) and re-arms the
 * barrier; any earlier arrival is queued at the tail and releases nobody.                                            */
#define NOT_MINE(k) (!((k) < Qn) || A(k).issuer_ != issuer)
struct BarrierAcquisitionImpl* BarrierImpl__acquire_async(struct BarrierImpl* self, struct ActorImpl* issuer)
    __CPROVER_requires(self == &g_b && WF_BAR && WF_ACTORS && IS_ACTOR(issuer) && vf_exc == 0 &&
                       g_answered == 0 && GHOSTS_OK && ALLQ(LINK) && ALLQ(RANKED))
    /* model capacity: an arrival that has to be queued finds room */
    __CPROVER_requires(Qn + 1 == NEXP || Qh + Qn + 1 <= QCAP)
    /* assumed from the s4u layer: the caller is not already blocked on this barrier */
    __CPROVER_requires(ALLQ(NOT_MINE))
    __CPROVER_requires(g_in_kernel == 1) /*@ arrival_runs_in_kernel_context_only */
    __CPROVER_assigns(vf_exc, g_b.ongoing_acquisitions_.n, __CPROVER_object_whole(g_qd), GRANTED_FLAGS, g_answered,
                      __CPROVER_object_whole(g_ans_log))
    __CPROVER_ensures(__CPROVER_is_fresh(__CPROVER_return_value, sizeof(struct BarrierAcquisitionImpl)))
    /*@ arrival_acq_is_a_new_object */
    __CPROVER_ensures(vf_exc == 0 && __CPROVER_return_value != NULL)
    __CPROVER_ensures(SIMCALLS_N(__CPROVER_return_value) == 0) /*@ arrival_acq_has_no_waiter_yet */
    __CPROVER_ensures(__CPROVER_return_value->issuer_ == issuer && __CPROVER_return_value->barrier_ == &g_b)
    /*@ arrival_acq_is_mine */
    __CPROVER_ensures(__CPROVER_return_value->granted_ == (oldQn + 1 == NEXP)) /*@ arrival_granted_iff_nth_of_group */
    __CPROVER_ensures(oldQn + 1 == NEXP ||
                      (Qn == oldQn + 1 && Qh == oldQh && Q(oldQn) == __CPROVER_return_value && g_answered == 0))
    /*@ incomplete_group_queues_at_tail_and_answers_nobody */
    __CPROVER_ensures(oldQn + 1 == NEXP || !(gk < oldQn) ||
                      (Q(gk) == &A(gk) && !A(gk).granted_ &&
                       A(gk).issuer_ == __CPROVER_old(g_acq[g_b.ongoing_acquisitions_.h + gk].issuer_)))
    /*@ incomplete_group_releases_nobody */
    __CPROVER_ensures(oldQn + 1 != NEXP || (Qn == 0 && Qh == oldQh)) /*@ complete_group_rearms_the_barrier */
    __CPROVER_ensures(oldQn + 1 != NEXP || !(gk < oldQn) || g_acq[Qh + gk].granted_)
    /*@ complete_group_releases_every_waiter */
    __CPROVER_ensures(!(gj < oldQh || gj >= oldQh + oldQn) || g_acq[gj].granted_ == __CPROVER_old(g_acq[gj].granted_))
    /*@ nobody_outside_the_group_is_released */
    __CPROVER_ensures(0 <= g_answered && (size_t)g_answered <= oldQn) /*@ at_most_one_answer_per_waiter */
    __CPROVER_ensures(!(ga < gb && gb < (size_t)g_answered) || g_ans_log[ga] < g_ans_log[gb])
    /*@ waits_return_in_arrival_order */
    __CPROVER_ensures(!(ga < (size_t)g_answered) || g_ans_log[ga] < oldQn)
    /*@ only_waiters_of_the_group_return */
    __CPROVER_ensures(Qn < NEXP) /*@ arrival_keeps_the_group_incomplete */;
/* wf_Bar of the new state follows piecewise from the clauses above (old arrivals untouched, the new one is a fresh
 * object of another issuer and not granted, or the queue is empty); stating WF over a queue that holds a heap object
 * does not terminate in the solver                                                                                   */

/* ================= s4u::Barrier::wait ==========================================================================
 * Model of the simcall layer (assumed; include/simgrid/simcall.hpp, ActorImpl::simcall_handle): the closure of a simcall
 * is run exactly once, by maestro (kernel context), while the issuer is suspended.  After simcall_answered the issuer is
 * rescheduled unconditionally; after simcall_blocking it resumes only when somebody calls simcall_answer() on it, and
 * gets the result stored in the observer.  The C model cannot suspend: it logs which kind of simcall was issued and the
 * contract of wait() states that its return is gated by a blocking simcall that registered the caller on its own arrival. */
static void vf_ev(int e)
{
  if (g_nev < NEV) {
    g_ev[g_nev] = e;
    g_nev++;
  } else
    g_ev_overflow = 1;
}
static void kernel_enter(int e)
{
  vf_ev(e);
  if (Qn != g_snap_n || Qh != g_snap_h || g_b.expected_actors_ != g_snap_exp)
    g_outside_write = 1;
  g_in_kernel = 1;
}
static void kernel_leave(int e)
{
  g_in_kernel = 0;
  g_snap_n    = Qn;
  g_snap_h    = Qh;
  g_snap_exp  = g_b.expected_actors_;
  vf_ev(e);
}
/* one model per instantiation of the templates (units.json template_methods): result type of the closure */
struct BarrierAcquisitionImpl* simcall_answered__struct_BarrierAcquisitionImpl_ptr(struct vf_fn* code,
                                                                                   struct SimcallObserver* observer)
{
  kernel_enter(EV_ANSWERED_IN);
  struct BarrierAcquisitionImpl* r = ((struct BarrierAcquisitionImpl * (*)(void*)) code->fn)(code->env);
  kernel_leave(EV_ANSWERED_OUT);
  return r;
}
void simcall_answered__void(struct vf_fn* code, struct SimcallObserver* observer)
{
  kernel_enter(EV_ANSWERED_IN);
  ((void (*)(void*))code->fn)(code->env);
  kernel_leave(EV_ANSWERED_OUT);
}
_Bool simcall_answered__Bool(struct vf_fn* code, struct SimcallObserver* observer)
{
  kernel_enter(EV_ANSWERED_IN);
  _Bool r = ((_Bool(*)(void*))code->fn)(code->env);
  kernel_leave(EV_ANSWERED_OUT);
  return r;
}
_Bool simcall_blocking__Bool(struct vf_fn* code, struct DelayedSimcallObserver_bool* observer)
{
  kernel_enter(EV_BLOCKING_IN);
  ((void (*)(void*))code->fn)(code->env);
  kernel_leave(EV_BLOCKING_OUT);
  return observer->vf_result; /* observer->get_result() */
}
void DelayedSimcallObserver_bool__set_result(struct DelayedSimcallObserver_bool* self, _Bool v)
{
  self->vf_result = v;
}
struct ActorImpl* ActorImpl__self(void)
{
  return g_self;
}
int MC_is_active(void)
{
  return g_mc_active;
}
int MC_record_replay_is_active(void)
{
  return g_mc_replay;
}
/* observers: only their address is used (assumed constructors; the result slot starts undefined) */
void BarrierObserver__ctor_bar(struct BarrierObserver* self, struct ActorImpl* actor, int type, struct BarrierImpl* bar)
    __CPROVER_requires(__CPROVER_rw_ok(self, sizeof(*self))) __CPROVER_assigns(*self);
void BarrierObserver__ctor_acq(struct BarrierObserver* self, struct ActorImpl* actor, int type,
                               struct BarrierAcquisitionImpl* acq, double timeout)
    __CPROVER_requires(__CPROVER_rw_ok(self, sizeof(*self))) __CPROVER_assigns(*self);

/* ghost wrappers around the two calls wait() must make (units.json call_hooks): log, then make the real call (which the
 * harness replaces by the contract proved above) */
struct BarrierAcquisitionImpl* hook_acquire_async(struct BarrierImpl* b, struct ActorImpl* issuer)
{
  vf_ev(EV_ARRIVE);
  g_arr_bar    = b;
  g_arr_issuer = issuer;
  g_arr_ret    = BarrierImpl__acquire_async(b, issuer);
  return g_arr_ret;
}
void hook_wait_for(struct BarrierAcquisitionImpl* a, struct ActorImpl* issuer, double timeout)
{
  vf_ev(EV_WAITFOR);
  g_wf_acq     = a;
  g_wf_issuer  = issuer;
  g_wf_timeout = timeout;
  BarrierAcquisitionImpl__wait_for(a, issuer, timeout);
}
#define VF_CALL_BarrierImpl__acquire_async(b, i) hook_acquire_async(b, i)
#define VF_CALL_BarrierAcquisitionImpl__wait_for(a, i, t) hook_wait_for(a, i, t)

#define NOT_ME(k) (!((k) < Qn) || A(k).issuer_ != g_self)
#define EV4(a, b, c, d) (!g_ev_overflow && g_nev == 4 && g_ev[0] == (a) && g_ev[1] == (b) && g_ev[2] == (c) && g_ev[3] == (d))
#define EV6(a, b, c, d, e, f)                                                                                          \
  (!g_ev_overflow && g_nev == 6 && g_ev[0] == (a) && g_ev[1] == (b) && g_ev[2] == (c) && g_ev[3] == (d) &&             \
   g_ev[4] == (e) && g_ev[5] == (f))
#define MC_RUN (g_mc_active != 0 || g_mc_replay != 0)
/* wait(): one arrival of the caller, made in kernel context; the caller then blocks on THAT arrival (so it resumes when
 * BarrierAcquisitionImpl::finish answers it, i.e. when its group is complete - contracts above); nothing else touches
 * the barrier.  Plain run: both in ONE blocking simcall; MC / replay: arrival in an answered simcall, then the wait.    */
int Barrier__wait(struct Barrier* self)
    __CPROVER_requires(self == &g_bar && g_bar.pimpl_ == &g_b && WF_BAR && WF_ACTORS && IS_ACTOR(g_self) &&
                       vf_exc == 0 && g_answered == 0 && g_registered == 0 && GHOSTS_OK && ALLQ(LINK) && ALLQ(RANKED))
    __CPROVER_requires(Qn + 1 == NEXP || Qh + Qn + 1 <= QCAP)
    /* the head offset of the deque model is not observable; acquire_async is proved for every offset, its caller is
     * checked at offset 0 (a symbolic offset in the precondition of the replaced contract costs > 10 GB)             */
    __CPROVER_requires(Qh == 0)
    /* the caller is running, hence not blocked on this barrier */
    __CPROVER_requires(ALLQ(NOT_ME))
    __CPROVER_requires(g_in_kernel == 0 && g_nev == 0 && !g_ev_overflow && !g_outside_write && g_snap_n == Qn &&
                       g_snap_h == Qh && g_snap_exp == g_b.expected_actors_)
    __CPROVER_assigns(vf_exc, g_b.ongoing_acquisitions_.n, __CPROVER_object_whole(g_qd), GRANTED_FLAGS, g_answered,
                      __CPROVER_object_whole(g_ans_log), g_registered, g_in_kernel, g_nev, __CPROVER_object_whole(g_ev),
                      g_ev_overflow, g_arr_bar, g_arr_issuer, g_arr_ret, g_wf_acq, g_wf_issuer, g_wf_timeout, g_snap_n,
                      g_snap_h, g_snap_exp, g_outside_write)
    __CPROVER_ensures(vf_exc == 0) /*@ wait_never_aborts */
    __CPROVER_ensures(MC_RUN || EV4(EV_BLOCKING_IN, EV_ARRIVE, EV_WAITFOR, EV_BLOCKING_OUT))
    /*@ plain_wait_is_one_blocking_simcall_arrival_then_wait_for */
    __CPROVER_ensures(!MC_RUN ||
                      EV6(EV_ANSWERED_IN, EV_ARRIVE, EV_ANSWERED_OUT, EV_BLOCKING_IN, EV_WAITFOR, EV_BLOCKING_OUT))
    /*@ mc_wait_is_an_answered_arrival_then_a_blocking_wait_for */
    __CPROVER_ensures(g_nev >= 1 && g_nev <= NEV && g_ev[g_nev - 1] == EV_BLOCKING_OUT)
    /*@ wait_returns_only_when_a_blocking_simcall_is_answered */
    __CPROVER_ensures(g_arr_bar == &g_b && g_arr_issuer == g_self) /*@ wait_arrives_once_as_the_caller_on_its_barrier */
    __CPROVER_ensures(g_wf_acq == g_arr_ret && g_wf_issuer == g_self && g_wf_timeout < 0.0)
    /*@ wait_blocks_on_its_own_arrival_without_timeout */
    __CPROVER_ensures(g_registered == 1) /*@ wait_registers_the_caller_exactly_once */
    __CPROVER_ensures(g_arr_ret->granted_ == (oldQn + 1 == NEXP)) /*@ wait_is_released_at_once_iff_nth_of_group */
    __CPROVER_ensures(!g_outside_write && g_in_kernel == 0 && Qn == g_snap_n && Qh == g_snap_h &&
                      g_b.expected_actors_ == g_snap_exp)
    /*@ wait_changes_the_barrier_only_inside_simcalls */
    __CPROVER_ensures(MC_RUN || (__CPROVER_return_value != 0) == (oldQn + 1 == NEXP))
    /*@ plain_wait_returns_true_iff_caller_completed_the_group */;

/* loop 0 of acquire_async: release of the complete group, in queue order */
#define VF_LOOP_BarrierImpl__acquire_async_0                                                                           \
  __CPROVER_assigns(__i0, vf_exc, GRANTED_FLAGS, g_answered, __CPROVER_object_whole(g_ans_log))                        \
      __CPROVER_loop_invariant(__i0 <= Qn && vf_exc == 0 && 0 <= g_answered && (size_t)g_answered <= __i0 &&           \
                               (!(gk < __i0) || A(gk).granted_) &&                                                    \
                               (!(gj < Qh || gj >= Qh + Qn) ||                                                         \
                                g_acq[gj].granted_ == __CPROVER_loop_entry(g_acq[gj].granted_)) &&                     \
                               (!(ga < (size_t)g_answered) || g_ans_log[ga] < __i0) &&                                 \
                               (!(gb < (size_t)g_answered) || g_ans_log[gb] < __i0) &&                                 \
                               (!(ga < gb && gb < (size_t)g_answered) || g_ans_log[ga] < g_ans_log[gb]))               \
          __CPROVER_decreases(Qn - __i0)

#include "gen.c"

/* ---------------- harnesses -------------------------------------------------------------------------------- */
size_t nondet_size(void);
int nondet_int(void);
_Bool nondet_bool(void);
double nondet_double(void);

static struct ActorImpl* pick_actor(void)
{
  int i = nondet_int();
  __CPROVER_assume(0 <= i && i < NACT);
  return &g_act[i];
}

static void setup(void)
{
  for (int a = 0; a < NACT; a++) {
    g_act[a].waiting_synchros_.d   = g_ws[a];
    g_act[a].waiting_synchros_.h   = 0;
    g_act[a].waiting_synchros_.cap = WCAP + 2;
    size_t n                       = nondet_size();
    __CPROVER_assume(n <= WCAP);
    g_act[a].waiting_synchros_.n = n;
  }
  for (int k = 0; k < QSZ; k++) {
    g_qd[k]                    = &g_acq[k];
    g_acq[k].issuer_           = pick_actor();
    g_acq[k].barrier_          = &g_b;
    ACT(&g_acq[k]).simcalls_.d = NULL;
  }
  g_b.ongoing_acquisitions_.d   = g_qd;
  g_b.ongoing_acquisitions_.cap = QSZ;
  vf_exc                        = 0;
  g_answered                    = 0;
  g_registered                  = 0;
  g_in_kernel                   = 1; /* the kernel-side units are called by maestro */
  g_bar.pimpl_                  = &g_b;
  g_self                        = pick_actor();
  __CPROVER_assume(GHOSTS_OK);
}

static struct BarrierAcquisitionImpl* pick_acq(void)
{
  size_t k = nondet_size();
  __CPROVER_assume(k < QSZ);
  return &g_acq[k];
}

#ifdef H_ctor
struct BarrierAcquisitionImpl g_fresh;
void harness(void)
{
  setup();
  BarrierAcquisitionImpl__ctor(&g_fresh, pick_actor(), &g_b);
  VF_CANARY_POINT;
}
#endif
#ifdef H_acq_test
void harness(void)
{
  setup();
  BarrierAcquisitionImpl__test(pick_acq(), pick_actor());
  VF_CANARY_POINT;
}
#endif
#ifdef H_was_last
void harness(void)
{
  setup();
  BarrierImpl__was_last(&g_b);
  VF_CANARY_POINT;
}
#endif
#ifdef H_finish
void harness(void)
{
  setup();
  int n = nondet_int();
  __CPROVER_assume(0 <= n && n <= QCAP);
  g_answered = n;
  BarrierAcquisitionImpl__finish(pick_acq());
  VF_CANARY_POINT;
}
#endif
#ifdef H_wait_for
void harness(void)
{
  setup();
  int n = nondet_int(), m = nondet_int();
  __CPROVER_assume(0 <= n && n <= QCAP && 0 <= m && m <= QCAP);
  g_answered   = n;
  g_registered = m;
  BarrierAcquisitionImpl__wait_for(pick_acq(), pick_actor(), nondet_double());
  VF_CANARY_POINT;
}
#endif
#ifdef H_acquire_async
void harness(void)
{
  setup();
  BarrierImpl__acquire_async(&g_b, pick_actor());
  VF_CANARY_POINT;
}
#endif
#if defined(H_s4u_wait_plain) || defined(H_s4u_wait_mc)
void harness(void)
{
  setup();
  g_in_kernel     = 0; /* wait() is called by an actor */
  g_nev           = 0;
  g_ev_overflow   = 0;
  g_outside_write = 0;
  Qh              = 0;
  g_snap_n        = Qn;
  g_snap_h        = Qh;
  g_snap_exp      = g_b.expected_actors_;
  g_mc_active     = nondet_int();
  g_mc_replay     = nondet_int();
#ifdef H_s4u_wait_plain
  __CPROVER_assume(!MC_RUN);
#else
  __CPROVER_assume(MC_RUN);
#endif
  Barrier__wait(&g_bar);
  VF_CANARY_POINT;
}
#endif
