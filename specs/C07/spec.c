/* C07 — Barrier semantics: waiters are released only in complete groups of n, in arrival order; no wait returns before
 * n actors (including itself) have arrived in its group.
 * Contracts on the real BarrierImpl / BarrierAcquisitionImpl methods (extracted by cxx2c into gen.c).
 * Abstract view of the barrier b: n = expected_actors_, Q(b) = arrivals of the current (incomplete) group, in arrival
 * order (ongoing_acquisitions_), each (issuer, granted).  A wait "returns" when ActorImpl::simcall_answer is called for
 * its issuer; the ghost log g_ans_log records these calls in order.  ActorImpl::vf_rank is a ghost field (units.json
 * extra_fields): for the issuer of a queued arrival, its arrival position in the current group.                        */
#include "gen.h"

#ifndef QCAP
#define QCAP 4 /* model capacity of the FIFO: barriers of size n <= QCAP + 1 are covered */
#endif
#define QSZ (2 * QCAP + 2)
#define NACT (QCAP + 1) /* arrivals of one group have pairwise distinct issuers: QCAP waiting + the arriving actor */
#define WCAP 2          /* model capacity of an actor's waiting_synchros_ */

/* ---------------- the state the harnesses build (all objects distinct, all pointers valid) ------------- */
struct ActorImpl g_act[NACT];
struct ActivityImpl* g_ws[NACT][WCAP + 2];
struct BarrierAcquisitionImpl g_acq[QSZ];
struct BarrierAcquisitionImpl* g_qd[QSZ];
struct BarrierImpl g_b;

/* ghost observers of the assumed callees */
int g_answered;                       /* number of ActorImpl::simcall_answer calls */
size_t g_ans_log[QCAP + 2];           /* ghost rank (vf_rank) of the actors answered, in call order */
int g_registered;                     /* number of register_simcall calls */

#define Qh (g_b.ongoing_acquisitions_.h)
#define Qn (g_b.ongoing_acquisitions_.n)
#define Q(k) (g_qd[Qh + (k)])
#define oldQh __CPROVER_old(g_b.ongoing_acquisitions_.h)
#define oldQn __CPROVER_old(g_b.ongoing_acquisitions_.n)
#define ACT(a) ((a)->__b_ActivityImpl_T_BarrierAcquisitionImpl.__b_ActivityImpl)
#define SIMCALLS_N(a) (ACT(a).simcalls_.n)
#define NEXP ((size_t)g_b.expected_actors_)

#if QCAP == 4
#define IS_ACTOR(p) ((p) == &g_act[0] || (p) == &g_act[1] || (p) == &g_act[2] || (p) == &g_act[3] || (p) == &g_act[4])
#define ALLACT(P) (P(0) && P(1) && P(2) && P(3) && P(4))
#define ALLQ(P) (P(0) && P(1) && P(2) && P(3))
#define ALLPAIRS(P) (P(0, 1) && P(0, 2) && P(0, 3) && P(1, 2) && P(1, 3) && P(2, 3))
#define GRANTED_FLAGS                                                                                                  \
  g_acq[0].granted_, g_acq[1].granted_, g_acq[2].granted_, g_acq[3].granted_, g_acq[4].granted_, g_acq[5].granted_,    \
      g_acq[6].granted_, g_acq[7].granted_, g_acq[8].granted_, g_acq[9].granted_
#elif QCAP == 6
#define IS_ACTOR(p)                                                                                                    \
  ((p) == &g_act[0] || (p) == &g_act[1] || (p) == &g_act[2] || (p) == &g_act[3] || (p) == &g_act[4] ||                 \
   (p) == &g_act[5] || (p) == &g_act[6])
#define ALLACT(P) (P(0) && P(1) && P(2) && P(3) && P(4) && P(5) && P(6))
#define ALLQ(P) (P(0) && P(1) && P(2) && P(3) && P(4) && P(5))
#define ALLPAIRS(P)                                                                                                    \
  (P(0, 1) && P(0, 2) && P(0, 3) && P(0, 4) && P(0, 5) && P(1, 2) && P(1, 3) && P(1, 4) && P(1, 5) && P(2, 3) &&       \
   P(2, 4) && P(2, 5) && P(3, 4) && P(3, 5) && P(4, 5))
#define GRANTED_FLAGS                                                                                                  \
  g_acq[0].granted_, g_acq[1].granted_, g_acq[2].granted_, g_acq[3].granted_, g_acq[4].granted_, g_acq[5].granted_,    \
      g_acq[6].granted_, g_acq[7].granted_, g_acq[8].granted_, g_acq[9].granted_, g_acq[10].granted_,                  \
      g_acq[11].granted_, g_acq[12].granted_, g_acq[13].granted_
#else
#error "QCAP must be 4 or 6"
#endif

/* representation invariant of the barrier (wf_Bar of DESIGN.md): the current group is incomplete and nobody in it is
 * released; an actor blocked on the barrier cannot arrive again (pairwise distinct issuers)                          */
/* symmetry reduction: the arrivals are the objects g_acq[h..h+n), in order (the code looks at addresses of acquisitions
 * only through equality); every access is then an indexed access to g_acq (cheap for the solver)                    */
#define A(k) g_acq[Qh + (k)]
#define WF_ELEM(k)                                                                                                     \
  (!((k) < Qn) || (Q(k) == &A(k) && IS_ACTOR(A(k).issuer_) && A(k).barrier_ == &g_b && !A(k).granted_))
#define WF_PAIR(i, j) (!((j) < Qn) || A(i).issuer_ != A(j).issuer_)
#define WF_BAR                                                                                                         \
  (g_b.ongoing_acquisitions_.d == g_qd && g_b.ongoing_acquisitions_.cap == QSZ && Qn <= QCAP && Qh <= QCAP &&          \
   Qh + Qn <= QCAP && g_b.expected_actors_ >= 1 && Qn < NEXP && ALLQ(WF_ELEM) && ALLPAIRS(WF_PAIR))
#define WF_ACTOR(a)                                                                                                    \
  (g_act[a].waiting_synchros_.d == g_ws[a] && g_act[a].waiting_synchros_.h == 0 && g_act[a].waiting_synchros_.n <= WCAP)
#define WF_ACTORS ALLACT(WF_ACTOR)
/* assumed link with ActivityImpl (register_simcall / ActorImpl are assumed callees): an acquisition that sits in its
 * issuer's waiting_synchros_ has exactly one registered simcall                                                      */
#define WS(k) (A(k).issuer_->waiting_synchros_)
#define NOT_WAITED(k)                                                                                                  \
  ((WS(k).n <= 0 || WS(k).d[0] != &ACT(&A(k))) && (WS(k).n <= 1 || WS(k).d[1] != &ACT(&A(k))))
/* ghost labelling of the waiting actors by arrival position (exists because issuers are pairwise distinct) */
#define RANKED(k) (!((k) < Qn) || A(k).issuer_->vf_rank == (k))
#define LINK(k) (!((k) < Qn) || SIMCALLS_N(&A(k)) == 1 || NOT_WAITED(k))

/* ghost indices: an arbitrary queue position / two arbitrary log positions / an arbitrary acquisition object */
size_t gk;
size_t ga, gb;
size_t gj;
#define GHOSTS_OK (gk < QCAP && ga < QCAP + 2 && gb < QCAP + 2 && gj < QSZ)
#define LOG_OK (0 <= g_answered && g_answered <= QCAP)

/* ---------------- assumed contracts of callees outside C07 (listed in the evidence) -------------------- */
void ActivityImpl__register_simcall(struct ActivityImpl* self, struct Simcall* sc)
    __CPROVER_requires(__CPROVER_rw_ok(self, sizeof(*self))) __CPROVER_assigns(g_registered, self->simcalls_.n)
    __CPROVER_ensures(g_registered == __CPROVER_old(g_registered) + 1 &&
                      self->simcalls_.n == __CPROVER_old(self->simcalls_.n) + 1);

/* assumed: hands back the actor that registered, i.e. the acquisition's issuer (wait_for registers issuer_->simcall_),
 * and that actor is alive (the real function returns nullptr for a dying actor; BarrierAcquisitionImpl::finish does
 * not test for it — see level_note)                                                                                  */
struct ActorImpl* ActivityImpl__unregister_first_simcall(struct ActivityImpl* self)
    __CPROVER_requires(__CPROVER_r_ok((struct BarrierAcquisitionImpl*)self, sizeof(struct BarrierAcquisitionImpl)))
    __CPROVER_assigns()
    __CPROVER_ensures(__CPROVER_return_value == ((struct BarrierAcquisitionImpl*)self)->issuer_);

void ActorImpl__simcall_answer(struct ActorImpl* self)
    __CPROVER_requires(IS_ACTOR(self) && LOG_OK && GHOSTS_OK)
    __CPROVER_assigns(g_answered, __CPROVER_object_whole(g_ans_log))
    __CPROVER_ensures(g_answered == __CPROVER_old(g_answered) + 1 && g_ans_log[__CPROVER_old(g_answered)] == self->vf_rank)
    __CPROVER_ensures(!(ga < __CPROVER_old(g_answered)) || g_ans_log[ga] == __CPROVER_old(g_ans_log[ga]))
    __CPROVER_ensures(!(gb < __CPROVER_old(g_answered)) || g_ans_log[gb] == __CPROVER_old(g_ans_log[gb]));

/* ActivityImpl_T<> constructor: header default member initialisers (no simcall registered) */
void ActivityImpl_T_BarrierAcquisitionImpl__ctor(struct ActivityImpl_T_BarrierAcquisitionImpl* self)
    __CPROVER_requires(__CPROVER_rw_ok(self, sizeof(*self))) __CPROVER_assigns(*self)
    __CPROVER_ensures(self->__b_ActivityImpl.simcalls_.n == 0);

/* ---------------- contracts of the units ----------------------------------------------------------------- */

void BarrierAcquisitionImpl__ctor(struct BarrierAcquisitionImpl* self, struct ActorImpl* issuer, struct BarrierImpl* bar)
    __CPROVER_requires(__CPROVER_rw_ok(self, sizeof(*self)) && vf_exc == 0) __CPROVER_assigns(*self)
    __CPROVER_ensures(self->issuer_ == issuer && self->barrier_ == bar) /*@ ctor_records_issuer_and_barrier */
    __CPROVER_ensures(!self->granted_)                                  /*@ ctor_never_granted_at_creation */
    __CPROVER_ensures(SIMCALLS_N(self) == 0 && vf_exc == 0);

_Bool BarrierAcquisitionImpl__test(struct BarrierAcquisitionImpl* self, struct ActorImpl* issuer)
    __CPROVER_requires(__CPROVER_r_ok(self, sizeof(*self))) __CPROVER_assigns()
    __CPROVER_ensures(__CPROVER_return_value == self->granted_) /*@ test_true_iff_granted */;

_Bool BarrierImpl__was_last(struct BarrierImpl* self)
    __CPROVER_requires(__CPROVER_r_ok(self, sizeof(*self))) __CPROVER_assigns()
    __CPROVER_ensures(__CPROVER_return_value == (self->ongoing_acquisitions_.n == 0)) /*@ was_last_iff_group_empty */;

/* finish: the wait returns — exactly one answer, to the issuer */
void BarrierAcquisitionImpl__finish(struct BarrierAcquisitionImpl* self)
    __CPROVER_requires(__CPROVER_rw_ok(self, sizeof(*self)) && IS_ACTOR(self->issuer_) && vf_exc == 0 && LOG_OK &&
                       GHOSTS_OK)
    __CPROVER_assigns(vf_exc, g_answered, __CPROVER_object_whole(g_ans_log))
    __CPROVER_ensures((vf_exc == VF_EXC_ABORT) == (SIMCALLS_N(self) != 1)) /*@ finish_needs_exactly_one_waiter */
    __CPROVER_ensures(vf_exc == 0 || vf_exc == VF_EXC_ABORT)
    __CPROVER_ensures(vf_exc == 0 || g_answered == __CPROVER_old(g_answered))
    __CPROVER_ensures(vf_exc != 0 || (g_answered == __CPROVER_old(g_answered) + 1 &&
                                      g_ans_log[__CPROVER_old(g_answered)] == self->issuer_->vf_rank))
    /*@ finish_answers_the_issuer_once */
    __CPROVER_ensures(!(ga < __CPROVER_old(g_answered)) || g_ans_log[ga] == __CPROVER_old(g_ans_log[ga]))
    __CPROVER_ensures(!(gb < __CPROVER_old(g_answered)) || g_ans_log[gb] == __CPROVER_old(g_ans_log[gb]))
    /*@ finish_keeps_the_log */;

/* wait_for: only the creator may wait, no timeouts; the wait returns at once iff the group is already complete */
void BarrierAcquisitionImpl__wait_for(struct BarrierAcquisitionImpl* self, struct ActorImpl* issuer, double timeout)
    __CPROVER_requires(__CPROVER_rw_ok(self, sizeof(*self)) && IS_ACTOR(self->issuer_) &&
                       __CPROVER_r_ok(self->issuer_, sizeof(struct ActorImpl)) && vf_exc == 0 && g_registered == 0 &&
                       g_answered == 0 && GHOSTS_OK && SIMCALLS_N(self) == 0)
    __CPROVER_assigns(vf_exc, g_registered, g_answered, __CPROVER_object_whole(g_ans_log), SIMCALLS_N(self))
    __CPROVER_ensures((vf_exc == VF_EXC_ABORT) == (issuer != self->issuer_ || !(timeout < 0.0)))
    /*@ wait_for_rejects_misuse */
    __CPROVER_ensures(vf_exc == 0 || vf_exc == VF_EXC_ABORT)
    __CPROVER_ensures(vf_exc != 0 || g_registered == 1) /*@ wait_for_registers_the_waiter */
    __CPROVER_ensures(vf_exc != 0 || g_answered == (self->granted_ ? 1 : 0)) /*@ wait_returns_iff_granted */
    __CPROVER_ensures(vf_exc == 0 || g_answered == 0);

/* acquire_async: the arrival.  The n-th arrival of a group releases the whole group (itself included) and re-arms the
 * barrier; any earlier arrival is queued at the tail and releases nobody.                                            */
#define NOT_MINE(k) (!((k) < Qn) || A(k).issuer_ != issuer)
struct BarrierAcquisitionImpl* BarrierImpl__acquire_async(struct BarrierImpl* self, struct ActorImpl* issuer)
    __CPROVER_requires(self == &g_b && WF_BAR && WF_ACTORS && IS_ACTOR(issuer) && vf_exc == 0 &&
                       g_answered == 0 && GHOSTS_OK && ALLQ(LINK) && ALLQ(RANKED))
    /* model capacity: an arrival that has to be queued finds room */
    __CPROVER_requires(Qn + 1 == NEXP || Qh + Qn + 1 <= QCAP)
    /* assumed from the s4u layer: the caller is not already blocked on this barrier */
    __CPROVER_requires(ALLQ(NOT_MINE))
    __CPROVER_assigns(vf_exc, g_b.ongoing_acquisitions_.n, __CPROVER_object_whole(g_qd), GRANTED_FLAGS, g_answered,
                      __CPROVER_object_whole(g_ans_log))
    __CPROVER_ensures(vf_exc == 0 && __CPROVER_return_value != NULL)
    __CPROVER_ensures(__CPROVER_return_value->issuer_ == issuer && __CPROVER_return_value->barrier_ == &g_b)
    /*@ arrival_acq_is_mine */
    __CPROVER_ensures(__CPROVER_return_value->granted_ == (oldQn + 1 == NEXP)) /*@ arrival_granted_iff_nth_of_group */
    __CPROVER_ensures(oldQn + 1 == NEXP ||
                      (Qn == oldQn + 1 && Qh == oldQh && Q(oldQn) == __CPROVER_return_value && g_answered == 0))
    /*@ incomplete_group_queues_at_tail_and_answers_nobody */
    __CPROVER_ensures(oldQn + 1 == NEXP || !(gk < oldQn) ||
                      (Q(gk) == &A(gk) && !A(gk).granted_ &&
                       A(gk).issuer_ == __CPROVER_old(g_acq[g_b.ongoing_acquisitions_.h + gk].issuer_)))
    /*@ incomplete_group_releases_nobody */
    __CPROVER_ensures(oldQn + 1 != NEXP || (Qn == 0 && Qh == oldQh)) /*@ complete_group_rearms_the_barrier */
    __CPROVER_ensures(oldQn + 1 != NEXP || !(gk < oldQn) || g_acq[Qh + gk].granted_)
    /*@ complete_group_releases_every_waiter */
    __CPROVER_ensures(!(gj < oldQh || gj >= oldQh + oldQn) || g_acq[gj].granted_ == __CPROVER_old(g_acq[gj].granted_))
    /*@ nobody_outside_the_group_is_released */
    __CPROVER_ensures(0 <= g_answered && (size_t)g_answered <= oldQn) /*@ at_most_one_answer_per_waiter */
    __CPROVER_ensures(!(ga < gb && gb < (size_t)g_answered) || g_ans_log[ga] < g_ans_log[gb])
    /*@ waits_return_in_arrival_order */
    __CPROVER_ensures(!(ga < (size_t)g_answered) || g_ans_log[ga] < oldQn)
    /*@ only_waiters_of_the_group_return */
    __CPROVER_ensures(Qn < NEXP) /*@ arrival_keeps_the_group_incomplete */;
/* wf_Bar of the new state follows piecewise from the clauses above (old arrivals untouched, the new one is a fresh
 * object of another issuer and not granted, or the queue is empty); stating WF over a queue that holds a heap object
 * does not terminate in the solver                                                                                   */

/* loop 0 of acquire_async: release of the complete group, in queue order */
#define VF_LOOP_BarrierImpl__acquire_async_0                                                                           \
  __CPROVER_assigns(__i0, vf_exc, GRANTED_FLAGS, g_answered, __CPROVER_object_whole(g_ans_log))                        \
      __CPROVER_loop_invariant(__i0 <= Qn && vf_exc == 0 && 0 <= g_answered && (size_t)g_answered <= __i0 &&           \
                               (!(gk < __i0) || A(gk).granted_) &&                                                    \
                               (!(gj < Qh || gj >= Qh + Qn) ||                                                         \
                                g_acq[gj].granted_ == __CPROVER_loop_entry(g_acq[gj].granted_)) &&                     \
                               (!(ga < (size_t)g_answered) || g_ans_log[ga] < __i0) &&                                 \
                               (!(gb < (size_t)g_answered) || g_ans_log[gb] < __i0) &&                                 \
                               (!(ga < gb && gb < (size_t)g_answered) || g_ans_log[ga] < g_ans_log[gb]))               \
          __CPROVER_decreases(Qn - __i0)

#include "gen.c"

/* ---------------- harnesses -------------------------------------------------------------------------------- */
size_t nondet_size(void);
int nondet_int(void);
_Bool nondet_bool(void);
double nondet_double(void);

static struct ActorImpl* pick_actor(void)
{
  int i = nondet_int();
  __CPROVER_assume(0 <= i && i < NACT);
  return &g_act[i];
}

static void setup(void)
{
  for (int a = 0; a < NACT; a++) {
    g_act[a].waiting_synchros_.d   = g_ws[a];
    g_act[a].waiting_synchros_.h   = 0;
    g_act[a].waiting_synchros_.cap = WCAP + 2;
    size_t n                       = nondet_size();
    __CPROVER_assume(n <= WCAP);
    g_act[a].waiting_synchros_.n = n;
  }
  for (int k = 0; k < QSZ; k++) {
    g_qd[k]                    = &g_acq[k];
    g_acq[k].issuer_           = pick_actor();
    g_acq[k].barrier_          = &g_b;
    ACT(&g_acq[k]).simcalls_.d = NULL;
  }
  g_b.ongoing_acquisitions_.d   = g_qd;
  g_b.ongoing_acquisitions_.cap = QSZ;
  vf_exc                        = 0;
  g_answered                    = 0;
  g_registered                  = 0;
  __CPROVER_assume(GHOSTS_OK);
}

static struct BarrierAcquisitionImpl* pick_acq(void)
{
  size_t k = nondet_size();
  __CPROVER_assume(k < QSZ);
  return &g_acq[k];
}

#ifdef H_ctor
struct BarrierAcquisitionImpl g_fresh;
void harness(void)
{
  setup();
  BarrierAcquisitionImpl__ctor(&g_fresh, pick_actor(), &g_b);
  VF_CANARY_POINT;
}
#endif
#ifdef H_acq_test
void harness(void)
{
  setup();
  BarrierAcquisitionImpl__test(pick_acq(), pick_actor());
  VF_CANARY_POINT;
}
#endif
#ifdef H_was_last
void harness(void)
{
  setup();
  BarrierImpl__was_last(&g_b);
  VF_CANARY_POINT;
}
#endif
#ifdef H_finish
void harness(void)
{
  setup();
  int n = nondet_int();
  __CPROVER_assume(0 <= n && n <= QCAP);
  g_answered = n;
  BarrierAcquisitionImpl__finish(pick_acq());
  VF_CANARY_POINT;
}
#endif
#ifdef H_wait_for
void harness(void)
{
  setup();
  BarrierAcquisitionImpl__wait_for(pick_acq(), pick_actor(), nondet_double());
  VF_CANARY_POINT;
}
#endif
#ifdef H_acquire_async
void harness(void)
{
  setup();
  BarrierImpl__acquire_async(&g_b, pick_actor());
  VF_CANARY_POINT;
}
#endif
