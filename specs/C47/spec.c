/* C47 — Paje traces have non-decreasing timestamps: the ordering mechanism of src/instr/instr_paje_trace.cpp.
 * Units: PajeEvent::insert_into_buffer (keeps the event buffer sorted by timestamp, stable) and dump_buffer (prints and
 * erases exactly the sorted prefix up to last_timestamp_to_dump, or everything when forced / in TI format).
 * Abstract view: the buffer as the sequence g_buf[0..n) of event pointers, TS(k) the timestamp of the k-th one,
 * and the ghost log g_log[0..g_nlog) of the events printed so far (in print order).                                 */
#include "gen.h"

#ifndef CAP
#define CAP 4 /* model capacity: at most CAP buffered events before the call */
#endif
#define QSZ (CAP + 2)

struct PajeEvent g_ev[QSZ];  /* events in the buffer (any assignment of slots to events) */
struct PajeEvent g_new;      /* the event being inserted */
struct PajeEvent* g_buf[QSZ];
struct PajeEvent* g_old[QSZ]; /* ghost: snapshot of the buffer before the call (pinned by the preconditions) */
struct PajeEvent* g_log[QSZ]; /* ghost: events printed, in order */
size_t g_nlog;
size_t g_oldn;               /* ghost: buffer length before the call */
_Bool g_enabled;             /* ghost: what TRACE_is_enabled() answers */
size_t gk;                   /* ghost index: obligations mentioning it hold for every position */

#define Bn (buffer.n)
#define TS(k) (g_buf[k]->timestamp_)
#define OTS(k) (g_old[k]->timestamp_)
#define H last_timestamp_to_dump

#if CAP == 4
#define ALLQ(P) (P(0) && P(1) && P(2) && P(3) && P(4) && P(5))
#elif CAP == 6
#define ALLQ(P) (P(0) && P(1) && P(2) && P(3) && P(4) && P(5) && P(6) && P(7))
#else
#error "CAP must be 4 or 6"
#endif

#define IS_EV(p) (__CPROVER_same_object((p), g_ev) && (p) >= &g_ev[0] && (p) <= &g_ev[QSZ - 1])
#define ELEM_OK(k) (g_buf[k] == g_old[k] && IS_EV(g_buf[k]) && !__CPROVER_isnand(g_buf[k]->timestamp_))
#define SORTED_AT(k) (!((k) + 1 < Bn) || TS(k) <= TS((k) + 1))
#define SORTED ALLQ(SORTED_AT)
#define WF_BUF(maxn)                                                                                                   \
  (buffer.d == g_buf && buffer.h == 0 && buffer.cap == QSZ && Bn <= (maxn) && g_oldn == Bn && ALLQ(ELEM_OK))

/* ---------------- assumed callees ---------------------------------------------------------------------------- */
_Bool TRACE_is_enabled(void) __CPROVER_requires(1) __CPROVER_assigns()
    __CPROVER_ensures(__CPROVER_return_value == g_enabled);

/* PajeEvent::print (virtual; writes one line of the trace): observed through the ghost log */
void PajeEvent__print(struct PajeEvent* self)
    __CPROVER_requires(g_nlog < QSZ) __CPROVER_assigns(g_nlog, VF_PT(g_log[g_nlog]))
    __CPROVER_ensures(g_nlog == __CPROVER_old(g_nlog) + 1 && g_log[__CPROVER_old(g_nlog)] == self && vf_exc == 0);

/* ---------------- insert_into_buffer ------------------------------------------------------------------------- */
/* position of the new event in a sorted buffer: after every event with timestamp <= its own, before every later one */
#define NEW_POS_IS(p)                                                                                                  \
  (((p) == 0 || OTS((p) - 1) <= g_new.timestamp_) && ((p) == g_oldn || OTS(p) > g_new.timestamp_))
void PajeEvent__insert_into_buffer(struct PajeEvent* self)
    __CPROVER_requires(self == &g_new && !__CPROVER_isnand(g_new.timestamp_) && WF_BUF(CAP) && SORTED && vf_exc == 0)
    __CPROVER_assigns(buffer.n, __CPROVER_object_whole(g_buf))
    __CPROVER_ensures(vf_exc == 0 && Bn == g_oldn + 1)                                   /*@ insert_adds_one_event */
    __CPROVER_ensures(SORTED)                                                            /*@ insert_keeps_buffer_sorted */
    __CPROVER_ensures(!(gk <= g_oldn && NEW_POS_IS(gk)) || g_buf[gk] == &g_new)
    /*@ insert_after_all_not_later_before_all_later */
    __CPROVER_ensures(!(gk < g_oldn) || g_buf[gk + (OTS(gk) > g_new.timestamp_ ? 1 : 0)] == g_old[gk])
    /*@ insert_other_events_keep_their_order */;

/* loop 0: backwards scan for the last event that is not later than the new one */
#define I_OFF ((size_t)__CPROVER_POINTER_OFFSET(i)) /* i is a pointer into g_buf: its byte offset */
#define LATER_FROM_I(k) (!((size_t)(k) < Bn && (size_t)(k) * sizeof(struct PajeEvent*) >= I_OFF) || TS(k) > self->timestamp_)
#define VF_LOOP_PajeEvent__insert_into_buffer_0                                                                        \
  __CPROVER_assigns(i)                                                                                                 \
      __CPROVER_loop_invariant(__CPROVER_same_object(i, g_buf) && I_OFF <= Bn * sizeof(struct PajeEvent*) &&         \
                               I_OFF % sizeof(struct PajeEvent*) == 0 && ALLQ(LATER_FROM_I))                           \
          __CPROVER_decreases(I_OFF)

/* ---------------- dump_buffer -------------------------------------------------------------------------------- */
void dump_buffer(_Bool force)
    __CPROVER_requires(WF_BUF(CAP + 1) && SORTED && g_nlog == 0 && vf_exc == 0 && !__CPROVER_isnand(H))
    __CPROVER_assigns(buffer.n, __CPROVER_object_whole(g_buf), g_nlog, __CPROVER_object_whole(g_log))
    __CPROVER_ensures(vf_exc == 0)
    __CPROVER_ensures(g_enabled || (g_nlog == 0 && Bn == g_oldn && (!(gk < g_oldn) || g_buf[gk] == g_old[gk])))
    /*@ dump_does_nothing_when_tracing_is_off */
    __CPROVER_ensures(!(g_enabled && (force || trace_format == TraceFormat__Ti)) || (g_nlog == g_oldn && Bn == 0))
    /*@ forced_dump_prints_everything_and_empties_the_buffer */
    __CPROVER_ensures(!g_enabled || !(gk < g_nlog) || g_log[gk] == g_old[gk])
    /*@ dump_prints_a_prefix_in_buffer_order */
    /* the printed events are g_old[0..g_nlog) (clause above); their timestamps are read through g_old because CBMC
       cannot dereference pointers stored in memory that a loop contract has havocked (g_log) */
    __CPROVER_ensures(!g_enabled || !(gk + 1 < g_nlog) || OTS(gk) <= OTS(gk + 1))
    /*@ printed_timestamps_are_non_decreasing */
    __CPROVER_ensures(!(g_enabled && !force && trace_format != TraceFormat__Ti) ||
                      ((!(gk < g_nlog) || OTS(gk) <= H) && (g_nlog == g_oldn || OTS(g_nlog) > H)))
    /*@ unforced_dump_prints_exactly_the_events_up_to_the_horizon */
    __CPROVER_ensures(!g_enabled || (Bn == g_oldn - g_nlog && (!(gk < Bn) || g_buf[gk] == g_old[gk + g_nlog])))
    /*@ dump_erases_exactly_what_it_printed */
    __CPROVER_ensures(!(g_enabled && !force && trace_format != TraceFormat__Ti) || !(gk < Bn) || TS(gk) > H)
    /*@ every_event_left_is_later_than_the_horizon */
    __CPROVER_ensures(!g_enabled || SORTED) /*@ dump_keeps_buffer_sorted */;

#define PRINTED_0(k) (!((size_t)(k) < __i0) || g_log[k] == g_buf[k])
#define VF_LOOP_dump_buffer_0                                                                                          \
  __CPROVER_assigns(__i0, g_nlog, __CPROVER_object_whole(g_log))                                                       \
      __CPROVER_loop_invariant(__i0 <= __r0->n && g_nlog == __i0 && vf_exc == 0 && ALLQ(PRINTED_0))                    \
          __CPROVER_decreases(__r0->n - __i0)
#define PRINTED_1(k) (!((size_t)(k) < __i1) || (g_log[k] == g_buf[k] && TS(k) <= H))
#define VF_LOOP_dump_buffer_1                                                                                          \
  __CPROVER_assigns(__i1, i, g_nlog, __CPROVER_object_whole(g_log))                                                    \
      __CPROVER_loop_invariant(__i1 <= __r1->n && g_nlog == __i1 && i == g_buf + __i1 && vf_exc == 0 &&               \
                               ALLQ(PRINTED_1)) __CPROVER_decreases(__r1->n - __i1)

/* ---------------- Container::~Container ---------------------------------------------------------------------- */
/* Property: a trace never uses a container after destroying it. Mechanism: on EVERY destruction the dump horizon
 * becomes the current clock and the whole buffer is dumped (forced) BEFORE the destruction is signalled
 * (on_destruction writes the DestroyContainer line), whatever the previous horizon was.
 * The signal is an assumed callee that records what it sees when it fires (ghost).                                  */
#define NCH 2
struct Container g_cont;
struct vf_pair_vf_str__ContainerP g_child_ent[NCH + 1];
struct vf_pair_vf_str__ContainerP g_all_ent[NCH + 2];
double g_clock;             /* ghost: what simgrid_get_clock() answers */
int g_sig_calls;            /* ghost: number of on_destruction signals */
struct Container* g_sig_arg;
size_t g_sig_buffered;      /* ghost: events still buffered when the signal fired */
size_t g_sig_printed;       /* ghost: events printed when the signal fired */
double g_sig_horizon;       /* ghost: last_timestamp_to_dump when the signal fired */

double simgrid_get_clock(void) __CPROVER_requires(1) __CPROVER_assigns()
    __CPROVER_ensures(__CPROVER_return_value == g_clock && vf_exc == 0);

void signal_Container____operator_call(struct signal_Container__* self, struct Container* c)
    __CPROVER_requires(self == &on_destruction)
    __CPROVER_assigns(g_sig_calls, g_sig_arg, g_sig_buffered, g_sig_printed, g_sig_horizon)
    __CPROVER_ensures(g_sig_calls == __CPROVER_old(g_sig_calls) + 1 && g_sig_arg == c && g_sig_buffered == buffer.n &&
                      g_sig_printed == g_nlog && g_sig_horizon == last_timestamp_to_dump && vf_exc == 0);

void Container__dtor_Container(struct Container* self)
    __CPROVER_requires(self == &g_cont && g_cont.children_.e == g_child_ent && g_cont.children_.n <= NCH &&
                       g_cont.children_.cap == NCH + 1 && all_containers_.e == g_all_ent &&
                       all_containers_.n <= NCH + 1 && all_containers_.cap == NCH + 2 && g_sig_calls == 0 &&
                       !__CPROVER_isnand(g_clock))
    __CPROVER_requires(WF_BUF(CAP + 1) && SORTED && g_nlog == 0 && vf_exc == 0 && !__CPROVER_isnand(H))
    __CPROVER_assigns(last_timestamp_to_dump, buffer.n, __CPROVER_object_whole(g_buf), g_nlog,
                      __CPROVER_object_whole(g_log), all_containers_.n, __CPROVER_object_whole(g_all_ent), g_sig_calls,
                      g_sig_arg, g_sig_buffered, g_sig_printed, g_sig_horizon)
    __CPROVER_ensures(vf_exc == 0 && g_sig_calls == 1 && g_sig_arg == &g_cont) /*@ destruction_signalled_exactly_once */
    __CPROVER_ensures(g_sig_horizon == g_clock && H == g_clock) /*@ horizon_becomes_the_current_clock_before_the_signal */
    __CPROVER_ensures(!g_enabled || (g_sig_buffered == 0 && g_sig_printed == g_oldn))
    /*@ whole_buffer_dumped_before_destruction_is_signalled */
    __CPROVER_ensures(!g_enabled || !(gk < g_oldn) || g_log[gk] == g_old[gk]) /*@ destruction_dump_in_buffer_order */;

#define VF_LOOP_Container__dtor_Container_0                                                                            \
  __CPROVER_assigns(__i0) __CPROVER_loop_invariant(__i0 <= __r0->n) __CPROVER_decreases(__r0->n - __i0)

#include "gen.c"

/* ---------------- harnesses ---------------------------------------------------------------------------------- */
size_t nondet_size(void);
double nondet_double(void);
int nondet_int(void);
_Bool nondet_bool(void);

static void setup(void)
{
  for (int k = 0; k < QSZ; k++) {
    g_ev[k].timestamp_ = nondet_double();
    size_t idx         = nondet_size();
    __CPROVER_assume(idx < QSZ);
    g_buf[k] = &g_ev[idx];
    g_old[k] = g_buf[k];
    g_log[k] = NULL;
  }
  g_new.timestamp_       = nondet_double();
  buffer.d               = g_buf;
  buffer.h               = 0;
  buffer.cap             = QSZ;
  buffer.n               = nondet_size();
  g_oldn                 = buffer.n;
  g_nlog                 = 0;
  g_enabled              = nondet_bool();
  trace_format           = nondet_int();
  last_timestamp_to_dump = nondet_double();
  vf_exc                 = 0;
  __CPROVER_assume(gk < QSZ - 1);
}

#ifdef H_insert_into_buffer
void harness(void)
{
  setup();
  PajeEvent__insert_into_buffer(&g_new);
  VF_CANARY_POINT;
}
#endif
#ifdef H_dump_buffer
void harness(void)
{
  setup();
  dump_buffer(nondet_bool());
  VF_CANARY_POINT;
}
#endif
#ifdef H_container_dtor
void harness(void)
{
  setup();
  g_cont.children_.e   = g_child_ent;
  g_cont.children_.n   = nondet_size();
  g_cont.children_.cap = NCH + 1;
  all_containers_.e    = g_all_ent;
  all_containers_.n    = nondet_size();
  all_containers_.cap  = NCH + 2;
  g_clock              = nondet_double();
  g_sig_calls          = 0;
  Container__dtor_Container(&g_cont);
  VF_CANARY_POINT;
}
#endif
