/* C09 — Message queues are exactly-once and FIFO.
 * Contracts on the real MessageQueueImpl::{push,remove,find_matching_message} and MessImpl::{iput,iget,start,finish}
 * (extracted by cxx2c into gen.c; the lambda of find_matching_message is lifted, std::find_if is a per-call-site model
 * whose loop contract is given below).
 * Abstract view of a queue q: Q = FIFO of waiting messages (queue_), each with a type (PUT/GET), a payload pointer
 * (PUT side) and a destination slot (GET side).                                                                    */
#ifndef QCAP
#define QCAP 4 /* model capacity of the FIFO before the call (state it in the evidence) */
#endif
#define VF_SEQ_EXACT (QCAP + 1) /* exact std::find / deque::erase models (see models.py) */
#include "gen.h"

#define QSZ (QCAP + 2)
#define NMESS (QCAP + 1) /* messages of the universe: a full queue + one outside */
#define NACT 3           /* two user actors + maestro (g_act[2]) */
#define ACAP 3           /* activities_ of an actor holds at most ACAP entries before the call (set model) */
#define SCAP 3           /* at most SCAP simcalls wait on one message */
#ifndef State__WAITING
#define State__WAITING 0 /* XBT_DECLARE_ENUM_CLASS(State, WAITING, READY, RUNNING, DONE, ...): checked below */
#endif
_Static_assert(State__READY == 1 && State__RUNNING == 2 && State__DONE == 3, "State enum layout");

/* ---------------- the state the harnesses build ------------------------------------------------------------ */
struct MessImpl g_mess[NMESS];
struct MessImpl* g_qd[QSZ];
struct MessageQueueImpl g_q;
struct MessageQueueImpl g_q_other; /* any other queue */
struct ActorImpl g_act[NACT];
struct ActivityImpl* g_actk[NACT][ACAP + 2];
struct MessIputSimcall g_put;
struct MessIgetSimcall g_get;
struct EngineImpl g_engine;
struct Mess g_iface;
void* g_slot; /* the receiver's destination: where finish() stores the payload pointer */

/* ghost observers of the assumed callees */
size_t g_answered;
struct ActorImpl* g_answered_actor;
int g_fired;
int g_detach_calls;
_Bool g_homog_before; /* ghost: value of HOMOG at entry (pinned in requires; __CPROVER_old of a conjunction is unsupported) */

#define Qh 0 /* head offset of the deque model: pinned to 0 by WF_Q (these units never pop/push at the front) */
#define Qn (g_q.queue_.n)
#define Q(k) (g_qd[Qh + (k)])
#define oldQn __CPROVER_old(g_q.queue_.n)
#define OLDQ(k) __CPROVER_old(g_qd[(k)])
#define OLDT(k) __CPROVER_old(g_qd[(k)]->type_)
#define ACT(m) ((m)->__b_ActivityImpl_T_MessImpl.__b_ActivityImpl)
#define PUT MessImplType__PUT
#define GET MessImplType__GET

#define IS_ACTOR(p) ((p) == &g_act[0] || (p) == &g_act[1] || (p) == &g_act[2])
#define MATCH_OLD(k, T) ((k) < oldQn && OLDT(k) == (T))
#define NOMATCH_BELOW(j, k, T) (!((j) < (k)) || !MATCH_OLD(j, T))
#if QCAP == 4
#define ALLQ(P) (P(0) && P(1) && P(2) && P(3))
#define ANYQ(P) (P(0) || P(1) || P(2) || P(3))
#define ALLPAIRS(P) (P(0, 1) && P(0, 2) && P(0, 3) && P(1, 2) && P(1, 3) && P(2, 3))
#define IS_MESS(p) ((p) == &g_mess[0] || (p) == &g_mess[1] || (p) == &g_mess[2] || (p) == &g_mess[3] || (p) == &g_mess[4])
#define ANY_MATCH(T) (MATCH_OLD(0, T) || MATCH_OLD(1, T) || MATCH_OLD(2, T) || MATCH_OLD(3, T))
#define NONE_BEFORE(k, T) (NOMATCH_BELOW(0, k, T) && NOMATCH_BELOW(1, k, T) && NOMATCH_BELOW(2, k, T) && NOMATCH_BELOW(3, k, T))
#define ALLMESS_QUEUE_FIELD g_mess[0].queue_, g_mess[1].queue_, g_mess[2].queue_, g_mess[3].queue_, g_mess[4].queue_
#elif QCAP == 6
#define ALLQ(P) (P(0) && P(1) && P(2) && P(3) && P(4) && P(5))
#define ANYQ(P) (P(0) || P(1) || P(2) || P(3) || P(4) || P(5))
#define ALLPAIRS(P)                                                                                                    \
  (P(0, 1) && P(0, 2) && P(0, 3) && P(0, 4) && P(0, 5) && P(1, 2) && P(1, 3) && P(1, 4) && P(1, 5) && P(2, 3) &&       \
   P(2, 4) && P(2, 5) && P(3, 4) && P(3, 5) && P(4, 5))
#define IS_MESS(p)                                                                                                     \
  ((p) == &g_mess[0] || (p) == &g_mess[1] || (p) == &g_mess[2] || (p) == &g_mess[3] || (p) == &g_mess[4] ||            \
   (p) == &g_mess[5] || (p) == &g_mess[6])
#define ANY_MATCH(T) (MATCH_OLD(0, T) || MATCH_OLD(1, T) || MATCH_OLD(2, T) || MATCH_OLD(3, T) || MATCH_OLD(4, T) || MATCH_OLD(5, T))
#define NONE_BEFORE(k, T)                                                                                              \
  (NOMATCH_BELOW(0, k, T) && NOMATCH_BELOW(1, k, T) && NOMATCH_BELOW(2, k, T) && NOMATCH_BELOW(3, k, T) &&             \
   NOMATCH_BELOW(4, k, T) && NOMATCH_BELOW(5, k, T))
#define ALLMESS_QUEUE_FIELD                                                                                            \
  g_mess[0].queue_, g_mess[1].queue_, g_mess[2].queue_, g_mess[3].queue_, g_mess[4].queue_, g_mess[5].queue_,          \
      g_mess[6].queue_
#else
#error "QCAP must be 4 or 6"
#endif
/* the oldest waiting message of type T sits at position k */
#define FIRST_AT(k, T) (MATCH_OLD(k, T) && NONE_BEFORE(k, T))

/* a message as the kernel keeps it while it waits / when it completes */
#define WF_MESS(m)                                                                                                     \
  (((m)->type_ == PUT || (m)->type_ == GET) && ((m)->dst_buff_ == NULL || (m)->dst_buff_ == (unsigned char*)&g_slot) && \
   ACT(m).simcalls_.n <= SCAP && (ACT(m).piface_ == NULL || ACT(m).piface_ == (struct Activity*)&g_iface))
/* representation invariant of the queue: distinct, valid messages that all point back to the queue */
#define WF_ELEM(k) (!((k) < Qn) || (IS_MESS(Q(k)) && Q(k)->queue_ == &g_q && WF_MESS(Q(k))))
#define WF_PAIR(i, j) (!((j) < Qn) || Q(i) != Q(j))
#define WF_Q                                                                                                           \
  (g_q.queue_.d == g_qd && g_q.queue_.cap == QSZ && g_q.queue_.h == 0 && Qn <= QCAP && ALLQ(WF_ELEM) &&    \
   ALLPAIRS(WF_PAIR))
#define NOT_AT(k, m) (!((k) < Qn) || Q(k) != (m))
#define NOT_IN_Q(m) (NOT_AT(0, m) && NOT_AT(1, m) && NOT_AT(2, m) && NOT_AT(3, m) && (QCAP == 4 || (NOT_AT(4, m) && NOT_AT(5, m))))
#define SAME_TYPE_AS_HEAD(k) (!((k) < Qn) || Q(k)->type_ == Q(0)->type_)
#define HOMOG ALLQ(SAME_TYPE_AS_HEAD) /* never a PUT and a GET waiting together */
#define WF_ACTOR(a, N) (g_act[a].activities_.k == g_actk[a] && g_act[a].activities_.cap == ACAP + 2 && g_act[a].activities_.n <= (N))
#define WF_ACTORS(N) (WF_ACTOR(0, N) && WF_ACTOR(1, N) && WF_ACTOR(2, N))
#define ACTORS_FRAME                                                                                                   \
  __CPROVER_object_whole(g_actk), g_act[0].activities_.n, g_act[1].activities_.n, g_act[2].activities_.n

/* ghost indices: arbitrary queue positions; obligations mentioning them hold for every position */
size_t gk, gj;

/* ---------------- assumed contracts of callees outside C09 (listed in the evidence) ------------------------- */
void ActivityImpl_T_MessImpl__ctor(struct ActivityImpl_T_MessImpl* self)
    __CPROVER_requires(__CPROVER_rw_ok(self, sizeof(*self))) __CPROVER_assigns(*self)
    __CPROVER_ensures(self->__b_ActivityImpl.state_ == State__WAITING && self->__b_ActivityImpl.simcalls_.n == 0 &&
                      self->__b_ActivityImpl.piface_ == NULL && !self->__b_ActivityImpl.detached_);

struct MessImpl* ActivityImpl_T_MessImpl__detach(struct ActivityImpl_T_MessImpl* self)
    __CPROVER_requires(__CPROVER_rw_ok(self, sizeof(*self)))
    __CPROVER_assigns(self->__b_ActivityImpl.detached_, g_detach_calls)
    __CPROVER_ensures(self->__b_ActivityImpl.detached_ && __CPROVER_return_value == (struct MessImpl*)self &&
                      g_detach_calls == __CPROVER_old(g_detach_calls) + 1);

void Mess__fire_on_completion_for_real(struct Mess* self) __CPROVER_requires(self == &g_iface)
    __CPROVER_assigns(g_fired) __CPROVER_ensures(1);
void Mess__fire_on_this_completion_for_real(struct Mess* self) __CPROVER_requires(self == &g_iface)
    __CPROVER_assigns(g_fired) __CPROVER_ensures(1);

struct ActorImpl* ActivityImpl__unregister_first_simcall(struct ActivityImpl* self)
    __CPROVER_requires(__CPROVER_rw_ok(self, sizeof(*self)) && self->simcalls_.n > 0 && self->simcalls_.n <= SCAP)
    __CPROVER_assigns(self->simcalls_.h, self->simcalls_.n)
    /* pointer_in_range first: it tells the symbolic executor which object the returned pointer lives in */
    __CPROVER_ensures(__CPROVER_return_value == NULL ||
                      __CPROVER_pointer_in_range_dfcc(&g_act[0], __CPROVER_return_value, &g_act[2]))
    __CPROVER_ensures(self->simcalls_.n == __CPROVER_old(self->simcalls_.n) - 1 &&
                      (__CPROVER_return_value == NULL || IS_ACTOR(__CPROVER_return_value)));

struct EngineImpl* get_instance(void) __CPROVER_requires(1) __CPROVER_assigns()
    __CPROVER_ensures(__CPROVER_return_value == &g_engine);
struct ActorImpl* EngineImpl__get_maestro(struct EngineImpl* self) __CPROVER_requires(self == &g_engine)
    __CPROVER_assigns() __CPROVER_ensures(__CPROVER_return_value == &g_act[2]);

void ActorImpl__simcall_answer(struct ActorImpl* self)
    __CPROVER_requires(IS_ACTOR(self)) __CPROVER_assigns(g_answered, g_answered_actor)
    __CPROVER_ensures(g_answered == __CPROVER_old(g_answered) + 1 && g_answered_actor == self);

/* the activities_ sets of the actors are incidental here: the set model's insert/erase are used through these
 * over-approximating contracts (size moves by at most one, contents unknown) instead of their bodies */
#define IS_ACTSET(s) ((s) == &g_act[0].activities_ || (s) == &g_act[1].activities_ || (s) == &g_act[2].activities_)
static inline void vf_set_ActivityImplP_insert(struct vf_set_ActivityImplP* s, struct ActivityImpl* v)
    __CPROVER_requires(IS_ACTSET(s) && s->n < s->cap) __CPROVER_assigns(s->n, __CPROVER_object_whole(s->k))
    __CPROVER_ensures(s->n == __CPROVER_old(s->n) || s->n == __CPROVER_old(s->n) + 1);
static inline size_t vf_set_ActivityImplP_erase(struct vf_set_ActivityImplP* s, struct ActivityImpl* v)
    __CPROVER_requires(IS_ACTSET(s) && s->n <= s->cap) __CPROVER_assigns(s->n, __CPROVER_object_whole(s->k))
    __CPROVER_ensures((__CPROVER_return_value == 0 && s->n == __CPROVER_old(s->n)) ||
                      (__CPROVER_return_value == 1 && __CPROVER_old(s->n) > 0 && s->n == __CPROVER_old(s->n) - 1));

/* ---------------- contracts of the queue operations ------------------------------------------------------------ */

/* push: the message goes to the TAIL, nothing else moves */
void MessageQueueImpl__push(struct MessageQueueImpl* self, struct MessImpl* mess)
    __CPROVER_requires(self == &g_q && WF_Q && __CPROVER_rw_ok(mess, sizeof(*mess)) && NOT_IN_Q(mess) && vf_exc == 0)
    __CPROVER_assigns(mess->queue_, g_q.queue_.n, __CPROVER_object_whole(g_qd))
    __CPROVER_ensures(vf_exc == 0 && Qn == oldQn + 1 && g_q.queue_.h == 0 && Q(oldQn) == mess &&
                      mess->queue_ == &g_q) /*@ push_appends_at_tail */
    __CPROVER_ensures(!(gk < oldQn) || Q(gk) == OLDQ(gk)) /*@ push_keeps_the_others_in_place */
    __CPROVER_ensures(g_q.queue_.d == g_qd && g_q.queue_.cap == QSZ);

/* remove: only a message of this queue; exactly that message leaves, the order of the others is kept */
#define IN_OLDQ_AT(k) ((k) < oldQn && OLDQ(k) == mess)
void MessageQueueImpl__remove(struct MessageQueueImpl* self, struct MessImpl* mess)
    __CPROVER_requires(self == &g_q && WF_Q && IS_MESS(mess) && vf_exc == 0)
    __CPROVER_assigns(vf_exc, mess->queue_, g_q.queue_.n, __CPROVER_object_whole(g_qd))
    __CPROVER_ensures((vf_exc == VF_EXC_ABORT) == (__CPROVER_old(mess->queue_) != &g_q || !ANYQ(IN_OLDQ_AT)))
    /*@ remove_rejects_a_message_that_is_not_queued_here */
    __CPROVER_ensures(vf_exc == 0 || vf_exc == VF_EXC_ABORT)
    __CPROVER_ensures(vf_exc == 0 || (Qn == oldQn && (!(gk < Qn) || Q(gk) == OLDQ(gk)))) /*@ remove_rejected_keeps_queue */
    __CPROVER_ensures(vf_exc != 0 || (Qn == oldQn - 1 && mess->queue_ == NULL && NOT_IN_Q(mess))) /*@ remove_takes_it_out */
    __CPROVER_ensures(vf_exc != 0 || !IN_OLDQ_AT(gk) ||
                      ((!(gj < gk) || Q(gj) == OLDQ(gj)) && (!(gk <= gj && gj < Qn) || Q(gj) == OLDQ(gj + 1))))
    /*@ remove_keeps_order_of_the_rest */
    __CPROVER_ensures(vf_exc != 0 || WF_Q) /*@ remove_keeps_wf */;

/* find_matching_message(type): the OLDEST waiting message of that type is taken out (so nobody can take it again);
 * the others keep their order; NULL and no change when there is none */
struct MessImpl* MessageQueueImpl__find_matching_message(struct MessageQueueImpl* self, int type)
    __CPROVER_requires(self == &g_q && WF_Q && vf_exc == 0)
    __CPROVER_assigns(ALLMESS_QUEUE_FIELD, g_q.queue_.n, __CPROVER_object_whole(g_qd))
    __CPROVER_ensures(__CPROVER_return_value == NULL ||
                      __CPROVER_pointer_in_range_dfcc(&g_mess[0], __CPROVER_return_value, &g_mess[NMESS - 1]))
    __CPROVER_ensures(vf_exc == 0)
    __CPROVER_ensures((__CPROVER_return_value == NULL) == !ANY_MATCH(type)) /*@ find_null_iff_none_of_that_type_waits */
    __CPROVER_ensures(__CPROVER_return_value != NULL || (Qn == oldQn && (!(gk < Qn) || Q(gk) == OLDQ(gk))))
    /*@ find_nothing_changes_nothing */
    __CPROVER_ensures(!FIRST_AT(gk, type) || __CPROVER_return_value == OLDQ(gk)) /*@ find_returns_the_oldest_match */
    __CPROVER_ensures(__CPROVER_return_value == NULL ||
                      (Qn == oldQn - 1 && IS_MESS(__CPROVER_return_value) && __CPROVER_return_value->queue_ == NULL &&
                       __CPROVER_return_value->type_ == type && NOT_IN_Q(__CPROVER_return_value)))
    /*@ find_takes_it_out_of_the_queue */
    __CPROVER_ensures(!FIRST_AT(gk, type) ||
                      ((!(gj < gk) || Q(gj) == OLDQ(gj)) && (!(gk <= gj && gj < Qn) || Q(gj) == OLDQ(gj + 1))))
    /*@ find_keeps_order_of_the_rest */
    __CPROVER_ensures(WF_Q && g_q.queue_.h == 0) /*@ find_keeps_wf */;

/* loop of the std::find_if model at its call site in find_matching_message: nothing of the wanted type before i */
#define FM_ENV ((struct MessageQueueImpl__find_matching_message__lambda0_env*)f.env)
#define NOMATCH_BEFORE(k) (!((k) < i) || b[k]->type_ != *FM_ENV->type)
#define VF_LOOP_MessageQueueImpl__find_matching_message__find_if0_0                                                    \
  __CPROVER_assigns(i) __CPROVER_loop_invariant(i <= cnt && ALLQ(NOMATCH_BEFORE)) __CPROVER_decreases(cnt - i)

/* ---------------- completion of a message ------------------------------------------------------------------------- */
#define IN_Q_AT(k, m) ((k) < Qn && Q(k) == (m))
#define IN_Q(m) (IN_Q_AT(0, m) || IN_Q_AT(1, m) || IN_Q_AT(2, m) || IN_Q_AT(3, m) || (QCAP == 6 && (IN_Q_AT(4, m) || IN_Q_AT(5, m))))
/* finish: a RUNNING exchange becomes DONE and the payload pointer of the put is stored, unchanged, into the get's
 * destination; the message is in no queue afterwards; every waiter is answered at most once */
void MessImpl__finish(struct MessImpl* self)
    __CPROVER_requires(IS_MESS(self) && WF_MESS(self) && WF_Q && WF_ACTORS(ACAP + 1) && vf_exc == 0 && g_answered == 0)
    __CPROVER_requires((self->queue_ == NULL && NOT_IN_Q(self)) || (self->queue_ == &g_q && IN_Q(self)))
    /* the queue is only touched when the message still sits in one (conditional targets, evaluated at entry) */
    __CPROVER_assigns(ACT(self).state_, ACT(self).piface_, ACT(self).simcalls_.h, ACT(self).simcalls_.n, g_slot,
                      ACTORS_FRAME, g_answered, g_answered_actor, g_fired;
                      self->queue_ != NULL: vf_exc, self->queue_, g_q.queue_.n, __CPROVER_object_whole(g_qd))
    __CPROVER_ensures(vf_exc == 0)
    __CPROVER_ensures(ACT(self).state_ == (__CPROVER_old(ACT(self).state_) == State__RUNNING
                                               ? State__DONE
                                               : __CPROVER_old(ACT(self).state_))) /*@ finish_running_becomes_done */
    __CPROVER_ensures(!(ACT(self).state_ == State__DONE && self->payload_ != NULL && self->dst_buff_ != NULL) ||
                      g_slot == self->payload_) /*@ finish_delivers_the_payload_pointer_unchanged */
    __CPROVER_ensures((ACT(self).state_ == State__DONE && self->payload_ != NULL && self->dst_buff_ != NULL) ||
                      g_slot == __CPROVER_old(g_slot)) /*@ finish_delivers_nothing_otherwise */
    __CPROVER_ensures(self->queue_ == NULL && NOT_IN_Q(self)) /*@ finish_leaves_no_queue_entry */
    __CPROVER_ensures(g_q.queue_.d == g_qd && g_q.queue_.cap == QSZ && g_q.queue_.h == 0 && Qn <= QCAP) /*@ finish_wf_shape */
    __CPROVER_ensures(ALLQ(WF_ELEM)) /*@ finish_wf_elems */
    __CPROVER_ensures(ALLPAIRS(WF_PAIR)) /*@ finish_wf_distinct */
    __CPROVER_ensures(ACT(self).simcalls_.n == 0 && g_answered <= __CPROVER_old(ACT(self).simcalls_.n))
    /*@ finish_answers_each_waiter_at_most_once */
    __CPROVER_ensures(WF_ACTORS(ACAP + 1));

#define VF_LOOP_MessImpl__finish_0                                                                                     \
  __CPROVER_assigns(ACT(self).simcalls_.h, ACT(self).simcalls_.n, ACTORS_FRAME, g_answered, g_answered_actor)          \
      __CPROVER_loop_invariant(ACT(self).simcalls_.n <= SCAP && WF_ACTORS(ACAP + 1) && g_answered <= SCAP &&           \
                               g_answered + ACT(self).simcalls_.n <= __CPROVER_loop_entry(ACT(self).simcalls_.n))      \
          __CPROVER_decreases(ACT(self).simcalls_.n)

/* ---------------- put / get -------------------------------------------------------------------------------------- */
#define ISSUER_PUT (g_put.__b_SimcallObserver.issuer_)
#define ISSUER_GET (g_get.__b_SimcallObserver.issuer_)
#define IOFRAME                                                                                                        \
  __CPROVER_object_whole(g_mess), g_q.queue_.n, __CPROVER_object_whole(g_qd), g_slot, ACTORS_FRAME, g_answered,        \
      g_answered_actor, g_fired, g_detach_calls

/* iput: a put meets the OLDEST waiting get (which leaves the queue: consumed once) and its payload pointer is stored,
 * unchanged, in that get's destination; with no get waiting the put waits at the TAIL with its payload */
struct ActivityImpl* MessImpl__iput(struct MessIputSimcall* observer)
    __CPROVER_requires(observer == &g_put && g_put.queue_ == &g_q && (ISSUER_PUT == &g_act[0] || ISSUER_PUT == &g_act[1]))
    __CPROVER_requires(WF_Q && WF_ACTORS(ACAP) && vf_exc == 0 && g_answered == 0 && g_homog_before == HOMOG)
    __CPROVER_assigns(g_put.mess_, IOFRAME)
    __CPROVER_ensures(vf_exc == 0 && g_put.mess_ != NULL)
    __CPROVER_ensures(!FIRST_AT(gk, GET) ||
                      (g_put.mess_ == OLDQ(gk) && g_put.mess_->payload_ == g_put.payload_ &&
                       g_put.mess_->src_actor_ == ISSUER_PUT && ACT(g_put.mess_).state_ == State__DONE &&
                       g_put.mess_->dst_buff_ == __CPROVER_old(g_qd[gk]->dst_buff_) &&
                       g_put.mess_->type_ == GET)) /*@ put_is_matched_with_the_oldest_waiting_get */
    __CPROVER_ensures(!ANY_MATCH(GET) || g_put.payload_ == NULL || g_put.mess_->dst_buff_ == NULL ||
                      g_slot == g_put.payload_) /*@ put_payload_reaches_the_get_unchanged */
    __CPROVER_ensures(!ANY_MATCH(GET) ||
                      (Qn == oldQn - 1 && NOT_IN_Q(g_put.mess_) && g_put.mess_->queue_ == NULL))
    /*@ matched_get_leaves_the_queue */
    __CPROVER_ensures(!FIRST_AT(gk, GET) ||
                      ((!(gj < gk) || Q(gj) == OLDQ(gj)) && (!(gk <= gj && gj < Qn) || Q(gj) == OLDQ(gj + 1))))
    /*@ put_keeps_order_of_the_other_waiters */
    __CPROVER_ensures(ANY_MATCH(GET) ||
                      (!IS_MESS(g_put.mess_) && Qn == oldQn + 1 && Q(oldQn) == g_put.mess_ &&
                       g_put.mess_->type_ == PUT && g_put.mess_->payload_ == g_put.payload_ &&
                       g_put.mess_->queue_ == &g_q && g_put.mess_->src_actor_ == ISSUER_PUT &&
                       ACT(g_put.mess_).state_ == State__WAITING && g_slot == __CPROVER_old(g_slot)))
    /*@ unmatched_put_waits_at_the_tail_with_its_payload */
    __CPROVER_ensures(ANY_MATCH(GET) || !(gk < oldQn) || Q(gk) == OLDQ(gk)) /*@ unmatched_put_moves_nobody */
    __CPROVER_ensures(!(gk < oldQn) || FIRST_AT(gk, GET) ||
                      (OLDQ(gk)->payload_ == __CPROVER_old(g_qd[gk]->payload_) &&
                       OLDQ(gk)->type_ == OLDT(gk))) /*@ put_leaves_the_other_waiters_untouched */
    __CPROVER_ensures(__CPROVER_return_value == (g_put.detached_ ? NULL : (struct ActivityImpl*)g_put.mess_))
    /*@ put_returns_the_exchange_unless_detached */
    __CPROVER_ensures(!g_homog_before || HOMOG) /*@ never_put_and_get_waiting_together */;

/* iget: a get takes the OLDEST waiting put (which leaves the queue: no put is consumed twice), the payload pointer of
 * that put is stored unchanged into the get's destination; with no put waiting the get waits at the TAIL */
struct ActivityImpl* MessImpl__iget(struct MessIgetSimcall* observer)
    __CPROVER_requires(observer == &g_get && g_get.queue_ == &g_q && (ISSUER_GET == &g_act[0] || ISSUER_GET == &g_act[1]))
    __CPROVER_requires(g_get.dst_buff_ == NULL || g_get.dst_buff_ == (unsigned char*)&g_slot)
    __CPROVER_requires(WF_Q && WF_ACTORS(ACAP) && vf_exc == 0 && g_answered == 0 && g_homog_before == HOMOG)
    __CPROVER_assigns(g_get.mess_, IOFRAME)
    __CPROVER_ensures(vf_exc == 0 && g_get.mess_ != NULL)
    __CPROVER_ensures(!FIRST_AT(gk, PUT) ||
                      (g_get.mess_ == OLDQ(gk) && g_get.mess_->type_ == PUT &&
                       g_get.mess_->payload_ == __CPROVER_old(g_qd[gk]->payload_) &&
                       g_get.mess_->dst_buff_ == g_get.dst_buff_ && g_get.mess_->dst_buff_size_ == g_get.dst_buff_size_ &&
                       g_get.mess_->dst_actor_ == ISSUER_GET && ACT(g_get.mess_).state_ == State__DONE))
    /*@ get_takes_the_oldest_waiting_put */
    __CPROVER_ensures(!FIRST_AT(gk, PUT) || __CPROVER_old(g_qd[gk]->payload_) == NULL ||
                      g_get.dst_buff_ == NULL || g_slot == __CPROVER_old(g_qd[gk]->payload_))
    /*@ get_receives_the_payload_of_that_put_unchanged */
    __CPROVER_ensures(!ANY_MATCH(PUT) ||
                      (Qn == oldQn - 1 && NOT_IN_Q(g_get.mess_) && g_get.mess_->queue_ == NULL))
    /*@ consumed_put_leaves_the_queue */
    __CPROVER_ensures(!FIRST_AT(gk, PUT) ||
                      ((!(gj < gk) || Q(gj) == OLDQ(gj)) && (!(gk <= gj && gj < Qn) || Q(gj) == OLDQ(gj + 1))))
    /*@ get_keeps_order_of_the_other_waiters */
    __CPROVER_ensures(ANY_MATCH(PUT) ||
                      (!IS_MESS(g_get.mess_) && Qn == oldQn + 1 && Q(oldQn) == g_get.mess_ &&
                       g_get.mess_->type_ == GET && g_get.mess_->dst_buff_ == g_get.dst_buff_ &&
                       g_get.mess_->queue_ == &g_q && g_get.mess_->dst_actor_ == ISSUER_GET &&
                       ACT(g_get.mess_).state_ == State__WAITING && g_slot == __CPROVER_old(g_slot)))
    /*@ unmatched_get_waits_at_the_tail */
    __CPROVER_ensures(ANY_MATCH(PUT) || !(gk < oldQn) || Q(gk) == OLDQ(gk)) /*@ unmatched_get_moves_nobody */
    __CPROVER_ensures(!(gk < oldQn) || (OLDQ(gk)->payload_ == __CPROVER_old(g_qd[gk]->payload_) &&
                                        OLDQ(gk)->type_ == OLDT(gk))) /*@ get_never_alters_a_waiting_payload */
    __CPROVER_ensures(__CPROVER_return_value == (struct ActivityImpl*)g_get.mess_)
    __CPROVER_ensures(!g_homog_before || HOMOG) /*@ never_put_and_get_waiting_together */;

#include "gen.c"

/* ---------------- harnesses -------------------------------------------------------------------------------------- */
size_t nondet_size(void);
int nondet_int(void);
_Bool nondet_bool(void);
void* nondet_ptr(void);

static void setup(void)
{
  for (int a = 0; a < NACT; a++) {
    g_act[a].activities_.k   = g_actk[a];
    g_act[a].activities_.cap = ACAP + 2;
  }
  for (int k = 0; k < QSZ; k++) {
    int i = nondet_int();
    __CPROVER_assume(0 <= i && i < NMESS);
    g_qd[k] = &g_mess[i];
  }
  /* every pointer that the units dereference gets its possible targets here (the symbolic executor needs to know
     them; the contracts' requires then select the meaningful states); all other fields stay arbitrary */
  for (int m = 0; m < NMESS; m++) {
    g_mess[m].dst_buff_   = nondet_bool() ? NULL : (unsigned char*)&g_slot;
    g_mess[m].queue_      = nondet_bool() ? NULL : (nondet_bool() ? &g_q : &g_q_other);
    ACT(&g_mess[m]).piface_ = nondet_bool() ? NULL : (struct Activity*)&g_iface;
  }
  g_put.queue_ = nondet_bool() ? &g_q : &g_q_other;
  g_get.queue_ = nondet_bool() ? &g_q : &g_q_other;
  g_put.__b_SimcallObserver.issuer_ = &g_act[nondet_bool() ? 0 : 1];
  g_get.__b_SimcallObserver.issuer_ = &g_act[nondet_bool() ? 0 : 1];
  g_get.dst_buff_ = nondet_bool() ? NULL : (unsigned char*)&g_slot;
  g_q.queue_.d   = g_qd;
  g_q.queue_.cap = QSZ;
  vf_exc         = 0;
  g_answered     = 0;
  g_homog_before = nondet_bool();
  __CPROVER_assume(gk < QCAP && gj < QCAP);
}

static struct MessImpl* pick_mess(void)
{
  int i = nondet_int();
  __CPROVER_assume(0 <= i && i < NMESS);
  return &g_mess[i];
}

#ifdef H_push
void harness(void)
{
  setup();
  MessageQueueImpl__push(&g_q, pick_mess());
  VF_CANARY_POINT;
}
#endif
#ifdef H_remove
void harness(void)
{
  setup();
  MessageQueueImpl__remove(&g_q, pick_mess());
  VF_CANARY_POINT;
}
#endif
#ifdef H_find
void harness(void)
{
  setup();
  MessageQueueImpl__find_matching_message(&g_q, nondet_bool() ? PUT : GET);
  VF_CANARY_POINT;
}
#endif
#ifdef H_finish
void harness(void)
{
  setup();
#ifdef DBG_FIXED
  MessImpl__finish(&g_mess[2]);
#else
  MessImpl__finish(pick_mess());
#endif
  VF_CANARY_POINT;
}
#endif
#ifdef H_iput
void harness(void)
{
  setup();
  MessImpl__iput(&g_put);
  VF_CANARY_POINT;
}
#endif
#ifdef H_iget
void harness(void)
{
  setup();
  MessImpl__iget(&g_get);
  VF_CANARY_POINT;
}
#endif
