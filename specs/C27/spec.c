/* C27 — Values with units: the conversion mechanism xbt_parse_get_value_with_unit (src/xbt/xbt_parse_units.cpp).
 * Property (mechanism part): a number followed by a unit is converted with the multiplier the unit table gives for
 * that unit (the default unit when none is written); malformed numbers and unknown units are rejected.
 * strtod is an assumed callee driven by ghost oracles (value, stop position, errno); strings are opaque ids:
 * the text is g_txt, the id of its suffix starting where strtod stopped is g_suffix_id.                          */
#include "gen.h"

#define VLEN 8
#define NU 4 /* model capacity of the unit table */
char g_txt[VLEN];
char g_default_unit[4];
size_t g_len;
int g_errno;
double g_ret_double; /* oracle: value converted by strtod */
size_t g_endoff;     /* oracle: strtod stops at g_txt + g_endoff */
int g_errno_after;   /* oracle: 0 or ERANGE */
vf_str g_string_id, g_suffix_id, g_default_id;
size_t gk;
struct unit_scale g_units;
struct vf_pair_vf_str__double g_ent[NU + 1];
#define VF_ERANGE 34

#define NOT_NUL_BEFORE(k) (!((k) < g_len) || g_txt[k] != 0)
#define STR_OK                                                                                                         \
  (g_len < VLEN && g_txt[g_len] == 0 && NOT_NUL_BEFORE(0) && NOT_NUL_BEFORE(1) && NOT_NUL_BEFORE(2) &&                \
   NOT_NUL_BEFORE(3) && NOT_NUL_BEFORE(4) && NOT_NUL_BEFORE(5) && NOT_NUL_BEFORE(6))
/* a proper suffix is a different string than the whole text; the empty suffix is not a unit name */
#define ORACLE_OK                                                                                                      \
  (g_endoff <= g_len && (g_errno_after == 0 || g_errno_after == VF_ERANGE) &&                                          \
   (g_endoff == 0 ? g_suffix_id == g_string_id : g_suffix_id != g_string_id))
#define Un (g_units.__b_vf_map_vf_str__double.n)
#define DISTINCT(i, j) (!((j) < Un) || g_ent[i].first != g_ent[j].first)
#define WF_UNITS                                                                                                       \
  (g_units.__b_vf_map_vf_str__double.e == g_ent && g_units.__b_vf_map_vf_str__double.cap == NU + 1 && Un <= NU && DISTINCT(0, 1) &&    \
   DISTINCT(0, 2) && DISTINCT(0, 3) && DISTINCT(1, 2) && DISTINCT(1, 3) && DISTINCT(2, 3))

/* the unit that applies: the written one, or the default unit when the number is followed by nothing */
#define UNIT_ID (g_txt[g_endoff] == 0 ? g_default_id : g_suffix_id)
#define HAS_AT(i) ((size_t)(i) < Un && g_ent[i].first == UNIT_ID)
#define KNOWN_UNIT (HAS_AT(0) || HAS_AT(1) || HAS_AT(2) || HAS_AT(3))
#define MULTIPLIER (HAS_AT(0) ? g_ent[0].second : HAS_AT(1) ? g_ent[1].second : HAS_AT(2) ? g_ent[2].second : g_ent[3].second)
#define REJECTED (g_errno_after == VF_ERANGE || g_endoff == 0 || !KNOWN_UNIT)

/* ---------------- assumed callees ---------------------------------------------------------------------------- */
int* __errno_location(void) __CPROVER_requires(1) __CPROVER_assigns()
    __CPROVER_ensures(__CPROVER_return_value == &g_errno);

double strtod(const char* s, char** end)
    __CPROVER_requires(s == g_txt && STR_OK && ORACLE_OK && __CPROVER_w_ok(end, sizeof(*end)) && g_errno == 0)
    __CPROVER_assigns(*end, g_errno)
    __CPROVER_ensures((__CPROVER_return_value == g_ret_double ||
                       (__CPROVER_isnand(__CPROVER_return_value) && __CPROVER_isnand(g_ret_double))) &&
                      g_errno == g_errno_after)
    __CPROVER_ensures(__CPROVER_pointer_in_range_dfcc(&g_txt[0], *end, &g_txt[VLEN - 1]) && *end == g_txt + g_endoff);

/* string model: c_str() of the text is g_txt; a std::string built from a pointer into it is the suffix id */
char* vf_str_cstr(vf_str s) __CPROVER_requires(s == g_string_id) __CPROVER_assigns()
    __CPROVER_ensures(__CPROVER_return_value == g_txt);
vf_str vf_str_from_cstr(char* p)
    __CPROVER_requires(p == g_default_unit || (__CPROVER_same_object(p, g_txt) && p == g_txt + g_endoff))
    __CPROVER_assigns()
    __CPROVER_ensures(__CPROVER_return_value == (p == g_default_unit ? g_default_id : g_suffix_id));

/* ---------------- the unit ------------------------------------------------------------------------------------ */
double xbt_parse_get_value_with_unit(vf_str filename, int lineno, vf_str string, struct unit_scale* units,
                                     vf_str entity_kind, char* error_msg, char* default_unit)
    __CPROVER_requires(string == g_string_id && units == &g_units && default_unit == g_default_unit && STR_OK &&
                       ORACLE_OK && WF_UNITS && vf_exc == 0)
    __CPROVER_assigns(vf_exc, g_errno)
    __CPROVER_ensures((vf_exc == VF_EXC_ParseError) == REJECTED) /*@ rejects_malformed_numbers_and_unknown_units */
    __CPROVER_ensures(vf_exc == 0 || vf_exc == VF_EXC_ParseError) /*@ never_aborts */
    /* gk: an arbitrary table position (ghost index) - the clause holds for whichever entry carries the unit */
    __CPROVER_ensures(vf_exc != 0 || !(gk < Un && g_ent[gk].first == UNIT_ID) ||
                      __CPROVER_return_value == g_ret_double * g_ent[gk].second ||
                      (__CPROVER_isnand(__CPROVER_return_value) && __CPROVER_isnand(g_ret_double * g_ent[gk].second))) /*@ value_times_multiplier_of_the_unit */;

#include "gen.c"

size_t nondet_size(void);
long nondet_long(void);
int nondet_int(void);
char nondet_char(void);
double nondet_double(void);
#ifdef H_get_value_with_unit
void harness(void)
{
  for (int k = 0; k < VLEN; k++)
    g_txt[k] = nondet_char();
  for (int k = 0; k < NU + 1; k++) {
    g_ent[k].first  = nondet_long();
    g_ent[k].second = nondet_double();
  }
  g_units.__b_vf_map_vf_str__double.e   = g_ent;
  g_units.__b_vf_map_vf_str__double.cap = NU + 1;
  g_units.__b_vf_map_vf_str__double.n   = nondet_size();
  g_len = nondet_size(); g_endoff = nondet_size(); g_errno_after = nondet_int(); g_ret_double = nondet_double();
  g_string_id = nondet_long(); g_suffix_id = nondet_long(); g_default_id = nondet_long();
  g_errno = 0; vf_exc = 0; gk = nondet_size();
  xbt_parse_get_value_with_unit(nondet_long(), nondet_int(), g_string_id, &g_units, nondet_long(), 0, g_default_unit);
  VF_CANARY_POINT;
}
#endif
