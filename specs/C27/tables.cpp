// Native lemma of C27: the unit tables of the five public parsers, built by the REAL generator
// unit_scale::unit_scale of the working tree (the TU is compiled into this program), are enumerated completely:
// every documented unit spelling maps to the documented magnitude, and spellings outside the tables are rejected.
// Together with the CBMC-proved contract of xbt_parse_get_value_with_unit ("result = number * multiplier of the unit
// found in the table, ParseError otherwise") this gives the property for every number.
// (cxx2c cannot translate the generator: tuple structured bindings, string concatenation, function-local statics.)
#include "src/xbt/xbt_parse_units.cpp"
#include <cmath>
#include <cstdio>
#include <functional>
#include <string>
#include <vector>

using parser = std::function<double(const std::string&)>;
static int failures = 0, checked = 0;

static void expect(const char* what, const parser& p, const std::string& text, double want)
{
  checked++;
  try {
    double got = p(text);
    if (!(std::fabs(got - want) <= 1e-9 * std::fabs(want))) {
      failures++;
      if (failures <= 5) printf("FAIL %s(\"%s\") = %.17g, documented %.17g\n", what, text.c_str(), got, want);
    }
  } catch (const simgrid::ParseError&) {
    failures++;
    if (failures <= 5) printf("FAIL %s(\"%s\") rejected, documented %.17g\n", what, text.c_str(), want);
  }
}
static void reject(const char* what, const parser& p, const std::string& text)
{
  checked++;
  try {
    double got = p(text);
    failures++;
    if (failures <= 5) printf("FAIL %s(\"%s\") accepted as %.17g, must be rejected\n", what, text.c_str(), got);
  } catch (const simgrid::ParseError&) {
  }
}

int main()
{
  parser time  = [](const std::string& s) { return xbt_parse_get_time("f", 1, s, ""); };
  parser size  = [](const std::string& s) { return xbt_parse_get_size("f", 1, s, ""); };
  parser bw    = [](const std::string& s) { return xbt_parse_get_bandwidth("f", 1, s, ""); };
  parser speed = [](const std::string& s) { return xbt_parse_get_speed("f", 1, s, ""); };
  const char* dec[]  = {"k", "M", "G", "T", "P", "E", "Z", "Y"};
  const char* bin[]  = {"Ki", "Mi", "Gi", "Ti", "Pi", "Ei", "Zi", "Yi"};
  const char* full[] = {"kilo", "mega", "giga", "tera", "peta", "exa", "zeta", "yotta"};
  // time
  const std::pair<const char*, double> times[] = {{"w", 604800}, {"d", 86400}, {"h", 3600}, {"m", 60}, {"s", 1},
                                                  {"ms", 1e-3}, {"us", 1e-6}, {"ns", 1e-9}, {"ps", 1e-12}};
  for (auto [u, m] : times)
    for (double v : {1.0, 2.5, 1e3})
      expect("time", time, std::to_string(v) + u, v * m);
  expect("time", time, "42", 42); // default unit: seconds
  // sizes and bandwidths: bytes = 1, bits = 1/8; decimal prefixes 1000^k, binary prefixes 1024^k
  for (int bits = 0; bits < 2; bits++) {
    double base = bits ? 0.125 : 1.0;
    std::string su = bits ? "b" : "B", bu = bits ? "bps" : "Bps";
    expect("size", size, "3" + su, 3 * base);
    expect("bandwidth", bw, "3" + bu, 3 * base);
    for (int k = 0; k < 8; k++) {
      expect("size", size, std::string("3") + dec[k] + su, 3 * base * std::pow(1000.0, k + 1));
      expect("size", size, std::string("3") + bin[k] + su, 3 * base * std::pow(1024.0, k + 1));
      expect("bandwidth", bw, std::string("3") + dec[k] + bu, 3 * base * std::pow(1000.0, k + 1));
      expect("bandwidth", bw, std::string("3") + bin[k] + bu, 3 * base * std::pow(1024.0, k + 1));
    }
  }
  expect("size", size, "7", 7);
  expect("bandwidth", bw, "7", 7);
  // speeds
  expect("speed", speed, "3f", 3);
  expect("speed", speed, "3flops", 3);
  for (int k = 0; k < 8; k++) {
    expect("speed", speed, std::string("3") + dec[k] + "f", 3 * std::pow(1000.0, k + 1));
    expect("speed", speed, std::string("3") + full[k] + "flops", 3 * std::pow(1000.0, k + 1));
  }
  // spellings outside the tables, and malformed numbers
  for (const char* bad : {"1parsec", "1kib", "1KB ", "1 B", "1Bps", "abc", "", "1e", "0junk", "0 s", "0,5B"})
    reject("size", size, bad);
  for (const char* bad : {"1B", "1kf", "1x", "s", "0MBps"})
    reject("time", time, bad);
  for (const char* bad : {"1s", "1KiBp", "1bpS"})
    reject("bandwidth", bw, bad);
  for (const char* bad : {"1kflops", "1Kif", "1megaf", "1B"})
    reject("speed", speed, bad);
  printf("{\"checked\": %d, \"failures\": %d, \"exhaustive\": true}\n", checked, failures);
  return failures ? 1 : 0;
}
