/* C05 — Semaphore semantics: token conservation, FIFO, timeouts.
 * Contracts on the real SemaphoreImpl / SemAcquisitionImpl methods (extracted by cxx2c into gen.c).
 * Abstract view of the semaphore s: TOKENS(s) = value_ (free tokens), Q(s) = FIFO of pending acquisitions
 * (ongoing_acquisitions_), each (issuer, granted).  A "grant" is an acquisition whose granted_ goes false -> true.
 * Token conservation is stated per operation as  TOKENS' + grants made by the call == TOKENS + releases made by the call,
 * together with the representation invariant  TOKENS > 0 ==> Q empty,  queued ==> not granted.  By induction over any
 * history: grants so far + TOKENS == c + releases so far, hence grants <= c + releases and get_capacity() == that
 * difference (get_capacity returns value_).                                                                        */
#include "gen.h"

#ifndef QCAP
#define QCAP 4 /* model capacity of the FIFO */
#endif
#define QSZ (2 * QCAP + 2)
#define NACT (QCAP + 1) /* waiters have pairwise distinct issuers: QCAP waiters + the acting actor */
#define WCAP 2          /* model capacity of an actor's waiting_synchros_ / activities_ */

/* ---------------- the state the harnesses build (all objects distinct, all pointers valid) ------------- */
struct ActorImpl g_act[NACT];
struct ActivityImpl* g_ws[NACT][WCAP + 2];
struct ActivityImpl* g_actv[NACT][WCAP + 2];
struct SemaphoreAcquisitionObserver g_sobs[NACT]; /* the observer of each actor's pending simcall */
struct Host g_host;
struct CpuImpl g_cpu;
struct CpuAction g_timer; /* the sleep action CpuImpl::sleep hands out */
struct SemAcquisitionImpl g_acq[QSZ];
struct SemAcquisitionImpl* g_qd[QSZ];
struct SemaphoreImpl g_s;

/* ghost observers of the assumed callees */
int g_answered; /* number of ActorImpl::simcall_answer calls */
struct ActorImpl* g_answered_actor;
int g_registered;      /* number of register_simcall calls */
int g_result_set;      /* number of observer->set_result calls */
_Bool g_result_value;  /* last value passed */
void* g_result_obs;    /* observer it was passed to */
int g_sleeps;          /* number of CpuImpl::sleep calls */
double g_sleep_duration;
int g_timer_state; /* what Action::get_state answers for the timer (fixed during a call) */
int g_unrefs;
int g_unreg_calls;              /* number of unregister_first_simcall calls */
struct ActorImpl* g_unreg_ret; /* what the last one returned (NULL: the waiter is exiting or dying, not answered) */

#define Qh (g_s.ongoing_acquisitions_.h)
#define Qn (g_s.ongoing_acquisitions_.n)
#define Q(k) (g_qd[Qh + (k)])
#define oldQh __CPROVER_old(g_s.ongoing_acquisitions_.h)
#define oldQn __CPROVER_old(g_s.ongoing_acquisitions_.n)
#define ACT(a) ((a)->__b_ActivityImpl_T_SemAcquisitionImpl.__b_ActivityImpl)
#define SIMCALLS_N(a) (ACT(a).simcalls_.n)
#define TIMER (&g_timer.__b_Action)

#if QCAP == 4
#define IS_ACTOR(p) ((p) == &g_act[0] || (p) == &g_act[1] || (p) == &g_act[2] || (p) == &g_act[3] || (p) == &g_act[4])
#define ALLACT(P) (P(0) && P(1) && P(2) && P(3) && P(4))
#define ALLQ(P) (P(0) && P(1) && P(2) && P(3))
#define ANYQ(P) (P(0) || P(1) || P(2) || P(3))
#define ALLPAIRS(P) (P(0, 1) && P(0, 2) && P(0, 3) && P(1, 2) && P(1, 3) && P(2, 3))
#define ALLQ2(P, X) (P(0, X) && P(1, X) && P(2, X) && P(3, X))
#define ALLPAIRS2(P, X) (P(0, 1, X) && P(0, 2, X) && P(0, 3, X) && P(1, 2, X) && P(1, 3, X) && P(2, 3, X))
#define ACTV_NS                                                                                                        \
  g_act[0].activities_.n, g_act[1].activities_.n, g_act[2].activities_.n, g_act[3].activities_.n, g_act[4].activities_.n
#elif QCAP == 6
#define IS_ACTOR(p)                                                                                                    \
  ((p) == &g_act[0] || (p) == &g_act[1] || (p) == &g_act[2] || (p) == &g_act[3] || (p) == &g_act[4] ||                 \
   (p) == &g_act[5] || (p) == &g_act[6])
#define ALLACT(P) (P(0) && P(1) && P(2) && P(3) && P(4) && P(5) && P(6))
#define ALLQ(P) (P(0) && P(1) && P(2) && P(3) && P(4) && P(5))
#define ANYQ(P) (P(0) || P(1) || P(2) || P(3) || P(4) || P(5))
#define ALLPAIRS(P)                                                                                                    \
  (P(0, 1) && P(0, 2) && P(0, 3) && P(0, 4) && P(0, 5) && P(1, 2) && P(1, 3) && P(1, 4) && P(1, 5) && P(2, 3) &&       \
   P(2, 4) && P(2, 5) && P(3, 4) && P(3, 5) && P(4, 5))
#define ALLQ2(P, X) (P(0, X) && P(1, X) && P(2, X) && P(3, X) && P(4, X) && P(5, X))
#define ALLPAIRS2(P, X)                                                                                                \
  (P(0, 1, X) && P(0, 2, X) && P(0, 3, X) && P(0, 4, X) && P(0, 5, X) && P(1, 2, X) && P(1, 3, X) && P(1, 4, X) &&     \
   P(1, 5, X) && P(2, 3, X) && P(2, 4, X) && P(2, 5, X) && P(3, 4, X) && P(3, 5, X) && P(4, 5, X))
#define ACTV_NS                                                                                                        \
  g_act[0].activities_.n, g_act[1].activities_.n, g_act[2].activities_.n, g_act[3].activities_.n,                      \
      g_act[4].activities_.n, g_act[5].activities_.n, g_act[6].activities_.n
#else
#error "QCAP must be 4 or 6"
#endif

/* representation invariant of the semaphore (wf_Sem of DESIGN.md): a free token excludes waiters; waiters are not
 * granted; an actor blocked on the semaphore cannot ask again (pairwise distinct issuers).  It is written over a layout
 * IDX: the k-th pending acquisition is the object g_acq[IDX(k)], so that every access is an indexed access to g_acq
 * (through-the-queue dereferences make the SAT instance explode).  Preconditions use the canonical layout
 * IDX0(k) = h + k — a symmetry reduction: the code looks at addresses of acquisitions only through equality —;
 * cancel leaves a gap at the position it removes (IDXGAP).                                                         */
#define IDX0(k) (Qh + (k))
#define ELEM_AT(k, IDX)                                                                                                \
  (!((k) < Qn) || (Q(k) == &g_acq[IDX(k)] && IS_ACTOR(g_acq[IDX(k)].issuer_) && g_acq[IDX(k)].semaphore_ == &g_s &&    \
                   !g_acq[IDX(k)].granted_))
#define PAIR_AT(i, j, IDX) (!((j) < Qn) || g_acq[IDX(i)].issuer_ != g_acq[IDX(j)].issuer_)
#define WF_AT(IDX)                                                                                                     \
  (g_s.ongoing_acquisitions_.d == g_qd && g_s.ongoing_acquisitions_.cap == QSZ && Qn <= QCAP && Qh <= QCAP + 1 &&      \
   (g_s.value_ == 0 || Qn == 0) && ALLQ2(ELEM_AT, IDX) && ALLPAIRS2(PAIR_AT, IDX))
#define WF_SEM (Qn <= QCAP && Qh <= QCAP && Qh + Qn <= QCAP && WF_AT(IDX0))
#define WF_ACTOR(a)                                                                                                    \
  (g_act[a].waiting_synchros_.d == g_ws[a] && g_act[a].waiting_synchros_.h == 0 &&                                     \
   g_act[a].waiting_synchros_.n <= WCAP && g_act[a].activities_.k == g_actv[a] && g_act[a].activities_.n <= WCAP &&    \
   g_act[a].simcall_.observer_ == (struct SimcallObserver*)&g_sobs[a] && g_act[a].host_ == &g_host)
#define WF_ACTORS (ALLACT(WF_ACTOR) && g_host.pimpl_cpu_ == &g_cpu)
#define ACTV_LE(a) (g_act[a].activities_.n <= WCAP)
/* an acquisition handed out by acquire_async and not yet finished: either granted, or waiting in Q (never both) */
#define IN_Q_AT(k) ((k) < Qn && Q(k) == self)
#define ACQ_LIVE(self)                                                                                                 \
  (__CPROVER_rw_ok(self, sizeof(*self)) && self->semaphore_ == &g_s && IS_ACTOR(self->issuer_) &&                      \
   (self->granted_ != ANYQ(IN_Q_AT)) && (ACT(self).model_action_ == NULL || ACT(self).model_action_ == TIMER))

/* ghost index: an arbitrary queue position; obligations mentioning it hold for every position */
size_t gk;

/* ---------------- assumed contracts of callees outside C05 (listed in the evidence) -------------------- */
void ActivityImpl__register_simcall(struct ActivityImpl* self, struct Simcall* sc)
    __CPROVER_requires(__CPROVER_rw_ok(self, sizeof(*self))) __CPROVER_assigns(g_registered, self->simcalls_.n)
    __CPROVER_ensures(g_registered == __CPROVER_old(g_registered) + 1 &&
                      self->simcalls_.n == __CPROVER_old(self->simcalls_.n) + 1);

struct ActorImpl* ActivityImpl__unregister_first_simcall(struct ActivityImpl* self)
    __CPROVER_requires(1) __CPROVER_assigns(g_unreg_calls, g_unreg_ret)
    __CPROVER_ensures((__CPROVER_return_value == NULL || IS_ACTOR(__CPROVER_return_value)) &&
                      g_unreg_ret == __CPROVER_return_value && g_unreg_calls == __CPROVER_old(g_unreg_calls) + 1);

void ActorImpl__simcall_answer(struct ActorImpl* self)
    __CPROVER_requires(IS_ACTOR(self)) __CPROVER_assigns(g_answered, g_answered_actor)
    __CPROVER_ensures(g_answered == __CPROVER_old(g_answered) + 1 && g_answered_actor == self);

/* ActivityImpl_T<> constructor: header default member initialisers (model_action_ = nullptr, no simcall) */
void ActivityImpl_T_SemAcquisitionImpl__ctor(struct ActivityImpl_T_SemAcquisitionImpl* self)
    __CPROVER_requires(__CPROVER_rw_ok(self, sizeof(*self))) __CPROVER_assigns(*self)
    __CPROVER_ensures(self->__b_ActivityImpl.simcalls_.n == 0 && self->__b_ActivityImpl.model_action_ == NULL);

/* names are dropped (strings are opaque ids) */
struct SemAcquisitionImpl* ActivityImpl_T_SemAcquisitionImpl__set_name(struct ActivityImpl_T_SemAcquisitionImpl* self,
                                                                       vf_str name)
    __CPROVER_requires(1) __CPROVER_assigns()
    __CPROVER_ensures(__CPROVER_return_value == (struct SemAcquisitionImpl*)self);
vf_str to_string(unsigned int v) __CPROVER_requires(1) __CPROVER_assigns() __CPROVER_ensures(1);
vf_str vf_str_concat(vf_str a, vf_str b) __CPROVER_requires(1) __CPROVER_assigns() __CPROVER_ensures(1);

/* the timer: CpuImpl::sleep(t) hands out an action of duration exactly t (its completion date is C03/C12 territory) */
struct CpuAction* CpuImpl__sleep(struct CpuImpl* self, double duration)
    __CPROVER_requires(self == &g_cpu) __CPROVER_assigns(g_sleeps, g_sleep_duration)
    __CPROVER_ensures(__CPROVER_return_value == &g_timer && g_sleeps == __CPROVER_old(g_sleeps) + 1 &&
                      g_sleep_duration == duration);
int Action__get_state(struct Action* self) __CPROVER_requires(self == TIMER) __CPROVER_assigns()
    __CPROVER_ensures(__CPROVER_return_value == g_timer_state);
_Bool Action__unref(struct Action* self) __CPROVER_requires(self == TIMER) __CPROVER_assigns(g_unrefs)
    __CPROVER_ensures(g_unrefs == __CPROVER_old(g_unrefs) + 1);

/* the pending simcall of an actor blocked in acquire_timeout carries a SemaphoreAcquisitionObserver (s4u_Semaphore.cpp) */
struct SemaphoreAcquisitionObserver* vf_dyncast_SimcallObserver_to_SemaphoreAcquisitionObserver(struct SimcallObserver* p)
    __CPROVER_requires(1) __CPROVER_assigns()
    __CPROVER_ensures(__CPROVER_return_value == (struct SemaphoreAcquisitionObserver*)p);
void DelayedSimcallObserver_bool__set_result(struct DelayedSimcallObserver_bool* self, _Bool v)
    __CPROVER_requires(1) __CPROVER_assigns(g_result_set, g_result_value, g_result_obs)
    __CPROVER_ensures(g_result_set == __CPROVER_old(g_result_set) + 1 && g_result_value == v &&
                      g_result_obs == (void*)self);

/* ---------------- contracts of the units ----------------------------------------------------------------- */

void SemAcquisitionImpl__ctor(struct SemAcquisitionImpl* self, struct ActorImpl* issuer, struct SemaphoreImpl* sem)
    __CPROVER_requires(__CPROVER_rw_ok(self, sizeof(*self)) && __CPROVER_r_ok(sem, sizeof(*sem)) && vf_exc == 0)
    __CPROVER_assigns(*self)
    __CPROVER_ensures(self->issuer_ == issuer && self->semaphore_ == sem) /*@ ctor_records_issuer_and_semaphore */
    __CPROVER_ensures(!self->granted_)                                    /*@ ctor_never_granted_at_creation */
    __CPROVER_ensures(ACT(self).model_action_ == NULL && SIMCALLS_N(self) == 0 && vf_exc == 0);

/* reported capacity = free tokens */
unsigned int SemaphoreImpl__get_capacity(struct SemaphoreImpl* self)
    __CPROVER_requires(__CPROVER_r_ok(self, sizeof(*self))) __CPROVER_assigns()
    __CPROVER_ensures(__CPROVER_return_value == self->value_) /*@ capacity_is_free_tokens */;
_Bool SemaphoreImpl__would_block(struct SemaphoreImpl* self)
    __CPROVER_requires(__CPROVER_r_ok(self, sizeof(*self))) __CPROVER_assigns()
    __CPROVER_ensures(__CPROVER_return_value == (self->value_ == 0)) /*@ would_block_iff_no_token */;
_Bool SemAcquisitionImpl__test(struct SemAcquisitionImpl* self, struct ActorImpl* issuer)
    __CPROVER_requires(__CPROVER_r_ok(self, sizeof(*self))) __CPROVER_assigns()
    __CPROVER_ensures(__CPROVER_return_value == self->granted_) /*@ test_true_iff_granted */;

/* acquire_async: grants at once iff a token is free (and then takes exactly one); else queued at the TAIL.
 * The clauses below give wf_Sem of the new state piecewise (old waiters untouched, the new one is a fresh object of
 * another issuer, not granted, and "token free => nobody waits"); stating WF over the queue that now holds a
 * heap object does not terminate in the solver.                                                                    */
#define NOT_MINE(k) (!((k) < Qn) || g_acq[Qh + (k)].issuer_ != issuer)
struct SemAcquisitionImpl* SemaphoreImpl__acquire_async(struct SemaphoreImpl* self, struct ActorImpl* issuer)
    __CPROVER_requires(self == &g_s && WF_SEM && Qh + Qn + 1 <= QCAP && IS_ACTOR(issuer) && vf_exc == 0)
    /* assumed from the s4u layer: the caller is not already blocked on this semaphore */
    __CPROVER_requires(ALLQ(NOT_MINE))
    __CPROVER_assigns(g_s.value_, g_s.ongoing_acquisitions_.n, __CPROVER_object_whole(g_qd))
    __CPROVER_ensures(vf_exc == 0 && __CPROVER_return_value != NULL)
    __CPROVER_ensures(__CPROVER_return_value->issuer_ == issuer && __CPROVER_return_value->semaphore_ == &g_s)
    /*@ acquire_acq_is_mine */
    __CPROVER_ensures(__CPROVER_return_value->granted_ == (__CPROVER_old(g_s.value_) > 0))
    /*@ acquire_granted_iff_token_free */
    __CPROVER_ensures(g_s.value_ + (__CPROVER_return_value->granted_ ? 1u : 0u) == __CPROVER_old(g_s.value_))
    /*@ acquire_token_conservation */
    __CPROVER_ensures(__CPROVER_return_value->granted_ ||
                      (Qn == oldQn + 1 && Qh == oldQh && Q(oldQn) == __CPROVER_return_value))
    /*@ acquire_blocked_goes_to_tail */
    __CPROVER_ensures(!__CPROVER_return_value->granted_ || (Qn == oldQn && Qh == oldQh))
    /*@ acquire_granted_is_not_queued */
    __CPROVER_ensures(!(gk < oldQn) || (Q(gk) == &g_acq[Qh + gk] && !g_acq[Qh + gk].granted_ &&
                                        g_acq[Qh + gk].issuer_ ==
                                            __CPROVER_old(g_acq[g_s.ongoing_acquisitions_.h + gk].issuer_)))
    /*@ acquire_existing_queue_untouched */
    __CPROVER_ensures(g_s.value_ == 0 || Qn == 0) /*@ acquire_free_token_excludes_waiters */
    __CPROVER_ensures(ACT(__CPROVER_return_value).model_action_ == NULL && SIMCALLS_N(__CPROVER_return_value) == 0);

/* cancel: the acquisition leaves the queue; nobody else moves relative to the others; no token, no grant
 * (value_ and every granted_ flag are outside its assigns clause)                                                  */
#define SELF_POS ((size_t)(self - &g_acq[0]) - oldQh) /* position of self in the old queue */
#define IDXGAP(k) (oldQh + (k) + ((k) >= SELF_POS ? 1 : 0))
void SemAcquisitionImpl__cancel(struct SemAcquisitionImpl* self)
    __CPROVER_requires(WF_SEM && WF_ACTORS && ACQ_LIVE(self) && !self->granted_ && vf_exc == 0)
    __CPROVER_assigns(vf_exc, g_s.ongoing_acquisitions_.n, __CPROVER_object_whole(g_qd), __CPROVER_object_whole(g_actv),
                      ACTV_NS)
    __CPROVER_ensures(vf_exc == 0)
    __CPROVER_ensures(Qn == oldQn - 1 && Qh == oldQh)  /*@ cancel_removes_one */
    __CPROVER_ensures(!(gk < Qn) || Q(gk) != self)     /*@ cancel_removes_me */
    __CPROVER_ensures(WF_AT(IDXGAP))                   /*@ cancel_keeps_order_of_the_others_and_wf */
    __CPROVER_ensures(ALLACT(ACTV_LE))                 /*@ cancel_keeps_actors_wf */;

/* loop 0 of cancel: std::find_if of my issuer in Q */
#define NOT_FOUND_BEFORE(k) (!((k) < __i0) || g_acq[Qh + (k)].issuer_ != issuer)
#define VF_LOOP_SemAcquisitionImpl__cancel_0                                                                           \
  __CPROVER_assigns(__i0) __CPROVER_loop_invariant(__i0 <= __fn0 && ALLQ(NOT_FOUND_BEFORE))                            \
      __CPROVER_decreases(__fn0 - __i0)

/* finish: the waiter is answered; a timeout is reported iff the timer elapsed and no token was granted, and then
 * the acquisition leaves the queue without consuming a token or granting anybody (value_ and every granted_ flag are
 * outside the assigns clause; the queue is assignable only in the timeout case)                                    */
#define TO_PRE(self) (ACT(self).model_action_ != NULL && g_timer_state == State__FINISHED && !self->granted_)
#define TIMED_OUT(self)                                                                                                \
  (__CPROVER_old(ACT(self).model_action_) != NULL && g_timer_state == State__FINISHED && !__CPROVER_old(self->granted_))
void SemAcquisitionImpl__finish(struct SemAcquisitionImpl* self)
    __CPROVER_requires(WF_SEM && WF_ACTORS && ACQ_LIVE(self) && vf_exc == 0 && g_result_set == 0 &&
                       0 <= g_answered && g_answered < 1000 && 0 <= g_unreg_calls && g_unreg_calls < 1000)
    __CPROVER_assigns(vf_exc, g_answered, g_answered_actor, g_unrefs, g_unreg_calls, g_unreg_ret,
                      ACT(self).model_action_, ACT(self).state_)
    __CPROVER_assigns(TO_PRE(self) : g_s.ongoing_acquisitions_.n, __CPROVER_object_whole(g_qd),
                      __CPROVER_object_whole(g_actv), ACTV_NS, g_result_set, g_result_value, g_result_obs)
    __CPROVER_ensures((vf_exc == VF_EXC_ABORT) == (SIMCALLS_N(self) != 1)) /*@ finish_needs_exactly_one_waiter */
    __CPROVER_ensures(vf_exc == 0 || vf_exc == VF_EXC_ABORT)
    __CPROVER_ensures(g_result_set == (TIMED_OUT(self) ? 1 : 0) &&
                      (g_result_set == 0 || (g_result_value && g_result_obs == (void*)self->issuer_->simcall_.observer_)))
    /*@ finish_reports_timeout_iff_timer_elapsed_and_not_granted */
    __CPROVER_ensures(!TIMED_OUT(self) || (Qn == oldQn - 1 && Qh == oldQh && !self->granted_ && WF_AT(IDXGAP)))
    /*@ finish_timeout_leaves_the_queue_ungranted_others_in_order */
    __CPROVER_ensures(!TIMED_OUT(self) || !(gk < Qn) || Q(gk) != self) /*@ finish_timeout_removes_me */
    __CPROVER_ensures(TIMED_OUT(self) || (Qn == oldQn && Qh == oldQh && WF_AT(IDX0)))
    /*@ finish_without_timeout_leaves_queue_alone */
    __CPROVER_ensures(ACT(self).model_action_ == NULL)
    __CPROVER_ensures(vf_exc == 0 || (g_answered == __CPROVER_old(g_answered) &&
                                      g_unreg_calls == __CPROVER_old(g_unreg_calls)))
    __CPROVER_ensures(vf_exc != 0 || (g_unreg_calls == __CPROVER_old(g_unreg_calls) + 1 &&
                                      g_answered == __CPROVER_old(g_answered) + (g_unreg_ret != NULL ? 1 : 0)))
    /*@ finish_answers_the_waiter_once_unless_it_is_dying */
    __CPROVER_ensures(ALLACT(ACTV_LE)) /*@ finish_keeps_actors_wf */;

/* release: hands the token to the HEAD of the queue (request order) or, if nobody waits, puts it back */
void SemaphoreImpl__release(struct SemaphoreImpl* self)
    __CPROVER_requires(self == &g_s && WF_SEM && WF_ACTORS && vf_exc == 0 && g_answered == 0 && g_result_set == 0 &&
                       g_unreg_calls == 0)
    /* fewer than 2^32-1 free tokens (value_++ would wrap) */
    __CPROVER_requires(g_s.value_ < 0xffffffffu)
    /* assumed link with ActivityImpl (register_simcall is an assumed callee): a pending acquisition whose issuer is
       blocked on it has exactly one waiter; its timer, if any, is the one sleep() handed out                       */
    __CPROVER_requires(Qn == 0 || (SIMCALLS_N(&g_acq[Qh]) == 1 && (ACT(&g_acq[Qh]).model_action_ == NULL ||
                                                                   ACT(&g_acq[Qh]).model_action_ == TIMER)))
    __CPROVER_assigns(vf_exc, g_s.value_, g_s.ongoing_acquisitions_.h, g_s.ongoing_acquisitions_.n,
                      __CPROVER_object_whole(g_acq), g_answered, g_answered_actor, g_unrefs, g_unreg_calls,
                      g_unreg_ret)
    __CPROVER_ensures(vf_exc == 0)
    __CPROVER_ensures(oldQn == 0 || (g_acq[oldQh].granted_ && Qh == oldQh + 1 && Qn == oldQn - 1 &&
                                     g_s.value_ == __CPROVER_old(g_s.value_))) /*@ release_grants_head_of_queue */
    __CPROVER_ensures(oldQn != 0 || (g_s.value_ == __CPROVER_old(g_s.value_) + 1 && Qn == 0))
    /*@ release_without_waiter_adds_token */
    __CPROVER_ensures(g_s.value_ + (oldQn != 0 ? 1u : 0u) == __CPROVER_old(g_s.value_) + 1u)
    /*@ release_token_conservation */
    __CPROVER_ensures(!(gk < Qn) ||
                      (Q(gk) == &g_acq[Qh + gk] && !g_acq[Qh + gk].granted_ &&
                       g_acq[Qh + gk].issuer_ == __CPROVER_old(g_acq[g_s.ongoing_acquisitions_.h + 1 + gk].issuer_)))
    /*@ release_rest_of_queue_untouched */
    __CPROVER_ensures(g_result_set == 0)             /*@ release_never_reports_timeout */
    __CPROVER_ensures(g_answered == 0 || oldQn != 0) /*@ release_answers_only_a_granted_waiter */
    __CPROVER_ensures(g_answered == 0 || g_answered == 1)
    __CPROVER_ensures(WF_SEM) /*@ release_keeps_wf */;

/* wait_for: only the creator may wait; returns at once iff granted; else blocks, with a timer of exactly t if t > 0.
 * The semaphore itself (value_, queue, granted_ flags) is outside the assigns clause: waiting changes nothing.       */
void SemAcquisitionImpl__wait_for(struct SemAcquisitionImpl* self, struct ActorImpl* issuer, double timeout)
    __CPROVER_requires(WF_SEM && WF_ACTORS && ACQ_LIVE(self) && vf_exc == 0 && g_registered == 0 && g_answered == 0 &&
                       g_sleeps == 0 && g_result_set == 0 && SIMCALLS_N(self) == 0 && ACT(self).model_action_ == NULL &&
                       g_unreg_calls == 0)
    __CPROVER_assigns(vf_exc, g_answered, g_answered_actor, g_unrefs, g_unreg_calls, g_unreg_ret,
                      ACT(self).model_action_, ACT(self).state_, g_registered, SIMCALLS_N(self), g_sleeps, g_sleep_duration, g_timer.__b_Action.activity_)
    __CPROVER_ensures((vf_exc == VF_EXC_ABORT) == (!__CPROVER_isfinited(timeout) || issuer != self->issuer_))
    /*@ wait_for_rejects_misuse */
    __CPROVER_ensures(vf_exc == 0 || vf_exc == VF_EXC_ABORT)
    __CPROVER_ensures(vf_exc != 0 || g_registered == 1) /*@ wait_for_registers_the_waiter */
    __CPROVER_ensures(vf_exc != 0 || !self->granted_ ||
                      (g_unreg_calls == 1 && g_answered == (g_unreg_ret != NULL ? 1 : 0) && g_sleeps == 0))
    /*@ wait_for_granted_returns_at_once */
    __CPROVER_ensures(self->granted_ || g_answered == 0) /*@ wait_for_blocks_while_not_granted */
    __CPROVER_ensures(g_result_set == 0)                 /*@ wait_for_itself_reports_no_timeout */
    __CPROVER_ensures(vf_exc != 0 || self->granted_ || !(timeout > 0.0) ||
                      (g_sleeps == 1 && g_sleep_duration == timeout && ACT(self).model_action_ == TIMER &&
                       g_timer.__b_Action.activity_ == &ACT(self))) /*@ wait_for_arms_timer_of_exactly_t */
    __CPROVER_ensures(!(timeout < 0.0) || g_sleeps == 0)             /*@ wait_for_negative_timeout_never_expires */
    /* t == 0 ("no token within 0 seconds"): the property demands a timeout report now, through a timer of duration 0 or
       directly.  The code only arms a timer when timeout > 0: KNOWN FINDING (see known_findings.txt / level_note)     */
    __CPROVER_ensures(vf_exc != 0 || self->granted_ || timeout != 0.0 ||
                      (g_sleeps == 1 && g_sleep_duration == 0.0 && ACT(self).model_action_ == TIMER) ||
                      (g_result_set == 1 && g_result_value)) /*@ wait_for_zero_timeout_expires_at_once */;

#include "gen.c"

/* ---------------- harnesses -------------------------------------------------------------------------------- */
size_t nondet_size(void);
int nondet_int(void);
unsigned nondet_unsigned(void);
_Bool nondet_bool(void);
double nondet_double(void);

static struct ActorImpl* pick_actor(void)
{
  int i = nondet_int();
  __CPROVER_assume(0 <= i && i < NACT);
  return &g_act[i];
}

static void setup(void)
{
  for (int a = 0; a < NACT; a++) {
    g_act[a].waiting_synchros_.d   = g_ws[a];
    g_act[a].waiting_synchros_.h   = 0;
    g_act[a].waiting_synchros_.cap = WCAP + 2;
    size_t n                       = nondet_size();
    __CPROVER_assume(n <= WCAP);
    g_act[a].waiting_synchros_.n = n;
    g_act[a].activities_.k       = g_actv[a];
    g_act[a].activities_.cap     = WCAP + 2;
    size_t m                     = nondet_size();
    __CPROVER_assume(m <= WCAP);
    g_act[a].activities_.n      = m;
    g_act[a].simcall_.observer_ = (struct SimcallObserver*)&g_sobs[a];
    g_act[a].host_              = &g_host;
  }
  g_host.pimpl_cpu_ = &g_cpu;
  for (int k = 0; k < QSZ; k++) {
    g_qd[k]                            = &g_acq[k];
    g_acq[k].issuer_                   = pick_actor();
    g_acq[k].semaphore_                = &g_s;
    ACT(&g_acq[k]).simcalls_.d         = NULL;
    ACT(&g_acq[k]).model_action_       = nondet_bool() ? NULL : TIMER;
  }
  g_s.ongoing_acquisitions_.d   = g_qd;
  g_s.ongoing_acquisitions_.cap = QSZ;
  vf_exc                        = 0;
  g_answered                    = 0;
  g_registered                  = 0;
  g_result_set                  = 0;
  g_sleeps                      = 0;
  g_unrefs                      = 0;
  g_unreg_calls                 = 0;
  __CPROVER_assume(gk < QCAP);
}

static struct SemAcquisitionImpl* pick_acq(void)
{
  size_t k = nondet_size();
  __CPROVER_assume(k < QSZ);
  return &g_acq[k];
}

#ifdef H_ctor
struct SemAcquisitionImpl g_fresh;
void harness(void)
{
  setup();
  SemAcquisitionImpl__ctor(&g_fresh, pick_actor(), &g_s);
  VF_CANARY_POINT;
}
#endif
#ifdef H_get_capacity
void harness(void)
{
  setup();
  SemaphoreImpl__get_capacity(&g_s);
  VF_CANARY_POINT;
}
#endif
#ifdef H_would_block
void harness(void)
{
  setup();
  SemaphoreImpl__would_block(&g_s);
  VF_CANARY_POINT;
}
#endif
#ifdef H_acq_test
void harness(void)
{
  setup();
  SemAcquisitionImpl__test(pick_acq(), pick_actor());
  VF_CANARY_POINT;
}
#endif
#ifdef H_acquire_async
void harness(void)
{
  setup();
  SemaphoreImpl__acquire_async(&g_s, pick_actor());
  VF_CANARY_POINT;
}
#endif
#ifdef H_release
void harness(void)
{
  setup();
  SemaphoreImpl__release(&g_s);
  VF_CANARY_POINT;
}
#endif
#ifdef H_cancel
void harness(void)
{
  setup();
  SemAcquisitionImpl__cancel(pick_acq());
  VF_CANARY_POINT;
}
#endif
#ifdef H_finish
void harness(void)
{
  setup();
  SemAcquisitionImpl__finish(pick_acq());
  VF_CANARY_POINT;
}
#endif
#ifdef H_wait_for
void harness(void)
{
  setup();
  SemAcquisitionImpl__wait_for(pick_acq(), pick_actor(), nondet_double());
  VF_CANARY_POINT;
}
#endif
