// native reproduction: Semaphore::acquire_timeout(0) on an empty semaphore
#include <simgrid/s4u.hpp>
#include <cstdio>
int main(int argc, char** argv)
{
  simgrid::s4u::Engine e(&argc, argv);
  e.load_platform(argv[1]);
  auto sem   = simgrid::s4u::Semaphore::create(0);
  int result = -1;
  double when = -1;
  simgrid::s4u::Actor::create("waiter", e.get_all_hosts()[0], [&]() {
    bool to = sem->acquire_timeout(0.0);
    result  = to;
    when    = simgrid::s4u::Engine::get_clock();
  });
  simgrid::s4u::Actor::create("releaser", e.get_all_hosts()[0], [&]() {
    simgrid::s4u::this_actor::sleep_for(5);
    sem->release();
  });
  e.run();
  printf("acquire_timeout(0) on empty semaphore: returned timeout=%d at t=%g (expected timeout=1 at t=0)\n", result, when);
  return (result == 1 && when == 0.0) ? 0 : 1;
}
