import os, sys
sys.path.insert(0, os.path.join(os.path.dirname(os.path.abspath(__file__)), "..", "..", "replay"))
import native


def replay(violation, inputs, workdir, repo):
    """real Group code on all pairs of ordered groups (sizes <= 3) over 4 actors; the label selects the checked operation"""
    here = os.path.dirname(os.path.abspath(__file__))
    return native.build_and_run(os.path.join(here, "replay.cpp"), workdir, repo, [violation["label"].split(":")[-1]])
