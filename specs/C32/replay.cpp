// Native replay for C32: runs the REAL simgrid::smpi::Group code of the working tree (the TU is compiled into this
// driver) on every pair of groups over a world of W actors (all ordered subsets, sizes <= 3) and checks the results of
// intersection / difference / union against the MPI-3.1 (6.3.2) definitions, like specs/C32/spec.c does symbolically.
// F2C::add_f (Fortran handle registration, libsimgrid) needs a running SMPI process: it is renamed to a no-op defined below.
// Nothing of the group logic is touched.
#define add_f vf_replay_add_f
#include "src/smpi/mpi/smpi_group.cpp"
#undef add_f
int simgrid::smpi::F2C::vf_replay_add_f() { return 0; }
#include "simgrid/s4u/Engine.hpp"
#include <algorithm>
#include <cstdio>
#include <cstring>
#include <vector>
using simgrid::smpi::Group;

static Group* make(const std::vector<long>& pids)
{
  auto* g = new Group(static_cast<int>(pids.size()));
  for (size_t i = 0; i < pids.size(); i++)
    g->set_mapping(pids[i], static_cast<int>(i));
  return g;
}
static std::vector<long> members(Group* g)
{
  std::vector<long> r;
  if (g == MPI_GROUP_EMPTY)
    return r;
  for (int i = 0; i < g->size(); i++)
    r.push_back(g->actor(i));
  return r;
}
static bool in(const std::vector<long>& v, long x) { return std::find(v.begin(), v.end(), x) != v.end(); }
static void show(const char* what, const std::vector<long>& v)
{
  printf("%s=[", what);
  for (size_t i = 0; i < v.size(); i++)
    printf("%s%ld", i ? "," : "", v[i]);
  printf("] ");
}

int main(int argc, char** argv)
{
  const char* label = argc > 1 ? argv[1] : "";
  int eargc = 1;
  simgrid::s4u::Engine engine(&eargc, argv); // Group::rank asks s4u::Actor::by_pid, which needs an engine
  const int W = 4; // pids 100..103: no such actors exist, so Group::rank's parent fallback finds nothing
  std::vector<std::vector<long>> all;
  for (int a = -1; a < W; a++)
    for (int b = -1; b < W; b++)
      for (int c = -1; c < W; c++) {
        std::vector<long> g;
        for (int x : {a, b, c})
          if (x >= 0 && not in(g, 100 + x))
            g.push_back(100 + x);
        if (std::find(all.begin(), all.end(), g) == all.end())
          all.push_back(g);
      }
  int failures = 0;
  for (auto const& p1 : all)
    for (auto const& p2 : all) {
      Group* g1 = make(p1);
      Group* g2 = make(p2);
      std::vector<long> want_i, want_d, want_u = p1;
      for (long x : p1)
        (in(p2, x) ? want_i : want_d).push_back(x); // ordered as in the first group
      for (long x : p2)
        if (not in(p1, x))
          want_u.push_back(x);
      MPI_Group out = nullptr;
      struct { const char* lab; const char* op; std::vector<long> want; std::vector<long> got; } t[3];
      g1->intersection(g2, &out);
      t[0] = {"intersection_is_common_members_in_first_group_order", "intersection", want_i, members(out)};
      g1->difference(g2, &out);
      t[1] = {"difference_is_first_group_minus_second_in_first_group_order", "difference", want_d, members(out)};
      g1->group_union(g2, &out);
      t[2] = {"union", "union", want_u, members(out)};
      for (auto& c : t) {
        if (*label && not strstr(c.lab, label) && not strstr(label, c.lab) && not(strstr(label, "union") && !strcmp(c.op, "union")))
          continue;
        if (c.want != c.got) {
          if (failures < 5) {
            printf("REPRODUCED %s: ", c.op);
            show("group1", p1);
            show("group2", p2);
            show("MPI", c.want);
            show("got", c.got);
            printf("\n");
          }
          failures++;
        }
      }
    }
  printf("%d mismatching (group1,group2) pairs out of %zu\n", failures, all.size() * all.size());
  return failures ? 1 : 0;
}
