/* C32 — MPI groups: members and rank order of incl/excl/union/intersection/difference/range_*, rank translation, compare.
 * Contracts on the real simgrid::smpi::Group methods (extracted by cxx2c into gen.c).
 * Abstract view of a group g: the sequence PID(g,0..N(g)) of actor ids (rank_to_pid_map_) and its inverse
 * RANKOF(g,pid) (pid_to_rank_map_, MPI_UNDEFINED outside). Capacity of the model: group sizes <= CAP, pids in [0,CAP). */
#ifndef CAP
#define CAP 5
#endif
#define VF_CAP CAP /* locally created vectors (new groups, rank lists) have the same capacity */
#include "gen.h"
#include "caps.h"

#define UNDEF (-333)     /* MPI_UNDEFINED, include/smpi/smpi.h */
#define IDENT 0          /* MPI_IDENT   */
#define SIMILAR 1        /* MPI_SIMILAR */
#define UNEQUAL 2        /* MPI_UNEQUAL */
#define SUCCESS 0        /* MPI_SUCCESS */

/* ---------------- abstract view --------------------------------------------------------------------------- */
#define N(g) ((g)->rank_to_pid_map_.n)
#define PN(g) ((g)->pid_to_rank_map_.n)
#define PID(g, i) ((g)->rank_to_pid_map_.d[i])
#define RK(g, p) ((g)->pid_to_rank_map_.d[p])
#define RANKOF(g, p) (((p) >= 0 && (unsigned long)(p) < PN(g)) ? RK(g, p) : UNDEF)

/* memory shape of a group object whose vectors hold CAP slots (static groups of the harness or groups made by new) */
#define RSHAPE(g)                                                                                                      \
  (__CPROVER_r_ok((g), sizeof(struct Group)) && (g)->rank_to_pid_map_.h == 0 && (g)->pid_to_rank_map_.h == 0 &&        \
   (g)->rank_to_pid_map_.cap == VF_CAP && (g)->pid_to_rank_map_.cap == VF_CAP && N(g) <= CAP && PN(g) <= CAP &&        \
   __CPROVER_r_ok((g)->rank_to_pid_map_.d, CAP * sizeof(long)) && __CPROVER_r_ok((g)->pid_to_rank_map_.d, CAP * sizeof(int)))
#define WSHAPE(g)                                                                                                      \
  (__CPROVER_rw_ok((g), sizeof(struct Group)) && (g)->rank_to_pid_map_.h == 0 && (g)->pid_to_rank_map_.h == 0 &&       \
   (g)->rank_to_pid_map_.cap == VF_CAP && (g)->pid_to_rank_map_.cap == VF_CAP && N(g) <= CAP && PN(g) <= CAP &&        \
   __CPROVER_rw_ok((g)->rank_to_pid_map_.d, CAP * sizeof(long)) && __CPROVER_rw_ok((g)->pid_to_rank_map_.d, CAP * sizeof(int)))
#define NEWSHAPE(g)                                                                                                    \
  ((g)->rank_to_pid_map_.h == 0 && (g)->pid_to_rank_map_.h == 0 && (g)->rank_to_pid_map_.cap == VF_CAP &&             \
   (g)->pid_to_rank_map_.cap == VF_CAP)

/* representation invariant: the two vectors are inverse of each other (hence PID is injective) */
#define WF_R(i, g) (!((i) < N(g)) || (PID(g, i) >= 0 && (unsigned long)PID(g, i) < PN(g) && RK(g, PID(g, i)) == (i)))
#define WF_P(p, g)                                                                                                     \
  (!((p) < PN(g)) || RK(g, p) == UNDEF || (RK(g, p) >= 0 && (unsigned long)RK(g, p) < N(g) && PID(g, RK(g, p)) == (p)))
#define WF(g) (N(g) <= CAP && PN(g) <= CAP && ALLA(WF_R, g) && ALLA(WF_P, g))

/* ---------------- state built by the harnesses -------------------------------------------------------------- */
long a_r2p[CAP], b_r2p[CAP];
int a_p2r[CAP], b_p2r[CAP];
struct Group g_a, g_b;
/* operator new of Group is modelled as handing out this designated object (one allocation per call path) */
long n_r2p[CAP];
int n_p2r[CAP];
struct Group g_new;
struct Group* g_out; /* where the operations store their result */
int g_ranks[CAP];
struct Actor g_actor;    /* the parent actor s4u::Actor::by_pid may find */
struct Actor* g_parent;  /* ghost: result of by_pid (NULL = no such actor) */
long g_ppid;             /* ghost: its parent pid */

/* ---------------- assumed contracts of callees outside C32 -------------------------------------------------- */
struct Actor* by_pid(long pid) __CPROVER_requires(1) __CPROVER_assigns() __CPROVER_ensures(__CPROVER_return_value == g_parent);
long Actor__get_ppid(struct Actor* self) __CPROVER_requires(self == &g_actor) __CPROVER_assigns()
    __CPROVER_ensures(__CPROVER_return_value == g_ppid);
int F2C__add_f(struct F2C* self) __CPROVER_requires(1) __CPROVER_assigns() __CPROVER_ensures(1);
void F2C__ctor(struct F2C* self) __CPROVER_requires(1) __CPROVER_assigns() __CPROVER_ensures(1);

/* ---------------- contracts of the units -------------------------------------------------------------------- */

/* Group(int size): size unmapped ranks */
#define CTOR_ELEM(k, g) (!((k) < N(g)) || (PID(g, k) == -1 && RK(g, k) == UNDEF))
void Group__ctor(struct Group* self, int size)
    __CPROVER_requires(__CPROVER_is_fresh(self, sizeof(*self)) && 0 <= size && size <= CAP)
    __CPROVER_assigns(*self)
    __CPROVER_ensures(NEWSHAPE(self) && N(self) == (unsigned long)size && PN(self) == (unsigned long)size)
    /*@ ctor_sizes */
    __CPROVER_ensures(ALLA(CTOR_ELEM, self)) /*@ ctor_all_ranks_unmapped */;

/* new Group(size): ASSUMED = "allocate + the constructor contract above"; the allocation is the designated object g_new */
#define GN (&g_new)
#define POOL_READY (g_new.rank_to_pid_map_.d == n_r2p && g_new.pid_to_rank_map_.d == n_p2r)
#define POOL_FRAME                                                                                                     \
  g_new.rank_to_pid_map_.h, g_new.rank_to_pid_map_.n, g_new.rank_to_pid_map_.cap, g_new.pid_to_rank_map_.h,           \
      g_new.pid_to_rank_map_.n, g_new.pid_to_rank_map_.cap, g_new.refcount_, __CPROVER_object_whole(n_r2p),            \
      __CPROVER_object_whole(n_p2r)
struct Group* Group__new(int size)
    __CPROVER_requires(0 <= size && size <= CAP && POOL_READY)
    __CPROVER_assigns(POOL_FRAME)
    __CPROVER_ensures(__CPROVER_return_value == GN && NEWSHAPE(GN) && N(GN) == (unsigned long)size &&
                      PN(GN) == (unsigned long)size && ALLA(CTOR_ELEM, GN));

/* set_mapping(pid, rank): raw effect on both vectors; out-of-range rank is a no-op */
#define SM_IN (0 <= rank && (unsigned long)rank < N(self))
#define SM_OTHER_P(p)                                                                                                  \
  ((p) == pid || !((p) < PN(self)) ||                                                                                  \
   RK(self, p) == ((p) < __CPROVER_old(self->pid_to_rank_map_.n) ? __CPROVER_old(self->pid_to_rank_map_.d[p]) : UNDEF))
#define SM_OTHER_R(i) ((i) == rank || PID(self, i) == __CPROVER_old(self->rank_to_pid_map_.d[i]))
#define SM_SAME_P(p) (RK(self, p) == __CPROVER_old(self->pid_to_rank_map_.d[p]))
#define SM_SAME_R(i) (PID(self, i) == __CPROVER_old(self->rank_to_pid_map_.d[i]))
void Group__set_mapping(struct Group* self, long pid, int rank)
    __CPROVER_requires(WSHAPE(self) && 0 <= pid && pid < CAP)
    __CPROVER_assigns(self->pid_to_rank_map_.n, __CPROVER_object_whole(self->pid_to_rank_map_.d),
                      __CPROVER_object_whole(self->rank_to_pid_map_.d))
    __CPROVER_ensures(!SM_IN || (PID(self, rank) == pid && RK(self, pid) == rank)) /*@ set_mapping_maps_both_ways */
    __CPROVER_ensures(!SM_IN || PN(self) == (__CPROVER_old(self->pid_to_rank_map_.n) > (unsigned long)pid + 1
                                                 ? __CPROVER_old(self->pid_to_rank_map_.n)
                                                 : (unsigned long)pid + 1)) /*@ set_mapping_grows_pid_table */
    __CPROVER_ensures(!SM_IN || (ALL(SM_OTHER_P) && ALL(SM_OTHER_R))) /*@ set_mapping_other_entries_kept */
    __CPROVER_ensures(SM_IN || (PN(self) == __CPROVER_old(self->pid_to_rank_map_.n) && ALL(SM_SAME_P) && ALL(SM_SAME_R)))
    /*@ set_mapping_bad_rank_is_noop */;

/* rank(pid): inverse map, MPI_UNDEFINED outside; falls back to the parent actor's rank when there is such an actor */
int Group__rank(struct Group* self, long pid)
    __CPROVER_requires(RSHAPE(self) && vf_exc == 0 && (g_parent == NULL || g_parent == &g_actor))
    __CPROVER_assigns()
    __CPROVER_ensures(__CPROVER_return_value ==
                      (RANKOF(self, pid) != UNDEF ? RANKOF(self, pid) : (g_parent != NULL ? RANKOF(self, g_ppid) : UNDEF)))
    /*@ rank_is_inverse_map_with_parent_fallback */
    __CPROVER_ensures(vf_exc == 0);

/* actor(rank): the rank-th member, -1 outside */
long Group__actor(struct Group* self, int rank)
    __CPROVER_requires(RSHAPE(self))
    __CPROVER_assigns()
    __CPROVER_ensures(__CPROVER_return_value == ((0 <= rank && (unsigned long)rank < N(self)) ? PID(self, rank) : -1))
    /*@ actor_is_rank_th_member */;

/* compare: MPI_IDENT = same members in the same order; MPI_SIMILAR = same members, different order; else MPI_UNEQUAL */
#define SAME_AT(i, s, g) (!((i) < N(s)) || PID(s, i) == PID(g, i))
#define IN_AT(i, s, g) (!((i) < N(s)) || RANKOF(g, PID(s, i)) != UNDEF) /* member i of s belongs to g */
#define IDENT_(s, g) (N(s) == N(g) && ALLB(SAME_AT, s, g))
#define SAMESET_(s, g) (N(s) == N(g) && ALLB(IN_AT, s, g) && ALLB(IN_AT, g, s))
int Group__compare(struct Group* self, struct Group* group2)
    __CPROVER_requires(RSHAPE(self) && WF(self) && RSHAPE(group2) && WF(group2) && vf_exc == 0 && g_parent == NULL)
    __CPROVER_assigns()
    __CPROVER_ensures((__CPROVER_return_value == IDENT) == IDENT_(self, group2)) /*@ compare_ident_iff_same_sequence */
    __CPROVER_ensures((__CPROVER_return_value == SIMILAR) == (SAMESET_(self, group2) && !IDENT_(self, group2)))
    /*@ compare_similar_iff_same_members_other_order */
    __CPROVER_ensures(__CPROVER_return_value == IDENT || __CPROVER_return_value == SIMILAR ||
                      __CPROVER_return_value == UNEQUAL) /*@ compare_unequal_otherwise */
    __CPROVER_ensures(vf_exc == 0);

#define CMP_INV_IN(k) (!((k) < i) || RANKOF(group2, PID(self, k)) != UNDEF)
#define CMP_INV_SAME(k) (!((k) < i) || RANKOF(group2, PID(self, k)) == (k))
#define VF_LOOP_Group__compare_0                                                                                       \
  __CPROVER_assigns(i, result)                                                                                         \
      __CPROVER_loop_invariant(0 <= i && (unsigned long)i <= N(self) && (result == IDENT || result == SIMILAR) &&      \
                               ALL(CMP_INV_IN) && ((result == IDENT) == ALL(CMP_INV_SAME)))                            \
          __CPROVER_decreases((long)N(self) - i)

/* incl(n, ranks): rank i of the new group is rank ranks[i] of this group (MPI-3.1 6.3.2); MPI requires valid, distinct ranks */
#define NEW_FRAME g_out, POOL_FRAME
#define INCL_VALID(k) (!((k) < RN_) || (0 <= RA_[k] && (unsigned long)RA_[k] < N(self)))
#define INCL_DISTINCT(i, j) (!((j) < RN_) || RA_[i] != RA_[j])
#define INCL_ELEM(k) (!((k) < RN_) || PID(GN, k) == PID(self, RA_[k]))
#define INCL_PRE                                                                                                       \
  (RSHAPE(self) && WF(self) && vf_exc == 0 && 0 <= RN_ && RN_ <= CAP && __CPROVER_r_ok(RA_, CAP * sizeof(int)) &&      \
   newgroup == &g_out && POOL_READY && ALL(INCL_VALID) && ALLPAIRS(INCL_DISTINCT))
#define NEW_IS_GN (*newgroup == GN && NEWSHAPE(GN))

#define RN_ n
#define RA_ ranks
int Group__incl(struct Group* self, int n, int* ranks, struct Group** newgroup)
    __CPROVER_requires(INCL_PRE)
    __CPROVER_assigns(NEW_FRAME)
    __CPROVER_ensures(__CPROVER_return_value == SUCCESS && vf_exc == 0)
    __CPROVER_ensures(n != 0 || *newgroup == &smpi_MPI_GROUP_EMPTY) /*@ incl_of_nothing_is_group_empty */
    __CPROVER_ensures(n == 0 || (NEW_IS_GN && N(GN) == (unsigned long)n && WF(GN))) /*@ incl_result_is_wellformed_group_of_n */
    __CPROVER_ensures(n == 0 || ALL(INCL_ELEM)) /*@ incl_rank_i_is_member_ranks_i */;

#define INCL_INV_R(k)                                                                                                  \
  (!((k) < i) || (PID(GN, k) == PID(self, ranks[k]) && PID(GN, k) >= 0 && (unsigned long)PID(GN, k) < PN(GN) &&        \
                  RK(GN, PID(GN, k)) == (k)))
#define INCL_INV_P(p)                                                                                                  \
  (!((p) < PN(GN)) || RK(GN, p) == UNDEF || (0 <= RK(GN, p) && RK(GN, p) < i && PID(GN, RK(GN, p)) == (p)))
#define VF_LOOP_Group__incl_0                                                                                          \
  __CPROVER_assigns(i, g_new.pid_to_rank_map_.n, __CPROVER_object_whole(n_p2r), __CPROVER_object_whole(n_r2p))         \
      __CPROVER_loop_invariant(0 <= i && i <= n && PN(GN) <= CAP && ALL(INCL_INV_R) && ALL(INCL_INV_P))              \
          __CPROVER_decreases(n - i)
#undef RN_
#undef RA_

/* incl(vector): same contract, rank list held by a vector */
#define RN_ ((int)ranks->n)
#define RA_ (ranks->d)
int Group__incl_vec(struct Group* self, struct vf_seq_int* ranks, struct Group** newgroup)
    __CPROVER_requires(__CPROVER_r_ok(ranks, sizeof(*ranks)) && ranks->h == 0 && ranks->n <= CAP)
    __CPROVER_requires(INCL_PRE)
    __CPROVER_assigns(NEW_FRAME)
    __CPROVER_ensures(__CPROVER_return_value == SUCCESS && vf_exc == 0)
    __CPROVER_ensures(RN_ != 0 || *newgroup == &smpi_MPI_GROUP_EMPTY) /*@ inclvec_of_nothing_is_group_empty */
    __CPROVER_ensures(RN_ == 0 || (NEW_IS_GN && N(GN) == ranks->n && WF(GN))) /*@ inclvec_result_is_wellformed_group_of_n */
    __CPROVER_ensures(RN_ == 0 || ALL(INCL_ELEM)) /*@ inclvec_rank_i_is_member_ranks_i */;
#undef RN_
#undef RA_

/* ---- "selection" results: the members i of group S satisfying K(i), in the order of S ---------------------------
 * SEL_BEFORE(i,S,K) = number of kept members before position i = the new rank of member i when it is kept.      */
#define SEL_TERM(j, i, S, K) ((j) < (i) && (unsigned long)(j) < N(S) && K(j))
#define SEL_BEFORE(i, S, K) SUMC(SEL_TERM, i, S, K)
#define SEL_TOTAL(S, K) SEL_BEFORE(CAP, S, K)
#define SEL_ELEM(i, S, K) (!((unsigned long)(i) < N(S) && K(i)) || PID(GN, SEL_BEFORE(i, S, K)) == PID(S, i))
#define SEL_POST(S, K)                                                                                                 \
  (SEL_TOTAL(S, K) == 0 ? *newgroup == &smpi_MPI_GROUP_EMPTY                                                           \
                        : (NEW_IS_GN && N(GN) == (unsigned long)SEL_TOTAL(S, K) && WF(GN) && ALLB(SEL_ELEM, S, K)))
/* loop collecting the kept positions into the local vector V: V = kept positions below i, in increasing order */
#define SEL_INV_FWD(j, S, K, V) (!((j) < i && (unsigned long)(j) < N(S) && K(j)) || V.d[SEL_BEFORE(j, S, K)] == (j))
#define SEL_LOOP(S, K, V)                                                                                              \
  __CPROVER_assigns(i, V.n, __CPROVER_object_whole(V.d))                                                               \
      __CPROVER_loop_invariant(0 <= i && (unsigned long)i <= N(S) && V.h == 0 && V.cap == VF_CAP &&                    \
                               V.n == (unsigned long)SEL_BEFORE(i, S, K) && ALLC(SEL_INV_FWD, S, K, V)) __CPROVER_decreases((long)N(S) - i)
#define TWO_GROUPS_PRE                                                                                                 \
  (RSHAPE(self) && WF(self) && RSHAPE(group2) && WF(group2) && vf_exc == 0 && g_parent == NULL && newgroup == &g_out && \
   POOL_READY)

/* difference: members of this group that are not in group2, ordered as in this group (MPI-3.1 6.3.2) */
#define DIFF_KEEP(j) (RANKOF(group2, PID(self, j)) == UNDEF)
int Group__difference(struct Group* self, struct Group* group2, struct Group** newgroup)
    __CPROVER_requires(TWO_GROUPS_PRE)
    __CPROVER_assigns(NEW_FRAME)
    __CPROVER_ensures(__CPROVER_return_value == SUCCESS && vf_exc == 0)
    __CPROVER_ensures(SEL_POST(self, DIFF_KEEP)) /*@ difference_is_first_group_minus_second_in_first_group_order */;
#define VF_LOOP_Group__difference_0 SEL_LOOP(self, DIFF_KEEP, ranks)

/* intersection: members of this group that are also in group2, ordered as in THIS (the first) group (MPI-3.1 6.3.2) */
#define INTER_KEEP(j) (RANKOF(group2, PID(self, j)) != UNDEF)
int Group__intersection(struct Group* self, struct Group* group2, struct Group** newgroup)
    __CPROVER_requires(TWO_GROUPS_PRE)
    __CPROVER_assigns(NEW_FRAME)
    __CPROVER_ensures(__CPROVER_return_value == SUCCESS && vf_exc == 0)
    __CPROVER_ensures(SEL_POST(self, INTER_KEEP)) /*@ intersection_is_common_members_in_first_group_order */;
/* the loop walks this group and keeps its members that are in group2 */
#define VF_LOOP_Group__intersection_0 SEL_LOOP(self, INTER_KEEP, ranks)

/* excl(map): members whose flag is false, in the original order; the map must have one flag per member */
#define EXM_KEEP(j) (!excl_map->d[j])
int Group__excl_map(struct Group* self, struct vf_seq__Bool* excl_map, struct Group** newgroup)
    __CPROVER_requires(RSHAPE(self) && WF(self) && vf_exc == 0 && newgroup == &g_out && POOL_READY &&
                       __CPROVER_r_ok(excl_map, sizeof(*excl_map)) && excl_map->h == 0 && excl_map->n <= CAP &&
                       __CPROVER_r_ok(excl_map->d, CAP * sizeof(_Bool)))
    __CPROVER_assigns(vf_exc, NEW_FRAME)
    __CPROVER_ensures((vf_exc == VF_EXC_ABORT) == (excl_map->n != N(self))) /*@ exclmap_needs_one_flag_per_member */
    __CPROVER_ensures(vf_exc == 0 || vf_exc == VF_EXC_ABORT)
    __CPROVER_ensures(vf_exc != 0 || (__CPROVER_return_value == SUCCESS && SEL_POST(self, EXM_KEEP)))
    /*@ exclmap_keeps_unflagged_members_in_order */;
#define VF_LOOP_Group__excl_map_0 SEL_LOOP(self, EXM_KEEP, ranks)

/* excl(n, ranks): members whose rank is not listed, in the original order (MPI-3.1 6.3.2); ranks must be valid */
#define EXCL_HIT(k, j) ((k) < n && ranks[k] == (j))
#define EXCL_KEEP(j) (!ANYA(EXCL_HIT, j))
#define EXCL_VALID(k) (!((k) < n) || (0 <= ranks[k] && (unsigned long)ranks[k] < N(self)))
int Group__excl(struct Group* self, int n, int* ranks, struct Group** newgroup)
    __CPROVER_requires(RSHAPE(self) && WF(self) && vf_exc == 0 && newgroup == &g_out && POOL_READY && 0 <= n && n <= CAP &&
                       __CPROVER_r_ok(ranks, CAP * sizeof(int)) && ALL(EXCL_VALID))
    __CPROVER_assigns(vf_exc, NEW_FRAME)
    __CPROVER_ensures(__CPROVER_return_value == SUCCESS && vf_exc == 0)
    __CPROVER_ensures(SEL_POST(self, EXCL_KEEP)) /*@ excl_keeps_unlisted_members_in_order */;
#define EXCL_HIT_BEFORE(k, j) ((k) < i && ranks[k] == (j))
#define EXCL_INV(j) (!((unsigned long)(j) < N(self)) || to_excl.d[j] == ANYA(EXCL_HIT_BEFORE, j))
#define VF_LOOP_Group__excl_0                                                                                          \
  __CPROVER_assigns(i, __CPROVER_object_whole(to_excl.d))                                                              \
      __CPROVER_loop_invariant(0 <= i && i <= n && to_excl.h == 0 && to_excl.n == N(self) && ALL(EXCL_INV))            \
          __CPROVER_decreases(n - i)

/* union: all members of this group in order, then the members of group2 that are not in this group, in group2's order */
#define UNI_KEEP(j) (RANKOF(self, PID(group2, j)) == UNDEF)
#define UNI_TOTAL SEL_TOTAL(group2, UNI_KEEP)
#define UNI_FIRST(i) (!((unsigned long)(i) < N(self)) || PID(GN, i) == PID(self, i))
#define UNI_SECOND(j)                                                                                                  \
  (!((unsigned long)(j) < N(group2) && UNI_KEEP(j)) || PID(GN, N(self) + SEL_BEFORE(j, group2, UNI_KEEP)) == PID(group2, j))
int Group__group_union(struct Group* self, struct Group* group2, struct Group** newgroup)
    __CPROVER_requires(TWO_GROUPS_PRE)
    __CPROVER_assigns(NEW_FRAME)
    __CPROVER_ensures(__CPROVER_return_value == SUCCESS && vf_exc == 0)
    __CPROVER_ensures(N(self) + UNI_TOTAL != 0 || *newgroup == &smpi_MPI_GROUP_EMPTY) /*@ union_of_empties_is_group_empty */
    __CPROVER_ensures(N(self) + UNI_TOTAL == 0 || (NEW_IS_GN && N(GN) == N(self) + UNI_TOTAL && WF(GN)))
    /*@ union_size_is_first_plus_new_members */
    __CPROVER_ensures(N(self) + UNI_TOTAL == 0 || ALL(UNI_FIRST)) /*@ union_starts_with_first_group_in_order */
    __CPROVER_ensures(N(self) + UNI_TOTAL == 0 || ALL(UNI_SECOND)) /*@ union_then_new_members_of_second_in_its_order */;
/* loop 0 collects the kept positions of group2 into ranks2; loops 1 and 2 fill the new group */
#define VF_LOOP_Group__group_union_0 SEL_LOOP(group2, UNI_KEEP, ranks2)
#define UNI_INV_R(k)                                                                                                   \
  (!((k) < i_2) || (PID(GN, k) == ((unsigned long)(k) < N(self) ? PID(self, k) : PID(group2, ranks2.d[(k) - N(self)])) && \
                    PID(GN, k) >= 0 && (unsigned long)PID(GN, k) < PN(GN) && RK(GN, PID(GN, k)) == (k)))
#define UNI_INV_P(p)                                                                                                   \
  (!((p) < PN(GN)) || RK(GN, p) == UNDEF || (0 <= RK(GN, p) && RK(GN, p) < i_2 && PID(GN, RK(GN, p)) == (p)))
#define UNI_R2_FWD(j) (!((unsigned long)(j) < N(group2) && UNI_KEEP(j)) || ranks2.d[SEL_BEFORE(j, group2, UNI_KEEP)] == (j))
#define UNI_RANKS2_OK                                                                                                  \
  (ranks2.h == 0 && ranks2.cap == VF_CAP && ranks2.n == (unsigned long)UNI_TOTAL && ALL(UNI_R2_FWD) && \
   N(GN) == N(self) + ranks2.n && N(GN) <= CAP && *newgroup == GN && NEWSHAPE(GN))
#define VF_LOOP_Group__group_union_1                                                                                   \
  __CPROVER_assigns(i_2, g_new.pid_to_rank_map_.n, __CPROVER_object_whole(n_p2r), __CPROVER_object_whole(n_r2p))       \
      __CPROVER_loop_invariant(0 <= i_2 && (unsigned long)i_2 <= N(self) && PN(GN) <= CAP && UNI_RANKS2_OK &&          \
                               ALL(UNI_INV_R) && ALL(UNI_INV_P)) __CPROVER_decreases((long)N(self) - i_2)
#define VF_LOOP_Group__group_union_2                                                                                   \
  __CPROVER_assigns(__i2, i_2, g_new.pid_to_rank_map_.n, __CPROVER_object_whole(n_p2r), __CPROVER_object_whole(n_r2p)) \
      __CPROVER_loop_invariant(__i2 <= __r2->n && __r2 == &ranks2 && 0 <= i_2 && (unsigned long)i_2 == N(self) + __i2 &&           \
                               PN(GN) <= CAP && UNI_RANKS2_OK && ALL(UNI_INV_R) && ALL(UNI_INV_P))                     \
          __CPROVER_decreases(__r2->n - __i2)

/* is_rank_in_range: rank lies between first and last, whichever is larger (ranges may run downwards) */
_Bool is_rank_in_range(int rank, int first, int last)
    __CPROVER_requires(1)
    __CPROVER_assigns()
    __CPROVER_ensures(__CPROVER_return_value == ((first <= last) ? (first <= rank && rank <= last) : (last <= rank && rank <= first)))
    /*@ in_range_iff_between_bounds */;

#include "gen.c"

/* ---------------- harnesses ----------------------------------------------------------------------------------- */
size_t nondet_size(void);
int nondet_int(void);
long nondet_long(void);
_Bool nondet_bool(void);

static void setup(void)
{
  for (int k = 0; k < CAP; k++) {
    a_r2p[k] = nondet_long();
    b_r2p[k] = nondet_long();
    a_p2r[k] = nondet_int();
    b_p2r[k] = nondet_int();
  }
  g_a.rank_to_pid_map_.d = a_r2p;
  g_a.pid_to_rank_map_.d = a_p2r;
  g_b.rank_to_pid_map_.d = b_r2p;
  g_b.pid_to_rank_map_.d = b_p2r;
  g_a.rank_to_pid_map_.h = g_a.pid_to_rank_map_.h = g_b.rank_to_pid_map_.h = g_b.pid_to_rank_map_.h = 0;
  g_a.rank_to_pid_map_.cap = g_a.pid_to_rank_map_.cap = g_b.rank_to_pid_map_.cap = g_b.pid_to_rank_map_.cap = VF_CAP;
  g_a.rank_to_pid_map_.n = nondet_size();
  g_a.pid_to_rank_map_.n = nondet_size();
  g_b.rank_to_pid_map_.n = nondet_size();
  g_b.pid_to_rank_map_.n = nondet_size();
  g_parent               = nondet_bool() ? NULL : &g_actor;
  g_ppid                 = nondet_long();
  vf_exc                 = 0;
  g_new.rank_to_pid_map_.d = n_r2p;
  g_new.pid_to_rank_map_.d = n_p2r;
}
static struct Group* pick_group(void)
{
  return nondet_bool() ? &g_a : &g_b;
}

#ifdef H_ctor
void harness(void)
{
  struct Group g;
  Group__ctor(&g, nondet_int());
  VF_CANARY_POINT;
}
#endif
#ifdef H_set_mapping
void harness(void)
{
  setup();
  Group__set_mapping(&g_a, nondet_long(), nondet_int());
  VF_CANARY_POINT;
}
#endif
#ifdef H_rank
void harness(void)
{
  setup();
  Group__rank(&g_a, nondet_long());
  VF_CANARY_POINT;
}
#endif
#ifdef H_actor
void harness(void)
{
  setup();
  Group__actor(&g_a, nondet_int());
  VF_CANARY_POINT;
}
#endif
#ifdef H_compare
void harness(void)
{
  setup();
  Group__compare(&g_a, &g_b);
  VF_CANARY_POINT;
}
#endif
#ifdef H_incl
void harness(void)
{
  setup();
  Group__incl(&g_a, nondet_int(), g_ranks, &g_out);
  VF_CANARY_POINT;
}
#endif

struct vf_seq_int g_rv;      /* rank list handed to incl(vector) */
_Bool g_flags[CAP];
struct vf_seq__Bool g_fv;    /* flag map handed to excl(map) */
static void setup_vectors(void)
{
  g_rv.d = g_ranks; g_rv.h = 0; g_rv.cap = VF_CAP; g_rv.n = nondet_size();
  g_fv.d = g_flags; g_fv.h = 0; g_fv.cap = VF_CAP; g_fv.n = nondet_size();
  for (int k = 0; k < CAP; k++) { g_ranks[k] = nondet_int(); g_flags[k] = nondet_bool(); }
}
#ifdef H_incl_vec
void harness(void) { setup(); setup_vectors(); Group__incl_vec(&g_a, &g_rv, &g_out); VF_CANARY_POINT; }
#endif
#ifdef H_excl_map
void harness(void) { setup(); setup_vectors(); Group__excl_map(&g_a, &g_fv, &g_out); VF_CANARY_POINT; }
#endif
#ifdef H_excl
void harness(void) { setup(); setup_vectors(); Group__excl(&g_a, nondet_int(), g_ranks, &g_out); VF_CANARY_POINT; }
#endif
#ifdef H_difference
void harness(void) { setup(); Group__difference(&g_a, &g_b, &g_out); VF_CANARY_POINT; }
#endif
#ifdef H_intersection
void harness(void) { setup(); Group__intersection(&g_a, &g_b, &g_out); VF_CANARY_POINT; }
#endif
#ifdef H_group_union
void harness(void) { setup(); Group__group_union(&g_a, &g_b, &g_out); VF_CANARY_POINT; }
#endif
#ifdef H_compare_self
void harness(void) { setup(); __CPROVER_assume(RSHAPE(&g_a) && WF(&g_a) && g_parent == NULL); int r = Group__compare(&g_a, &g_a); __CPROVER_assert(r == IDENT, "a group is identical to itself"); VF_CANARY_POINT; }
#endif
#ifdef H_is_rank_in_range
void harness(void) { is_rank_in_range(nondet_int(), nondet_int(), nondet_int()); VF_CANARY_POINT; }
#endif
