/* C32 — MPI groups: members and rank order of incl/excl/union/intersection/difference/range_*, rank translation, compare.
 * Contracts on the real simgrid::smpi::Group methods (extracted by cxx2c into gen.c).
 * Abstract view of a group g: the sequence PID(g,0..N(g)) of actor ids (rank_to_pid_map_) and its inverse
 * RANKOF(g,pid) (pid_to_rank_map_, MPI_UNDEFINED outside). Capacity of the model: group sizes <= CAP, pids in [0,CAP). */
#ifndef CAP
#define CAP 5
#endif
#define VF_CAP CAP /* locally created vectors (new groups, rank lists) have the same capacity */
#include "gen.h"
#include "caps.h"

#define UNDEF (-333)     /* MPI_UNDEFINED, include/smpi/smpi.h */
#define IDENT 0          /* MPI_IDENT   */
#define SIMILAR 1        /* MPI_SIMILAR */
#define UNEQUAL 2        /* MPI_UNEQUAL */
#define SUCCESS 0        /* MPI_SUCCESS */

/* ---------------- abstract view --------------------------------------------------------------------------- */
#define N(g) ((g)->rank_to_pid_map_.n)
#define PN(g) ((g)->pid_to_rank_map_.n)
#define PID(g, i) ((g)->rank_to_pid_map_.d[i])
#define RK(g, p) ((g)->pid_to_rank_map_.d[p])
#define RANKOF(g, p) (((p) >= 0 && (unsigned long)(p) < PN(g)) ? RK(g, p) : UNDEF)

/* memory shape of a group object whose vectors hold CAP slots (static groups of the harness or groups made by new) */
#define RSHAPE(g)                                                                                                      \
  (__CPROVER_r_ok((g), sizeof(struct Group)) && (g)->rank_to_pid_map_.h == 0 && (g)->pid_to_rank_map_.h == 0 &&        \
   (g)->rank_to_pid_map_.cap == VF_CAP && (g)->pid_to_rank_map_.cap == VF_CAP && N(g) <= CAP && PN(g) <= CAP &&        \
   __CPROVER_r_ok((g)->rank_to_pid_map_.d, CAP * sizeof(long)) && __CPROVER_r_ok((g)->pid_to_rank_map_.d, CAP * sizeof(int)))
#define WSHAPE(g)                                                                                                      \
  (__CPROVER_rw_ok((g), sizeof(struct Group)) && (g)->rank_to_pid_map_.h == 0 && (g)->pid_to_rank_map_.h == 0 &&       \
   (g)->rank_to_pid_map_.cap == VF_CAP && (g)->pid_to_rank_map_.cap == VF_CAP && N(g) <= CAP && PN(g) <= CAP &&        \
   __CPROVER_rw_ok((g)->rank_to_pid_map_.d, CAP * sizeof(long)) && __CPROVER_rw_ok((g)->pid_to_rank_map_.d, CAP * sizeof(int)))
#define NEWSHAPE(g)                                                                                                    \
  ((g)->rank_to_pid_map_.h == 0 && (g)->pid_to_rank_map_.h == 0 && (g)->rank_to_pid_map_.cap == VF_CAP &&             \
   (g)->pid_to_rank_map_.cap == VF_CAP)

/* representation invariant: the two vectors are inverse of each other (hence PID is injective) */
#define WF_R(i, g) (!((i) < N(g)) || (PID(g, i) >= 0 && (unsigned long)PID(g, i) < PN(g) && RK(g, PID(g, i)) == (i)))
#define WF_P(p, g)                                                                                                     \
  (!((p) < PN(g)) || RK(g, p) == UNDEF || (RK(g, p) >= 0 && (unsigned long)RK(g, p) < N(g) && PID(g, RK(g, p)) == (p)))
#define WF(g) (N(g) <= CAP && PN(g) <= CAP && ALLA(WF_R, g) && ALLA(WF_P, g))

/* ---------------- state built by the harnesses -------------------------------------------------------------- */
long a_r2p[CAP], b_r2p[CAP];
int a_p2r[CAP], b_p2r[CAP];
struct Group g_a, g_b;
/* operator new of Group is modelled as handing out this designated object (one allocation per call path) */
long n_r2p[CAP];
int n_p2r[CAP];
struct Group g_new;
struct Group* g_out; /* where the operations store their result */
int g_ranks[CAP];
struct Actor g_actor;    /* the parent actor s4u::Actor::by_pid may find */
struct Actor* g_parent;  /* ghost: result of by_pid (NULL = no such actor) */
long g_ppid;             /* ghost: its parent pid */

/* ---------------- assumed contracts of callees outside C32 -------------------------------------------------- */
struct Actor* by_pid(long pid) __CPROVER_requires(1) __CPROVER_assigns() __CPROVER_ensures(__CPROVER_return_value == g_parent);
long Actor__get_ppid(struct Actor* self) __CPROVER_requires(self == &g_actor) __CPROVER_assigns()
    __CPROVER_ensures(__CPROVER_return_value == g_ppid);
int F2C__add_f(struct F2C* self) __CPROVER_requires(1) __CPROVER_assigns() __CPROVER_ensures(1);
void F2C__ctor(struct F2C* self) __CPROVER_requires(1) __CPROVER_assigns() __CPROVER_ensures(1);

/* ---------------- contracts of the units -------------------------------------------------------------------- */

/* Group(int size): size unmapped ranks */
#define CTOR_ELEM(k, g) (!((k) < N(g)) || (PID(g, k) == -1 && RK(g, k) == UNDEF))
void Group__ctor(struct Group* self, int size)
    __CPROVER_requires(__CPROVER_is_fresh(self, sizeof(*self)) && 0 <= size && size <= CAP)
    __CPROVER_assigns(*self)
    __CPROVER_ensures(NEWSHAPE(self) && N(self) == (unsigned long)size && PN(self) == (unsigned long)size)
    /*@ ctor_sizes */
    __CPROVER_ensures(ALLA(CTOR_ELEM, self)) /*@ ctor_all_ranks_unmapped */;

/* new Group(size): ASSUMED = "allocate + the constructor contract above"; the allocation is the designated object g_new */
#define GN (&g_new)
#define POOL_READY (g_new.rank_to_pid_map_.d == n_r2p && g_new.pid_to_rank_map_.d == n_p2r)
#define POOL_FRAME                                                                                                     \
  g_new.rank_to_pid_map_.h, g_new.rank_to_pid_map_.n, g_new.rank_to_pid_map_.cap, g_new.pid_to_rank_map_.h,           \
      g_new.pid_to_rank_map_.n, g_new.pid_to_rank_map_.cap, g_new.refcount_, __CPROVER_object_whole(n_r2p),            \
      __CPROVER_object_whole(n_p2r)
struct Group* Group__new(int size)
    __CPROVER_requires(0 <= size && size <= CAP && POOL_READY)
    __CPROVER_assigns(POOL_FRAME)
    __CPROVER_ensures(__CPROVER_return_value == GN && NEWSHAPE(GN) && N(GN) == (unsigned long)size &&
                      PN(GN) == (unsigned long)size && ALLA(CTOR_ELEM, GN));

/* set_mapping(pid, rank): raw effect on both vectors; out-of-range rank is a no-op */
#define SM_IN (0 <= rank && (unsigned long)rank < N(self))
#define SM_OTHER_P(p)                                                                                                  \
  ((p) == pid || !((p) < PN(self)) ||                                                                                  \
   RK(self, p) == ((p) < __CPROVER_old(self->pid_to_rank_map_.n) ? __CPROVER_old(self->pid_to_rank_map_.d[p]) : UNDEF))
#define SM_OTHER_R(i) ((i) == rank || PID(self, i) == __CPROVER_old(self->rank_to_pid_map_.d[i]))
#define SM_SAME_P(p) (RK(self, p) == __CPROVER_old(self->pid_to_rank_map_.d[p]))
#define SM_SAME_R(i) (PID(self, i) == __CPROVER_old(self->rank_to_pid_map_.d[i]))
void Group__set_mapping(struct Group* self, long pid, int rank)
    __CPROVER_requires(WSHAPE(self) && 0 <= pid && pid < CAP)
    __CPROVER_assigns(self->pid_to_rank_map_.n, __CPROVER_object_whole(self->pid_to_rank_map_.d),
                      __CPROVER_object_whole(self->rank_to_pid_map_.d))
    __CPROVER_ensures(!SM_IN || (PID(self, rank) == pid && RK(self, pid) == rank)) /*@ set_mapping_maps_both_ways */
    __CPROVER_ensures(!SM_IN || PN(self) == (__CPROVER_old(self->pid_to_rank_map_.n) > (unsigned long)pid + 1
                                                 ? __CPROVER_old(self->pid_to_rank_map_.n)
                                                 : (unsigned long)pid + 1)) /*@ set_mapping_grows_pid_table */
    __CPROVER_ensures(!SM_IN || (ALL(SM_OTHER_P) && ALL(SM_OTHER_R))) /*@ set_mapping_other_entries_kept */
    __CPROVER_ensures(SM_IN || (PN(self) == __CPROVER_old(self->pid_to_rank_map_.n) && ALL(SM_SAME_P) && ALL(SM_SAME_R)))
    /*@ set_mapping_bad_rank_is_noop */;

/* rank(pid): inverse map, MPI_UNDEFINED outside; falls back to the parent actor's rank when there is such an actor */
int Group__rank(struct Group* self, long pid)
    __CPROVER_requires(RSHAPE(self) && vf_exc == 0 && (g_parent == NULL || g_parent == &g_actor))
    __CPROVER_assigns()
    __CPROVER_ensures(__CPROVER_return_value ==
                      (RANKOF(self, pid) != UNDEF ? RANKOF(self, pid) : (g_parent != NULL ? RANKOF(self, g_ppid) : UNDEF)))
    /*@ rank_is_inverse_map_with_parent_fallback */
    __CPROVER_ensures(vf_exc == 0);

/* actor(rank): the rank-th member, -1 outside */
long Group__actor(struct Group* self, int rank)
    __CPROVER_requires(RSHAPE(self))
    __CPROVER_assigns()
    __CPROVER_ensures(__CPROVER_return_value == ((0 <= rank && (unsigned long)rank < N(self)) ? PID(self, rank) : -1))
    /*@ actor_is_rank_th_member */;

/* compare: MPI_IDENT = same members in the same order; MPI_SIMILAR = same members, different order; else MPI_UNEQUAL */
#define SAME_AT(i, s, g) (!((i) < N(s)) || PID(s, i) == PID(g, i))
#define IN_AT(i, s, g) (!((i) < N(s)) || RANKOF(g, PID(s, i)) != UNDEF) /* member i of s belongs to g */
#define IDENT_(s, g) (N(s) == N(g) && ALLB(SAME_AT, s, g))
#define SAMESET_(s, g) (N(s) == N(g) && ALLB(IN_AT, s, g) && ALLB(IN_AT, g, s))
int Group__compare(struct Group* self, struct Group* group2)
    __CPROVER_requires(RSHAPE(self) && WF(self) && RSHAPE(group2) && WF(group2) && vf_exc == 0 && g_parent == NULL)
    __CPROVER_assigns()
    __CPROVER_ensures((__CPROVER_return_value == IDENT) == IDENT_(self, group2)) /*@ compare_ident_iff_same_sequence */
    __CPROVER_ensures((__CPROVER_return_value == SIMILAR) == (SAMESET_(self, group2) && !IDENT_(self, group2)))
    /*@ compare_similar_iff_same_members_other_order */
    __CPROVER_ensures(__CPROVER_return_value == IDENT || __CPROVER_return_value == SIMILAR ||
                      __CPROVER_return_value == UNEQUAL) /*@ compare_unequal_otherwise */
    __CPROVER_ensures(vf_exc == 0);

#define CMP_INV_IN(k) (!((k) < i) || RANKOF(group2, PID(self, k)) != UNDEF)
#define CMP_INV_SAME(k) (!((k) < i) || RANKOF(group2, PID(self, k)) == (k))
#define VF_LOOP_Group__compare_0                                                                                       \
  __CPROVER_assigns(i, result)                                                                                         \
      __CPROVER_loop_invariant(0 <= i && (unsigned long)i <= N(self) && (result == IDENT || result == SIMILAR) &&      \
                               ALL(CMP_INV_IN) && ((result == IDENT) == ALL(CMP_INV_SAME)))                            \
          __CPROVER_decreases((long)N(self) - i)

/* incl(n, ranks): rank i of the new group is rank ranks[i] of this group (MPI-3.1 6.3.2); MPI requires valid, distinct ranks */
#define NEW_FRAME g_out, POOL_FRAME
#define INCL_VALID(k) (!((k) < RN_) || (0 <= RA_[k] && (unsigned long)RA_[k] < N(self)))
#define INCL_DISTINCT(i, j) (!((j) < RN_) || RA_[i] != RA_[j])
#define INCL_ELEM(k) (!((k) < RN_) || PID(GN, k) == PID(self, RA_[k]))
#define INCL_PRE                                                                                                       \
  (RSHAPE(self) && WF(self) && vf_exc == 0 && 0 <= RN_ && RN_ <= CAP && RA_ == g_ranks &&      \
   newgroup == &g_out && POOL_READY && ALL(INCL_VALID) && ALLPAIRS(INCL_DISTINCT))
#define NEW_IS_GN (*newgroup == GN && NEWSHAPE(GN))

#define RN_ n
#define RA_ ranks
int Group__incl(struct Group* self, int n, int* ranks, struct Group** newgroup)
    __CPROVER_requires(INCL_PRE)
    __CPROVER_assigns(NEW_FRAME)
    __CPROVER_ensures(__CPROVER_return_value == SUCCESS && vf_exc == 0)
    __CPROVER_ensures(n != 0 || *newgroup == &smpi_MPI_GROUP_EMPTY) /*@ incl_of_nothing_is_group_empty */
    __CPROVER_ensures(n == 0 || (NEW_IS_GN && N(GN) == (unsigned long)n && WF(GN))) /*@ incl_result_is_wellformed_group_of_n */
    __CPROVER_ensures(n == 0 || ALL(INCL_ELEM)) /*@ incl_rank_i_is_member_ranks_i */;

#define INCL_INV_R(k)                                                                                                  \
  (!((k) < i) || (PID(GN, k) == PID(self, ranks[k]) && PID(GN, k) >= 0 && (unsigned long)PID(GN, k) < PN(GN) &&        \
                  RK(GN, PID(GN, k)) == (k)))
#define INCL_INV_P(p)                                                                                                  \
  (!((p) < PN(GN)) || RK(GN, p) == UNDEF || (0 <= RK(GN, p) && RK(GN, p) < i && PID(GN, RK(GN, p)) == (p)))
#define VF_LOOP_Group__incl_0                                                                                          \
  __CPROVER_assigns(i, g_new.pid_to_rank_map_.n, __CPROVER_object_whole(n_p2r), __CPROVER_object_whole(n_r2p))         \
      __CPROVER_loop_invariant(0 <= i && i <= n && PN(GN) <= CAP && ALL(INCL_INV_R) && ALL(INCL_INV_P))              \
          __CPROVER_decreases(n - i)
#undef RN_
#undef RA_

#include "gen.c"

/* ---------------- harnesses ----------------------------------------------------------------------------------- */
size_t nondet_size(void);
int nondet_int(void);
long nondet_long(void);
_Bool nondet_bool(void);

static void setup(void)
{
  for (int k = 0; k < CAP; k++) {
    a_r2p[k] = nondet_long();
    b_r2p[k] = nondet_long();
    a_p2r[k] = nondet_int();
    b_p2r[k] = nondet_int();
  }
  g_a.rank_to_pid_map_.d = a_r2p;
  g_a.pid_to_rank_map_.d = a_p2r;
  g_b.rank_to_pid_map_.d = b_r2p;
  g_b.pid_to_rank_map_.d = b_p2r;
  g_a.rank_to_pid_map_.h = g_a.pid_to_rank_map_.h = g_b.rank_to_pid_map_.h = g_b.pid_to_rank_map_.h = 0;
  g_a.rank_to_pid_map_.cap = g_a.pid_to_rank_map_.cap = g_b.rank_to_pid_map_.cap = g_b.pid_to_rank_map_.cap = VF_CAP;
  g_a.rank_to_pid_map_.n = nondet_size();
  g_a.pid_to_rank_map_.n = nondet_size();
  g_b.rank_to_pid_map_.n = nondet_size();
  g_b.pid_to_rank_map_.n = nondet_size();
  g_parent               = nondet_bool() ? NULL : &g_actor;
  g_ppid                 = nondet_long();
  vf_exc                 = 0;
  g_new.rank_to_pid_map_.d = n_r2p;
  g_new.pid_to_rank_map_.d = n_p2r;
}
static struct Group* pick_group(void)
{
  return nondet_bool() ? &g_a : &g_b;
}

#ifdef H_ctor
void harness(void)
{
  struct Group g;
  Group__ctor(&g, nondet_int());
  VF_CANARY_POINT;
}
#endif
#ifdef H_set_mapping
void harness(void)
{
  setup();
  Group__set_mapping(&g_a, nondet_long(), nondet_int());
  VF_CANARY_POINT;
}
#endif
#ifdef H_rank
void harness(void)
{
  setup();
  Group__rank(&g_a, nondet_long());
  VF_CANARY_POINT;
}
#endif
#ifdef H_actor
void harness(void)
{
  setup();
  Group__actor(&g_a, nondet_int());
  VF_CANARY_POINT;
}
#endif
#ifdef H_compare
void harness(void)
{
  setup();
  Group__compare(&g_a, &g_b);
  VF_CANARY_POINT;
}
#endif
#ifdef H_incl
void harness(void)
{
  setup();
  Group__incl(&g_a, nondet_int(), g_ranks, &g_out);
  VF_CANARY_POINT;
}
#endif
